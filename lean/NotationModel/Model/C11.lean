/-
C11 - model of `notation.SignOCI` (notation.go): option validation, reference handling
(`orasRegistry.ParseReference`), `Repository.Resolve`, digest pinning,
`addUserMetadataToDescriptor`, the signer call, `generateAnnotations`
(`envelope.AnnotationX509ChainThumbprint`, `envelope.SigningTime`) and
`Repository.PushSignature`, over *histories* against one long-lived repository value: signing calls
interleaved with changes of what the tag names (tag moved to another artifact, tag deleted, tag recreated).

Go maps are reference objects: the descriptor `Resolve` returns may carry the repository's own
annotation map (oci.Store and memory.Store hand out their tag-resolver state). To make
"writes into the repository's map" expressible, maps live in a small heap: a map value is an
address (`Option Nat`, `none` = nil map), its contents are looked up in `Heap.cells`.
`addUserMetadataToDescriptor` allocates a fresh cell and copies when - and only when - the
extracted facts `c11MergeAllocatesFreshMap` / `c11MergeCopiesOld` say the Go code does; otherwise
the model writes in place, as the code before commit 303ff26 did.
-/
import NotationModel.Basic
import NotationModel.Generated.C11
open Lean

namespace NotationModel.C11

/-! ### text order, association maps, heap -/

/-- byte-wise (= code point) order on text, as Go's `sort.Strings` -/
def tlt : Text → Text → Bool
  | [], [] => false
  | [], _ :: _ => true
  | _ :: _, [] => false
  | a :: as, b :: bs =>
    if a.toNat < b.toNat then true else if b.toNat < a.toNat then false else tlt as bs

/-- contents of a Go `map[string]string`, kept sorted by key -/
abbrev AnnMap := List (Text × Text)

/-- `m[k] = v` on contents -/
def put (k v : Text) : AnnMap → AnnMap
  | [] => [(k, v)]
  | (k', v') :: r =>
    if k == k' then (k, v) :: r
    else if tlt k k' then (k, v) :: (k', v') :: r
    else (k', v') :: put k v r

/-- `v, ok := m[k]` on contents -/
def look (k : Text) : AnnMap → Option Text
  | [] => none
  | (k', v) :: r => if k == k' then some v else look k r

/-- keys strictly increasing (the canonical form the harness emits) -/
def sortedKeys : AnnMap → Bool
  | [] => true
  | [_] => true
  | (k, _) :: (k', v') :: r => tlt k k' && sortedKeys ((k', v') :: r)

structure Heap where
  cells : List AnnMap
  deriving DecidableEq, Repr

/-- a map value: `none` is the nil map -/
abbrev MapRef := Option Nat

def Heap.read (h : Heap) : MapRef → AnnMap
  | none => []
  | some r => h.cells.getD r []

def Heap.alloc (h : Heap) (m : AnnMap) : Heap × Nat := ({ cells := h.cells ++ [m] }, h.cells.length)

/-- `m[k] = v` through a reference (Go panics on a nil map; the model leaves the heap alone -
`run` never gets there, see `Props.write_target_is_a_map`) -/
def Heap.write (h : Heap) (r : MapRef) (k v : Text) : Heap :=
  match r with
  | none => h
  | some a => { cells := h.cells.set a (put k v (h.read (some a))) }

/-! ### input -/

/-- the artifact reference handed to `SignOCI`; "<artifact>" is the digest of artifact `target` of the step -/
inductive Ref
  | tag               -- "v1"                         (not a full reference: passed on unchanged)
  | fullTag           -- "reg.example/repo:v1"
  | hostPortTag       -- "localhost:5000/repo:v1"
  | digest            -- "sha256:<artifact>"
  | fullDigest        -- "reg.example/repo@sha256:<artifact>"
  | fullTagDigest     -- "reg.example/repo:v1@sha256:<artifact>"  (tag dropped by ParseReference)
  | otherDigest       -- "sha256:<a digest of nothing in the repository>"
  | fullOtherDigest   -- "reg.example/repo@sha256:<a digest of nothing in the repository>"
  | otherAlgDigest    -- "reg.example/repo@sha512:<digest of the same bytes>"
  | noRef             -- "reg.example/repo"           (valid reference without tag or digest)
  | bareRepo          -- "repo"                       (not a full reference; no such tag)
  | unknownTag        -- "reg.example/repo:missing"
  deriving DecidableEq, Repr, FromJson, ToJson

/-- what `Repository.Resolve` is asked (`digest`: the digest of the step's `target` artifact) -/
inductive Arg | tag | digest | otherDigest | empty | unknown
  deriving DecidableEq, Repr, FromJson, ToJson

/-- `SignerSignOptions` / arguments as far as `validateSignArguments` looks at them -/
inductive Opts | jws | cose | nilSigner | nilRepo | negativeExpiry | subSecondExpiry | emptyMediaType | unsupportedMediaType
  deriving DecidableEq, Repr, FromJson, ToJson

/-- what the signer answers -/
inductive SignerKind
  | ok          -- envelope + SignerInfo
  | fails       -- error
  | nilInfo     -- envelope, nil SignerInfo
  | noTime      -- SignerInfo without signing time
  deriving DecidableEq, Repr, FromJson, ToJson

/-- what `PushSignature` answers -/
inductive PushKind
  | ok
  | fails
  | indexDeleteFails   -- remote.ReferrersError with IsReferrersIndexDelete: pushed, but an error is returned
  deriving DecidableEq, Repr, FromJson, ToJson

structure Art where
  mediaType : Text
  digest : Text
  size : Nat
  ann : AnnMap            -- annotations the repository holds for the artifact (what a tag naming it shows)
  deriving DecidableEq, Repr, FromJson, ToJson

structure Repo where
  aliased : Bool          -- Resolve hands out its own annotation map object (oci.Store, memory.Store), not a copy
  plainByDigest : Bool    -- resolving a digest yields the plain descriptor without annotations (oci.Store)
  anyDigest : Bool        -- any well-formed digest resolves to artifact 0 (a registry that ignores the digest)
  push : PushKind
  deriving DecidableEq, Repr, FromJson, ToJson

/-- which `notation.Signer` signs -/
inductive Impl
  | mock        -- the harness's own signer (scripted answers: `kind`)
  | generic     -- signer.GenericSigner: the library builds and signs the payload with a local key
  | pluginSig   -- signer.PluginSigner over a signature-generator plugin (the library builds the payload, the plugin signs bytes)
  | pluginEnv   -- signer.PluginSigner over an envelope-generator plugin (the PLUGIN builds the envelope: `faith`)
  deriving DecidableEq, Repr, FromJson, ToJson

/-- what an envelope-generator plugin signs, relative to the payload it was asked to sign -/
inductive Faith
  | faithful        -- exactly the payload it was given
  | dropAll         -- right media type / digest / size, no annotations at all
  | dropOne         -- the (alphabetically) first annotation is missing
  | alterOne        -- the first annotation has another value
  | addOne          -- one more annotation (permitted: plugins may append)
  | wrongDigest | wrongSize | wrongMediaType
  deriving DecidableEq, Repr, FromJson, ToJson

structure SignerCfg where
  impl : Impl
  kind : SignerKind       -- mock only
  faith : Faith           -- pluginEnv only
  config : AnnMap         -- plugin signers: the PluginSigner's own plugin config (defaults)
  thumbs : List Text      -- lower-case hex SHA-256 of each certificate of the signing chain, leaf first
  time : Nat              -- signing time, Unix seconds
  pluginAnn : AnnMap      -- the signer's PluginAnnotations() (empty: none / nil)
  deriving DecidableEq, Repr, FromJson, ToJson

/-- one operation of a history on the one repository value -/
inductive Op
  | sign      -- notation.SignOCI / notation.Sign through the repository client
  | tagTo     -- the tag is (re)created / moved: it names artifact `to` from now on
  | untag     -- the tag is deleted
  deriving DecidableEq, Repr, FromJson, ToJson

structure Step where
  op : Op
  to : Nat              -- tagTo: the artifact the tag names afterwards
  ref : Ref             -- sign
  target : Nat          -- sign: the artifact whose digest a digest reference spells
  md : AnnMap           -- sign: SignOptions.UserMetadata
  opts : Opts           -- sign
  signer : Nat          -- sign: which of the signers signs
  cfg : Nat             -- sign: which of the caller's PluginConfig maps is passed in SignerSignOptions
  deriving DecidableEq, Repr, FromJson, ToJson

structure Input where
  backend : String        -- which repository the harness concretised (mock, mem, oci, ociReopened); not used by the model
  arts : List Art         -- the artifacts in the repository
  tag : Option Nat        -- the artifact the tag names at the start (none: no such tag)
  repo : Repo
  signers : List SignerCfg
  pluginConfigs : List AnnMap   -- the caller's PluginConfig map objects (a step passes one of them)
  steps : List Step
  deriving Repr, FromJson, ToJson

/-! ### observables -/

structure DescObs where
  mediaType : Text
  digest : Text
  size : Nat
  ann : AnnMap            -- sorted by key; nil and empty maps are not distinguished
  deriving DecidableEq, Repr, FromJson, ToJson

/-- the artifact descriptor `SignOCI` returned -/
inductive Returned
  | resolved    -- the resolved descriptor
  | zero        -- the zero descriptor
  | other       -- anything else
  | panicked    -- the call panicked
  deriving DecidableEq, Repr, FromJson, ToJson

/-- one per `sign` step -/
structure CallObs where
  ok : Bool                      -- SignOCI returned no error
  resolveArg : Option Arg        -- what Resolve was asked (none: not called)
  signed : Option DescObs        -- the descriptor the signer received
  subject : Option DescObs       -- the subject PushSignature received
  pushAnn : Option AnnMap        -- the annotations PushSignature received
  payload : Option DescObs       -- the target artifact inside the envelope PushSignature received (what was really signed)
  pluginCfg : Option AnnMap      -- plugin signers: the plugin config the plugin saw in its requests during the call
  returned : Returned
  repoViewSame : Bool            -- the repository resolves the tag and every digest exactly as just before the call
  handedSame : Bool              -- every descriptor Resolve has handed out so far still has the contents it had then
  optsSame : Bool                -- UserMetadata (of every call) and PluginConfig maps have their original contents
  producedSame : Bool            -- everything EARLIER pushes produced still is what it was: the annotation map objects handed
                                 -- to PushSignature, the descriptors returned, the layout's records of the earlier signatures
  sigCounts : List Nat           -- signatures attached to each artifact afterwards
  deriving DecidableEq, Repr, FromJson, ToJson

structure Obs where
  calls : List CallObs
  deriving DecidableEq, Repr, FromJson, ToJson

/-! ### the pieces of SignOCI -/

/-- `orasRegistry.ParseReference` + `artifactRef = ref.Reference` when it parses -/
def refArg : Ref → Arg
  | .tag | .fullTag | .hostPortTag => .tag
  | .digest | .fullDigest | .fullTagDigest => .digest
  | .otherDigest | .fullOtherDigest | .otherAlgDigest => .otherDigest
  | .noRef => .empty
  | .bareRepo | .unknownTag => .unknown

/-- what the Go code tests: `strings.HasPrefix(k, p)` for the extracted `reservedAnnotationPrefixes` -/
def isReserved (k : Text) : Bool := Facts.c11ReservedPrefixes.any (fun p => p.isPrefixOf k)

/-- what the property says: the reserved prefix is `io.cncf.notary` - every key beginning with these letters,
whatever follows (nothing, a dot, `#`, `-`, more letters). Written out here, NOT taken from the code: the clauses use
it, the model of the code uses the extracted table, and `Props.facts_reserved_prefixes` proves them equal. -/
def reservedPrefix : Text := ['i', 'o', '.', 'c', 'n', 'c', 'f', '.', 'n', 'o', 't', 'a', 'r', 'y']

def isReservedSpec (k : Text) : Bool := reservedPrefix.isPrefixOf k

def optsValid : Opts → Bool
  | .jws | .cose => true
  | _ => false

/-- the world of a history: the heap, what the tag names now, the descriptors handed out, the signatures -/
structure World where
  heap : Heap
  tag : Option Nat
  handed : List (MapRef × AnnMap)   -- annotation maps of the descriptors Resolve handed out, with their contents then
  sigs : List Nat                   -- signatures attached to each artifact
  produced : List (MapRef × AnnMap) -- annotation maps handed to PushSignature (the repository keeps the very object in its
                                    -- record of the signature, the caller gets it back in the manifest descriptor), with
                                    -- their contents then
  deriving Repr

/-- set-up: cell k = the repository's annotation map of artifact k, cell n+c = the caller's PluginConfig map c,
cell n+m+j = UserMetadata of step j (n = number of artifacts, m = number of PluginConfig maps) -/
def initCells (i : Input) : List AnnMap := i.arts.map (·.ann) ++ i.pluginConfigs ++ i.steps.map (·.md)

def initWorld (i : Input) : World :=
  { heap := { cells := initCells i }, tag := i.tag, handed := [], sigs := i.arts.map (fun _ => 0), produced := [] }

/-- hand out the descriptor of artifact `k` with its annotations: the repository's own map, or a copy -/
def handOut (r : Repo) (h : Heap) (k : Nat) : Heap × MapRef :=
  if r.aliased then (h, some k)
  else let (h', a) := h.alloc (h.read (some k)); (h', some a)

/-- `Repository.Resolve` *now*: `none` = error, otherwise the annotation map of the descriptor returned and
the artifact it describes. The tag is looked up in the current world - nothing is remembered between calls. -/
def resolve (r : Repo) (h : Heap) (tag : Option Nat) (target : Nat) : Arg → Option (Heap × MapRef × Nat)
  | .tag =>
    match tag with
    | none => none
    | some k => let (h', m) := handOut r h k; some (h', m, k)
  | .digest => some (byDigest target)
  | .otherDigest => if r.anyDigest then some (byDigest 0) else none
  | .empty | .unknown => none
where
  byDigest (k : Nat) : Heap × MapRef × Nat :=
    if r.plainByDigest then (h, none, k) else let (h', m) := handOut r h k; (h', m, k)

/-- the loop of `addUserMetadataToDescriptor` (keys visited in sorted order; Go's order is random,
which changes neither success nor - on success - the result: `Props.merge_order_irrelevant`) -/
def mergeLoop (h : Heap) (ann : MapRef) : AnnMap → Heap × Bool
  | [] => (h, true)
  | (k, v) :: rest =>
    if isReserved k then (h, false)
    else if (look k (h.read ann)).isSome then (h, false)
    else mergeLoop (h.write ann k v) ann rest

/-- does the Go code give the merge a map of its own? (extracted guard-presence facts) -/
def mergeCopies : Bool :=
  Facts.c11MergeDescByValue && Facts.c11MergeAllocatesFreshMap && Facts.c11MergeCopiesOld

/-- `addUserMetadataToDescriptor`: new heap, annotation map of `descToSign`, success -/
def addUserMetadata (h : Heap) (ann : MapRef) (md : AnnMap) : Heap × MapRef × Bool :=
  if md.isEmpty then (h, ann, true)
  else
    let (h1, ann1) :=
      if mergeCopies then let (h', a) := h.alloc (h.read ann); (h', some a)
      else (h, ann)
    let (h2, ok) := mergeLoop h1 ann1 md
    (h2, ann1, ok)

def digit (n : Nat) : Char := Char.ofNat (48 + n % 10)
def d2 (n : Nat) : Text := [digit (n / 10), digit n]
def d4 (n : Nat) : Text := [digit (n / 1000), digit (n / 100), digit (n / 10), digit n]

/-- `time.Unix(t, 0).UTC().Format(time.RFC3339)` for years 1970..9999 (civil-from-days) -/
def rfc3339 (t : Nat) : Text :=
  let days := t / 86400
  let s := t % 86400
  let z := days + 719468
  let era := z / 146097
  let doe := z % 146097
  let yoe := (doe - doe / 1460 + doe / 36524 - doe / 146096) / 365
  let doy := doe - (365 * yoe + yoe / 4 - yoe / 100)
  let mp := (5 * doy + 2) / 153
  let d := doy - (153 * mp + 2) / 5 + 1
  let m := if mp < 10 then mp + 3 else mp - 9
  let y := yoe + era * 400 + (if m ≤ 2 then 1 else 0)
  d4 y ++ ['-'] ++ d2 m ++ ['-'] ++ d2 d ++ ['T'] ++ d2 (s / 3600) ++ [':'] ++ d2 (s % 3600 / 60) ++ [':'] ++ d2 (s % 60) ++ ['Z']

/-- `json.Marshal([]string)` of hex strings (`null` for the nil slice) -/
def jsonArray : List Text → Text
  | [] => "null".toList
  | t :: ts => ['['] ++ quote t ++ (ts.map (fun x => [','] ++ quote x)).flatten ++ [']']
where quote (t : Text) : Text := ['"'] ++ t ++ ['"']

/-- `sigs[k] += 1` -/
def bump : Nat → List Nat → List Nat
  | _, [] => []
  | 0, x :: r => (x + 1) :: r
  | k + 1, x :: r => x :: bump k r

def dfltSigner : SignerCfg :=
  { impl := .mock, kind := .fails, faith := .faithful, config := [], thumbs := [], time := 0, pluginAnn := [] }
def signerOf (i : Input) (c : Step) : SignerCfg := i.signers.getD c.signer dfltSigner

def isPlugin : Impl → Bool
  | .pluginSig | .pluginEnv => true
  | _ => false

/-- the scripted answer counts for the mock only; the library's own signers answer with envelope + SignerInfo -/
def effKind (sg : SignerCfg) : SignerKind := if sg.impl == .mock then sg.kind else .ok

/-- the annotation the unfaithful plugin adds / the mark it leaves on a value -/
def addedKey : Text := "zz.added.by.plugin".toList
def alteredMark : Text := "'".toList

/-- the annotations an envelope-generator plugin signs when asked to sign `req` -/
def applyFaith : Faith → AnnMap → AnnMap
  | .dropAll, _ => []
  | .dropOne, req => req.drop 1
  | .alterOne, [] => []
  | .alterOne, (k, v) :: r => (k, v ++ alteredMark) :: r
  | .addOne, req => put addedKey ['1'] req
  | _, req => req

/-- `isDescriptorSubset` on annotations: the signed payload has every requested key with the requested value -/
def covers (req pay : AnnMap) : Bool := req.all (fun kv => look kv.1 pay == look kv.1 req)

/-- the annotations of the target artifact inside the envelope the signer hands back, when asked to sign a descriptor
with annotations `req`; `none`: the signer returns an error (the mock says so; PluginSigner refuses an envelope whose
payload is not over the same media type / digest / size or does not cover the requested annotations) -/
def payloadOf (sg : SignerCfg) (req : AnnMap) : Option AnnMap :=
  match sg.impl with
  | .mock => if sg.kind == .fails then none else some req
  | .generic | .pluginSig => some req
  | .pluginEnv =>
    match sg.faith with
    | .wrongDigest | .wrongSize | .wrongMediaType => none
    | f => if covers req (applyFaith f req) then some (applyFaith f req) else none

/-- resolved annotations + user metadata; also `mergeConfig`: defaults overridden by the per-call entries -/
def merged (base md : AnnMap) : AnnMap := md.foldl (fun m kv => put kv.1 kv.2 m) base

/-- what a call showed: artifact index + annotation contents for the descriptors -/
structure Trace where
  ok : Bool := false
  resolveArg : Option Arg := none
  signed : Option (Nat × AnnMap) := none
  subject : Option (Nat × AnnMap) := none
  pushAnn : Option AnnMap := none
  payload : Option (Nat × AnnMap) := none
  pluginCfg : Option AnnMap := none
  returnedResolved : Bool := false
  deriving Repr

/-- `generateAnnotations` + `PushSignature` (after the signer has answered); `k` = the resolved artifact -/
def annotateAndPush (i : Input) (sg : SignerCfg) (pay : AnnMap) (w : World) (t : Trace) (resolved : MapRef) (k : Nat) : World × Trace :=
  match effKind sg with
  | .fails => (w, t)
  | .nilInfo => (w, t)
  | kind =>
    -- the map `PluginAnnotations()` returns is made by the signer during `Sign` (PluginSigner stores the
    -- plugin's response); when it is nil, `generateAnnotations` makes one: a new cell either way
    let (h1, a) := w.heap.alloc sg.pluginAnn
    let ann : MapRef := some a
    let h2 := h1.write ann Facts.c11ThumbprintKey (jsonArray sg.thumbs)
    if kind == .noTime then ({ w with heap := h2 }, t)
    else
      let h3 := h2.write ann Facts.c11CreatedKey (rfc3339 sg.time)
      let t' := { t with subject := some (k, h3.read resolved), pushAnn := some (h3.read ann), payload := some (k, pay) }
      let pr := w.produced ++ [(ann, h3.read ann)]
      match i.repo.push with
      | .fails => ({ w with heap := h3, produced := pr }, t')
      | .indexDeleteFails => ({ w with heap := h3, sigs := bump k w.sigs, produced := pr }, { t' with returnedResolved := true })
      | .ok => ({ w with heap := h3, sigs := bump k w.sigs, produced := pr }, { t' with ok := true, returnedResolved := true })

/-- one `SignOCI` call -/
def signOCI (i : Input) (w : World) (c : Step) : World × Trace :=
  if !optsValid c.opts then (w, {})
  else
    let arg := refArg c.ref
    let t : Trace := { resolveArg := some arg }
    match resolve i.repo w.heap w.tag c.target arg with
    | none => (w, t)
    | some (h1, resolved, k) =>
      let w1 : World := { w with heap := h1, handed := w.handed ++ [(resolved, h1.read resolved)] }
      -- artifactRef != resolved digest and digest.Parse(artifactRef) succeeds
      if arg == .otherDigest then (w1, t)
      else
        let (h2, toSign, ok) := addUserMetadata h1 resolved c.md
        let w2 := { w1 with heap := h2 }
        if !ok then (w2, t)
        else
          let sg := signerOf i c
          let req := h2.read toSign
          -- PluginSigner.mergeConfig: the signer's defaults, overridden by what it READS from the caller's map
          let seen : Option AnnMap :=
            if isPlugin sg.impl then some (merged sg.config (h2.read (some (i.arts.length + c.cfg)))) else none
          let t1 : Trace := { t with signed := some (k, req), pluginCfg := seen }
          match payloadOf sg req with
          | none => (w2, t1)
          | some pay => annotateAndPush i sg pay w2 t1 resolved k

def noArt : Art := { mediaType := [], digest := [], size := 0, ann := [] }
def artAt (i : Input) (k : Nat) : Art := i.arts.getD k noArt

def mkDesc (i : Input) (p : Nat × AnnMap) : DescObs :=
  { mediaType := (artAt i p.1).mediaType, digest := (artAt i p.1).digest, size := (artAt i p.1).size, ann := p.2 }

/-- what the harness can see of a call and of the world after it (`tagBefore`: what the tag named before the call) -/
def observe (i : Input) (tagBefore : Option Nat) (w : World) (t : Trace) : CallObs :=
  { ok := t.ok, resolveArg := t.resolveArg,
    signed := t.signed.map (mkDesc i), subject := t.subject.map (mkDesc i), pushAnn := t.pushAnn,
    payload := t.payload.map (mkDesc i), pluginCfg := t.pluginCfg,
    returned := if t.returnedResolved then .resolved else .zero,
    repoViewSame := w.tag == tagBefore && w.heap.cells.take i.arts.length == i.arts.map (·.ann),
    handedSame := w.handed.all (fun (r, snap) => w.heap.read r == snap),
    optsSame := (w.heap.cells.drop i.arts.length).take (i.pluginConfigs.length + i.steps.length) ==
      i.pluginConfigs ++ i.steps.map (·.md),
    producedSame := w.produced.all (fun (r, snap) => w.heap.read r == snap),
    sigCounts := w.sigs }

def runSteps (i : Input) : World → List Step → List CallObs
  | _, [] => []
  | w, s :: ss =>
    match s.op with
    | .sign =>
      let (w', t) := signOCI i w s
      observe i w.tag w' t :: runSteps i w' ss
    | .tagTo => runSteps i { w with tag := some s.to } ss
    | .untag => runSteps i { w with tag := none } ss

def run (i : Input) : Obs := { calls := runSteps i (initWorld i) i.steps }

/-! ### specification (over the input and the observables only) -/

/-- keys pairwise different (true of anything that came out of a Go map) -/
def distinctKeys : AnnMap → Bool
  | [] => true
  | (k, _) :: r => !(r.any (fun kv => kv.1 == k)) && distinctKeys r

/-- well-formedness of an input: there is an artifact, the tag and every step name existing artifacts, and
every UserMetadata and PluginConfig map has pairwise different keys, and every step passes one of the caller's
PluginConfig maps -/
def wf (i : Input) : Bool :=
  decide (0 < i.arts.length) &&
  (match i.tag with | none => true | some k => decide (k < i.arts.length)) &&
  i.steps.all (fun s => distinctKeys s.md && decide (s.to < i.arts.length) && decide (s.target < i.arts.length) &&
    decide (s.cfg < i.pluginConfigs.length)) &&
  i.pluginConfigs.all distinctKeys

/-- the artifact the reference resolves to *now* (`tag`: what the tag names at the moment of the call) -/
def resolvedArt (i : Input) (tag : Option Nat) (c : Step) : Option Nat :=
  match refArg c.ref with
  | .tag => tag
  | .digest => some c.target
  | .otherDigest => if i.repo.anyDigest then some 0 else none
  | _ => none

/-- the annotations the repository shows for artifact `k` through this kind of reference -/
def resolvedAnn (i : Input) (c : Step) (k : Nat) : AnnMap :=
  match refArg c.ref with
  | .tag => (artAt i k).ann
  | _ => if i.repo.plainByDigest then [] else (artAt i k).ann

def digestMismatch (c : Step) : Bool := refArg c.ref == .otherDigest
def hasReserved (c : Step) : Bool := c.md.any (fun kv => isReservedSpec kv.1)
def collides (i : Input) (c : Step) (k : Nat) : Bool := c.md.any (fun kv => (look kv.1 (resolvedAnn i c k)).isSome)

/-- one of the three refusals the property names (`k`: the resolved artifact) -/
def refused (i : Input) (c : Step) (k : Nat) : Bool := digestMismatch c || hasReserved c || collides i c k

/-- everything before the signer passes: the artifact that is signed -/
def reachesSigner (i : Input) (tag : Option Nat) (c : Step) : Option Nat :=
  if optsValid c.opts then
    match resolvedArt i tag c with
    | some k => if refused i c k then none else some k
    | none => none
  else none

/-- the annotations of the descriptor the signer is asked to sign: resolved annotations + user metadata -/
def requested (i : Input) (c : Step) (k : Nat) : AnnMap := merged (resolvedAnn i c k) c.md

/-- the caller's PluginConfig map the step passes -/
def cfgOf (i : Input) (c : Step) : AnnMap := i.pluginConfigs.getD c.cfg []

/-- the signer hands back an envelope (over a payload that covers the request) and a usable SignerInfo -/
def delivers (i : Input) (c : Step) (k : Nat) : Bool :=
  (payloadOf (signerOf i c) (requested i c k)).isSome && effKind (signerOf i c) == .ok

/-- everything before the push passes -/
def reachesPush (i : Input) (tag : Option Nat) (c : Step) : Option Nat :=
  match reachesSigner i tag c with
  | some k => if delivers i c k then some k else none
  | none => none

/-- does the call succeed? A function of the input, the call and what the tag names now - not of what was signed before. -/
def expectedOk (i : Input) (tag : Option Nat) (c : Step) : Bool := (reachesPush i tag c).isSome && i.repo.push == .ok

/-- the artifact that gets a signature -/
def pushes (i : Input) (tag : Option Nat) (c : Step) : Option Nat :=
  if i.repo.push != .fails then reachesPush i tag c else none

def sigsAfter (i : Input) (tag : Option Nat) (c : Step) (before : List Nat) : List Nat :=
  match pushes i tag c with
  | some k => bump k before
  | none => before

def expectedPushAnn (sg : SignerCfg) : AnnMap :=
  put Facts.c11CreatedKey (rfc3339 sg.time) (put Facts.c11ThumbprintKey (jsonArray sg.thumbs) sg.pluginAnn)

/-- the per-call clauses; `tag` = what the tag names at the call, `before` = signatures attached before the call -/
structure CallVerdict where
  signsResolvedPlusMetadata : Bool
  subjectIsResolved : Bool
  pushedAnnotationsExact : Bool
  refusals : Bool
  frame : Bool
  oneSignature : Bool
  succeedsIndependentOfHistory : Bool
  resolveAsked : Bool
  signedPayload : Bool
  pluginConfigMerged : Bool

/-- over the observables alone: what is inside the pushed envelope is over the same media type / digest / size as the
descriptor the signer was handed and has every annotation of it under its value -/
def payloadCoversSigned (o : CallObs) : Bool :=
  match o.payload, o.signed with
  | some p, some d => p.mediaType == d.mediaType && p.digest == d.digest && p.size == d.size && covers d.ann p.ann
  | some _, none => false
  | none, _ => true

def callVerdict (i : Input) (tag : Option Nat) (c : Step) (before : List Nat) (o : CallObs) : CallVerdict :=
  { signsResolvedPlusMetadata :=
      o.signed == (reachesSigner i tag c).map (fun k => mkDesc i (k, merged (resolvedAnn i c k) c.md)),
    subjectIsResolved :=
      o.subject == (reachesPush i tag c).map (fun k => mkDesc i (k, resolvedAnn i c k)) &&
      o.returned == (if (pushes i tag c).isSome then .resolved else .zero),
    pushedAnnotationsExact :=
      o.pushAnn == (reachesPush i tag c).map (fun _ => expectedPushAnn (signerOf i c)),
    refusals :=
      (match (if optsValid c.opts then resolvedArt i tag c else none) with
       | some k => !refused i c k
       | none => true) ||
        (!o.ok && o.signed.isNone && o.subject.isNone && o.pushAnn.isNone && o.sigCounts == before),
    frame := o.repoViewSame && o.handedSame && o.optsSame && o.producedSame,
    oneSignature := o.sigCounts == sigsAfter i tag c before && (!o.ok || o.subject.isSome),
    succeedsIndependentOfHistory := o.ok == expectedOk i tag c,
    resolveAsked := o.resolveArg == (if optsValid c.opts then some (refArg c.ref) else none),
    -- what is inside the pushed envelope: over the same media type / digest / size as the descriptor the signer was
    -- handed, and with every annotation of it (resolved annotations + user metadata) under its value
    signedPayload :=
      o.payload == (reachesPush i tag c).bind (fun k =>
        (payloadOf (signerOf i c) (requested i c k)).map (fun p => mkDesc i (k, p))) &&
      payloadCoversSigned o,
    -- a plugin signer's plugin sees the signer's own config overridden by the caller's per-call entries - nothing else
    pluginConfigMerged :=
      o.pluginCfg == (reachesSigner i tag c).bind (fun _ =>
        if isPlugin (signerOf i c).impl then some (merged (signerOf i c).config (cfgOf i c)) else none) }

/-- fold a per-call clause over the history, threading what the tag names and the signature counts -/
def allCalls (i : Input) (f : CallVerdict → Bool) : List Step → Option Nat → List Nat → List CallObs → Bool
  | [], _, _, [] => true
  | [], _, _, _ :: _ => false
  | s :: ss, tag, sigs, os =>
    match s.op with
    | .sign =>
      match os with
      | o :: os' => f (callVerdict i tag s sigs o) && allCalls i f ss tag o.sigCounts os'
      | [] => false
    | .tagTo => allCalls i f ss (some s.to) sigs os
    | .untag => allCalls i f ss none sigs os

def signSteps (i : Input) : List Step := i.steps.filter (fun s => s.op == .sign)

def clauses (i : Input) (o : Obs) : Clauses :=
  let z := i.arts.map (fun _ => 0)
  [ ("input_wellformed", wf i),
    ("one_observation_per_call", o.calls.length == (signSteps i).length),
    ("signs_resolved_plus_metadata", allCalls i (·.signsResolvedPlusMetadata) i.steps i.tag z o.calls),
    ("subject_is_resolved_descriptor", allCalls i (·.subjectIsResolved) i.steps i.tag z o.calls),
    ("pushed_annotations_exact", allCalls i (·.pushedAnnotationsExact) i.steps i.tag z o.calls),
    ("refusals", allCalls i (·.refusals) i.steps i.tag z o.calls),
    ("frame", allCalls i (·.frame) i.steps i.tag z o.calls),
    ("one_signature_per_push", allCalls i (·.oneSignature) i.steps i.tag z o.calls),
    ("succeeds_independent_of_history", allCalls i (·.succeedsIndependentOfHistory) i.steps i.tag z o.calls),
    ("resolve_asked_for_reference", allCalls i (·.resolveAsked) i.steps i.tag z o.calls),
    ("signed_payload_covers_resolved_plus_metadata", allCalls i (·.signedPayload) i.steps i.tag z o.calls),
    ("plugin_config_is_defaults_overridden_by_call", allCalls i (·.pluginConfigMerged) i.steps i.tag z o.calls) ]

def Holds (i : Input) (o : Obs) : Bool := (clauses i o).holds

def judge := judgeWith run clauses

end NotationModel.C11

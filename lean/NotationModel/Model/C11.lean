/-
C11 - model of `notation.SignOCI` (notation.go): option validation, reference handling
(`orasRegistry.ParseReference`), `Repository.Resolve`, digest pinning,
`addUserMetadataToDescriptor`, the signer call, `generateAnnotations`
(`envelope.AnnotationX509ChainThumbprint`, `envelope.SigningTime`) and
`Repository.PushSignature`, over *sequences* of calls against one repository.

Go maps are reference objects: the descriptor `Resolve` returns may carry the repository's own
annotation map (oci.Store and memory.Store hand out their tag-resolver state). To make
"writes into the repository's map" expressible, maps live in a small heap: a map value is an
address (`Option Nat`, `none` = nil map), its contents are looked up in `Heap.cells`.
`addUserMetadataToDescriptor` allocates a fresh cell and copies when - and only when - the
extracted facts `c11MergeAllocatesFreshMap` / `c11MergeCopiesOld` say the Go code does; otherwise
the model writes in place, as the code before commit 303ff26 did.
-/
import NotationModel.Basic
import NotationModel.Generated.C11
open Lean

namespace NotationModel.C11

/-! ### text order, association maps, heap -/

/-- byte-wise (= code point) order on text, as Go's `sort.Strings` -/
def tlt : Text → Text → Bool
  | [], [] => false
  | [], _ :: _ => true
  | _ :: _, [] => false
  | a :: as, b :: bs =>
    if a.toNat < b.toNat then true else if b.toNat < a.toNat then false else tlt as bs

/-- contents of a Go `map[string]string`, kept sorted by key -/
abbrev AnnMap := List (Text × Text)

/-- `m[k] = v` on contents -/
def put (k v : Text) : AnnMap → AnnMap
  | [] => [(k, v)]
  | (k', v') :: r =>
    if k == k' then (k, v) :: r
    else if tlt k k' then (k, v) :: (k', v') :: r
    else (k', v') :: put k v r

/-- `v, ok := m[k]` on contents -/
def look (k : Text) : AnnMap → Option Text
  | [] => none
  | (k', v) :: r => if k == k' then some v else look k r

/-- keys strictly increasing (the canonical form the harness emits) -/
def sortedKeys : AnnMap → Bool
  | [] => true
  | [_] => true
  | (k, _) :: (k', v') :: r => tlt k k' && sortedKeys ((k', v') :: r)

structure Heap where
  cells : List AnnMap
  deriving DecidableEq, Repr

/-- a map value: `none` is the nil map -/
abbrev MapRef := Option Nat

def Heap.read (h : Heap) : MapRef → AnnMap
  | none => []
  | some r => h.cells.getD r []

def Heap.alloc (h : Heap) (m : AnnMap) : Heap × Nat := ({ cells := h.cells ++ [m] }, h.cells.length)

/-- `m[k] = v` through a reference (Go panics on a nil map; the model leaves the heap alone -
`run` never gets there, see `Props.write_target_is_a_map`) -/
def Heap.write (h : Heap) (r : MapRef) (k v : Text) : Heap :=
  match r with
  | none => h
  | some a => { cells := h.cells.set a (put k v (h.read (some a))) }

/-! ### input -/

/-- the artifact reference handed to `SignOCI` -/
inductive Ref
  | tag               -- "v1"                         (not a full reference: passed on unchanged)
  | fullTag           -- "reg.example/repo:v1"
  | hostPortTag       -- "localhost:5000/repo:v1"
  | digest            -- "sha256:<artifact>"
  | fullDigest        -- "reg.example/repo@sha256:<artifact>"
  | fullTagDigest     -- "reg.example/repo:v1@sha256:<artifact>"  (tag dropped by ParseReference)
  | otherDigest       -- "sha256:<another digest>"
  | fullOtherDigest   -- "reg.example/repo@sha256:<another digest>"
  | otherAlgDigest    -- "reg.example/repo@sha512:<digest of the same bytes>"
  | noRef             -- "reg.example/repo"           (valid reference without tag or digest)
  | bareRepo          -- "repo"                       (not a full reference; no such tag)
  | unknownTag        -- "reg.example/repo:missing"
  deriving DecidableEq, Repr, FromJson, ToJson

/-- what `Repository.Resolve` is asked -/
inductive Arg | tag | digest | otherDigest | empty | unknown
  deriving DecidableEq, Repr, FromJson, ToJson

/-- `SignerSignOptions` / arguments as far as `validateSignArguments` looks at them -/
inductive Opts | jws | cose | nilSigner | nilRepo | negativeExpiry | subSecondExpiry | emptyMediaType | unsupportedMediaType
  deriving DecidableEq, Repr, FromJson, ToJson

/-- what the signer answers -/
inductive SignerKind
  | ok          -- envelope + SignerInfo
  | fails       -- error
  | nilInfo     -- envelope, nil SignerInfo
  | noTime      -- SignerInfo without signing time
  deriving DecidableEq, Repr, FromJson, ToJson

/-- what `PushSignature` answers -/
inductive PushKind
  | ok
  | fails
  | indexDeleteFails   -- remote.ReferrersError with IsReferrersIndexDelete: pushed, but an error is returned
  deriving DecidableEq, Repr, FromJson, ToJson

structure Art where
  mediaType : Text
  digest : Text
  size : Nat
  ann : AnnMap            -- annotations the repository holds for the artifact (what resolving the tag shows)
  deriving DecidableEq, Repr, FromJson, ToJson

structure Repo where
  aliased : Bool          -- Resolve hands out its own annotation map object (oci.Store, memory.Store), not a copy
  plainByDigest : Bool    -- resolving a digest yields the plain descriptor without annotations (oci.Store)
  anyDigest : Bool        -- any well-formed digest resolves to the artifact (a registry that ignores the digest)
  push : PushKind
  deriving DecidableEq, Repr, FromJson, ToJson

structure SignerCfg where
  kind : SignerKind
  thumbs : List Text      -- lower-case hex SHA-256 of each certificate of the signing chain, leaf first
  time : Nat              -- signing time, Unix seconds
  pluginAnn : AnnMap      -- the signer's PluginAnnotations() (empty: none / nil)
  deriving DecidableEq, Repr, FromJson, ToJson

structure Call where
  ref : Ref
  md : AnnMap           -- SignOptions.UserMetadata
  opts : Opts
  deriving DecidableEq, Repr, FromJson, ToJson

structure Input where
  backend : String        -- which repository the harness concretised (mock, mem, oci, ociReopened); not used by the model
  art : Art
  repo : Repo
  signer : SignerCfg
  pluginConfig : AnnMap   -- SignerSignOptions.PluginConfig, the same map for every call
  calls : List Call
  deriving Repr, FromJson, ToJson

/-! ### observables -/

structure DescObs where
  mediaType : Text
  digest : Text
  size : Nat
  ann : AnnMap            -- sorted by key; nil and empty maps are not distinguished
  deriving DecidableEq, Repr, FromJson, ToJson

/-- the artifact descriptor `SignOCI` returned -/
inductive Returned
  | resolved    -- the resolved descriptor
  | zero        -- the zero descriptor
  | other       -- anything else
  | panicked    -- the call panicked
  deriving DecidableEq, Repr, FromJson, ToJson

structure CallObs where
  ok : Bool                      -- SignOCI returned no error
  resolveArg : Option Arg        -- what Resolve was asked (none: not called)
  signed : Option DescObs        -- the descriptor the signer received
  subject : Option DescObs       -- the subject PushSignature received
  pushAnn : Option AnnMap        -- the annotations PushSignature received
  returned : Returned
  repoViewSame : Bool            -- afterwards the repository resolves tag and digest exactly as before the first call
  handedSame : Bool              -- every descriptor Resolve has handed out so far still has the contents it had then
  optsSame : Bool                -- UserMetadata (of every call) and PluginConfig maps have their original contents
  sigCount : Nat                 -- signatures attached to the artifact afterwards
  deriving DecidableEq, Repr, FromJson, ToJson

structure Obs where
  calls : List CallObs
  deriving DecidableEq, Repr, FromJson, ToJson

/-! ### the pieces of SignOCI -/

/-- `orasRegistry.ParseReference` + `artifactRef = ref.Reference` when it parses -/
def refArg : Ref → Arg
  | .tag | .fullTag | .hostPortTag => .tag
  | .digest | .fullDigest | .fullTagDigest => .digest
  | .otherDigest | .fullOtherDigest | .otherAlgDigest => .otherDigest
  | .noRef => .empty
  | .bareRepo | .unknownTag => .unknown

def isReserved (k : Text) : Bool := Facts.c11ReservedPrefixes.any (fun p => p.isPrefixOf k)

def optsValid : Opts → Bool
  | .jws | .cose => true
  | _ => false

/-- addresses fixed at set-up -/
structure Env where
  repoAnn : Nat      -- the repository's annotation map of the artifact
  cfg : Nat          -- PluginConfig
  metaBase : Nat     -- UserMetadata of call j lives at metaBase + j
  deriving Repr

structure World where
  heap : Heap
  handed : List (MapRef × AnnMap)   -- annotation maps of the descriptors Resolve handed out, with their contents then
  sigCount : Nat
  deriving Repr

/-- set-up: cell 0 repository, 1 PluginConfig, 2+j UserMetadata of call j -/
def env : Env := { repoAnn := 0, cfg := 1, metaBase := 2 }

def initCells (i : Input) : List AnnMap := [i.art.ann, i.pluginConfig] ++ i.calls.map (·.md)

def initWorld (i : Input) : World :=
  { heap := { cells := initCells i }, handed := [], sigCount := 0 }

/-- `Repository.Resolve`: `none` = error, otherwise the annotation map of the descriptor returned -/
def resolve (r : Repo) (h : Heap) : Arg → Option (Heap × MapRef)
  | .tag => some (handOut h)
  | .digest => some (if r.plainByDigest then (h, none) else handOut h)
  | .otherDigest => if r.anyDigest then some (if r.plainByDigest then (h, none) else handOut h) else none
  | .empty | .unknown => none
where
  handOut (h : Heap) : Heap × MapRef :=
    if r.aliased then (h, some env.repoAnn)
    else let (h', a) := h.alloc (h.read (some env.repoAnn)); (h', some a)

/-- the loop of `addUserMetadataToDescriptor` (keys visited in sorted order; Go's order is random,
which changes neither success nor - on success - the result: `Props.merge_order_irrelevant`) -/
def mergeLoop (h : Heap) (ann : MapRef) : AnnMap → Heap × Bool
  | [] => (h, true)
  | (k, v) :: rest =>
    if isReserved k then (h, false)
    else if (look k (h.read ann)).isSome then (h, false)
    else mergeLoop (h.write ann k v) ann rest

/-- does the Go code give the merge a map of its own? (extracted guard-presence facts) -/
def mergeCopies : Bool :=
  Facts.c11MergeDescByValue && Facts.c11MergeAllocatesFreshMap && Facts.c11MergeCopiesOld

/-- `addUserMetadataToDescriptor`: new heap, annotation map of `descToSign`, success -/
def addUserMetadata (h : Heap) (ann : MapRef) (md : AnnMap) : Heap × MapRef × Bool :=
  if md.isEmpty then (h, ann, true)
  else
    let (h1, ann1) :=
      if mergeCopies then let (h', a) := h.alloc (h.read ann); (h', some a)
      else (h, ann)
    let (h2, ok) := mergeLoop h1 ann1 md
    (h2, ann1, ok)

def digit (n : Nat) : Char := Char.ofNat (48 + n % 10)
def d2 (n : Nat) : Text := [digit (n / 10), digit n]
def d4 (n : Nat) : Text := [digit (n / 1000), digit (n / 100), digit (n / 10), digit n]

/-- `time.Unix(t, 0).UTC().Format(time.RFC3339)` for years 1970..9999 (civil-from-days) -/
def rfc3339 (t : Nat) : Text :=
  let days := t / 86400
  let s := t % 86400
  let z := days + 719468
  let era := z / 146097
  let doe := z % 146097
  let yoe := (doe - doe / 1460 + doe / 36524 - doe / 146096) / 365
  let doy := doe - (365 * yoe + yoe / 4 - yoe / 100)
  let mp := (5 * doy + 2) / 153
  let d := doy - (153 * mp + 2) / 5 + 1
  let m := if mp < 10 then mp + 3 else mp - 9
  let y := yoe + era * 400 + (if m ≤ 2 then 1 else 0)
  d4 y ++ ['-'] ++ d2 m ++ ['-'] ++ d2 d ++ ['T'] ++ d2 (s / 3600) ++ [':'] ++ d2 (s % 3600 / 60) ++ [':'] ++ d2 (s % 60) ++ ['Z']

/-- `json.Marshal([]string)` of hex strings (`null` for the nil slice) -/
def jsonArray : List Text → Text
  | [] => "null".toList
  | t :: ts => ['['] ++ quote t ++ (ts.map (fun x => [','] ++ quote x)).flatten ++ [']']
where quote (t : Text) : Text := ['"'] ++ t ++ ['"']

/-- one step of the trace of a call -/
structure Trace where
  ok : Bool := false
  resolveArg : Option Arg := none
  signed : Option AnnMap := none
  subject : Option AnnMap := none
  pushAnn : Option AnnMap := none
  returnedResolved : Bool := false
  deriving Repr

/-- `generateAnnotations` + `PushSignature` (after the signer has answered) -/
def annotateAndPush (i : Input) (w : World) (t : Trace) (resolved : MapRef) : World × Trace :=
  match i.signer.kind with
  | .fails => (w, t)
  | .nilInfo => (w, t)
  | k =>
    -- the map `PluginAnnotations()` returns is made by the signer during `Sign` (PluginSigner stores the
    -- plugin's response); when it is nil, `generateAnnotations` makes one: a new cell either way
    let (h1, a) := w.heap.alloc i.signer.pluginAnn
    let ann : MapRef := some a
    let h2 := h1.write ann Facts.c11ThumbprintKey (jsonArray i.signer.thumbs)
    if k == .noTime then ({ w with heap := h2 }, t)
    else
      let h3 := h2.write ann Facts.c11CreatedKey (rfc3339 i.signer.time)
      let t' := { t with subject := some (h3.read resolved), pushAnn := some (h3.read ann) }
      match i.repo.push with
      | .fails => ({ w with heap := h3 }, t')
      | .indexDeleteFails => ({ w with heap := h3, sigCount := w.sigCount + 1 }, { t' with returnedResolved := true })
      | .ok => ({ w with heap := h3, sigCount := w.sigCount + 1 }, { t' with ok := true, returnedResolved := true })

/-- one `SignOCI` call -/
def signOCI (i : Input) (w : World) (c : Call) : World × Trace :=
  if !optsValid c.opts then (w, {})
  else
    let arg := refArg c.ref
    let t : Trace := { resolveArg := some arg }
    match resolve i.repo w.heap arg with
    | none => (w, t)
    | some (h1, resolved) =>
      let w1 : World := { w with heap := h1, handed := w.handed ++ [(resolved, h1.read resolved)] }
      -- artifactRef != resolved digest and digest.Parse(artifactRef) succeeds
      if arg == .otherDigest then (w1, t)
      else
        let (h2, toSign, ok) := addUserMetadata h1 resolved c.md
        let w2 := { w1 with heap := h2 }
        if !ok then (w2, t)
        else annotateAndPush i w2 { t with signed := some (h2.read toSign) } resolved

def mkDesc (a : Art) (ann : AnnMap) : DescObs :=
  { mediaType := a.mediaType, digest := a.digest, size := a.size, ann := ann }

/-- what the harness can see of a call and of the world after it -/
def observe (i : Input) (w : World) (t : Trace) : CallObs :=
  { ok := t.ok, resolveArg := t.resolveArg,
    signed := t.signed.map (mkDesc i.art), subject := t.subject.map (mkDesc i.art), pushAnn := t.pushAnn,
    returned := if t.returnedResolved then .resolved else .zero,
    repoViewSame := w.heap.read (some env.repoAnn) == i.art.ann,
    handedSame := w.handed.all (fun (r, snap) => w.heap.read r == snap),
    optsSame := w.heap.read (some env.cfg) == i.pluginConfig &&
      (w.heap.cells.drop env.metaBase).take i.calls.length == i.calls.map (·.md),
    sigCount := w.sigCount }

def runCalls (i : Input) : World → List Call → List CallObs
  | _, [] => []
  | w, c :: cs =>
    let (w', t) := signOCI i w c
    observe i w' t :: runCalls i w' cs

def run (i : Input) : Obs := { calls := runCalls i (initWorld i) i.calls }

/-! ### specification (over the input and the observables only) -/

/-- keys pairwise different (true of anything that came out of a Go map) -/
def distinctKeys : AnnMap → Bool
  | [] => true
  | (k, _) :: r => !(r.any (fun kv => kv.1 == k)) && distinctKeys r

/-- well-formedness of an input: every UserMetadata map has pairwise different keys -/
def wf (i : Input) : Bool := i.calls.all (fun c => distinctKeys c.md)

/-- the annotations the repository shows for what the reference resolves to -/
def resolvedAnn (i : Input) (c : Call) : AnnMap :=
  match refArg c.ref with
  | .tag => i.art.ann
  | _ => if i.repo.plainByDigest then [] else i.art.ann

/-- resolved annotations + user metadata -/
def merged (base md : AnnMap) : AnnMap := md.foldl (fun m kv => put kv.1 kv.2 m) base

def resolvable (i : Input) (c : Call) : Bool :=
  match refArg c.ref with
  | .tag | .digest => true
  | .otherDigest => i.repo.anyDigest
  | _ => false

def digestMismatch (c : Call) : Bool := refArg c.ref == .otherDigest
def hasReserved (c : Call) : Bool := c.md.any (fun kv => isReserved kv.1)
def collides (i : Input) (c : Call) : Bool := c.md.any (fun kv => (look kv.1 (resolvedAnn i c)).isSome)

/-- one of the three refusals the property names -/
def refused (i : Input) (c : Call) : Bool := digestMismatch c || hasReserved c || collides i c

/-- everything before the signer passes -/
def reachesSigner (i : Input) (c : Call) : Bool :=
  optsValid c.opts && resolvable i c && !refused i c

/-- everything before the push passes -/
def reachesPush (i : Input) (c : Call) : Bool := reachesSigner i c && i.signer.kind == .ok

/-- does the call succeed? A function of the input and the call alone - not of the history. -/
def expectedOk (i : Input) (c : Call) : Bool := reachesPush i c && i.repo.push == .ok

def pushes (i : Input) (c : Call) : Bool := reachesPush i c && i.repo.push != .fails

def expectedPushAnn (i : Input) : AnnMap :=
  put Facts.c11CreatedKey (rfc3339 i.signer.time) (put Facts.c11ThumbprintKey (jsonArray i.signer.thumbs) i.signer.pluginAnn)

/-- the per-call clauses; `before` = signatures attached before the call -/
structure CallVerdict where
  signsResolvedPlusMetadata : Bool
  subjectIsResolved : Bool
  pushedAnnotationsExact : Bool
  refusals : Bool
  frame : Bool
  oneSignature : Bool
  succeedsIndependentOfHistory : Bool
  resolveAsked : Bool

def callVerdict (i : Input) (c : Call) (before : Nat) (o : CallObs) : CallVerdict :=
  { signsResolvedPlusMetadata :=
      o.signed == (if reachesSigner i c then some (mkDesc i.art (merged (resolvedAnn i c) c.md)) else none),
    subjectIsResolved :=
      o.subject == (if reachesPush i c then some (mkDesc i.art (resolvedAnn i c)) else none) &&
      o.returned == (if pushes i c then .resolved else .zero),
    pushedAnnotationsExact :=
      o.pushAnn == (if reachesPush i c then some (expectedPushAnn i) else none),
    refusals :=
      !(optsValid c.opts && resolvable i c && refused i c) ||
        (!o.ok && o.signed.isNone && o.subject.isNone && o.pushAnn.isNone && o.sigCount == before),
    frame := o.repoViewSame && o.handedSame && o.optsSame,
    oneSignature := o.sigCount == before + (if pushes i c then 1 else 0) && (!o.ok || o.subject.isSome),
    succeedsIndependentOfHistory := o.ok == expectedOk i c,
    resolveAsked := o.resolveArg == (if optsValid c.opts then some (refArg c.ref) else none) }

/-- fold a per-call clause over the sequence, threading the signature count -/
def allCalls (i : Input) (f : CallVerdict → Bool) : List Call → Nat → List CallObs → Bool
  | [], _, [] => true
  | c :: cs, before, o :: os => f (callVerdict i c before o) && allCalls i f cs o.sigCount os
  | _, _, _ => false

def clauses (i : Input) (o : Obs) : Clauses :=
  [ ("input_wellformed", wf i),
    ("one_observation_per_call", o.calls.length == i.calls.length),
    ("signs_resolved_plus_metadata", allCalls i (·.signsResolvedPlusMetadata) i.calls 0 o.calls),
    ("subject_is_resolved_descriptor", allCalls i (·.subjectIsResolved) i.calls 0 o.calls),
    ("pushed_annotations_exact", allCalls i (·.pushedAnnotationsExact) i.calls 0 o.calls),
    ("refusals", allCalls i (·.refusals) i.calls 0 o.calls),
    ("frame", allCalls i (·.frame) i.calls 0 o.calls),
    ("one_signature_per_push", allCalls i (·.oneSignature) i.calls 0 o.calls),
    ("succeeds_independent_of_history", allCalls i (·.succeedsIndependentOfHistory) i.calls 0 o.calls),
    ("resolve_asked_for_reference", allCalls i (·.resolveAsked) i.calls 0 o.calls) ]

def Holds (i : Input) (o : Obs) : Bool := (clauses i o).holds

def judge := judgeWith run clauses

end NotationModel.C11

/- C11 - model (stub: not built yet) -/
import NotationModel.Basic
open Lean

namespace NotationModel.C11

def judge (_ : Json) : Except String Json := .error "C11: model not built yet"

end NotationModel.C11

/- C12 - model (stub: not built yet) -/
import NotationModel.Basic
open Lean

namespace NotationModel.C12

def judge (_ : Json) : Except String Json := .error "C12: model not built yet"

end NotationModel.C12

/-
C12 - model of the nil guards and of the (outcome, error) discipline of the verification entry
points: `verifier.Verify`, `verifier.VerifyBlob`, `verifier.SkipVerify`, `notation.Verify`,
`notation.VerifyBlob`, `VerificationOutcome.UserMetadata`.

A Go nil-pointer dereference is the explicit outcome `panicked := true`, so that totality in Lean
does not make "never panics" vacuous: every guard is a Boolean read from the source
(`Facts.c12Guards`), and a missing guard makes the model panic exactly where the code would.

The nil guard of `verifier.VerifyBlob` stands BEFORE the choice between the two statement lookups
(by name / global): whether the document is missing is decided the same way for both; the verdict
depends on `Input.named` only in that a global statement cannot be of level skip (`blobStmt`), and
not at all on how many goroutines share the verifier (`Input.workers`) - theorems
`policy_name_irrelevant`, `missing_document_same_for_both_lookups`, `workers_irrelevant`; the
harness runs the whole matrix for both values of `named`, and once more with one shared verifier
under several goroutines (child process), each of which must observe the sequential observation.

Three further dimensions:
* `rev`, `revSurplus`, `revClient` - the applicable statement ENFORCES revocation and the verifier carries a
  caller-supplied revocation validator (or the deprecated client) that answers with `chain length + revSurplus`
  results, all of them OK. `revocationFinalResult` fails closed on every count but the exact one: the verification
  fails with an outcome (status unknown), it never indexes the chain by result position (`revStep`; theorems
  `revocation_count_fails_closed`, `revocation_exact_count_accepts`, `rev_surplus_irrelevant_unless_checked`,
  `rev_client_irrelevant`). `revNil`: the entries of the vector are nil pointers - fails closed in the same way, never a
  nil dereference (`revocation_nil_entries_fail_closed`); `revNilServer`: the results hold a nil server result - does not
  matter (`rev_nil_server_irrelevant`).
* `keys`, `deflt`, `names` - `config.SigningKeys.Remove(names...)` on a key list: the names are looked up and
  deleted ONE AFTER THE OTHER, so a name given twice is a not-found error at its second turn unless the list holds
  it twice (`removeErr`; theorems `remove_ok_of_distinct_known`, `remove_repeated_name_not_found`,
  `remove_default_irrelevant`). Entry `.signingKeys`.
* the shape of a referrer node in a hostile store (subject absent / null / another artifact, target reached through
  `blobs` / `layers` only, ...) is a SAMPLED dimension (`label`, `data`): `label_data_irrelevant`.

Malformed-input cases (`fuzz := true`: arbitrary bytes offered to a parser-facing entry point)
are outside what a model can exhibit: for them the model only states the expectation "returns
normally with a consistent (outcome, error) pair" which the harness samples (DESIGN.md C12).
-/
import NotationModel.Basic
import NotationModel.Generated.C12
open Lean

namespace NotationModel.C12

structure Guards where
  nVerifyBlobVerifierNil : Bool
  nVerifyBlobReaderNil : Bool
  nVerifyBlobContentNil : Bool
  nVerifyVerifierNil : Bool
  nVerifyRepoNil : Bool
  nVerifyOutcomeNil : Bool
  userMetadataContentNil : Bool
  skipVerifyDocNil : Bool
  vVerifyDocNil : Bool
  vVerifyBlobDocNil : Bool
  pluginManagerNil : Bool
  deriving DecidableEq, Repr

def guardOf (l : List (String × Bool)) (name : String) : Bool := (l.lookup name).getD false

/-- the guards as extracted from the current source -/
def sourceGuards : Guards :=
  let l := Facts.c12Guards
  { nVerifyBlobVerifierNil := guardOf l "nVerifyBlobVerifierNil",
    nVerifyBlobReaderNil := guardOf l "nVerifyBlobReaderNil",
    nVerifyBlobContentNil := guardOf l "nVerifyBlobContentNil",
    nVerifyVerifierNil := guardOf l "nVerifyVerifierNil",
    nVerifyRepoNil := guardOf l "nVerifyRepoNil",
    nVerifyOutcomeNil := guardOf l "nVerifyOutcomeNil",
    userMetadataContentNil := guardOf l "userMetadataContentNil",
    skipVerifyDocNil := guardOf l "skipVerifyDocNil",
    vVerifyDocNil := guardOf l "vVerifyDocNil",
    vVerifyBlobDocNil := guardOf l "vVerifyBlobDocNil",
    pluginManagerNil := guardOf l "pluginManagerNil" }

def Guards.all (g : Guards) : Bool :=
  g.nVerifyBlobVerifierNil && g.nVerifyBlobReaderNil && g.nVerifyBlobContentNil && g.nVerifyVerifierNil &&
  g.nVerifyRepoNil && g.nVerifyOutcomeNil && g.userMetadataContentNil && g.skipVerifyDocNil &&
  g.vVerifyDocNil && g.vVerifyBlobDocNil && g.pluginManagerNil

/-- what the configured policy document yields for the query of this case -/
inductive Stmt
  | missing     -- the verifier was built without this kind of document (nil pointer)
  | noMatch     -- no applicable statement
  | skip        -- the applicable statement's level is skip
  | enforce     -- a non-skip statement applies
  deriving DecidableEq, Repr, FromJson, ToJson

inductive Sig
  | valid            -- verifies under the statement
  | garbage          -- does not parse
  | demandsPlugin    -- valid, names a verification plugin that is not installed
  deriving DecidableEq, Repr, FromJson, ToJson

inductive Entry
  | vVerify | vVerifyBlob | skipVerify | nVerify | nVerifyBlob
  | vVerifyBlobGenError   -- verifier.VerifyBlob whose blob descriptor generator fails (unreadable blob)
  | userMetadata     -- UserMetadata() of the outcome verifier.Verify returned
  | nilArgs          -- notation.Verify / VerifyBlob with nil verifier / repository / reader
  | parser           -- a parser-facing entry point fed with a malformed document (fuzz cases only)
  | loader           -- a file-based loader / `New*FromConfig` constructor over a configuration directory
                     -- holding an empty, cut, BOM-prefixed, ... file (sampled cases only)
  | hostileStore     -- `ListSignatures` / `FetchSignatureBlob` / `notation.Verify` over a store whose descriptor at
                     -- `site` CLAIMS `claimed` bytes (child process under an allocation budget); modelled:
                     -- is the content of that descriptor asked for at all
  | signingKeys      -- `(*config.SigningKeys).Remove(names...)` on the key list `keys` with default `deflt`
                     -- (modelled: does the call report an error); the other methods are sampled around it
  | concurrent       -- one shared object (verifier, trust store, plugin manager, document, cache,
                     -- repository, signer) used by `workers` goroutines at once, in a child process
                     -- (a runtime `fatal error` cannot be recovered; sampled cases only)
  deriving DecidableEq, Repr, FromJson, ToJson

/-- which descriptor of a hostile store claims the size under test -/
inductive Site
  | none
  | referrer      -- a referrer manifest descriptor announced by the store's predecessor list
  | sigManifest   -- the signature manifest descriptor handed to `FetchSignatureBlob` (Referrers API / caller)
  | sigBlob       -- the signature envelope descriptor inside an honest signature manifest
  | config        -- the config descriptor inside an honest signature manifest (never read)
  deriving DecidableEq, Repr, FromJson, ToJson

/-- the size caps of registry/repository.go (`maxManifestSizeLimit`, `maxBlobSizeLimit`) -/
def manifestCap : Int := 4 * 1024 * 1024
def blobCap : Int := 32 * 1024 * 1024
def capOf : Site → Int
  | .sigBlob => blobCap
  | _ => manifestCap

structure Input where
  entry : Entry
  oci : Stmt
  blob : Stmt
  manager : Bool          -- a plugin manager is configured
  sig : Sig
  named : Bool := true    -- blob verification asks for its statement BY NAME (`TrustPolicyName` set); `false`:
                          -- empty name, the document's GLOBAL statement is looked up (a second lookup method)
  workers : Nat := 1      -- goroutines using the one object under test at the same time (1 = sequential)
  site : Site := .none    -- hostile-store cases: the descriptor that lies about its size
  claimed : Int := 0      -- ... and the size it claims (any int64, negative included)
  rev : Bool := false     -- the statement enforces revocation and a caller-supplied validator answers (false: the
                          -- statement skips revocation, nothing is asked)
  revSurplus : Int := 0   -- ... with (length of the certificate chain + revSurplus) results, each of them OK
  revClient : Bool := false -- ... through the deprecated `RevocationClient` instead of `RevocationCodeSigningValidator`
  revNil : Bool := false  -- ... the entries of that vector being NIL pointers instead of OK results (a certificate
                          -- without a result has an unknown status)
  revNilServer : Bool := false -- ... every (non-nil) result carrying a NIL server result (server results are logged only)
  keys : List String := []   -- signingKeys cases: the names of the key list, in order (repetitions possible)
  deflt : Option String := none -- ... its default key name
  names : List String := []  -- ... the argument list of `Remove`
  fuzz : Bool             -- malformed-input / configuration-sweep case (sampled, not modelled)
  label : String          -- what the sampled case is (configuration, stream); ignored by the model
  data : String           -- hex of the bytes offered to the entry point (sampled cases); ignored by the model
  deriving Repr, FromJson, ToJson

structure Outcome where
  hasError : Bool
  hasContent : Bool
  deriving DecidableEq, Repr, FromJson, ToJson

structure Obs where
  panicked : Bool
  err : Bool
  outcome : Option Outcome
  fetched : Bool := false -- hostile-store cases: the store was asked for the content of the lying descriptor
  consistent : Bool       -- no error => outcome without error (verifier level: failure after
                          -- policy selection => outcome with its error set); computed by the harness
  deriving DecidableEq, Repr, FromJson, ToJson

def panic : Obs := { panicked := true, err := false, outcome := none, consistent := false }
def failNoOutcome : Obs := { panicked := false, err := true, outcome := none, consistent := true }
def failWith (content : Bool) : Obs :=
  { panicked := false, err := true, outcome := some { hasError := true, hasContent := content }, consistent := true }
def okWith (content : Bool) : Obs :=
  { panicked := false, err := false, outcome := some { hasError := false, hasContent := content }, consistent := true }

/-- `verifier.Verify` / `verifier.VerifyBlob` after the document has been found -/
def verifyWithStmt (g : Guards) (st : Stmt) (manager : Bool) (sig : Sig) : Obs :=
  match st with
  | .missing => panic                 -- unreachable: callers test the guard first
  | .noMatch => failNoOutcome
  | .skip => okWith false
  | .enforce =>
    match sig with
    | .valid => okWith true
    | .garbage => failWith false
    | .demandsPlugin =>
      -- integrity passed, so the outcome carries the envelope content
      if manager then failWith true
      else if g.pluginManagerNil then failWith true else panic

/-- the revocation validator's answer does not have one OK result per certificate: another count, or the right
count (the chain is not empty) of nil entries -/
def revFails (i : Input) : Bool := i.rev && (i.revSurplus != 0 || i.revNil)

/-- the revocation step, last of the enforcing path: only a verification that passed everything else gets there;
`revocationFinalResult` fails closed (status unknown, enforced) on a result count other than the chain's length -
too few AND too many - and reads no result at all in that case; it fails closed as well on a NIL entry (status
unknown for that certificate) and skips nil server results: neither is dereferenced -/
def revStep (i : Input) (o : Obs) : Obs :=
  if revFails i && !o.panicked && !o.err && o.outcome == some { hasError := false, hasContent := true } then failWith true else o

def vVerify (g : Guards) (i : Input) : Obs :=
  if i.oci == .missing then (if g.vVerifyDocNil then failNoOutcome else panic)
  else revStep i (verifyWithStmt g i.oci i.manager i.sig)

/-- the statement the blob lookup yields: asked for WITHOUT a name only the document's global
statement can apply, and `BlobDocument.Validate` refuses a global statement of level skip - a
document whose `c12` statement skips has no global statement -/
def blobStmt (i : Input) : Stmt :=
  if !i.named && i.blob == .skip then .noMatch else i.blob

def vVerifyBlob (g : Guards) (i : Input) : Obs :=
  if i.blob == .missing then (if g.vVerifyBlobDocNil then failNoOutcome else panic)
  else revStep i (verifyWithStmt g (blobStmt i) i.manager i.sig)

/-- `SkipVerify`: (error, skip) - reported as an Obs with the level outcome when skipped -/
def skipVerify (g : Guards) (i : Input) : Obs :=
  match i.oci with
  | .missing => if g.skipVerifyDocNil then failNoOutcome else panic
  | .noMatch => failNoOutcome
  | .skip => okWith false
  | .enforce => { panicked := false, err := false, outcome := none, consistent := true }

/-- `notation.Verify` with a repository listing exactly one signature -/
def nVerify (g : Guards) (i : Input) : Obs :=
  match skipVerify g i with
  | { panicked := true, .. } => panic
  | { err := true, .. } => failNoOutcome
  | { outcome := some _, .. } => okWith false           -- skipped
  | _ =>
    let inner := vVerify g i
    if inner.panicked then panic
    else if inner.err then
      -- the failing outcome is folded into the returned error; no outcome is returned
      match inner.outcome with
      | some _ => failNoOutcome
      | none => if g.nVerifyOutcomeNil then failNoOutcome else panic
    else okWith true

/-- `notation.VerifyBlob` -/
def nVerifyBlob (g : Guards) (i : Input) : Obs :=
  let inner := vVerifyBlob g i
  if inner.panicked then panic
  else if inner.err then failNoOutcome
  else match inner.outcome with
    | some o =>
      if o.hasContent then okWith true
      else if g.nVerifyBlobContentNil then okWith false else panic
    | none => panic

/-- `outcome.UserMetadata()` on whatever `verifier.Verify` returned -/
def userMetadata (g : Guards) (i : Input) : Obs :=
  let inner := vVerify g i
  if inner.panicked then panic
  else match inner.outcome with
    | none => { panicked := false, err := inner.err, outcome := none, consistent := true }  -- nothing to call it on
    | some o =>
      if o.hasContent then { panicked := false, err := false, outcome := some o, consistent := true }
      else if g.userMetadataContentNil then { panicked := false, err := true, outcome := some o, consistent := true }
      else panic

/-- nil verifier / repository / reader -/
def nilArgs (g : Guards) : Obs :=
  if g.nVerifyVerifierNil && g.nVerifyRepoNil && g.nVerifyBlobVerifierNil && g.nVerifyBlobReaderNil
  then failNoOutcome else panic

/-- `verifier.VerifyBlob` with a failing descriptor generator: everything up to the generator is
as usual; where the signature would have been accepted the failure is reported WITH the outcome -/
def vVerifyBlobGenError (g : Guards) (i : Input) : Obs :=
  let o := vVerifyBlob g i
  if !o.panicked && !o.err && o.outcome == some { hasError := false, hasContent := true } then failWith true else o

/-- the descriptor's claimed size is within the cap that applies to it -/
def withinCap (i : Input) : Bool := decide (i.claimed ≤ capOf i.site)

/-- hostile store: the only test in front of every `content.FetchAll` is `size > cap` (a negative
claim passes it and is refused by the reader without allocating); a config is never read. The
error of the call is not observed (it depends on what the store then delivers). -/
def hostile (i : Input) : Obs :=
  { panicked := false, err := false, outcome := none, consistent := true,
    fetched := i.site != .none && i.site != .config && withinCap i }

/-- `(*SigningKeys).Remove`: each name in turn - empty: error; not (any more) in the list: error; else its FIRST
occurrence is deleted. Does the call report an error? -/
def removeErr : List String → List String → Bool
  | _, [] => false
  | ks, n :: ns => n == "" || !ks.contains n || removeErr (ks.erase n) ns

def signingKeys (i : Input) : Obs :=
  { panicked := false, err := removeErr i.keys i.names, outcome := none, consistent := true }

def runWith (g : Guards) (i : Input) : Obs :=
  if i.fuzz then { panicked := false, err := false, outcome := none, consistent := true }
  else match i.entry with
    | .vVerify => vVerify g i
    | .vVerifyBlob => vVerifyBlob g i
    | .vVerifyBlobGenError => vVerifyBlobGenError g i
    | .skipVerify => skipVerify g i
    | .nVerify => nVerify g i
    | .nVerifyBlob => nVerifyBlob g i
    | .userMetadata => userMetadata g i
    | .nilArgs => nilArgs g
    | .parser => { panicked := false, err := false, outcome := none, consistent := true }
    | .hostileStore => hostile i
    | .signingKeys => signingKeys i
    | .loader => { panicked := false, err := false, outcome := none, consistent := true }
    | .concurrent => { panicked := false, err := false, outcome := none, consistent := true }

def run (i : Input) : Obs := runWith sourceGuards i

/-! ### the property over observables -/

/-- the applicable statement was selected (a policy exists and matches) -/
def policySelected (i : Input) : Bool :=
  match i.entry with
  | .vVerify => i.oci == .skip || i.oci == .enforce
  | .vVerifyBlob => blobStmt i == .skip || blobStmt i == .enforce
  | .vVerifyBlobGenError => blobStmt i == .skip || blobStmt i == .enforce
  | _ => false

def clauses (i : Input) (o : Obs) : Clauses :=
  [ ("returns_normally_never_panics", !o.panicked),
    ("pair_consistent_as_observed", o.consistent),
    ("no_error_means_outcome_without_error",
      i.fuzz || i.entry == .skipVerify || i.entry == .userMetadata || i.entry == .parser || i.entry == .loader ||
        i.entry == .concurrent || i.entry == .hostileStore || i.entry == .signingKeys || o.err ||
        match o.outcome with
        | some oc => !oc.hasError
        | none => false),
    ("no_content_read_beyond_its_size_cap", !o.fetched || withinCap i),
    ("failure_after_policy_selection_has_outcome_with_error",
      i.fuzz || !(policySelected i && o.err) ||
        match o.outcome with
        | some oc => oc.hasError
        | none => false) ]

def Holds (i : Input) (o : Obs) : Bool := (clauses i o).holds

def judge := judgeWith run clauses

end NotationModel.C12

/- C13 - model (stub: not built yet) -/
import NotationModel.Basic
open Lean

namespace NotationModel.C13

def judge (_ : Json) : Except String Json := .error "C13: model not built yet"

end NotationModel.C13

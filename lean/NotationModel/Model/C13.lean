/-
C13 - model of `x509TrustStore.GetCertificates` (verifier/truststore/truststore.go) with
`file.IsValidFileName` (internal/file/file.go), `dir.X509TrustStoreDir` (dir/path.go, i.e.
`path.Join`), `ValidateCertificates`, `isRootCACertificate` and the directory walk (`os.Lstat`,
`os.ReadDir`, `corex509.ReadCertificateFile`).

World: the store directory `<root>/truststore/x509/<type>/<name>` is of one of four kinds and
holds a list of entries (name, kind, abstract content). The content of a regular file is
abstracted to "does `ReadCertificateFile` succeed" + the list of certificates it yields; a
certificate is abstracted to the four booleans the Go decisions depend on (plus an id that
lets the harness recognise which certificates came back).
-/
import NotationModel.Basic
import NotationModel.Generated.C13
open Lean

namespace NotationModel.C13

/-- which function the case exercises: `GetCertificates`, only `file.IsValidFileName`, or only
`dir.X509TrustStoreDir` -/
inductive Op | load | nameCheck | storePath
  deriving DecidableEq, Repr, FromJson, ToJson

/-- what `os.Lstat` finds at the store path -/
inductive DirKind
  | missing        -- nothing there
  | dir            -- a real directory
  | symlinkToDir   -- a symbolic link to a directory (holding the entries)
  | file           -- a regular file
  deriving DecidableEq, Repr, FromJson, ToJson

/-- `DirEntry.Type()` of an entry of the store directory -/
inductive EntryKind | file | dir | symlink
  deriving DecidableEq, Repr, FromJson, ToJson

/-- a certificate as far as the Go decisions look at it -/
structure CertFlags where
  id : Nat               -- identity (harness: index into the minted pool)
  isCA : Bool            -- `cert.IsCA`
  selfSig : Bool         -- the signature verifies under the certificate's own public key
  signOk : Bool          -- own key admitted for certificate signing: the basic-constraints /
                         -- key-usage part of `cert.CheckSignatureFrom(cert)`
  subjEqIssuer : Bool    -- `bytes.Equal(cert.RawSubject, cert.RawIssuer)`
  weakSig : Bool         -- signed with an algorithm `CheckSignatureFrom` refuses outright
                         -- (`x509.InsecureAlgorithmError`: SHA-1 and MD5 based ones). `CheckSignature`
                         -- still verifies SHA-1 signatures (so `selfSig` can be true) but not MD5 ones.
  deriving DecidableEq, Repr, FromJson, ToJson

structure Entry where
  name : Text            -- file name inside the store directory
  kind : EntryKind
  parseOk : Bool         -- regular file: `ReadCertificateFile` returns no error
  certs : List CertFlags -- regular file with parseOk: the certificates read, in file order
                         -- (sub-directory / symlink / unparsable file: what the harness hides there)
  enc : String           -- how the harness encodes the content (pem, der, ...); not seen by the model
  deriving DecidableEq, Repr, FromJson, ToJson

/-- what the `context.Context` handed to `GetCertificates` does during the call -/
inductive CtxKind
  | background        -- never ends
  | endedBefore       -- already cancelled / expired when the call starts
  | endsAtPoll        -- live for the first `n` polls (Err / Done / Deadline), ended from then on
  | timeout           -- a real `context.WithTimeout` of `n` microseconds (ends whenever it ends)
  | cancelledAfter    -- a real `context.WithCancel`, cancelled by another goroutine after `n` microseconds
  deriving DecidableEq, Repr, FromJson, ToJson

structure CtxSpec where
  kind : CtxKind
  n : Nat
  deadline : Bool        -- flavour of the end: `DeadlineExceeded` (true) or `Canceled` (false)
  deriving DecidableEq, Repr, FromJson, ToJson

/-- another store of the same trust store root that is loaded at the same time -/
structure ParStore where
  storeType : String
  name : Text
  entries : List Entry
  deriving DecidableEq, Repr, FromJson, ToJson

/-- what else goes on while the call under test runs: `workers` goroutines keep loading this store
and the `stores` listed here (for `storePath`: keep computing their paths) `rounds` times each.
The code has no state shared between calls (`Facts.c13SharedState = []`, pinned in Props), so the
model does not look at this. -/
structure ParSpec where
  stores : List ParStore
  workers : Nat
  rounds : Nat
  deriving DecidableEq, Repr, FromJson, ToJson

structure Input where
  op : Op
  storeType : String
  name : Text
  dirKind : DirKind
  entries : List Entry   -- in creation order; `os.ReadDir` sorts by name
  decoys : Bool          -- harness plants valid certificates outside the store; not seen by the model
  par : ParSpec          -- concurrent calls for other stores (empty: none)
  ctx : CtxSpec          -- `load` only. `GetCertificates` never looks at its context
                         -- (`Facts.c13ContextUses = []`, pinned in Props), so neither does the model
  deriving Repr, FromJson, ToJson

structure Obs where
  ok : Bool              -- no error (for `nameCheck`: the boolean result)
  certs : List Nat       -- ids of the returned certificates, in order (also when an error came with them)
  path : Text            -- `storePath` only: the relative path `dir.X509TrustStoreDir(type, name)` returns
  deriving DecidableEq, Repr, FromJson, ToJson

/-! ### `file.IsValidFileName` -/

def inRange (lo hi c : Char) : Bool := lo.toNat ≤ c.toNat && c.toNat ≤ hi.toNat

/-- the character class `[a-zA-Z0-9_.-]` -/
def classChar (c : Char) : Bool :=
  inRange 'a' 'z' c || inRange 'A' 'Z' c || inRange '0' '9' c || c == '_' || c == '.' || c == '-'

/-- `^[a-zA-Z0-9_.-]+$` in Go (RE2) syntax: without the `m` flag `$` matches only at the very end
of the text, so the whole text is one or more class characters. Written for the regex text
pinned in `Props/C13.lean` (`regex_pinned`). -/
def matchesFileNameRegex (n : Text) : Bool := !n.isEmpty && n.all classChar

/-- the names rejected before the regex, as character lists -/
def rejectedNames : List Text := Facts.c13RejectedNames.map String.toList

def isValidFileName (n : Text) : Bool :=
  if rejectedNames.contains n then false else matchesFileNameRegex n

/-! ### `dir.X509TrustStoreDir`: `path.Join("truststore", "x509", type, name)`.
`path.Join` joins the non-empty items with "/" and applies `path.Clean`; since the first item
is a non-empty relative path the result is never rooted. -/

/-- split at every '/' -/
def splitSlash : Text → List Text
  | [] => [[]]
  | c :: cs =>
    if c == '/' then [] :: splitSlash cs
    else match splitSlash cs with
      | [] => [[c]]
      | h :: t => (c :: h) :: t

/-- one component of `path.Clean` on a non-rooted path; `out` is the stack of kept components
(top first). Empty and "." components vanish, ".." removes the component before it unless
there is none (or only ".."s), in which case it is kept. -/
def cleanStep (out : List Text) (comp : Text) : List Text :=
  if comp == [] || comp == ['.'] then out
  else if comp == ['.', '.'] then
    match out with
    | [] => [comp]
    | top :: rest => if top == ['.', '.'] then comp :: out else rest
  else comp :: out

/-- the components of `path.Join(items...)` -/
def joinComponents (items : List Text) : List Text :=
  ((items.flatMap splitSlash).foldl cleanStep []).reverse

def renderPath (cs : List Text) : Text := if cs.isEmpty then ['.'] else List.intercalate ['/'] cs

def storePrefix : List Text := Facts.c13StoreDirPrefix.map String.toList

/-- `dir.X509TrustStoreDir(type, name)` -/
def storeDir (t : String) (n : Text) : Text :=
  renderPath (joinComponents (storePrefix ++ [t.toList, n]))

/-! ### directory order: `os.ReadDir` returns the entries sorted by file name (byte-wise;
for UTF-8 that is code-point-wise) -/

def nameLt : Text → Text → Bool
  | [], [] => false
  | [], _ :: _ => true
  | _ :: _, [] => false
  | a :: as, b :: bs =>
    if a.toNat < b.toNat then true else if b.toNat < a.toNat then false else nameLt as bs

def nameLe (a b : Text) : Bool := !nameLt b a

def insertEntry (e : Entry) : List Entry → List Entry
  | [] => [e]
  | x :: xs => if nameLe e.name x.name then e :: x :: xs else x :: insertEntry e xs

def sortEntries : List Entry → List Entry
  | [] => []
  | e :: es => insertEntry e (sortEntries es)

/-! ### `GetCertificates` -/

/-- `isValidStoreType`: membership in `truststore.Types` -/
def knownType (t : String) : Bool := Facts.c13StoreTypes.contains t

/-- `storeType == TypeTSA` -/
def needsRoot (t : String) : Bool := Facts.c13RootCheckedTypes.contains t

/-- `ValidateCertificates`: non-empty, every certificate is a CA or verifies under its own key -/
def validateCertificates (cs : List CertFlags) : Bool :=
  !cs.isEmpty && cs.all (fun c => c.isCA || c.selfSig)

/-- `isRootCACertificate`: `cert.CheckSignatureFrom(cert)` (constraints, then the algorithm policy,
then the signature), then subject = issuer -/
def isRootCA (c : CertFlags) : Bool := (c.signOk && !c.weakSig && c.selfSig) && c.subjEqIssuer

/-- the `for _, file := range files` loop; `none` = an error return (the accumulated slice is dropped) -/
def loadEntries (t : String) : List Entry → List CertFlags → Option (List CertFlags)
  | [], acc => some acc
  | e :: rest, acc =>
    if e.kind != .file then none                          -- directory or symlink
    else if !e.parseOk then none                          -- ReadCertificateFile failed
    else if !validateCertificates e.certs then none       -- ValidateCertificates failed
    else if needsRoot t && !e.certs.all isRootCA then none
    else loadEntries t rest (acc ++ e.certs)

def getCertificates (i : Input) : Option (List CertFlags) :=
  if !knownType i.storeType then none
  else if !isValidFileName i.name then none
  else match i.dirKind with
    | .dir =>
      match loadEntries i.storeType (sortEntries i.entries) [] with
      | some cs => if cs.isEmpty then none else some cs   -- `len(certificates) < 1`
      | none => none
    | _ => none                                           -- Lstat error / not a directory / symlink

def run (i : Input) : Obs :=
  match i.op with
  | .nameCheck => { ok := isValidFileName i.name, certs := [], path := [] }
  | .storePath => { ok := true, certs := [], path := storeDir i.storeType i.name }
  | .load =>
    match getCertificates i with
    | some cs => { ok := true, certs := cs.map (·.id), path := [] }
    | none => { ok := false, certs := [], path := [] }

/-! ### specification (independent of the extracted facts) -/

/-- "plain file name": non-empty, letters / digits / `_` `.` `-` only, and not a dot-only
directory reference -/
def plainChar (c : Char) : Bool := c.isAlphanum || c == '_' || c == '.' || c == '-'

def plainName (n : Text) : Bool := n != [] && n.all plainChar && n != ['.'] && n != ['.', '.']

def specTypes : List String := ["ca", "signingAuthority", "tsa"]

/-- CA or self-signed; in a tsa store a self-signed root - self-signed meaning that the signature
verifies under the own key with an algorithm crypto/x509 still verifies for certificate chains (a
SHA-1 or MD5 signed "root" is not verifiably self-signed and is refused) -/
def acceptable (t : String) (c : CertFlags) : Bool :=
  (c.isCA || c.selfSig) && (t != "tsa" || (c.selfSig && !c.weakSig && c.signOk && c.subjEqIssuer))

/-- a regular file holding one or more parseable, acceptable certificates -/
def entryLoadable (t : String) (e : Entry) : Bool :=
  e.kind == .file && e.parseOk && !e.certs.isEmpty && e.certs.all (acceptable t)

def loadable (i : Input) : Bool :=
  specTypes.contains i.storeType && plainName i.name && i.dirKind == .dir &&
    i.entries.all (entryLoadable i.storeType) && !i.entries.isEmpty

/-- the certificates of the store's files, concatenated in directory order -/
def expectedIds (i : Input) : List Nat := ((sortEntries i.entries).flatMap (·.certs)).map (·.id)

/-- every certificate id that occurs in a file of the store -/
def storeIds (i : Input) : List Nat := (i.entries.flatMap (·.certs)).map (·.id)

/-- the context can end before the call returns (then - and only then - failing a loadable
store is acceptable: "an error because the caller gave up") -/
def ctxMayEnd (c : CtxSpec) : Bool := c.kind != .background

/-- the property over observables. Whatever the context does, success means a loadable store and
the complete set, failure means nothing is returned. -/
def clauses (i : Input) (o : Obs) : Clauses :=
  match i.op with
  | .load =>
    [ ("succeeds_only_if_known_type_plain_name_real_dir_all_entries_valid_files_nonempty", !o.ok || loadable i),
      ("loadable_store_loads_while_the_context_is_live", !loadable i || o.ok || ctxMayEnd i.ctx),
      ("returns_exactly_the_files_certificates_in_directory_order", !o.ok || o.certs == expectedIds i),
      ("nothing_from_anywhere_else", o.certs.all (fun c => (storeIds i).contains c)),
      ("fails_as_a_whole_no_partial_set", o.ok || o.certs.isEmpty) ]
  | .nameCheck =>
    [ ("file_name_check_accepts_exactly_plain_names", o.ok == plainName i.name),
      ("name_check_returns_no_certificates", o.certs.isEmpty) ]
  | .storePath =>
    [ ("known_type_and_plain_name_address_exactly_truststore_x509_type_name",
        !(specTypes.contains i.storeType && plainName i.name) ||
          o.path == "truststore/x509/".toList ++ i.storeType.toList ++ ['/'] ++ i.name) ]

def Holds (i : Input) (o : Obs) : Bool := (clauses i o).holds

def judge := judgeWith run clauses

end NotationModel.C13

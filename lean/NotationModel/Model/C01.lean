/-
C01 - model of `verifier.Verify` / `verifier.VerifyBlob` (verifier/verifier.go) and of the
`notation.VerifyBlob` wrapper (notation.go) around `processSignature`: integrity first and not
overridable, then the remaining validations (C02), then payload decoding, the comparison of the
signed target descriptor with the artifact under verification, and the required user metadata.

The registry entry point `notation.Verify` (notation.go) is modelled in front of it: the reference
is resolved by the repository, a DIGEST reference must name exactly the digest of the descriptor the
repository answers with, and the signatures are verified against that descriptor.

Parameters (modelled, not verified): the outcome of notation-core-go's `ParseEnvelope` and
`Verify()` (`parseOk`, `integrityOk`), encoding/json's decoding of the payload into
`envelope.Payload` (`decoded`), and what `Repository.Resolve` answers (`resolveOk`, `artifact`).
-/
import NotationModel.Basic
import NotationModel.Model.C02
open Lean

namespace NotationModel.C01

structure Desc where
  mediaType : String
  digest : String
  size : Int
  annotations : List (String × String)     -- a Go map: keys unique
  deriving DecidableEq, Repr, FromJson, ToJson

inductive Kind
  | oci      -- verifier.Verify
  | blob     -- notation.VerifyBlob -> verifier.VerifyBlob
  deriving DecidableEq, Repr, FromJson, ToJson

structure Input where
  kind : Kind
  skip : Bool              -- the applicable statement's level is skip
  parseOk : Bool           -- signature.ParseEnvelope succeeds
  integrityOk : Bool       -- envelope.Verify(): signature valid over payload + signed attributes under the leaf key
  payloadTypeOk : Bool     -- payload content type is the Notary payload type
  rest : Bool              -- the remaining validations of processSignature accept (C02)
  decoded : Option Desc    -- json.Unmarshal(payload, &envelope.Payload{}).TargetArtifact; none = decode error
  artifact : Desc          -- oci: the descriptor under verification (registry: what Repository.Resolve answers);
                           -- blob: the descriptor generated from the blob with the hash bound to the signature
                           -- algorithm, mediaType = the caller's ("" = none)
  hashSupported : Bool     -- blob: the signature algorithm's hash has a digest algorithm
  required : List (String × String)   -- user metadata the caller requires
  reader : String          -- blob: how the reader delivers the bytes (concretisation only: must not matter)
  viaRegistry : Bool       -- oci: through notation.Verify and a repository listing this one signature
  refDigest : Option String  -- registry: the digest the reference pins (`repo@<digest>`); none = a tag reference,
                           -- verified through a caller's Verifier that selects the policy by repository only and
                           -- has no SkipVerify (the library's verifier has no policy for a reference without `@`)
  resolveOk : Bool         -- registry: Repository.Resolve answers with a descriptor (`artifact`), not with an error
  refForm : String         -- registry: how the repository part of the reference is spelled
                           -- (concretisation only: must not matter)
  plugin : Bool            -- the signature names an installed verification plugin that owns the identity check
                           -- and approves (concretisation only: the payload is checked all the same)
  blobLen : Nat            -- blob: the number of bytes the reader delivers before io.EOF. `artifact` is the descriptor
                           -- of ALL of them (the harness hashes the whole stream by its own route), so the decision
                           -- does not depend on the length (theorem `blob_length_irrelevant`); 0 for oci
  boundary : Nat           -- blob: the size cap (a constant read from the source tree, or a customary buffer / limit
                           -- size) next to which `blobLen` was chosen; 0 = none (concretisation only: must not matter)
  deriving Repr, FromJson, ToJson

structure Obs where
  accepted : Bool              -- the error returned is nil
  outcomeError : Option Bool   -- outcome.Error != nil (none when no outcome is returned)
  payload : Option Desc        -- on success: target descriptor decoded from outcome.EnvelopeContent.Payload
  returned : Option Desc       -- blob / registry, on success: descriptor returned by notation.VerifyBlob /
                               -- notation.Verify (annotations dropped)
  deriving DecidableEq, Repr, FromJson, ToJson

/-- `content.Equal` of oras-go -/
def ociEqual (p a : Desc) : Bool := p.size == a.size && p.digest == a.digest && p.mediaType == a.mediaType

/-- the comparison in `verifier.VerifyBlob` -/
def blobMismatch (p a : Desc) : Bool :=
  a.digest != p.digest || a.size != p.size || (a.mediaType != "" && a.mediaType != p.mediaType)

/-- `verifyUserMetadata`: Go map lookup with presence check -/
def metadataOk (p : Desc) (required : List (String × String)) : Bool :=
  required.all (fun kv => p.annotations.lookup kv.1 == some kv.2)

def reject : Obs := { accepted := false, outcomeError := some true, payload := none, returned := none }

/-- the verification goes through `notation.Verify` and a repository -/
def registry (i : Input) : Bool := i.kind == .oci && i.viaRegistry

/-- `verifier.Verify` / `notation.VerifyBlob` for the descriptor `i.artifact` -/
def core (i : Input) : Obs :=
  if i.skip then
    -- outcome without envelope content; the blob wrapper returns the zero descriptor
    { accepted := true, outcomeError := some false, payload := none, returned := none }
  -- verifyIntegrity: the early return does not consult the action
  else if !i.parseOk || !i.integrityOk || !i.payloadTypeOk then reject
  else if !i.rest then reject
  else match i.decoded with
    | none => reject
    | some p =>
      if i.kind == .blob && !i.hashSupported then reject
      else
        let mismatch := match i.kind with
          | .oci => !ociEqual p i.artifact
          | .blob => blobMismatch p i.artifact
        -- the metadata step only ever *sets* the error
        let err := mismatch || (!i.required.isEmpty && !metadataOk p i.required)
        if err then reject
        else { accepted := true, outcomeError := some false, payload := some p,
               returned := match i.kind with
                 | .blob => some { p with annotations := [] }
                 -- notation.Verify returns the descriptor the repository resolved the reference to
                 | .oci => if i.viaRegistry then some { i.artifact with annotations := [] } else none }

/-- `notation.Verify` before any signature is looked at: the reference must resolve, and a digest
reference must name exactly the digest of the descriptor the repository answers with (string
comparison: a digest of another algorithm is another digest). The library's verifier answers
`SkipVerify` before anything is resolved; a caller's Verifier without `SkipVerify` (tag references)
is only asked once the reference is resolved. -/
def refused (i : Input) : Bool :=
  registry i && match i.refDigest with
    | some d => !i.skip && (!i.resolveOk || d != i.artifact.digest)
    | none => !i.resolveOk

def run (i : Input) : Obs := if refused i then reject else core i

/-- the digest of the artifact the caller asked to verify: the one a digest reference pins, else the
digest of the descriptor under verification -/
def pinnedDigest (i : Input) : String :=
  if registry i then i.refDigest.getD i.artifact.digest else i.artifact.digest

/-! ### the property over observables -/

def clauses (i : Input) (o : Obs) : Clauses :=
  let acc := o.accepted && !i.skip
  [ ("accepted_only_if_envelope_intact",
      !acc || (i.parseOk && i.integrityOk)),
    ("accepted_only_if_notary_payload",
      !acc || (i.payloadTypeOk && i.decoded.isSome)),
    ("accepted_only_if_other_validations_accept", !acc || i.rest),
    ("accepted_only_if_target_is_the_artifact",
      !acc || match i.decoded with
        | some p => p.digest == pinnedDigest i && p.size == i.artifact.size &&
            (match i.kind with
             | .oci => p.mediaType == i.artifact.mediaType
             | .blob => i.artifact.mediaType == "" || p.mediaType == i.artifact.mediaType)
        | none => false),
    ("accepted_only_if_required_metadata_signed",
      !acc || match i.decoded with
        | some p => i.required.all (fun kv => p.annotations.lookup kv.1 == some kv.2)
        | none => false),
    ("reported_payload_is_the_signed_payload",
      !acc || o.payload == i.decoded),
    ("blob_returns_the_verified_descriptor",
      !(acc && i.kind == .blob) || match o.returned, i.decoded with
        | some r, some p => r.digest == p.digest && r.size == p.size && r.mediaType == p.mediaType
        | _, _ => false),
    -- the same binding said for the stream: when the descriptor under verification counts every byte the
    -- reader delivers (which is what the harness presents), the signed size is the length of the stream
    ("blob_accepted_only_if_every_delivered_byte_is_signed",
      !(acc && i.kind == .blob && i.artifact.size == Int.ofNat i.blobLen) || match i.decoded with
        | some p => p.size == Int.ofNat i.blobLen
        | none => false),
    ("registry_accepted_only_if_reference_resolves",
      !(acc && registry i) || i.resolveOk),
    ("registry_returns_the_verified_descriptor",
      !(acc && registry i) || match o.returned, i.decoded with
        | some r, some p => r.digest == p.digest && r.size == p.size && r.mediaType == p.mediaType
        | _, _ => false),
    ("error_and_outcome_consistent",
      match o.outcomeError with
      | some e => e == !o.accepted
      | none => !o.accepted) ]

def Holds (i : Input) (o : Obs) : Bool := (clauses i o).holds

def judge := judgeWith run clauses

end NotationModel.C01

/- C01 - model (stub: not built yet) -/
import NotationModel.Basic
open Lean

namespace NotationModel.C01

def judge (_ : Json) : Except String Json := .error "C01: model not built yet"

end NotationModel.C01

/-
C18 - model of the plugin signer (signer/plugin.go, signer/signer.go, plugin/proto/algorithm.go):
`PluginSigner.Sign` / `SignBlob` against a scripted `plugin.SignPlugin`.

* envelope-generator path (`generateSignatureEnvelope`): format echo, ParseEnvelope, self-verify,
  payload content type, Go struct-decode of the payload into `envelope.Payload` (`goDecodePayload`,
  a model of encoding/json for that type: ordered keys WITH duplicates, exact field name first
  else case-insensitive, values are decoded INTO the current field value, `null` is a no-op on
  strings/ints and zeroes maps), descriptor equality + annotation preservation
  (`isPayloadDescriptorValid`), and the unknown-field scan over the *map* decoding with exact keys
  (`areUnknownAttributesAdded`, last duplicate wins; the type assertion is the checked two-value
  form - `scanUnknown false` shows what the unchecked form did); since 95bb17e also
  `findDuplicateKey` (any object, at any depth, repeating a member name is refused). That the code
  really has this shape is proved from the TRANSLATED source (Props/C18.lean, section Tie).
* signature-generator path (`getKeySpec`, `generateSignature`, `pluginPrimitiveSigner.Sign`,
  `GenericSigner.Sign`): key id echo of DescribeKey, key spec decoding, key id echo of
  GenerateSignature, certificate chain parsing, chain / algorithm validation and self-verification
  of the locally built envelope by notation-core-go.

The cryptographic facts of a scenario are abstract inputs (`sigMode`, `chain`, and `sigEnc`: the wire form
of the signature bytes - fixed r||s / PSS octets, DER SEQUENCE, forged / padded / cut / text); the JSON payload
is a full AST.  The outcome type keeps a panic distinct from an error.
-/
import NotationModel.Basic
import NotationModel.Generated.C18
open Lean

namespace NotationModel.C18

/-! ### JSON documents as the plugin wrote them (ordered, duplicates kept) -/

inductive JVal where
  | null
  | bool (b : Bool)
  | num (n : Int)
  | str (s : String)
  | arr (xs : List JVal)
  | obj (kvs : List (String × JVal))
  deriving Repr, Inhabited

/-- wire form: `["z"]`, `["b",true]`, `["n",12]`, `["s","text"]`, `["a",[…]]`, `["o",[[key,val],…]]`
(an explicit AST: `Lean.Json.parse` would drop duplicate keys and their order) -/
partial def JVal.ofJson (j : Json) : Except String JVal := do
  let a ← j.getArr?
  let tag ← match a[0]? with
    | some t => t.getStr?
    | none => throw "JVal: empty node"
  let arg : Except String Json := match a[1]? with
    | some x => pure x
    | none => throw s!"JVal: node {tag} without argument"
  match tag with
  | "z" => pure .null
  | "b" => do pure (.bool (← (← arg).getBool?))
  | "n" => do pure (.num (← (← arg).getInt?))
  | "s" => do pure (.str (← (← arg).getStr?))
  | "a" => do
    let xs ← (← arg).getArr?
    pure (.arr (← xs.toList.mapM JVal.ofJson))
  | "o" => do
    let xs ← (← arg).getArr?
    let kvs ← xs.toList.mapM (fun kv => do
      let p ← kv.getArr?
      match p[0]?, p[1]? with
      | some k, some v => do pure ((← k.getStr?), (← JVal.ofJson v))
      | _, _ => throw "JVal: object member is not a pair")
    pure (.obj kvs)
  | t => throw s!"JVal: unknown tag {t}"

instance : FromJson JVal := ⟨JVal.ofJson⟩

abbrev Members := List (String × JVal)

/-- what a map-based JSON reader sees under an exact key: the last member of that name -/
def lookupLast (k : String) : Members → Option JVal
  | [] => none
  | (k', v) :: r =>
    match lookupLast k r with
    | some w => some w
    | none => if k' == k then some v else none

def keysOf (kvs : Members) : List String := kvs.map (·.1)

def nodupB : List String → Bool
  | [] => true
  | k :: r => !r.contains k && nodupB r

mutual
/-- `findDuplicateKey`: some JSON object of the document, at any depth, repeats a member name -/
def JVal.dupDeep : JVal → Bool
  | .arr xs => dupInList xs
  | .obj kvs => !nodupB (kvs.map (·.1)) || dupInMembers kvs
  | _ => false
def dupInList : List JVal → Bool
  | [] => false
  | x :: r => x.dupDeep || dupInList r
def dupInMembers : List (String × JVal) → Bool
  | [] => false
  | kv :: r => kv.2.dupDeep || dupInMembers r
end

/-! ### `findDuplicateKey` as the token state machine it is

The Go function walks `json.Decoder` tokens with an explicit stack of frames (one per open object /
array; an object frame holds the names seen and whether a member name is expected next). The
machine below is a transcription; what each delimiter does to the stack is read from the source
(`Facts.c18DupScannerDelims`). `Props/C18.lean` proves that it computes `JVal.dupDeep` for ALL
documents (`scanner_computes_dupDeep`). -/

inductive Tok | lbrace | rbrace | lbrack | rbrack | str (s : String) | other
  deriving DecidableEq, Repr

mutual
/-- the tokens `json.Decoder.Token` yields for a document -/
def JVal.tokens : JVal → List Tok
  | .null => [.other]
  | .bool _ => [.other]
  | .num _ => [.other]
  | .str s => [.str s]
  | .arr xs => .lbrack :: (tokensList xs ++ [.rbrack])
  | .obj kvs => .lbrace :: (tokensMembers kvs ++ [.rbrace])
def tokensList : List JVal → List Tok
  | [] => []
  | x :: r => x.tokens ++ tokensList r
def tokensMembers : List (String × JVal) → List Tok
  | [] => []
  | kv :: r => .str kv.1 :: (kv.2.tokens ++ tokensMembers r)
end

/-- `frame`: `keys = none` for an array -/
structure Frame where
  keys : Option (List String)
  expectKey : Bool
  deriving DecidableEq, Repr

inductive Act | pushObject | pushArray | pop | rearm
  deriving DecidableEq, Repr

def actOf : String → Option Act
  | "pushObject" => some .pushObject
  | "pushArray" => some .pushArray
  | "pop" => some .pop
  | "rearm" => some .rearm
  | _ => none

/-- the stack, top first -/
def applyAct (st : List Frame) : Act → List Frame
  | .pushObject => ⟨some [], true⟩ :: st
  | .pushArray => ⟨none, false⟩ :: st
  | .pop => st.tail
  | .rearm =>
    match st with
    | f :: r => if f.keys.isSome then { f with expectKey := true } :: r else f :: r
    | [] => []

/-- what the four delimiters do -/
structure DelimTable where
  lbrace : List Act
  lbrack : List Act
  rbrace : List Act
  rbrack : List Act
  deriving DecidableEq, Repr

/-- the table as the switch of the source says it: the case of the delimiter, else `default`;
an action the extractor did not recognise empties the entry -/
def tableOf (rows : List (String × List String)) : DelimTable :=
  let acts (label : String) : List Act :=
    let names := (rows.lookup label).getD ((rows.lookup "default").getD [])
    if names.all (fun n => (actOf n).isSome) then names.filterMap actOf else []
  ⟨acts "{", acts "[", acts "}", acts "]"⟩

def canonTable : DelimTable := ⟨[.pushObject], [.pushArray], [.pop, .rearm], [.pop, .rearm]⟩

/-- one token; `none`: a repeated member name was found -/
def tokStep (tbl : DelimTable) (st : List Frame) : Tok → Option (List Frame)
  | .lbrace => some (tbl.lbrace.foldl applyAct st)
  | .lbrack => some (tbl.lbrack.foldl applyAct st)
  | .rbrace => some (tbl.rbrace.foldl applyAct st)
  | .rbrack => some (tbl.rbrack.foldl applyAct st)
  | t =>
    match st with
    | [] => some []
    | f :: r =>
      match f.keys with
      | none => some (f :: r)
      | some ks =>
        if f.expectKey then
          let key := match t with | .str s => s | _ => ""      -- `key, _ := tok.(string)`
          if ks.contains key then none else some (⟨some (key :: ks), false⟩ :: r)
        else some (⟨some ks, true⟩ :: r)                       -- a scalar member value

def scan (tbl : DelimTable) (st : List Frame) : List Tok → Bool
  | [] => false
  | t :: r =>
    match tokStep tbl st t with
    | none => true
    | some st' => scan tbl st' r

/-- `findDuplicateKey(content)` reports a duplicate -/
def scanDup (p : JVal) : Bool := scan (tableOf Facts.c18DupScannerDelims) [] p.tokens

/-! ### encoding/json: field selection -/

/-- simple case folding as far as it can reach an ASCII field name: ASCII letters, U+017F (long s)
and U+212A (Kelvin sign) - the only non-ASCII runes whose fold orbit contains an ASCII letter -/
def foldChar (c : Char) : Char :=
  if c = '\u017F' then 's' else if c = '\u212A' then 'k' else c.toLower

def foldName (s : String) : List Char := s.toList.map foldChar

/-- encoding/json: the field with exactly that name, else the first one equal under folding -/
def matchField (names : List String) (key : String) : Option String :=
  if names.contains key then some key else names.find? (fun n => foldName n == foldName key)

/-! ### encoding/json: decoding INTO a current value (only what `envelope.Payload` needs) -/

def decStr (cur : String) : JVal → Option String
  | .null => some cur
  | .str s => some s
  | _ => none

def int64Ok (n : Int) : Bool := decide (-9223372036854775808 ≤ n) && decide (n ≤ 9223372036854775807)

def decInt64 (cur : Int) : JVal → Option Int
  | .null => some cur
  | .num n => if int64Ok n then some n else none
  | _ => none

def strOrNull : JVal → Bool
  | .null => true
  | .str _ => true
  | _ => false

/-- `[]string`: only the absence of a type error matters, the content is never looked at -/
def strSliceOk : JVal → Bool
  | .null => true
  | .arr xs => xs.all strOrNull
  | _ => false

def byteOk : JVal → Bool
  | .null => true
  | .num n => decide (0 ≤ n) && decide (n ≤ 255)
  | _ => false

def b64Char (c : Char) : Bool := c.isAlphanum || c == '+' || c == '/'

/-- base64.StdEncoding (padded, non-strict) after dropping CR / LF -/
def b64Quanta : List Char → Bool
  | [] => true
  | [a, b, c, d] =>
    b64Char a && b64Char b && ((b64Char c && (b64Char d || d == '=')) || (c == '=' && d == '='))
  | a :: b :: c :: d :: r => b64Char a && b64Char b && b64Char c && b64Char d && b64Quanta r
  | _ => false

def b64Ok (s : String) : Bool := b64Quanta (s.toList.filter (fun c => c != '\r' && c != '\n'))

/-- `[]byte`: a base64 string, or an array of small numbers -/
def bytesOk : JVal → Bool
  | .null => true
  | .str s => b64Ok s
  | .arr xs => xs.all byteOk
  | _ => false

def platformFields : List String := ["architecture", "os", "os.version", "os.features", "variant"]

def platformMemberOk (kv : String × JVal) : Bool :=
  match matchField platformFields kv.1 with
  | none => true
  | some f => if f == "os.features" then strSliceOk kv.2 else strOrNull kv.2

/-- `*ocispec.Platform` -/
def platformOk : JVal → Bool
  | .null => true
  | .obj kvs => kvs.all platformMemberOk
  | _ => false

/-- the part of a decoded `ocispec.Descriptor` that is looked at afterwards;
`annotations`: most recent binding first -/
structure GoDesc where
  mediaType : String := ""
  digest : String := ""
  size : Int := 0
  annotations : List (String × String) := []
  deriving DecidableEq, Repr

/-- members of a JSON object decoded into a `map[string]string` (later members overwrite) -/
def decAnnEntries (cur : List (String × String)) : Members → Option (List (String × String))
  | [] => some cur
  | (k, v) :: r =>
    match decStr "" v with
    | some s => decAnnEntries ((k, s) :: cur) r
    | none => none

def decAnnotations (cur : List (String × String)) : JVal → Option (List (String × String))
  | .null => some []
  | .obj kvs => decAnnEntries cur kvs
  | _ => none

/-- JSON names of the fields of `ocispec.Descriptor` (image-spec v1.1.1), in struct order -/
def descFields : List String :=
  ["mediaType", "digest", "size", "urls", "annotations", "data", "platform", "artifactType"]

def decDescField (cur : GoDesc) (key : String) (v : JVal) : Option GoDesc :=
  match matchField descFields key with
  | none => some cur                       -- unknown members are skipped
  | some f =>
    if f == "mediaType" then (decStr cur.mediaType v).map (fun s => { cur with mediaType := s })
    else if f == "digest" then (decStr cur.digest v).map (fun s => { cur with digest := s })
    else if f == "size" then (decInt64 cur.size v).map (fun n => { cur with size := n })
    else if f == "annotations" then
      (decAnnotations cur.annotations v).map (fun a => { cur with annotations := a })
    else if f == "urls" then (if strSliceOk v then some cur else none)
    else if f == "data" then (if bytesOk v then some cur else none)
    else if f == "platform" then (if platformOk v then some cur else none)
    else (if strOrNull v then some cur else none)      -- artifactType

def decDescFields (cur : GoDesc) : Members → Option GoDesc
  | [] => some cur
  | (k, v) :: r =>
    match decDescField cur k v with
    | some c => decDescFields c r
    | none => none

def decDesc (cur : GoDesc) : JVal → Option GoDesc
  | .null => some cur
  | .obj kvs => decDescFields cur kvs
  | _ => none

def decPayloadFields (cur : GoDesc) : Members → Option GoDesc
  | [] => some cur
  | (k, v) :: r =>
    match matchField Facts.c18PayloadFields k with
    | none => decPayloadFields cur r
    | some _ =>
      match decDesc cur v with
      | some c => decPayloadFields c r
      | none => none

/-- `json.Unmarshal(content, &envelope.Payload{})`: `none` = an error is returned -/
def goDecodePayload : JVal → Option GoDesc
  | .null => some {}
  | .obj kvs => decPayloadFields {} kvs
  | _ => none

/-! ### the scenario -/

inductive Api | sign | signBlob
  deriving DecidableEq, Repr, FromJson, ToJson
inductive Cap | envelope | raw | both | neither
  deriving DecidableEq, Repr, FromJson, ToJson
inductive Fmt | jws | cose
  deriving DecidableEq, Repr, FromJson, ToJson
inductive KS | rsa2048 | rsa3072 | rsa4096 | ec256 | ec384 | ec521
  deriving DecidableEq, Repr, FromJson, ToJson
/-- which plugin command fails outright -/
inductive PluginErr | noErr | metadata | describeKey | generate
  deriving DecidableEq, Repr, FromJson, ToJson
/-- how the (raw or envelope) signature relates to the signed bytes:
`good`; `flipped` (a bit changed); `otherKey` (made with another key of the same spec);
`wrongHash` (made with a hash of another size); `emptySig` -/
inductive SigMode | good | flipped | otherKey | wrongHash | emptySig
  deriving DecidableEq, Repr, FromJson, ToJson
/-- the WIRE FORM of the signature bytes the plugin answers with (raw path) / puts into its envelope (envelope path).
The plugin contract and both envelope formats take exactly one form: RSASSA-PSS as the modulus-sized octet string,
ECDSA as the fixed-size `r || s` (each integer in ceil(keysize / 8) octets: 32 / 48 / 66). `fixed` is that form; every
other value is the same signature (of `sigMode`), split in two halves `r`, `s`, written another way:
`der` ASN.1 DER `SEQUENCE { INTEGER r, INTEGER s }` (what key vaults and `ecdsa.SignASN1` answer);
`derWideR` / `derWideS` that SEQUENCE with `r` / `s` replaced by 2^(8·len): one bit wider than the field;
`derHuge` `r` replaced by a number of more than twice the signature's bits; `derNegative` `r` negated; `derZero` both 0;
`derTrailing` a byte after the SEQUENCE; `derTruncated` its last byte missing;
`padded` a zero octet before each half; `truncated` last octet missing; `extended` a zero octet appended;
`doubled` the signature twice; `oneByte` its first octet only; `b64` / `hex` the octets as base64 / hex text.
None of them is a signature as it stands: the verifiers of notation-core-go (JWS and COSE) take the exact length only,
and the signer hands the plugin's bytes over unchanged. -/
inductive SigEnc | fixed | der | derWideR | derWideS | derHuge | derNegative | derZero | derTrailing | derTruncated
  | padded | truncated | extended | doubled | oneByte | b64 | hex
  deriving DecidableEq, Repr, FromJson, ToJson
/-- the certificate chain the plugin answers with (raw path) / embeds (envelope path):
`ok` root→leaf for the plugin's key; `selfSigned` one self-signed leaf for it; `empty`;
`garbage` (bytes that are no certificate); `otherKey` a valid chain for another key of the same
spec; `otherSpec` a valid chain for a key of the next spec -/
inductive Chain | ok | selfSigned | empty | garbage | otherKey | otherSpec
  deriving DecidableEq, Repr, FromJson, ToJson

/-- `response.SignatureEnvelopeType`: the requested media type; the media type of the OTHER registered
format (truthful when the plugin answered in that format, see `envFmt`); empty; something else -/
inductive Echo | requested | otherFormat | empty | junk
  deriving DecidableEq, Repr, FromJson, ToJson
/-- the blob descriptor generator handed to SignBlob: `fixed` answers every call with the requested
descriptor; `stream` digests a one-shot reader with the algorithm it is asked for, as the generator of
`notation.SignBlob` does (first call: the blob's descriptor, later calls: that of the EMPTY blob);
`failing` returns an error -/
inductive Gen | fixed | stream | failing
  deriving DecidableEq, Repr, FromJson, ToJson

/-- how the envelope bytes the plugin hands over are framed: `asIs`; `untagged` (first byte dropped: a COSE_Sign1
without its tag 18); `doubleTag` (first byte repeated); `trailingByte` (a byte after the message); `indefinite`
(COSE: the four-element array in indefinite-length encoding; JWS: a second JSON value appended); `jsonWs` (JSON
blanks before and after: fine for JWS, no CBOR) -/
inductive Wrap | asIs | untagged | doubleTag | trailingByte | indefinite | jsonWs
  deriving DecidableEq, Repr, FromJson, ToJson

/-- an EARLIER call on the same PluginSigner value: the scenario of the main call with these answers instead
(and, for SignBlob, a generator that simply returns the requested descriptor) -/
structure Step where
  api : Api
  cap : Cap
  dkKeyIdOk : Bool
  dkKeySpec : String
  gsKeyIdOk : Bool
  echo : Echo
  sigMode : SigMode
  deriving Repr, FromJson

structure Desc where
  mediaType : String
  digest : String
  size : Int
  annotations : List (String × String)
  deriving Repr, FromJson

structure Input where
  api : Api
  cap : Cap
  format : Fmt               -- requested envelope format
  key : KS                   -- the key the plugin signs with
  req : Desc                 -- requested descriptor (SignBlob: what the generator returns)
  pluginErr : PluginErr
  -- DescribeKey
  dkKeyIdOk : Bool
  dkKeySpec : String         -- wire text of the key spec
  -- GenerateEnvelope
  echo : Echo                -- what response.SignatureEnvelopeType names
  envFmt : Fmt               -- the format really produced
  garbage : Bool             -- envelope bytes that do not parse
  ctypeOk : Bool             -- protected content type = Notary payload type
  payload : JVal             -- the (first) JSON document of the signed payload
  lead : String              -- bytes the plugin wrote BEFORE that document (blanks, BOM, junk …)
  trail : String             -- bytes it wrote AFTER it (blanks, a second document, `]`, …)
  spaced : Bool              -- the document is rendered with insignificant blanks between tokens
  -- GenerateSignature
  gsKeyIdOk : Bool
  gsAlg : String             -- response.SigningAlgorithm (never read by the code)
  -- both
  sigMode : SigMode
  sigEnc : SigEnc := .fixed  -- wire form of the signature bytes (every call on the signer value: the plugin's habit)
  chain : Chain
  gen : Gen                  -- SignBlob: the descriptor generator (`req` is the blob's descriptor under the
                             -- digest algorithm that goes with the key spec)
  blob : String              -- SignBlob with a stream generator: the blob (the harness digests it; not read here)
  honest : Bool              -- the plugin signs the request's payload bytes as they are (`payload` is then the
                             -- canonical payload of `req`); not read here
  wrap : Wrap                -- framing of the envelope bytes
  history : List Step        -- earlier calls on the same signer value (own per-call PluginConfig, own answers)
  dupKeys : Bool             -- redundant: `payload.dupDeep` (checked by a clause)
  emptyAnnMap : Bool         -- the request carries an empty non-nil annotation map (nothing reads the difference)
  deriving Repr, FromJson

/-- the response names the requested envelope type -/
def Input.echoOk (i : Input) : Bool := i.echo == .requested

inductive Outcome | sig | err | panic
  deriving DecidableEq, Repr, FromJson, ToJson

structure Obs where
  outcome : Outcome
  payloadOk : Bool   -- sig: what is returned parses with the parser of the REQUESTED format AND VERIFIES under its own
                     -- chain, is byte for byte what the plugin handed over and was checked (envelope path) / carries the
                     -- canonical payload of the request (raw path), and carries exactly the checked payload bytes
  leafOk : Bool      -- sig: signerInfo's leaf certificate is the leaf of the plugin's chain
  earlier : List Outcome   -- the outcomes of the earlier calls on the same signer value, in call order
  deriving DecidableEq, Repr, FromJson, ToJson

def errObs : Obs := ⟨.err, false, false, []⟩
def sigObs : Obs := ⟨.sig, true, true, []⟩
def panicObs : Obs := ⟨.panic, false, false, []⟩

/-! ### codecs (tables regenerated from plugin/proto/algorithm.go) -/

abbrev Spec := String × Nat

def KS.spec : KS → Spec
  | .rsa2048 => ("RSA", 2048) | .rsa3072 => ("RSA", 3072) | .rsa4096 => ("RSA", 4096)
  | .ec256 => ("EC", 256) | .ec384 => ("EC", 384) | .ec521 => ("EC", 521)

def KS.next : KS → KS
  | .rsa2048 => .rsa3072 | .rsa3072 => .rsa4096 | .rsa4096 => .ec256
  | .ec256 => .ec384 | .ec384 => .ec521 | .ec521 => .rsa2048

def encodeKeySpec (k : Spec) : Option String := Facts.c18EncodeKeySpec.lookup k
def decodeKeySpec (s : String) : Option Spec := Facts.c18DecodeKeySpec.lookup s
def hashFromKeySpec (k : Spec) : Option String := Facts.c18HashFromKeySpec.lookup k
def encodeSigAlg (a : String) : Option String := Facts.c18EncodeSigAlg.lookup a
def decodeSigAlg (s : String) : Option String := Facts.c18DecodeSigAlg.lookup s

/-- notation-core-go `KeySpec.SignatureAlgorithm()` (library, not regenerated) -/
def sigAlgOf : Spec → Option String
  | ("RSA", 2048) => some "PS256" | ("RSA", 3072) => some "PS384" | ("RSA", 4096) => some "PS512"
  | ("EC", 256) => some "ES256" | ("EC", 384) => some "ES384" | ("EC", 521) => some "ES512"
  | _ => none

/-- notation-core-go `Algorithm.Hash()` as (crypto hash name, plugin wire name) -/
def hashOfAlg : String → Option (String × String)
  | "PS256" => some ("SHA256", "SHA-256") | "ES256" => some ("SHA256", "SHA-256")
  | "PS384" => some ("SHA384", "SHA-384") | "ES384" => some ("SHA384", "SHA-384")
  | "PS512" => some ("SHA512", "SHA-512") | "ES512" => some ("SHA512", "SHA-512")
  | _ => none

/-- `getDescriptor`: the digest algorithm SignBlob hands to the descriptor generator -/
def blobDigestAlg (k : Spec) : Option String :=
  match sigAlgOf k with
  | some a => match hashOfAlg a with
    | some (h, _) => Facts.c18DigestAlgorithms.lookup h
    | none => none
  | none => none

/-! ### the checks, as coded -/

/-- `isPayloadDescriptorValid`: `content.Equal` on (size, digest, mediaType), then every
original annotation present with the same value -/
def descValid (req : Desc) (d : GoDesc) : Bool :=
  d.size == req.size && d.digest == req.digest && d.mediaType == req.mediaType &&
  req.annotations.all (fun kv => d.annotations.lookup kv.1 == some kv.2)

inductive Scan | panic | unknown (keys : List String)
  deriving Repr

def isKnownKey (k : String) : Bool := Facts.c18KnownDescriptorKeys.contains k

/-- `areUnknownAttributesAdded` on the map decoding of the payload (exact keys, last wins).
`checked`: the type assertion is the two-value form guarded by `if !ok { return … }`. -/
def scanUnknown (checked : Bool) : JVal → Scan
  | .obj kvs =>
    match lookupLast Facts.c18TargetKey kvs with
    | some (.obj d) =>
      .unknown ((keysOf d).filter (fun k => !isKnownKey k) ++
                (keysOf kvs).filter (fun k => k != Facts.c18TargetKey))
    | _ => if checked then .unknown (keysOf kvs) else .panic
  | _ => if checked then .unknown [] else .panic     -- nil map: no "targetArtifact" entry

/-- JSON insignificant whitespace only (RFC 8259: space, tab, LF, CR) -/
def jsonWs (s : String) : Bool :=
  s.toList.all (fun c => c == ' ' || c == '\t' || c == '\n' || c == '\r')

/-- the registered parser of the format accepts the framing -/
def wrapParses (i : Input) : Bool := i.wrap == .asIs || (i.wrap == .jsonWs && i.envFmt == .jws)

/-- the payload bytes are ONE JSON document: `json.Unmarshal` (whole-input syntax check) accepts
nothing but insignificant whitespace around the value -/
def singleDocument (i : Input) : Bool := jsonWs i.lead && jsonWs i.trail

/-- the signature verifies under the leaf of the chain (it was made with the key that leaf
certifies: the plugin's key under its own chains, or the other key under the other key's
chain), core-go accepts the chain, and the signature bytes are in the one wire form the
envelope formats take (the signer converts nothing: `pluginPrimitiveSigner.Sign` hands
`resp.Signature` over as it is) -/
def verifyOk (i : Input) : Bool :=
  ((i.sigMode == .good && (i.chain == .ok || i.chain == .selfSigned)) ||
   (i.sigMode == .otherKey && i.chain == .otherKey)) && i.sigEnc == .fixed

/-- the bytes still determine the signature octets (a re-encoding without loss: a signer that normalised such an
answer before building its envelope would hand out an envelope that verifies); the others are forged or mutilated -/
def SigEnc.lossless : SigEnc → Bool
  | .fixed | .der | .derTrailing | .padded | .extended | .doubled | .b64 | .hex => true
  | .derWideR | .derWideS | .derHuge | .derNegative | .derZero | .derTruncated | .truncated | .oneByte => false

/-- what the PROPERTY asks of a raw-signature answer: the plugin answered with a signature made by the key the
chain's leaf certifies, and the answer still carries it. (The code asks more - `verifyOk`: the fixed wire form -
because it converts nothing; the property does not forbid a conversion, it forbids returning anything that does not
verify, and panicking.) -/
def sigGenuine (i : Input) : Bool :=
  ((i.sigMode == .good && (i.chain == .ok || i.chain == .selfSigned)) ||
   (i.sigMode == .otherKey && i.chain == .otherKey)) && i.sigEnc.lossless

/-- key spec of the leaf certificate of the answered chain -/
def leafSpec (i : Input) : Option Spec :=
  match i.chain with
  | .ok | .selfSigned | .otherKey => some i.key.spec
  | .otherSpec => some i.key.next.spec
  | .empty | .garbage => none

/-- `getKeySpec`: DescribeKey, key id echo, `proto.DecodeKeySpec` -/
def getKeySpec (i : Input) : Option Spec :=
  if i.pluginErr == .describeKey then none
  else if !i.dkKeyIdOk then none
  else decodeKeySpec i.dkKeySpec

/-- `generateSignatureEnvelope` -/
def envelopePath (i : Input) : Obs :=
  if i.pluginErr == .generate then errObs
  else if !i.echoOk then errObs
  else if i.garbage || i.envFmt != i.format || !wrapParses i then errObs   -- signature.ParseEnvelope
  else if !verifyOk i then errObs                             -- sigEnv.Verify()
  else if !i.ctypeOk then errObs                              -- ValidatePayloadContentType
  else if !singleDocument i then errObs                       -- json.Unmarshal: syntax check of ALL bytes
  else match goDecodePayload i.payload with
    | none => errObs
    | some d =>
      if i.payload.dupDeep then errObs                         -- findDuplicateKey
      else if !descValid i.req d then errObs
      else match scanUnknown true i.payload with             -- the assertion is the checked form
        | .panic => panicObs
        | .unknown ks => if ks.isEmpty then sigObs else errObs

/-- `generateSignature` → `GenericSigner.Sign` with `pluginPrimitiveSigner` -/
def rawPath (i : Input) (ks : Spec) : Obs :=
  match encodeKeySpec ks, hashFromKeySpec ks, sigAlgOf ks with
  | some _, some _, some alg =>
    if i.pluginErr == .generate then errObs
    else if !i.gsKeyIdOk then errObs
    else if i.chain == .garbage then errObs                   -- parseCertChain
    else match leafSpec i with
      | none => errObs                                        -- empty chain
      | some l =>
        if sigAlgOf l != some alg then errObs                 -- validateCertificateChain
        else if !verifyOk i then errObs                       -- sigEnv.Verify()
        else sigObs
  | _, _, _ => errObs

def hasRaw (c : Cap) : Bool := c == .raw || c == .both
def hasEnvelope (c : Cap) : Bool := c == .envelope || c == .both

def run (i : Input) : Obs :=
  if i.pluginErr == .metadata then errObs
  else match i.api with
  | .sign =>
    if hasRaw i.cap then
      match getKeySpec i with
      | none => errObs
      | some ks => rawPath i ks
    else if hasEnvelope i.cap then envelopePath i
    else errObs
  | .signBlob =>
    match getKeySpec i with
    | none => errObs
    | some ks =>
      match blobDigestAlg ks with
      | none => errObs
      | some _ =>
        if i.gen == .failing then errObs          -- the generator is called ONCE, with that algorithm
        else if hasRaw i.cap then rawPath i ks
        else if hasEnvelope i.cap then envelopePath i
        else errObs

/-- the scenario of an earlier call -/
def Step.apply (s : Step) (i : Input) : Input :=
  { i with api := s.api, cap := s.cap, dkKeyIdOk := s.dkKeyIdOk, dkKeySpec := s.dkKeySpec, gsKeyIdOk := s.gsKeyIdOk,
           echo := s.echo, sigMode := s.sigMode, gen := .fixed, history := [] }

/-- every call on a signer value is answered on its own: nothing is carried from call to call -/
def runAll (i : Input) : Obs :=
  { run i with earlier := i.history.map (fun s => (run (s.apply i)).outcome) }

/-! ### the property -/

/-- what a map-based reader (exact keys, last member wins, `null`/absent = zero value) makes of
the payload -/
def exactStr : Option JVal → Option String
  | none => some ""
  | some .null => some ""
  | some (.str s) => some s
  | _ => none

def exactInt : Option JVal → Option Int
  | none => some 0
  | some .null => some 0
  | some (.num n) => some n
  | _ => none

def exactAnn : Option JVal → Option (List (String × String))
  | none => some []
  | some .null => some []
  | some (.obj kvs) => decAnnEntries [] kvs
  | _ => none

/-- `lk`: how the reader resolves a member name (last member wins / first member wins) -/
def exactDescBy (lk : String → Members → Option JVal) (d : Members) : Option GoDesc :=
  match exactStr (lk "mediaType" d), exactStr (lk "digest" d),
        exactInt (lk "size" d), exactAnn (lk "annotations" d) with
  | some m, some g, some s, some a => some ⟨m, g, s, a⟩
  | _, _, _, _ => none

def exactViewBy (lk : String → Members → Option JVal) : JVal → Option GoDesc
  | .null => some {}
  | .obj kvs =>
    match lk "targetArtifact" kvs with
    | none => some {}
    | some .null => some {}
    | some (.obj d) => exactDescBy lk d
    | _ => none
  | _ => none

def lookupFirst (k : String) (m : Members) : Option JVal := m.lookup k

/-- a last-member-wins reader (Go / JavaScript / Python maps) -/
def exactView : JVal → Option GoDesc := exactViewBy lookupLast
/-- a first-member-wins reader -/
def firstView : JVal → Option GoDesc := exactViewBy lookupFirst

def sees (req : Desc) : Option GoDesc → Bool
  | some d => descValid req d
  | none => false

/-- duplicate member names at the top level or in the (last) target object -/
def hasDup : JVal → Bool
  | .obj kvs =>
    !nodupB (keysOf kvs) ||
      (match lookupLast "targetArtifact" kvs with
       | some (.obj d) => !nodupB (keysOf d)
       | _ => false)
  | _ => false

/-- payload conditions: only the exact key `targetArtifact` at the top level … -/
def topKeysExact : JVal → Bool
  | .obj kvs => (keysOf kvs).all (· == "targetArtifact")
  | _ => true

/-- … holding an object (when present at all) whose member names are all names of OCI descriptor
fields (the specification's own list `descFields`, not the list regenerated from the code) -/
def descKeysKnown : JVal → Bool
  | .obj kvs =>
    match lookupLast "targetArtifact" kvs with
    | some (.obj d) => (keysOf d).all descFields.contains
    | none => true
    | _ => false
  | _ => true

inductive Path | raw | envelope | refused
  deriving DecidableEq, Repr

def pathOf (i : Input) : Path :=
  if hasRaw i.cap then .raw else if hasEnvelope i.cap then .envelope else .refused

/-- the checks the property demands before a signature may be returned -/
def required (i : Input) : Bool :=
  match pathOf i with
  | .refused => false
  | .envelope =>
    i.echoOk && !i.garbage && i.envFmt == i.format && wrapParses i &&   -- requested format, as its parser reads it
    verifyOk i &&                                       -- verifies under its own chain
    i.ctypeOk &&                                        -- Notary payload type
    singleDocument i &&                                 -- the signed bytes are one JSON document …
    sees i.req (goDecodePayload i.payload) &&           -- … in which the Go reader sees the request
    topKeysExact i.payload && descKeysKnown i.payload   -- nothing unknown, exact spelling
  | .raw =>
    i.dkKeyIdOk && i.gsKeyIdOk &&                       -- answered for the requested key id
    decodeKeySpec i.dkKeySpec == some i.key.spec &&     -- key spec = the key that signed
    sigGenuine i                                        -- chain and signature fit that key

def reqWellFormed (r : Desc) : Bool := nodupB (r.annotations.map (·.1)) && int64Ok r.size

def clauses (i : Input) (o : Obs) : Clauses :=
  [ ("input_wellformed", reqWellFormed i.req && i.dupKeys == i.payload.dupDeep),
    ("never_panics", o.outcome != .panic),
    ("signature_only_if_checked", o.outcome != .sig || required i),
    ("exact_key_readers_see_requested",
      o.outcome != .sig || pathOf i != .envelope ||
        (sees i.req (exactView i.payload) && sees i.req (firstView i.payload))),
    ("unambiguous_payload",
      o.outcome != .sig || pathOf i != .envelope || !i.payload.dupDeep),
    ("returned_signature_is_the_checked_one", o.outcome != .sig || (o.payloadOk && o.leafOk)),
    ("earlier_calls_all_answered", o.earlier.length == i.history.length),
    ("earlier_calls_never_panic", o.earlier.all (· != .panic)),
    ("earlier_signature_only_if_checked",
      (o.earlier.zip i.history).all (fun p => p.1 != .sig || required (p.2.apply i))) ]

def Holds (i : Input) (o : Obs) : Bool := (clauses i o).holds

def judge := judgeWith runAll clauses

end NotationModel.C18

/- C18 - model (stub: not built yet) -/
import NotationModel.Basic
open Lean

namespace NotationModel.C18

def judge (_ : Json) : Except String Json := .error "C18: model not built yet"

end NotationModel.C18

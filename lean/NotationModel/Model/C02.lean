/-
C02 - model of `verifier.processSignature` (verifier/verifier.go) after a successful
integrity check: plugin discovery, the sequence of validations with their level actions,
early exit on a critical (enforce + failed) result, plugin execution and response
processing. The truth of each individual validation is an input of the scenario (their own
correctness is C03-C06); what is modelled here is how the level and the plugin decide.

Level computation (`effective`) mirrors `SignatureVerification.GetVerificationLevel` and is
defined over the tables regenerated from the source (`Facts.levels`, ...).
-/
import NotationModel.Basic
import NotationModel.Generated.Levels
open Lean

namespace NotationModel.C02

/-! ### levels (Go: map[ValidationType]ValidationAction, strings) -/

/-- a Go map from validation type to action; a missing key reads as the zero value `""` -/
abbrev Enf := List (String × String)

def Enf.get (e : Enf) (t : String) : String := (e.lookup t).getD ""

/-- Go `m[k] = v` on an association list (replace or append) -/
def Enf.set (e : Enf) (t a : String) : Enf :=
  if e.any (·.1 == t) then e.map (fun p => if p.1 == t then (t, a) else p) else e ++ [(t, a)]

def findLevel (name : String) : Option (String × Enf) :=
  -- the Go loop keeps the *last* level with that name
  (Facts.levels.filter (·.1 == name)).getLast?

/-- one iteration of the override loop of `GetVerificationLevel` -/
def applyOverride (acc : Except String Enf) (kv : String × String) : Except String Enf :=
  match acc with
  | .error e => .error e
  | .ok enf =>
    if !Facts.validationTypes.contains kv.1 || kv.1 == "" then .error "type"
    else if !Facts.validationActions.contains kv.2 || kv.2 == "" then .error "action"
    else if kv.1 == Facts.typeIntegrity then .error "integrity"
    else if kv.1 != Facts.typeRevocation && kv.2 == Facts.actionSkip then .error "skip"
    else .ok (enf.set kv.1 kv.2)

/-- `SignatureVerification.GetVerificationLevel`: (level name, enforcement map) -/
def effective (level : String) (override : List (String × String)) : Except String (String × Enf) :=
  if level == "" then .error "empty"
  else match findLevel level with
    | none => .error "unknown"
    | some (name, enf) =>
      if override.isEmpty then .ok (name, enf)
      else if name == "skip" then .error "skip-custom"
      else match override.foldl applyOverride (.ok enf) with
        | .error e => .error e
        | .ok enf' => .ok ("custom", enf')

/-! ### scenario -/

/-- the `io.cncf.notary.verificationPlugin` extended attribute of the signature -/
inductive PluginAttr
  | absent | notCritical | notString | blank | named
  deriving DecidableEq, Repr, FromJson, ToJson

/-- the `io.cncf.notary.verificationPluginMinVersion` extended attribute -/
inductive MinVerAttr
  | absent | notCritical | notString | blank | invalidSemver | valid
  deriving DecidableEq, Repr, FromJson, ToJson

/-- what the plugin manager / plugin answer when asked -/
inductive PluginState
  | managerNil | notInstalled | metadataError | installed
  deriving DecidableEq, Repr, FromJson, ToJson

/-- installed plugin version relative to the demanded minimum -/
inductive PluginVersion
  | invalidSemver | tooOld | ok
  deriving DecidableEq, Repr, FromJson, ToJson

inductive Trust
  | found          -- a chain certificate is in a loaded store
  | notFound       -- stores loaded, none matches
  | emptyStores    -- stores loaded but hold no certificate of the required type
  | storeError     -- a listed store cannot be loaded
  deriving DecidableEq, Repr, FromJson, ToJson

inductive Revocation
  | ok | revoked | unknown | validatorError
  deriving DecidableEq, Repr, FromJson, ToJson

/-- a verdict of the plugin for one capability -/
inductive Verdict
  | success | failure | missing
  deriving DecidableEq, Repr, FromJson, ToJson

/-- an extended attribute other than the two plugin headers -/
structure ExtAttr where
  key : String
  critical : Bool
  deriving DecidableEq, Repr, FromJson, ToJson

/-- one entry of the statement's `trustStores` list, in the order of the list (how the abstract
`trust` situation is concretised; the scheme of the signature needs `ca` stores) -/
inductive StoreKind
  | anchor            -- a `ca` store that loads and holds the trust anchor
  | other             -- a `ca` store that loads and holds only an unrelated certificate
  | empty             -- a `ca` store that loads and holds nothing (only a fake store can do that)
  | broken            -- a `ca` store that cannot be loaded (not provisioned / symlink / junk file / error)
  | dup               -- the first `ca` entry of the list once more
  | otherType         -- a `signingAuthority` store that loads and holds the anchor: not to be consulted
  | otherTypeBroken   -- a `signingAuthority` store that cannot be loaded: not to be consulted
  deriving DecidableEq, Repr, FromJson, ToJson

structure Input where
  level : String
  override : List (String × String)
  pluginAttr : PluginAttr
  minVerAttr : MinVerAttr
  extAttrs : List ExtAttr            -- non-plugin extended attributes (string keys)
  pluginState : PluginState
  pluginVersion : PluginVersion
  capIdentity : Bool                 -- plugin declares SIGNATURE_VERIFIER.TRUSTED_IDENTITY
  capRevocation : Bool               -- plugin declares SIGNATURE_VERIFIER.REVOCATION_CHECK
  trust : Trust
  identityMatch : Bool               -- outcome of the native trusted-identity check
  wildcardIdentity : Bool            -- the statement trusts "*" (then identityMatch = true); how the native check
                                     -- came to pass must not matter: the plugin is still asked what it owns
  expired : Bool
  timestampOk : Bool                 -- outcome of the authentic-timestamp validation
  revocation : Revocation            -- what the native validator would report
  pluginCallError : Bool             -- VerifySignature returns an error
  processed : List String            -- attribute keys the plugin reports as processed
  verdictIdentity : Verdict
  verdictRevocation : Verdict
  -- how the scenario is concretised (the model does not look at these: `concretisation_irrelevant`)
  stores : List StoreKind := []      -- the statement's trust store list ([] = one store, chosen by `trust`)
  storeImpl : String := ""           -- "fake" (in-memory) | "fs" (truststore.NewX509TrustStore over a directory)
  ctor : String := ""                -- New | NewWithOptions | NewVerifierWithOptions | NewFromConfig | NewOCIVerifierFromConfig
  revSupply : String := ""           -- validator | client | both (the client contradicts the validator) | none
  -- how the truth of the authentic-timestamp validation is realised (round 6)
  scheme : String := ""              -- "x509" (no countersignature: every chain certificate must be valid NOW) |
                                     -- "signingAuthority" (every chain certificate must be valid at the signing time); "" = x509
  chainLen : Nat := 0                -- certificates in the signature's chain, leaf first (1 = self-signed signing certificate); 0 = 2
  badCert : Nat := 0                 -- when `timestampOk = false`: index of the certificate that is not valid at that time
  badHow : String := ""              -- "expired" (before that time) | "notYetValid" (renewed: valid only after it) |
                                     -- "noCountersignature" (round 7: the chain is valid, but the statement demands a verified
                                     -- timestamp and the signature carries none)
  -- round 7: the statement's timestamp configuration (scheme x509) and how close to the end points of a
  -- validity period the prescribed time lies (scheme signingAuthority: the signing time has a resolution of one second)
  tsaStore : Bool := false           -- the statement lists a `tsa` trust store as well
  verifyTimestamp : String := ""     -- signatureVerification.verifyTimestamp: "" (unset = always) | "always" | "afterCertExpiry"
  badBy : String := ""               -- when `timestampOk = false`: "" = outside by half an hour or more | "second" = by exactly one second
  edge : String := ""                -- when `timestampOk = true`: "" = well inside every period | "notBefore" / "notAfter" = the
                                     -- prescribed time IS that end point of certificate `badCert`'s period
  deriving Repr, FromJson, ToJson

structure Result where
  type : String
  action : String
  failed : Bool
  deriving DecidableEq, Repr, FromJson, ToJson

structure Obs where
  accepted : Bool                    -- processSignature returned nil
  results : List Result              -- outcome.VerificationResults after integrity, in order
  storeLoads : Nat                   -- trust store GetCertificates calls (ca / signingAuthority)
  validatorCalls : Nat               -- native code-signing revocation validator calls
  managerGets : Nat                  -- plugin manager Get calls
  pluginVerifyCaps : Option (List String)   -- capabilities in the VerifySignature request
  pluginAttrsToProcess : Option (List String) -- attribute keys handed to the plugin (sorted)
  deriving DecidableEq, Repr, FromJson, ToJson

def capIdentity : String := "SIGNATURE_VERIFIER.TRUSTED_IDENTITY"
def capRevocation : String := "SIGNATURE_VERIFIER.REVOCATION_CHECK"

def isCritical (r : Result) : Bool := r.action == Facts.actionEnforce && r.failed

/-- mutable part of `processSignature` -/
structure St where
  results : List Result := []
  storeLoads : Nat := 0
  validatorCalls : Nat := 0
  managerGets : Nat := 0
  pluginVerifyCaps : Option (List String) := none
  pluginAttrsToProcess : Option (List String) := none
  deriving Repr

def St.obs (s : St) (accepted : Bool) : Obs :=
  { accepted := accepted, results := s.results, storeLoads := s.storeLoads,
    validatorCalls := s.validatorCalls, managerGets := s.managerGets,
    pluginVerifyCaps := s.pluginVerifyCaps, pluginAttrsToProcess := s.pluginAttrsToProcess }

/-- Go: find the first authenticity result and set its error -/
def failAuthenticity (rs : List Result) : List Result :=
  match rs with
  | [] => []
  | r :: rest => if r.type == Facts.typeAuthenticity then { r with failed := true } :: rest
                 else r :: failAuthenticity rest

def authResult (rs : List Result) : Option Result := rs.find? (·.type == Facts.typeAuthenticity)

/-- insertion sort of keys (the harness sorts what came out of a Go map) -/
def insertSorted (k : String) : List String → List String
  | [] => [k]
  | x :: xs => if k ≤ x then k :: x :: xs else x :: insertSorted k xs
def sortKeys (l : List String) : List String := l.foldr insertSorted []

/-- one capability of the loop in `processPluginResponse`; `.error s` = return with an error -/
def respondCap (i : Input) (enf : Enf) (s : St) (c : String) : Except St St :=
  if c == capIdentity then
    match i.verdictIdentity with
    | .missing => .error s
    | .success => .ok s
    | .failure =>
      let rs := failAuthenticity s.results
      let s' := { s with results := rs }
      match authResult rs with
      | some r => if isCritical r then .error s' else .ok s'
      | none => .error s'      -- unreachable: the authenticity result always exists here
  else if c == capRevocation then
    match i.verdictRevocation with
    | .missing => .error s
    | v =>
      let r : Result := { type := Facts.typeRevocation, action := enf.get Facts.typeRevocation,
                          failed := v == .failure }
      let s' := { s with results := s.results ++ [r] }
      if isCritical r then .error s' else .ok s'
  else .ok s

def respondCaps (i : Input) (enf : Enf) : List String → St → Except St St
  | [], s => .ok s
  | c :: rest, s =>
    match respondCap i enf s c with
    | .error s' => .error s'
    | .ok s' => respondCaps i enf rest s'

/-- `processPluginResponse` over the capabilities that were requested -/
def processResponse (i : Input) (enf : Enf) (caps : List String) (s : St) : Except St St :=
  -- every non-plugin extended attribute must have been processed (critical flag not consulted)
  if i.extAttrs.any (fun a => !i.processed.contains a.key) then .error s
  else respondCaps i enf caps s

/-- capabilities kept by the filter over `metadata.Capabilities`, in the plugin's order -/
def capsOf (i : Input) : List String :=
  if i.pluginAttr == .named then
    (if i.capIdentity then [capIdentity] else []) ++ (if i.capRevocation then [capRevocation] else [])
  else []

/-- plugin discovery: `.error s` = processSignature returns an error before any validation -/
def discover (i : Input) (s : St) : Except St St :=
  -- getVerificationPlugin: an existing but malformed attribute is an error
  if i.pluginAttr == .notCritical || i.pluginAttr == .notString || i.pluginAttr == .blank then .error s
  else if i.pluginAttr != .named then .ok s
  -- min version attribute is only looked at when a plugin is named
  else if i.minVerAttr == .notCritical || i.minVerAttr == .notString || i.minVerAttr == .blank ||
      i.minVerAttr == .invalidSemver then .error s
  else if i.pluginState == .managerNil then .error s
  else
  let s := { s with managerGets := s.managerGets + 1 }
  if i.pluginState == .notInstalled then .error s
  else if i.pluginState == .metadataError then .error s
  else if i.pluginVersion == .invalidSemver then .error s
  else if i.minVerAttr == .valid && i.pluginVersion == .tooOld then .error s
  else if (capsOf i).isEmpty then .error s
  else .ok s

/-- append a validation result; a critical one stops the workflow -/
def St.push (s : St) (r : Result) : Except St St :=
  let s' := { s with results := s.results ++ [r] }
  if isCritical r then .error s' else .ok s'

/-- authenticity: trust stores, then the native identity check unless the plugin owns it
(the identity error overwrites the error of the same result object) -/
def authStage (i : Input) (enf : Enf) (s : St) : Except St St :=
  let s := { s with storeLoads := s.storeLoads + 1 }
  let auth : Result := { type := Facts.typeAuthenticity, action := enf.get Facts.typeAuthenticity,
                         failed := i.trust != .found }
  match s.push auth with
  | .error s' => .error s'
  | .ok s' =>
    if !(capsOf i).contains capIdentity && !i.identityMatch then
      let s'' := { s' with results := failAuthenticity s'.results }
      if isCritical { auth with failed := true } then .error s'' else .ok s''
    else .ok s'

def expiryStage (i : Input) (enf : Enf) (s : St) : Except St St :=
  s.push { type := Facts.typeExpiry, action := enf.get Facts.typeExpiry, failed := i.expired }

def timestampStage (i : Input) (enf : Enf) (s : St) : Except St St :=
  s.push { type := Facts.typeAuthenticTimestamp, action := enf.get Facts.typeAuthenticTimestamp,
           failed := !i.timestampOk }

def revSkippedBy (enf : Enf) : Bool := enf.get Facts.typeRevocation == Facts.actionSkip

/-- native revocation, unless skipped by the level or owned by the plugin -/
def revocationStage (i : Input) (enf : Enf) (s : St) : Except St St :=
  if !revSkippedBy enf && !(capsOf i).contains capRevocation then
    let s := { s with validatorCalls := s.validatorCalls + 1 }
    s.push { type := Facts.typeRevocation, action := enf.get Facts.typeRevocation,
             failed := i.revocation != .ok }
  else .ok s

/-- capabilities the plugin is asked to verify -/
def toVerify (i : Input) (enf : Enf) : List String :=
  (capsOf i).filter (fun c => !(revSkippedBy enf && c == capRevocation))

/-- plugin execution / the no-plugin attribute check -/
def pluginStage (i : Input) (enf : Enf) (s : St) : Except St St :=
  if i.pluginAttr == .named then
    if (toVerify i enf).isEmpty then
      .ok s                            -- plugin named but never executed (known finding F-C02b)
    else
      let s := { s with pluginVerifyCaps := some (toVerify i enf),
                        pluginAttrsToProcess := some (sortKeys (i.extAttrs.map (·.key))) }
      if i.pluginCallError then .error s
      else processResponse i enf (toVerify i enf) s
  else
    -- no plugin named: a critical extended attribute cannot be processed by anyone
    if i.extAttrs.any (·.critical) then .error s else .ok s

/-- `processSignature` from the point where integrity has passed -/
def processE (i : Input) (enf : Enf) : Except St St :=
  discover i {} >>= authStage i enf >>= expiryStage i enf >>= timestampStage i enf >>=
    revocationStage i enf >>= pluginStage i enf

def process (i : Input) (enf : Enf) : Obs :=
  match processE i enf with
  | .ok s => s.obs true
  | .error s => s.obs false

/-! ### concretisation: which abstract situation a concrete configuration realises -/

/-- the `trust` situation a trust store list realises: one unloadable store of the needed type
fails the whole load wherever it stands; stores of another type do not count at all -/
def trustOf (l : List StoreKind) : Trust :=
  if l.contains .broken then .storeError
  else if l.contains .anchor then .found
  else if l.contains .other then .notFound
  else .emptyStores

/-- whose verdict is the native revocation verdict: the validator when one is supplied, else the
deprecated client, else the default validator (which has no objection to the certificates of
the scenario: they name no OCSP responder and no CRL) -/
def revocationSource (supply : String) : String :=
  if supply == "validator" || supply == "both" then "validator"
  else if supply == "client" then "client" else "default"

/-- the authentic-timestamp validation (both schemes, no countersignature): EVERY certificate of
the chain - first, middle, last or only - must be valid at the prescribed time -/
def timestampTruth (valid : List Bool) : Bool := valid.all id

/-! #### round 7: validity periods with their end points, and the statement's timestamp configuration

Times are seconds relative to the time the scheme prescribes (`0` = that time: the time of verification under
`notary.x509` without a verified timestamp, the signing time under `notary.x509.signingAuthority`). -/

def isSA (i : Input) : Bool := i.scheme == "signingAuthority"

def chainLenOf (i : Input) : Nat := if i.chainLen == 0 then 2 else i.chainLen

/-- "well away" from the prescribed time: the harness mints at least half an hour -/
def far : Int := 1800

/-- validity period (notBefore, notAfter) of certificate `k` of the chain as the concretisation mints it -/
def certWindow (i : Input) (k : Nat) : Int × Int :=
  if k != i.badCert then (-far, far)
  else if i.timestampOk then
    (if i.edge == "notBefore" then (0, far) else if i.edge == "notAfter" then (-far, 0) else (-far, far))
  else if i.badHow == "noCountersignature" then (-far, far)
  else if i.badHow == "notYetValid" then (if i.badBy == "second" then 1 else far, far + far)
  else (-far - far, if i.badBy == "second" then -1 else -far)

def windows (i : Input) : List (Int × Int) := (List.range (chainLenOf i)).map (certWindow i)

/-- a certificate is valid at the prescribed time when that time lies in its period, BOTH END POINTS INCLUDED
(RFC 5280 4.1.2.5; seeded change C02-21 excludes them) -/
def validAt (w : Int × Int) : Bool := decide (w.1 ≤ 0) && decide (0 ≤ w.2)
def expiredAt (w : Int × Int) : Bool := decide (w.2 < 0)
def notYetValidAt (w : Int × Int) : Bool := decide (0 < w.1)

/-- validity of each chain certificate at the time the scheme prescribes, leaf first, as the
concretisation mints them: all valid, except certificate `badCert` when it is minted outside -/
def chainValidity (i : Input) : List Bool := (windows i).map validAt

/-- under `notary.x509`: does the statement demand a verified timestamp for this chain? Only when it lists a
`tsa` store, and with `afterCertExpiry` only once a certificate of the chain has expired -/
def timestampDemanded (i : Input) (ws : List (Int × Int)) : Bool :=
  i.tsaStore && !(i.verifyTimestamp == "afterCertExpiry" && !ws.any expiredAt)

/-- the authentic-timestamp validation of a signature WITHOUT a countersignature, as the property reads it:
every certificate of the chain valid at the prescribed time; under `notary.x509` a demanded timestamp that
is not there fails it, and NOT demanding one never excuses a certificate that is not valid now - expired or
not yet valid (seeded change C02-20 lets the not-yet-valid one pass under `afterCertExpiry`) -/
def timestampSpec (i : Input) (ws : List (Int × Int)) : Bool :=
  if isSA i then ws.all validAt else !timestampDemanded i ws && ws.all validAt

/-- the concrete configuration realises the abstract scenario (the generator emits only such) -/
def concretisationOK (i : Input) : Bool :=
  -- round 7: only the signing time can be placed on / one second off an end point; a missing countersignature
  -- is a reason to fail only under a statement that demands one; a passing x509 scenario does not demand one
  (i.edge == "" || i.edge == "notBefore" || i.edge == "notAfter") &&
  ((i.edge == "" && i.badBy == "") || isSA i) &&
  (i.timestampOk || i.badHow != "noCountersignature" || (!isSA i && i.tsaStore && i.verifyTimestamp != "afterCertExpiry")) &&
  (!i.timestampOk || isSA i || !i.tsaStore || i.verifyTimestamp == "afterCertExpiry") &&
  (i.badCert < (if i.chainLen == 0 then 2 else i.chainLen)) &&
  (i.stores.isEmpty || (trustOf i.stores == i.trust &&
      i.stores.any (fun k => k == .anchor || k == .other || k == .empty || k == .broken))) &&
  (revocationSource i.revSupply != "default" || i.revocation == .ok) &&
  (!(i.ctor == "New" || i.ctor == "NewFromConfig" || i.ctor == "NewOCIVerifierFromConfig") ||
      i.revSupply == "none" || i.revSupply == "") &&
  (!(i.ctor == "NewFromConfig" || i.ctor == "NewOCIVerifierFromConfig") ||
      (i.storeImpl == "fs" && i.pluginAttr != .named))

/-- `verifier.Verify` up to the end of `processSignature`, for a signature that passes
integrity under the statement's level (the policy document is valid, so `effective` succeeds;
an invalid pair is reported as rejected with no results) -/
def run (i : Input) : Obs :=
  match effective i.level i.override with
  | .error _ => ({} : St).obs false
  | .ok (_, enf) => process i enf

/-! ### the property over observables -/

def enfOf (i : Input) : Enf :=
  match effective i.level i.override with
  | .ok (_, e) => e
  | .error _ => []

def levelOK (i : Input) : Bool :=
  match effective i.level i.override with
  | .ok _ => true
  | .error _ => false

/-- the scenario stays inside the property's quantifier: a legal (level, override) pair, plugin
attributes well-formed and every other extended attribute critical -/
def inDomain (i : Input) : Bool :=
  levelOK i &&
  (i.pluginAttr == .absent || i.pluginAttr == .named) &&
  (i.minVerAttr == .absent || i.minVerAttr == .valid) &&
  -- every other extended attribute is critical - or no plugin is named at all: then a
  -- non-critical attribute is nobody's business and must not be a reason to reject
  i.extAttrs.all (fun a => a.critical || i.pluginAttr == .absent)

def named (i : Input) : Bool := i.pluginAttr == .named

/-- the plugin the signature names can be used at all -/
def pluginUsable (i : Input) : Bool :=
  i.pluginState == .installed && i.pluginVersion != .invalidSemver &&
  !(i.minVerAttr == .valid && i.pluginVersion == .tooOld) && (i.capIdentity || i.capRevocation)

/-- capabilities the plugin is asked to verify -/
def askedIdentity (i : Input) : Bool := named i && i.capIdentity
def askedRevocation (i : Input) (enf : Enf) : Bool := named i && i.capRevocation && !revSkippedBy enf
def pluginExecuted (i : Input) (enf : Enf) : Bool := askedIdentity i || askedRevocation i enf

/-- ground truth of each validation in this scenario, as the property describes it -/
def authFailedTruth (i : Input) : Bool :=
  i.trust != .found ||
  (if askedIdentity i then i.verdictIdentity == .failure else !i.identityMatch)
def revFailedTruth (i : Input) (enf : Enf) : Bool :=
  if askedRevocation i enf then i.verdictRevocation == .failure else i.revocation != .ok

/-- plugin-related reasons to fail (second half of the property's first sentence) -/
def pluginOK (i : Input) (enf : Enf) : Bool :=
  if named i then
    pluginUsable i &&
    (if pluginExecuted i enf then
        !i.pluginCallError &&
        (!askedIdentity i || i.verdictIdentity != .missing) &&
        (!askedRevocation i enf || i.verdictRevocation != .missing) &&
        i.extAttrs.all (fun a => i.processed.contains a.key)
      else
        -- nobody processes the attributes: none may be critical
        !i.extAttrs.any (·.critical))
  else !i.extAttrs.any (·.critical)

def enforcedFailure (o : Obs) : Bool := o.results.any isCritical

/-- the known finding F-C02b: a usable plugin is named but never executed (its only capability
is revocation and the level skips revocation) while a critical extended attribute is present -/
def knownFinding (i : Input) (enf : Enf) : Bool :=
  named i && pluginUsable i && !pluginExecuted i enf && i.extAttrs.any (·.critical)

def enforced (enf : Enf) (t : String) : Bool := enf.get t == Facts.actionEnforce

/-- acceptance written as one closed formula over the scenario and the level: no enforced
validation fails (each judged by whoever owns it) and the plugin conditions hold -/
def acceptSpec (i : Input) (enf : Enf) : Bool :=
  !(enforced enf Facts.typeAuthenticity && authFailedTruth i) &&
  !(enforced enf Facts.typeExpiry && i.expired) &&
  !(enforced enf Facts.typeAuthenticTimestamp && !i.timestampOk) &&
  !(enforced enf Facts.typeRevocation && !revSkippedBy enf && revFailedTruth i enf) &&
  pluginOK i enf

def resultOf (o : Obs) (t : String) : Option Result := o.results.find? (·.type == t)

def clausesFor (i : Input) (enf : Enf) (o : Obs) : Clauses :=
  [ -- fails exactly when an enforced validation failed or the plugin conditions are not met
    ("reject_iff_enforced_failure_or_plugin",
      !inDomain i || (o.accepted == (!enforcedFailure o && pluginOK i enf))),
    ("accepted_iff_closed_formula",
      !inDomain i || knownFinding i enf || o.accepted == acceptSpec i enf),
    -- every reported result carries the action the level assigns to its type
    ("results_carry_level_action", o.results.all (fun r => r.action == enf.get r.type)),
    -- a failed validation whose action is log is reported but does not fail the outcome:
    -- the reported results tell the truth about each validation that was evaluated
    ("authenticity_result_truthful",
      match resultOf o Facts.typeAuthenticity with
      | some r => !o.accepted || !inDomain i || r.failed == authFailedTruth i
      | none => !o.accepted),
    ("expiry_result_truthful",
      match resultOf o Facts.typeExpiry with
      | some r => r.failed == i.expired
      | none => !o.accepted),
    ("timestamp_result_truthful",
      match resultOf o Facts.typeAuthenticTimestamp with
      | some r => r.failed == !i.timestampOk
      | none => !o.accepted),
    ("revocation_result_truthful",
      match resultOf o Facts.typeRevocation with
      | some r => !revSkippedBy enf && (!inDomain i || !o.accepted || r.failed == revFailedTruth i enf)
      | none => !o.accepted || !inDomain i || revSkippedBy enf),
    -- a skipped revocation validation is not performed at all, natively or by plugin
    ("skipped_revocation_not_performed",
      !revSkippedBy enf || (o.validatorCalls == 0 && (resultOf o Facts.typeRevocation).isNone &&
        match o.pluginVerifyCaps with
        | some caps => !caps.contains capRevocation
        | none => true)),
    -- a capability the plugin declares replaces the native check
    ("plugin_revocation_replaces_native", !(named i && i.capRevocation) || o.validatorCalls == 0),
    ("native_revocation_once", decide (o.validatorCalls ≤ 1)),
    -- the plugin is asked exactly for the capabilities it owns (minus skipped revocation)
    ("plugin_request_capabilities",
      match o.pluginVerifyCaps with
      | some caps => named i && caps == ((if i.capIdentity then [capIdentity] else []) ++
                                          (if i.capRevocation && !revSkippedBy enf then [capRevocation] else []))
      | none => true) ]

def clauses (i : Input) (o : Obs) : Clauses := clausesFor i (enfOf i) o

def Holds (i : Input) (o : Obs) : Bool := (clauses i o).holds

def judge := judgeWith run clauses

end NotationModel.C02

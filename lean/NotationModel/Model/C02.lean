/- C02 - model (stub: not built yet) -/
import NotationModel.Basic
open Lean

namespace NotationModel.C02

def judge (_ : Json) : Except String Json := .error "C02: model not built yet"

end NotationModel.C02

/-
C19 - Stored signatures round-trip byte-for-byte and stay with their artifact.
Property theorems only; the model is in `Model/C19.lean`, the inductions over the history that
relate the state machine to the declarative reading of a history are in `Lemmas/C19.lean`.

Reading guide. A history `h : List Op` is newest-first. `stateOf h` is the state the model's
`step` function reaches; `listObs mode (stateOf h) q` is `ListSignatures(q)` followed by
`FetchSignatureBlob` of everything listed; `sigsFor q h` are the operations of the history that
stored a signature manifest of exactly `q` (a successful `PushSignature` for `q`, or a directly
written image / legacy artifact manifest with subject `q` and the notation artifact type).
-/
import NotationModel.Lemmas.C19

set_option linter.unusedSimpArgs false
set_option linter.unusedVariables false

namespace NotationModel.C19
open NotationModel.Facts

/-! ### facts read from the Go source -/

/-- the caps are positive, the blob cap is not below the manifest cap -/
theorem caps_positive : 0 < capM ∧ 0 < capB ∧ capM ≤ capB := by decide

/-- the media types the model switches on are distinct, and the notation type is none of them -/
theorem media_types_distinct :
    mtImage ≠ mtArtifact ∧ mtImage ≠ c19MediaTypeImageIndex ∧ mtArtifact ≠ c19MediaTypeImageIndex ∧
    notationType ≠ mtImage ∧ notationType ≠ mtArtifact := by decide

/-- position of a token in a skeleton -/
def pos (l : List String) (s : String) : Nat := l.findIdx (· == s)

/-- a token that reads content from the target -/
def isFetch (s : String) : Bool := "call content.FetchAll".toList.isPrefixOf s.toList

/-- one `case` of the switch in `signatureReferrers`: its label; the size cap precedes the only
fetch; then the subject comparison (nil or not `content.Equal` to the whole descriptor: continue);
then the artifact type is taken from the stated field -/
def caseOk (c : List String × List String) (label subjectTest setType : String) : Bool :=
  c.1 == [label] &&
  c.2.filter isFetch == ["call content.FetchAll(ctx,target,node)"] &&
  decide (pos c.2 "if node.Size>maxManifestSizeLimit -> return" < pos c.2 "call content.FetchAll(ctx,target,node)") &&
  decide (pos c.2 "call content.FetchAll(ctx,target,node)" < pos c.2 subjectTest) &&
  decide (pos c.2 subjectTest < pos c.2 setType) && decide (pos c.2 setType < c.2.length)

set_option maxRecDepth 100000 in
/-- `signatureReferrers` has exactly the two manifest cases of the model plus a default that does
nothing, each case as `scanCase` models it (`atype` = `artifactType` of a legacy artifact manifest,
`config.mediaType` of an image manifest); the notation type filter follows the switch -/
theorem referrers_skeleton :
    c19ListUsesSignatureReferrers = true ∧
    c19ReferrerSwitchTag = "node.MediaType" ∧
    c19ReferrerCases.length = 3 ∧
    c19ReferrerCases.any (fun a => caseOk a "artifactspec.MediaTypeArtifactManifest"
         "if artifact.Subject==nil||!content.Equal(*artifact.Subject,desc) -> continue"
         "set node.ArtifactType=artifact.ArtifactType") = true ∧
    c19ReferrerCases.any (fun b => caseOk b "ocispec.MediaTypeImageManifest"
         "if image.Subject==nil||!content.Equal(*image.Subject,desc) -> continue"
         "set node.ArtifactType=image.Config.MediaType") = true ∧
    c19ReferrerCases.contains ([], []) = true ∧
    c19ReferrerAfterSwitch.head? = some "if node.ArtifactType==ArtifactTypeNotation {" := by decide

set_option maxRecDepth 100000 in
/-- `getSignatureBlobDesc`: the media type check and the manifest cap both precede the only fetch
(of the manifest); the exactly-one-blob check follows it and precedes the return of the blob
descriptor -/
theorem manifest_guards_precede_read :
    let g := c19GetBlobDescSteps
    g.filter isFetch = ["call content.FetchAll(ctx,fetcher,sigManifestDesc)"] ∧
    pos g "if sigManifestDesc.MediaType!=artifactspec.MediaTypeArtifactManifest&&sigManifestDesc.MediaType!=ocispec.MediaTypeImageManifest -> return"
      < pos g "call content.FetchAll(ctx,fetcher,sigManifestDesc)" ∧
    pos g "if sigManifestDesc.Size>maxManifestSizeLimit -> return" < pos g "call content.FetchAll(ctx,fetcher,sigManifestDesc)" ∧
    pos g "call content.FetchAll(ctx,fetcher,sigManifestDesc)" < pos g "if len(signatureBlobs)!=1 -> return" ∧
    pos g "if len(signatureBlobs)!=1 -> return" < pos g "return signatureBlobs[0],nil" ∧
    pos g "return signatureBlobs[0],nil" < g.length := by decide

set_option maxRecDepth 100000 in
/-- `FetchSignatureBlob`: `getSignatureBlobDesc`, then the blob cap, then the only fetch (of the blob) -/
theorem blob_guard_precedes_read :
    let f := c19FetchSteps
    f.filter isFetch = ["call content.FetchAll(ctx,fetcher,sigBlobDesc)"] ∧
    pos f "call c.getSignatureBlobDesc(ctx,desc)" < pos f "if sigBlobDesc.Size>maxBlobSizeLimit -> return" ∧
    pos f "if sigBlobDesc.Size>maxBlobSizeLimit -> return" < pos f "call content.FetchAll(ctx,fetcher,sigBlobDesc)" ∧
    pos f "call content.FetchAll(ctx,fetcher,sigBlobDesc)" < f.length := by decide

/-- `PushSignature` pushes the blob, then the manifest -/
theorem push_skeleton :
    pos c19PushSteps "call oras.PushBytes(ctx,pusher,mediaType,blob)" <
      pos c19PushSteps "call c.uploadSignatureManifest(ctx,subject,blobDesc,annotations)" ∧
    pos c19PushSteps "call c.uploadSignatureManifest(ctx,subject,blobDesc,annotations)" < c19PushSteps.length := by decide

/-! ### the model run is the state machine over the history -/

/-- a view is good when its listing is the model's listing of the state after its history -/
def Good (v : View) : Prop :=
  v.lo = listObs v.mode (stateOf v.hist) v.q ∧ (v.hist.map (·.id)).Nodup

theorem mem_zipWith_map {α β γ : Type} (f : α → β → γ) (g : α → β) (v : γ) :
    ∀ (l : List α), v ∈ List.zipWith f l (l.map g) → ∃ a ∈ l, v = f a (g a) := by
  intro l
  induction l with
  | nil => intro h; simp at h
  | cons a r ih =>
    intro h
    simp only [List.map_cons, List.zipWith_cons_cons, List.mem_cons] at h
    rcases h with h | h
    · exact ⟨a, List.mem_cons_self, h⟩
    · obtain ⟨b, hb, hv⟩ := ih h
      exact ⟨b, List.mem_cons_of_mem _ hb, hv⟩

theorem all_zip_map {α β : Type} (g : α → β) (P : α × β → Bool) :
    ∀ (l : List α), (l.zip (l.map g)).all P = l.all (fun a => P (a, g a)) := by
  intro l
  induction l with
  | nil => rfl
  | cons a r ih => simp [List.zip_cons_cons, ih]

theorem runSteps_final (mode : Index) (qs : List Desc) : ∀ (ops h : List Op),
    (runSteps mode qs (stateOf h) ops).2 = stateOf (ops.reverse ++ h) := by
  intro ops
  induction ops with
  | nil => intro h; simp [runSteps]
  | cons o rest ih =>
    intro h
    simp only [runSteps]
    have : (step (stateOf h) o).1 = stateOf (o :: h) := rfl
    rw [this, ih (o :: h)]
    simp

theorem runSteps_length (mode : Index) (qs : List Desc) : ∀ (ops : List Op) (st : State),
    (runSteps mode qs st ops).1.length = ops.length := by
  intro ops
  induction ops with
  | nil => intro st; simp [runSteps]
  | cons o rest ih => intro st; simp [runSteps, ih]

theorem runSteps_lists (mode : Index) (qs : List Desc) : ∀ (ops : List Op) (st : State),
    (runSteps mode qs st ops).1.all (fun so => so.lists.length == qs.length) = true := by
  intro ops
  induction ops with
  | nil => intro st; simp [runSteps]
  | cons o rest ih => intro st; simp [runSteps, ih]

theorem nodup_reverse_of {l : List Nat} (h : l.Nodup) : l.reverse.Nodup := by
  unfold List.Nodup at *
  rw [List.pairwise_reverse]
  exact h.imp (fun hab => fun heq => hab heq.symm)

theorem nodup_suffix {h : List Op} {pre : List Op} (hn : ((pre ++ h).map (·.id)).Nodup) :
    (h.map (·.id)).Nodup := by
  rw [List.map_append] at hn
  exact (List.nodup_append.1 hn).2.1

theorem stepViews_run (mode : Index) (qs : List Desc) : ∀ (ops h : List Op),
    ((ops.reverse ++ h).map (·.id)).Nodup →
    ∀ v ∈ stepViews mode qs h ops (runSteps mode qs (stateOf h) ops).1, Good v := by
  intro ops
  induction ops with
  | nil => intro h _ v hv; simp [stepViews, runSteps] at hv
  | cons o rest ih =>
    intro h hn v hv
    have hn' : ((rest.reverse ++ (o :: h)).map (·.id)).Nodup := by
      simpa [List.reverse_cons, List.append_assoc] using hn
    simp only [runSteps, stepViews, List.mem_append] at hv
    have hst : (step (stateOf h) o).1 = stateOf (o :: h) := rfl
    rcases hv with hv | hv
    · obtain ⟨q, _, hq⟩ := mem_zipWith_map _ _ v qs hv
      subst hq
      exact ⟨by simp [hst], nodup_suffix hn'⟩
    · rw [hst] at hv
      exact ih (o :: h) hn' v hv

theorem stepPairs_run (mode : Index) (qs : List Desc) : ∀ (ops h : List Op),
    (stepPairs h ops (runSteps mode qs (stateOf h) ops).1).all (fun (h', op, so) => so.ok == succeeds h' op) = true := by
  intro ops
  induction ops with
  | nil => intro h; simp [stepPairs, runSteps]
  | cons o rest ih =>
    intro h
    have hst : (step (stateOf h) o).1 = stateOf (o :: h) := rfl
    simp only [runSteps, stepPairs, List.all_cons, step_ok, beq_self_eq_true, Bool.true_and]
    rw [hst]
    exact ih (o :: h)

theorem wf_ops (i : Input) (hwf : wf i = true) : (i.ops.map (·.id)).Nodup := by
  simp only [wf, Bool.and_eq_true, decide_eq_true_eq] at hwf; exact hwf.1

theorem wf_race (i : Input) (hwf : wf i = true) : (i.race.map (·.id)).Nodup := by
  simp only [wf, Bool.and_eq_true, decide_eq_true_eq] at hwf; exact hwf.2

theorem runSteps_final_init (mode : Index) (qs : List Desc) (ops : List Op) :
    (runSteps mode qs {} ops).2 = stateOf ops.reverse := by
  have := runSteps_final mode qs ops []
  simpa [stateOf] using this

theorem runSteps_oks (mode : Index) (qs : List Desc) : ∀ (ops h : List Op),
    (runSteps mode qs (stateOf h) ops).1.map (·.ok) = expectOks h ops := by
  intro ops
  induction ops with
  | nil => intro h; simp [runSteps, expectOks]
  | cons o rest ih =>
    intro h
    have hst : (step (stateOf h) o).1 = stateOf (o :: h) := rfl
    simp only [runSteps, expectOks, List.map_cons, step_ok]
    rw [hst, ih (o :: h)]

theorem views_run (i : Input) (hwf : wf i = true) : ∀ v ∈ views i (run i), Good v := by
  have hn : (i.ops.map (·.id)).Nodup := wf_ops i hwf
  have hn' : ((i.ops.reverse ++ ([] : List Op)).map (·.id)).Nodup := by
    simp only [List.append_nil, List.map_reverse]
    exact nodup_reverse_of hn
  intro v hv
  simp only [views, run, List.mem_append] at hv
  rcases hv with (hv | hv) | hv
  · exact stepViews_run i.mode i.queries i.ops [] hn' v hv
  · have hfin := runSteps_final_init i.mode i.queries i.ops
    by_cases hr : i.reopenOk = true
    · simp only [hr, if_true] at hv
      obtain ⟨q, _, hq⟩ := mem_zipWith_map _ _ v i.queries hv
      subst hq
      refine ⟨by simp [hfin], ?_⟩
      simpa using hn'
    · simp [hr] at hv
  · simp only [List.mem_singleton] at hv
    subst hv
    refine ⟨by simp [runSteps_final_init], ?_⟩
    simp only [List.map_reverse]
    exact nodup_reverse_of (wf_race i hwf)

/-! ### what a good view satisfies: the readable theorems, for every history -/

/-- **list_exact**: after any history, a listing that is not refused yields exactly the
signature manifests stored for that subject, in order of arrival. -/
theorem list_exact (mode : Index) (h : List Op) (q : Desc) (hok : (listObs mode (stateOf h) q).ok = true) :
    (listObs mode (stateOf h) q).sigs.map (·.id) = (sigsFor q h).map (·.id) := by
  rw [listObs_spec] at hok ⊢
  have hr : refused mode q h = false := by simpa using hok
  simp [hr, List.map_map, Function.comp_def, sigObs]

/-- the same as a statement about membership: a label is listed iff some operation of the history
with that label stored a signature manifest of exactly `q` -/
theorem listed_iff (mode : Index) (h : List Op) (q : Desc) (hok : (listObs mode (stateOf h) q).ok = true) (id : Nat) :
    id ∈ (listObs mode (stateOf h) q).sigs.map (·.id) ↔ ∃ o, SigIn q o h ∧ o.id = id := by
  rw [list_exact mode h q hok]
  simp only [List.mem_map, mem_sigsFor]

/-- **isolation**: whatever is listed for `q` was stored by an operation whose subject is exactly `q`
(media type, digest and size) and which is a `PushSignature` or a manifest of the notation type -
nothing of another subject, of another artifact type, or whose subject shares only some fields;
and this holds whether the index behind `Predecessors` is exact or keyed by digest only. -/
theorem isolation (mode : Index) (h : List Op) (q : Desc) (s : SigObs)
    (hs : s ∈ (listObs mode (stateOf h) q).sigs) :
    ∃ o ∈ h, o.id = s.id ∧ o.subject = some q ∧
      (o.kind = .push ∨ (o.kind = .raw ∧ o.atype = notationType ∧ isManifestType o.mt = true)) := by
  rw [listObs_spec] at hs
  by_cases hr : refused mode q h = true
  · simp [hr] at hs
  · have hr' : refused mode q h = false := by simpa using hr
    simp only [hr', Bool.false_eq_true, if_false] at hs
    obtain ⟨o, ho, hso⟩ := List.mem_map.1 hs
    have hp := sigIn_props q o h ((mem_sigsFor q o h).1 ho)
    exact ⟨o, hp.1, by rw [← hso]; simp [sigObs], hp.2.1, hp.2.2.2⟩

/-- isolation between subjects, spelled out: a signature pushed for `q'` is never listed for `q ≠ q'`
(in particular not when `q'` differs from `q` in exactly one of media type, digest, size) -/
theorem isolation_between_subjects (mode : Index) (h : List Op) (q q' : Desc) (hne : q ≠ q')
    (hnd : (h.map (·.id)).Nodup) (o : Op) (ho : o ∈ h) (hsub : o.subject = some q') :
    o.id ∉ (listObs mode (stateOf h) q).sigs.map (·.id) := by
  intro hmem
  obtain ⟨s, hs, hid⟩ := List.mem_map.1 hmem
  obtain ⟨o', ho', hid', hsub', _⟩ := isolation mode h q s hs
  have : o' = o := by
    have hinj : ∀ (l : List Op), (l.map (·.id)).Nodup → ∀ a ∈ l, ∀ b ∈ l, a.id = b.id → a = b := by
      intro l
      induction l with
      | nil => intro _ a ha; simp at ha
      | cons x r ih =>
        intro hn a ha b hb hab
        simp only [List.map_cons, List.nodup_cons, List.mem_map, not_exists, not_and] at hn
        simp only [List.mem_cons] at ha hb
        rcases ha with ha | ha <;> rcases hb with hb | hb
        · rw [ha, hb]
        · subst ha; exact absurd hab.symm (hn.1 b hb)
        · subst hb; exact absurd hab (hn.1 a ha)
        · exact ih hn.2 a ha b hb hab
    exact hinj h hnd o' ho' o ho (by rw [hid', hid])
  subst this
  rw [hsub] at hsub'
  exact hne (Option.some.inj hsub').symm

/-- the subject filter of `signatureReferrers` makes the answer independent of how exact the
predecessor index is: whenever both listings succeed they are the same -/
theorem list_independent_of_index (h : List Op) (q : Desc)
    (h1 : (listObs .exact (stateOf h) q).ok = true) (h2 : (listObs .digestOnly (stateOf h) q).ok = true) :
    listObs .exact (stateOf h) q = listObs .digestOnly (stateOf h) q := by
  rw [listObs_spec] at h1 h2 ⊢
  rw [listObs_spec]
  have r1 : refused .exact q h = false := by simpa using h1
  have r2 : refused .digestOnly q h = false := by simpa using h2
  simp [r1, r2]

/-- a listing is refused exactly when a referrer manifest of the subject exceeds the manifest
cap; it then lists nothing, and no manifest over the cap is ever read -/
theorem list_refused_iff (mode : Index) (h : List Op) (q : Desc) :
    (listObs mode (stateOf h) q).ok = !refused mode q h ∧
    ((listObs mode (stateOf h) q).ok = false → (listObs mode (stateOf h) q).sigs = []) ∧
    (listObs mode (stateOf h) q).bigRead = false := by
  rw [listObs_spec]
  refine ⟨rfl, ?_, rfl⟩
  intro hok
  have : refused mode q h = true := by simpa using hok
  simp [this]

/-- an oversized referrer of one subject does not disturb the listing of another digest -/
theorem refusal_is_per_subject (mode : Index) (h : List Op) (q : Desc)
    (hnone : ∀ o ∈ h, ∀ s, o.subject = some s → s.dig ≠ q.dig) : refused mode q h = false := by
  induction h with
  | nil => rfl
  | cons o h ih =>
    simp only [refused, Bool.or_eq_false_iff]
    refine ⟨ih (fun o' ho' => hnone o' (List.mem_cons_of_mem _ ho')), ?_⟩
    have hm : subjMatches mode q o.subject = false := by
      cases hs : o.subject with
      | none => simp [subjMatches]
      | some s =>
        have := hnone o List.mem_cons_self s hs
        cases mode <;> simp [subjMatches]
        · intro heq; exact this (by rw [heq])
        · exact this
    simp [hm]

/-- the fetch of a listed signature is what the history says (`expectFetch`) -/
theorem listed_fetch (mode : Index) (h : List Op) (q : Desc) (hn : (h.map (·.id)).Nodup)
    (hr : refused mode q h = false) (o : Op) (ho : o ∈ sigsFor q h) :
    (sigObs (stateOf h) (mkManifest o)).fetch = expectFetch h o := by
  have hs := (mem_sigsFor q o h).1 ho
  have hp := sigIn_props q o h hs
  simp only [sigObs, descOf, mk_mt, mk_id, mk_size]
  exact fetchSig_spec h o hn (sigIn_created q o h hs) hp.2.2.1 (sigIn_small mode q o h hr hs)

/-- **fetch_roundtrip**: after any history, a signature stored by a successful `PushSignature`
whose envelope is within the blob cap is listed for its subject, and fetching it returns exactly
the pushed bytes (label) and the pushed media type. -/
theorem fetch_roundtrip (mode : Index) (h : List Op) (q : Desc) (hn : (h.map (·.id)).Nodup)
    (hr : refused mode q h = false) (o : Op) (ho : o ∈ sigsFor q h) (hk : o.kind = .push)
    (hsz : o.bsize ≤ capB) :
    (sigObs (stateOf h) (mkManifest o)) ∈ (listObs mode (stateOf h) q).sigs ∧
    (sigObs (stateOf h) (mkManifest o)).fetch =
      { ok := true, blob := o.blob, mt := o.mt, manifestRead := true, blobRead := true } := by
  constructor
  · rw [listObs_spec]; simp only [hr, Bool.false_eq_true, if_false]
    exact List.mem_map.2 ⟨o, ho, rfl⟩
  · rw [listed_fetch mode h q hn hr o ho]
    have hs := (mem_sigsFor q o h).1 ho
    have hst := pushed_blob_stored o hk h (sigIn_created q o h hs)
    have : ¬ (o.bsize > capB) := by omega
    simp [expectFetch, opLayers, hk, hst, this]

theorem mem_insertKV (kv x : KV) : ∀ (l : List KV), x ∈ l → x ∈ insertKV kv l := by
  intro l
  induction l with
  | nil => intro h; simp at h
  | cons y r ih =>
    intro h
    simp only [insertKV]
    by_cases hlt : kv.k < y.k
    · simp only [hlt, if_true]; exact List.mem_cons_of_mem _ h
    · simp only [hlt, if_false]
      rcases List.mem_cons.1 h with h | h
      · rw [h]; exact List.mem_cons_self
      · exact List.mem_cons_of_mem _ (ih h)

/-- **annotations_superset**: every annotation handed to `PushSignature` (or written into a raw
manifest) is on the stored manifest, hence on the listed descriptor; the packer may add `created`. -/
theorem annotations_superset (o : Op) (kv : KV) (hkv : kv ∈ o.annos) : kv ∈ (mkManifest o).annos := by
  unfold mkManifest
  cases o.kind <;> simp only []
  · unfold ensureCreated
    split
    · exact hkv
    · exact mem_insertKV _ _ _ hkv
  · exact hkv
  · exact hkv

/-- **hostile_refused_before_use** (listed manifests): a listed manifest that does not carry exactly
one blob, or whose blob is declared larger than the cap, is refused and no blob is read. -/
theorem hostile_refused_before_use (h : List Op) (o : Op) (hh : hostileLayers (opLayers o) = true) :
    (expectFetch h o).ok = false ∧ (expectFetch h o).manifestRead = true ∧ (expectFetch h o).blobRead = false := by
  unfold expectFetch
  split
  · rename_i l heq
    simp only [hostileLayers, heq, List.length_singleton, bne_self_eq_false, Bool.false_or, List.any_cons,
      List.any_nil, Bool.or_false, decide_eq_true_eq] at hh
    simp [hh, refuse]
  · simp [refuse]

/-- **hostile_refused_before_use** (descriptors): a descriptor of another media type, or declaring
more than the manifest cap, is refused before anything is read - in any state. -/
theorem descriptor_refused_before_read (st : State) (d : Desc)
    (hd : isManifestType d.mt = false ∨ d.size > capM) :
    fetchSig st d = refuse false false := by
  unfold fetchSig
  rcases hd with hd | hd
  · have : (d.mt != mtArtifact && d.mt != mtImage) = true := by
      simp only [isManifestType, Bool.or_eq_false_iff] at hd
      simp [bne, hd.1, hd.2]
    simp [this]
  · by_cases hmt : (d.mt != mtArtifact && d.mt != mtImage) = true
    · simp [hmt]
    · simp [hmt, hd]

/-- in no state does `FetchSignatureBlob` read a blob that is declared larger than the cap, or
read anything for a manifest that does not have exactly one blob -/
theorem blob_read_implies_single_small_layer (st : State) (ls : List Layer)
    (hread : (fetchLayers st ls).blobRead = true) : ∃ l, ls = [l] ∧ l.size ≤ capB := by
  unfold fetchLayers at hread
  split at hread
  · rename_i l
    refine ⟨l, rfl, ?_⟩
    by_cases hb : l.size > capB
    · simp [hb, refuse] at hread
    · omega
  · simp [refuse] at hread

/-! ### concurrent pushes and done contexts -/

theorem stored_mem (h : List Op) (b : Nat) (hs : stored h b = true) : ∃ o ∈ h, o.blob = b := by
  simp only [stored, List.any_eq_true, Bool.and_eq_true, beq_iff_eq] at hs
  obtain ⟨o, ho, _, hb⟩ := hs
  exact ⟨o, ho, hb⟩

/-- pushes of pairwise distinct envelopes, in whatever order they take effect: the signatures listed
for `q` afterwards are exactly the pushes whose subject is `q` - none is lost, the order does not
matter (the right-hand side does not mention it). This is what the concurrency stage is held to. -/
theorem distinct_pushes_all_listed (q : Desc) (o : Op) : ∀ (h : List Op), (∀ x ∈ h, x.kind = .push) →
    (h.map (·.blob)).Nodup → (o ∈ sigsFor q h ↔ o ∈ h ∧ o.subject = some q) := by
  intro h
  induction h with
  | nil => intro _ _; simp [sigsFor]
  | cons x h ih =>
    intro hk hn
    simp only [List.map_cons, List.nodup_cons] at hn
    have hns : stored h x.blob = false := by
      cases hs : stored h x.blob with
      | false => rfl
      | true =>
        obtain ⟨y, hy, hb⟩ := stored_mem h x.blob hs
        exact absurd (List.mem_map.2 ⟨y, hy, hb⟩) hn.1
    have hsig : isSigFor h x q = (x.subject == some q) := by
      simp [isSigFor, hk x List.mem_cons_self, hns]
    simp only [sigsFor, List.mem_append, ih (fun y hy => hk y (List.mem_cons_of_mem _ hy)) hn.2, hsig,
      List.mem_cons]
    by_cases hx : (x.subject == some q) = true
    · have hx' : x.subject = some q := by simpa using hx
      simp only [hx, if_true, List.mem_singleton]
      constructor
      · rintro (⟨h1, h2⟩ | h1)
        · exact ⟨Or.inr h1, h2⟩
        · exact ⟨Or.inl h1, by rw [h1]; exact hx'⟩
      · rintro ⟨h1 | h1, h2⟩
        · exact Or.inr h1
        · exact Or.inl ⟨h1, h2⟩
    · have hx' : ¬ x.subject = some q := by simpa using hx
      have hxf : (x.subject == some q) = false := by simpa using hx
      simp only [hxf, Bool.false_eq_true, if_false, List.not_mem_nil, or_false]
      constructor
      · rintro ⟨h1, h2⟩; exact ⟨Or.inr h1, h2⟩
      · rintro ⟨h1 | h1, h2⟩
        · rw [h1] at h2; exact absurd h2 hx'
        · exact ⟨h1, h2⟩

/-- ... and every one of them is accepted -/
theorem distinct_pushes_all_accepted : ∀ (ops h : List Op), (∀ x ∈ ops, x.kind = .push) →
    ((ops.reverse ++ h).map (·.blob)).Nodup → (∀ x ∈ h, writesBlob x = true) →
    (expectOks h ops).all id = true := by
  intro ops
  induction ops with
  | nil => intro h _ _ _; rfl
  | cons o rest ih =>
    intro h hk hn hw
    have hn' : ((rest.reverse ++ (o :: h)).map (·.blob)).Nodup := by
      simpa [List.reverse_cons, List.append_assoc] using hn
    have hoh : ((o :: h).map (·.blob)).Nodup := by
      rw [List.map_append] at hn'
      exact (List.nodup_append.1 hn').2.1
    simp only [List.map_cons, List.nodup_cons] at hoh
    have hns : stored h o.blob = false := by
      cases hs : stored h o.blob with
      | false => rfl
      | true =>
        obtain ⟨y, hy, hb⟩ := stored_mem h o.blob hs
        exact absurd (List.mem_map.2 ⟨y, hy, hb⟩) hoh.1
    have hko := hk o List.mem_cons_self
    simp only [expectOks, List.all_cons, id, succeeds, hko, hns, Bool.not_false, Bool.true_and]
    refine ih (o :: h) (fun x hx => hk x (List.mem_cons_of_mem _ hx)) hn' ?_
    intro x hx
    rcases List.mem_cons.1 hx with hx | hx
    · rw [hx]; simp [writesBlob, hko]
    · exact hw x hx

/-- a listing under a done context is the listing under a live one (the store ignores the
context, `signatureReferrers` does not look at it): complete, or the same refusal -/
theorem cancelled_listing_complete (mode : Index) (h : List Op) (q : Desc) :
    (ctxObs mode (stateOf h) q).err = true ∨ (ctxObs mode (stateOf h) q).ids = (sigsFor q h).map (·.id) := by
  by_cases hok : (listObs mode (stateOf h) q).ok = true
  · right; simp [ctxObs, list_exact mode h q hok]
  · left; simp [ctxObs, hok]

/-- in the model results are values: nothing a later call (on this or another repository) does
can change what an earlier call returned, and no two results share anything. The harness checks
the real code against exactly this: it keeps every returned envelope slice, blob descriptor,
callback slice and annotation map and re-compares them after all later calls (`retained`), and
checks that their memory is disjoint from each other and from caller-owned input (`unaliased`). -/
theorem results_are_values (i : Input) : (run i).retained = true ∧ (run i).unaliased = true := ⟨rfl, rfl⟩

/-! ### the whole property -/

theorem probeTarget_spec (d : Desc) : ∀ (h : List Op) (o : Op), probeTarget h d = some o →
    CreatedIn o h ∧ o.id = d.dig ∧ opMt o = d.mt ∧ o.msize = d.size := by
  intro h
  induction h with
  | nil => intro o ho; simp [probeTarget] at ho
  | cons x h ih =>
    intro o ho
    simp only [probeTarget] at ho
    by_cases hc : (creates h x && x.id == d.dig) = true
    · simp only [hc, if_true] at ho
      by_cases hm : (opMt x == d.mt && x.msize == d.size) = true
      · simp only [hm, if_true, Option.some.injEq] at ho
        subst ho
        simp only [Bool.and_eq_true, beq_iff_eq] at hc hm
        exact ⟨Or.inl ⟨rfl, hc.1⟩, hc.2, hm.1, hm.2⟩
      · simp [hm] at ho
    · simp only [hc] at ho
      obtain ⟨h1, h2⟩ := ih o ho
      exact ⟨Or.inr h1, h2⟩

/-- **C19, the whole property**: every clause of `Holds` is true of the model's behaviour, for
every well-formed input (any number of operations, subjects, queries and probes). -/
theorem model_holds (i : Input) (hwf : wf i = true) : Holds i (run i) = true := by
  have hgood := views_run i hwf
  have hn : (i.ops.map (·.id)).Nodup := wf_ops i hwf
  have hnr : (i.ops.reverse.map (·.id)).Nodup := by
    rw [List.map_reverse]; exact nodup_reverse_of hn
  have hfin : (runSteps i.mode i.queries {} i.ops).2 = stateOf i.ops.reverse :=
    runSteps_final_init i.mode i.queries i.ops
  -- per-view facts
  have hview : ∀ (f : View → Bool),
      (∀ mode h q, (h.map (·.id)).Nodup → f ⟨mode, h, q, listObs mode (stateOf h) q⟩ = true) →
      (views i (run i)).all f = true := by
    intro f hf
    apply List.all_eq_true.2
    intro v hv
    obtain ⟨hlo, hnd⟩ := hgood v hv
    have := hf v.mode v.hist v.q hnd
    rw [← hlo] at this
    exact this
  -- the listed signatures of a non-refused view
  have hpaired : ∀ mode h q, refused mode q h = false → ∀ (P : Op × SigObs → Bool),
      (paired ⟨mode, h, q, listObs mode (stateOf h) q⟩).all P =
        (sigsFor q h).all (fun o => P (o, sigObs (stateOf h) (mkManifest o))) := by
    intro mode h q hr P
    simp only [paired]
    rw [listObs_spec]
    simp only [hr, Bool.false_eq_true, if_false]
    exact all_zip_map _ P _
  unfold Holds clauses
  simp only [Clauses.holds_cons, Clauses.holds_nil, Bool.and_true, Bool.and_eq_true]
  refine ⟨hwf, ?shape, ?push, ?exact, ?iso, ?refused, ?big, ?round, ?pushed, ?annos, ?hostile, ?probe1, ?probe2, ?reopen, ?race, ?ctx, ?retained, ?unaliased⟩
  case shape =>
    simp only [shapeOk, run, runSteps_length, runSteps_lists, List.length_map, beq_self_eq_true, Bool.true_and,
      Bool.and_true]
    by_cases hr : i.reopenOk = true <;> simp [hr]
  case push =>
    have := stepPairs_run i.mode i.queries i.ops []
    simpa [run, stateOf] using this
  case exact =>
    apply hview
    intro mode h q _
    by_cases hok : (listObs mode (stateOf h) q).ok = true
    · simp [hok, list_exact mode h q hok]
    · simp [hok]
  case iso =>
    apply hview
    intro mode h q _
    apply List.all_eq_true.2
    intro s hs
    obtain ⟨o, ho, hid, hsub, hkind⟩ := isolation mode h q s hs
    apply List.any_eq_true.2
    refine ⟨o, ho, ?_⟩
    rcases hkind with hk | ⟨hk, hat, hmt⟩
    · simp [hid, hsub, hk]
    · simp [hid, hsub, hk, hat, hmt]
  case refused =>
    apply hview
    intro mode h q _
    obtain ⟨h1, h2, _⟩ := list_refused_iff mode h q
    by_cases hok : (listObs mode (stateOf h) q).ok = true
    · simp [h1]; rw [h1] at hok; simp at hok; simp [hok]
    · have hok' : (listObs mode (stateOf h) q).ok = false := by simpa using hok
      simp [h1, h2 hok']
  case big =>
    apply hview
    intro mode h q _
    simp [(list_refused_iff mode h q).2.2]
  case round =>
    apply hview
    intro mode h q hnd
    by_cases hr : refused mode q h = true
    · simp [(list_refused_iff mode h q).1, hr]
    · have hr' : refused mode q h = false := by simpa using hr
      simp only [Bool.or_eq_true]
      right
      rw [hpaired mode h q hr']
      apply List.all_eq_true.2
      intro o ho
      dsimp only
      rw [listed_fetch mode h q hnd hr' o ho]
      cases hl : opLayers o with
      | nil => rfl
      | cons l r =>
        cases r with
        | cons l2 r2 => rfl
        | nil =>
          by_cases hsz : l.size > capB
          · have : ¬ (l.size ≤ capB) := by omega
            simp [this]
          · by_cases hst : storedSize h l.blob = some l.size
            · simp [expectFetch, hl, hsz, hst]
            · simp [hst]
  case pushed =>
    apply hview
    intro mode h q hnd
    by_cases hr : refused mode q h = true
    · simp [(list_refused_iff mode h q).1, hr]
    · have hr' : refused mode q h = false := by simpa using hr
      simp only [Bool.or_eq_true]
      right
      rw [hpaired mode h q hr']
      apply List.all_eq_true.2
      intro o ho
      by_cases hk : o.kind = .push
      · by_cases hsz : o.bsize ≤ capB
        · have := (fetch_roundtrip mode h q hnd hr' o ho hk hsz).2
          simp [this]
        · simp [hsz]
      · have : (o.kind == Kind.push) = false := by simpa using hk
        simp [this]
  case annos =>
    apply hview
    intro mode h q hnd
    by_cases hr : refused mode q h = true
    · simp [(list_refused_iff mode h q).1, hr]
    · have hr' : refused mode q h = false := by simpa using hr
      simp only [Bool.or_eq_true]
      right
      rw [hpaired mode h q hr']
      apply List.all_eq_true.2
      intro o _
      apply List.all_eq_true.2
      intro kv hkv
      simpa [sigObs] using annotations_superset o kv hkv
  case hostile =>
    apply hview
    intro mode h q hnd
    by_cases hr : refused mode q h = true
    · simp [(list_refused_iff mode h q).1, hr]
    · have hr' : refused mode q h = false := by simpa using hr
      simp only [Bool.or_eq_true]
      right
      rw [hpaired mode h q hr']
      apply List.all_eq_true.2
      intro o ho
      by_cases hh : hostileLayers (opLayers o) = true
      · rw [listed_fetch mode h q hnd hr' o ho]
        obtain ⟨h1, h2, h3⟩ := hostile_refused_before_use h o hh
        simp [h1, h2, h3]
      · simp [hh]
  case probe1 =>
    simp only [run, all_zip_map]
    apply List.all_eq_true.2
    intro d _
    by_cases hd : isManifestType d.mt = false ∨ d.size > capM
    · rw [descriptor_refused_before_read _ d hd]; simp [refuse]
    · have h1 : isManifestType d.mt = true := by
        cases hh : isManifestType d.mt <;> simp [hh] at hd ⊢
      have h2 : ¬ d.size > capM := fun hh => hd (Or.inr hh)
      simp [h1, h2]
  case probe2 =>
    simp only [run, all_zip_map, hfin]
    apply List.all_eq_true.2
    intro d _
    by_cases hd : (isManifestType d.mt && decide (d.size ≤ capM)) = true
    · simp only [hd, Bool.not_true, Bool.false_or]
      cases hp : probeTarget i.ops.reverse d with
      | none => rfl
      | some o =>
        obtain ⟨hc, hid, hmt, hsz⟩ := probeTarget_spec d _ o hp
        simp only [Bool.and_eq_true, decide_eq_true_eq] at hd
        have := fetchSig_spec i.ops.reverse o hnr hc (by rw [hmt]; exact hd.1) (by rw [hsz]; exact hd.2)
        rw [hmt, hid, hsz] at this
        simp [this]
    · simp [hd]
  case reopen => rfl
  case race =>
    have := runSteps_oks .exact [] i.race []
    simp only [run, beq_iff_eq]
    simpa [stateOf] using this
  case ctx =>
    simp only [run, all_zip_map, hfin]
    apply List.all_eq_true.2
    intro q _
    by_cases hok : (listObs i.mode (stateOf i.ops.reverse) q).ok = true
    · simp [ctxObs, hok, list_exact i.mode _ q hok]
    · simp [ctxObs, hok]
  case retained => rfl
  case unaliased => rfl

/-! ### non-vacuity -/

def s0 : Desc := ⟨mtImage, 0, 421⟩
def s0' : Desc := ⟨mtImage, 0, 422⟩      -- same digest, other size
def s1 : Desc := ⟨mtImage, 1, 422⟩

def pushOp (id : Nat) (s : Desc) (blob : Nat) : Op :=
  { kind := .push, id := id, subject := some s, mt := "application/jose+json", blob := blob, bsize := 100,
    msize := 600, atype := "", topType := "", layers := [], annos := [⟨"a", "1"⟩] }

def rawOp (id : Nat) (mt : String) (s : Desc) (atype : String) (layers : List Layer) (msize : Nat := 500) : Op :=
  { kind := .raw, id := id, subject := some s, mt := mt, blob := 0, bsize := 0, msize := msize, atype := atype,
    topType := "", layers := layers, annos := [] }

/-- two subjects; a signature each; a notation manifest for a subject that shares only the digest
with `s0`; another artifact type on `s0`; a hostile two-layer signature manifest on `s0`; a look-alike
artifact type (letter case) on `s1`; two concurrent first pushes; listings under done contexts -/
def demo : Input :=
  { mode := .digestOnly,
    ops := [pushOp 0 s0 1, pushOp 1 s1 2,
            rawOp 2 mtImage s0' notationType [⟨"application/cose", 1, 100⟩],
            rawOp 3 mtArtifact s0 "application/vnd.example.sbom" [⟨"application/cose", 2, 100⟩],
            rawOp 4 mtArtifact s0 notationType [⟨"application/cose", 1, 100⟩, ⟨"application/cose", 2, 100⟩],
            rawOp 5 mtImage s1 "application/vnd.cncf.notary.Signature" [⟨"application/cose", 1, 100⟩]],
    queries := [s0, s1], probes := [⟨mtImage, 0, 600⟩, ⟨mtImage, 0, capM + 1⟩], reopenOk := true,
    race := [pushOp 0 s0 1, pushOp 1 s0 2], raceSubject := s0, cuts := [0, 1] }

example : wf demo = true := by decide

/-- the final listings: `s0` has its pushed signature (fetchable, with the `created` annotation
added) and the hostile manifest (refused, no blob read); `s1` has exactly its own -/
example : (run demo).reopened =
    [ { ok := true, bigRead := false,
        sigs := [ { id := 0, annos := [⟨"a", "1"⟩, ⟨createdKey, timeMark⟩],
                    fetch := ⟨true, 1, "application/jose+json", true, true⟩ },
                  { id := 4, annos := [], fetch := ⟨false, 0, "", true, false⟩ } ] },
      { ok := true, bigRead := false,
        sigs := [ { id := 1, annos := [⟨"a", "1"⟩, ⟨createdKey, timeMark⟩],
                    fetch := ⟨true, 2, "application/jose+json", true, true⟩ } ] } ] := by decide

example : (run demo).probes = [⟨true, 1, "application/jose+json", true, true⟩, ⟨false, 0, "", false, false⟩] := by decide

/-- both concurrent pushes are accepted and listed; every cancelled listing is the complete one -/
example : (run demo).raceOks = [true, true] ∧ (run demo).raceList.sigs.map (·.id) = [0, 1] ∧
    (run demo).cancelled = [⟨false, [0, 4]⟩, ⟨false, [0, 4]⟩, ⟨false, [1]⟩, ⟨false, [1]⟩] := by decide

example : Holds demo (run demo) = true := by decide

/-- an oversized referrer refuses the listing of its subject only -/
example : ((run { demo with ops := demo.ops ++ [rawOp 6 mtImage s0 "x/y" [] (capM + 1)] }).reopened.map (·.ok)) =
    [false, true] := by decide

/-- wrong observations are rejected: the loser of the race not stored; a silently truncated
listing under a cancelled context; the look-alike artifact type listed -/
example : Holds demo { run demo with raceOks := [true, false] } = false := by decide
example : Holds demo { run demo with raceList := { (run demo).raceList with sigs := (run demo).raceList.sigs.take 1 } } = false := by decide
example : Holds demo { run demo with cancelled := [⟨false, [0]⟩, ⟨false, [0, 4]⟩, ⟨false, [1]⟩, ⟨false, [1]⟩] } = false := by decide
example : Holds demo { run demo with cancelled := [⟨true, []⟩, ⟨false, [0, 4]⟩, ⟨false, [1]⟩, ⟨true, []⟩] } = true := by decide
example : Holds demo { run demo with reopened := (run demo).reopened.map (fun l =>
    { l with sigs := l.sigs ++ [{ id := 5, annos := [], fetch := ⟨true, 1, "application/cose", true, true⟩ }] }) } = false := by decide

def goodSig0 : SigObs :=
  { id := 0, annos := [⟨"a", "1"⟩, ⟨createdKey, timeMark⟩], fetch := ⟨true, 1, "application/jose+json", true, true⟩ }
def okList (sigs : List SigObs) : ListObs := { ok := true, sigs := sigs, bigRead := false }
def stepOf (sigs : List SigObs) : StepObs := { ok := true, lists := [okList sigs] }

def demo2 : Input :=
  { mode := .digestOnly,
    ops := [pushOp 0 s0 1, rawOp 1 mtImage s0' notationType [⟨"application/cose", 1, 100⟩]],
    queries := [s0], probes := [], reopenOk := false, race := [], raceSubject := s0, cuts := [] }

def obs2 (steps : List StepObs) : Obs :=
  { steps := steps, probes := [], reopened := [], reopenSame := true, raceOks := [], raceList := okList [],
    cancelled := [], retained := true, unaliased := true }

example : run demo2 = obs2 [stepOf [goodSig0], stepOf [goodSig0]] := by decide

/-- a wrong observation is rejected: the manifest whose subject only shares the digest listed for `s0` -/
example : Holds demo2 (obs2 [stepOf [goodSig0],
    stepOf [goodSig0, { id := 1, annos := [], fetch := ⟨true, 1, "application/cose", true, true⟩ }]]) = false := by decide

/-- and so is a fetch that returns other bytes than were pushed -/
example : Holds demo2 (obs2 [stepOf [{ goodSig0 with fetch := ⟨true, 7, "application/jose+json", true, true⟩ }],
    stepOf [goodSig0]]) = false := by decide

/-- and an earlier fetch result that a later fetch overwrote (pooled buffer) -/
example : Holds demo2 { obs2 [stepOf [goodSig0], stepOf [goodSig0]] with retained := false } = false := by decide

/-- and a listing that misses a pushed signature -/
example : Holds demo2 (obs2 [stepOf [goodSig0], stepOf []]) = false := by decide

end NotationModel.C19

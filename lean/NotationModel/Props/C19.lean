/-
C19 - Stored signatures round-trip byte-for-byte and stay with their artifact.
Property theorems only; the model is in `Model/C19.lean`, the inductions over the history that
relate the state machine to the declarative reading of a history are in `Lemmas/C19.lean`.

Reading guide. A history `h : List Op` is newest-first. `stateOf h` is the state the model's
`step` function reaches; `listObs mode (stateOf h) q` is `ListSignatures(q)` followed by
`FetchSignatureBlob` of everything listed; `sigsFor q h` are the operations of the history that
stored a signature manifest of exactly `q` (a successful `PushSignature` for `q`, or a directly
written image / legacy artifact manifest with subject `q` and the notation artifact type).
-/
import NotationModel.Lemmas.C19
import NotationModel.Generated.SrcC19

set_option linter.unusedSimpArgs false
set_option linter.unusedVariables false

namespace NotationModel.C19
open NotationModel.Facts

/-! ### facts read from the Go source -/

/-- the caps are positive, the blob cap is not below the manifest cap -/
theorem caps_positive : 0 < capM ∧ 0 < capB ∧ capM ≤ capB := by decide

/-- the media types the model switches on are distinct, and the notation type is none of them -/
theorem media_types_distinct :
    mtImage ≠ mtArtifact ∧ mtImage ≠ c19MediaTypeImageIndex ∧ mtArtifact ≠ c19MediaTypeImageIndex ∧
    notationType ≠ mtImage ∧ notationType ≠ mtArtifact := by decide

/-- `ListSignatures` falls back to `signatureReferrers` (the token-based skeleton facts of earlier rounds about
guard order inside `signatureReferrers`, `getSignatureBlobDesc`, `FetchSignatureBlob` and `PushSignature` are
superseded by the ties to the translated source at the end of this file, which hold for all inputs and
survive renamings / mirrored comparisons that the token texts did not) -/
theorem list_uses_signatureReferrers : c19ListUsesSignatureReferrers = true := by decide

/-! ### the model run is the state machine over the history -/

/-- a view is good when its listing is the model's listing of the state after its history -/
def Good (v : View) : Prop :=
  v.lo = listObs v.mode (stateOf v.hist) v.q ∧ (v.hist.map (·.id)).Nodup

theorem mem_zipWith_map {α β γ : Type} (f : α → β → γ) (g : α → β) (v : γ) :
    ∀ (l : List α), v ∈ List.zipWith f l (l.map g) → ∃ a ∈ l, v = f a (g a) := by
  intro l
  induction l with
  | nil => intro h; simp at h
  | cons a r ih =>
    intro h
    simp only [List.map_cons, List.zipWith_cons_cons, List.mem_cons] at h
    rcases h with h | h
    · exact ⟨a, List.mem_cons_self, h⟩
    · obtain ⟨b, hb, hv⟩ := ih h
      exact ⟨b, List.mem_cons_of_mem _ hb, hv⟩

theorem all_zip_map {α β : Type} (g : α → β) (P : α × β → Bool) :
    ∀ (l : List α), (l.zip (l.map g)).all P = l.all (fun a => P (a, g a)) := by
  intro l
  induction l with
  | nil => rfl
  | cons a r ih => simp [List.zip_cons_cons, ih]

theorem runSteps_final (mode : Index) (qs : List Desc) : ∀ (ops h : List Op),
    (runSteps mode qs (stateOf h) ops).2 = stateOf (ops.reverse ++ h) := by
  intro ops
  induction ops with
  | nil => intro h; simp [runSteps]
  | cons o rest ih =>
    intro h
    simp only [runSteps]
    have : (step (stateOf h) o).1 = stateOf (o :: h) := rfl
    rw [this, ih (o :: h)]
    simp

theorem runSteps_length (mode : Index) (qs : List Desc) : ∀ (ops : List Op) (st : State),
    (runSteps mode qs st ops).1.length = ops.length := by
  intro ops
  induction ops with
  | nil => intro st; simp [runSteps]
  | cons o rest ih => intro st; simp [runSteps, ih]

theorem runSteps_descOk (mode : Index) (qs : List Desc) : ∀ (ops : List Op) (st : State),
    (runSteps mode qs st ops).1.all (·.descOk) = true := by
  intro ops
  induction ops with
  | nil => intro st; simp [runSteps]
  | cons o rest ih => intro st; simp [runSteps, ih]

theorem runSteps_lists (mode : Index) (qs : List Desc) : ∀ (ops : List Op) (st : State),
    (runSteps mode qs st ops).1.all (fun so => so.lists.length == qs.length) = true := by
  intro ops
  induction ops with
  | nil => intro st; simp [runSteps]
  | cons o rest ih => intro st; simp [runSteps, ih]

theorem nodup_reverse_of {l : List Nat} (h : l.Nodup) : l.reverse.Nodup := by
  unfold List.Nodup at *
  rw [List.pairwise_reverse]
  exact h.imp (fun hab => fun heq => hab heq.symm)

theorem nodup_suffix {h : List Op} {pre : List Op} (hn : ((pre ++ h).map (·.id)).Nodup) :
    (h.map (·.id)).Nodup := by
  rw [List.map_append] at hn
  exact (List.nodup_append.1 hn).2.1

theorem stepViews_run (mode : Index) (qs : List Desc) : ∀ (ops h : List Op),
    ((ops.reverse ++ h).map (·.id)).Nodup →
    ∀ v ∈ stepViews mode qs h ops (runSteps mode qs (stateOf h) ops).1, Good v := by
  intro ops
  induction ops with
  | nil => intro h _ v hv; simp [stepViews, runSteps] at hv
  | cons o rest ih =>
    intro h hn v hv
    have hn' : ((rest.reverse ++ (o :: h)).map (·.id)).Nodup := by
      simpa [List.reverse_cons, List.append_assoc] using hn
    simp only [runSteps, stepViews, List.mem_append] at hv
    have hst : (step (stateOf h) o).1 = stateOf (o :: h) := rfl
    rcases hv with hv | hv
    · obtain ⟨q, _, hq⟩ := mem_zipWith_map _ _ v qs hv
      subst hq
      exact ⟨by simp [hst], nodup_suffix hn'⟩
    · rw [hst] at hv
      exact ih (o :: h) hn' v hv

theorem stepPairs_run (mode : Index) (qs : List Desc) : ∀ (ops h : List Op),
    (stepPairs h ops (runSteps mode qs (stateOf h) ops).1).all (fun (h', op, so) => so.ok == succeeds h' op) = true := by
  intro ops
  induction ops with
  | nil => intro h; simp [stepPairs, runSteps]
  | cons o rest ih =>
    intro h
    have hst : (step (stateOf h) o).1 = stateOf (o :: h) := rfl
    simp only [runSteps, stepPairs, List.all_cons, step_ok, beq_self_eq_true, Bool.true_and]
    rw [hst]
    exact ih (o :: h)

theorem wf_ops (i : Input) (hwf : wf i = true) : (i.ops.map (·.id)).Nodup := by
  simp only [wf, Bool.and_eq_true, decide_eq_true_eq] at hwf; exact hwf.1

theorem wf_race (i : Input) (hwf : wf i = true) : (i.race.map (·.id)).Nodup := by
  simp only [wf, Bool.and_eq_true, decide_eq_true_eq] at hwf; exact hwf.2

theorem runSteps_final_init (mode : Index) (qs : List Desc) (ops : List Op) :
    (runSteps mode qs {} ops).2 = stateOf ops.reverse := by
  have := runSteps_final mode qs ops []
  simpa [stateOf] using this

theorem runSteps_oks (mode : Index) (qs : List Desc) : ∀ (ops h : List Op),
    (runSteps mode qs (stateOf h) ops).1.map (·.ok) = expectOks h ops := by
  intro ops
  induction ops with
  | nil => intro h; simp [runSteps, expectOks]
  | cons o rest ih =>
    intro h
    have hst : (step (stateOf h) o).1 = stateOf (o :: h) := rfl
    simp only [runSteps, expectOks, List.map_cons, step_ok]
    rw [hst, ih (o :: h)]

theorem views_run (i : Input) (hwf : wf i = true) : ∀ v ∈ views i (run i), Good v := by
  have hn : (i.ops.map (·.id)).Nodup := wf_ops i hwf
  have hn' : ((i.ops.reverse ++ ([] : List Op)).map (·.id)).Nodup := by
    simp only [List.append_nil, List.map_reverse]
    exact nodup_reverse_of hn
  intro v hv
  simp only [views, run, List.mem_append] at hv
  rcases hv with (hv | hv) | hv
  · exact stepViews_run i.mode i.queries i.ops [] hn' v hv
  · have hfin := runSteps_final_init i.mode i.queries i.ops
    by_cases hr : i.reopenOk = true
    · simp only [hr, if_true] at hv
      obtain ⟨q, _, hq⟩ := mem_zipWith_map _ _ v i.queries hv
      subst hq
      refine ⟨by simp [hfin], ?_⟩
      simpa using hn'
    · simp [hr] at hv
  · simp only [List.mem_singleton] at hv
    subst hv
    refine ⟨by simp [runSteps_final_init], ?_⟩
    simp only [List.map_reverse]
    exact nodup_reverse_of (wf_race i hwf)

/-! ### what a good view satisfies: the readable theorems, for every history -/

/-- **list_exact**: after any history, a listing that is not refused yields exactly the
signature manifests stored for that subject, in order of arrival. -/
theorem list_exact (mode : Index) (h : List Op) (q : Desc) (hok : (listObs mode (stateOf h) q).ok = true) :
    (listObs mode (stateOf h) q).sigs.map (·.id) = (sigsFor q h).map (·.id) := by
  rw [listObs_spec] at hok ⊢
  have hr : refused mode q h = false := by simpa using hok
  simp [hr, List.map_map, Function.comp_def, sigObs]

/-- the same as a statement about membership: a label is listed iff some operation of the history
with that label stored a signature manifest of exactly `q` -/
theorem listed_iff (mode : Index) (h : List Op) (q : Desc) (hok : (listObs mode (stateOf h) q).ok = true) (id : Nat) :
    id ∈ (listObs mode (stateOf h) q).sigs.map (·.id) ↔ ∃ o, SigIn q o h ∧ o.id = id := by
  rw [list_exact mode h q hok]
  simp only [List.mem_map, mem_sigsFor]

/-- **isolation**: whatever is listed for `q` was stored by an operation whose subject is exactly `q`
(media type, digest and size) and which is a `PushSignature` or a manifest of the notation type -
nothing of another subject, of another artifact type, or whose subject shares only some fields;
and this holds whether the index behind `Predecessors` is exact or keyed by digest only. -/
theorem isolation (mode : Index) (h : List Op) (q : Desc) (s : SigObs)
    (hs : s ∈ (listObs mode (stateOf h) q).sigs) :
    ∃ o ∈ h, o.id = s.id ∧ o.subject = some q ∧
      (o.kind = .push ∨ (o.kind = .raw ∧ o.atype = notationType ∧ isManifestType o.mt = true)) := by
  rw [listObs_spec] at hs
  by_cases hr : refused mode q h = true
  · simp [hr] at hs
  · have hr' : refused mode q h = false := by simpa using hr
    simp only [hr', Bool.false_eq_true, if_false] at hs
    obtain ⟨o, ho, hso⟩ := List.mem_map.1 hs
    have hp := sigIn_props q o h ((mem_sigsFor q o h).1 ho)
    exact ⟨o, hp.1, by rw [← hso]; simp [sigObs], hp.2.1, hp.2.2.2⟩

/-- isolation between subjects, spelled out: a signature pushed for `q'` is never listed for `q ≠ q'`
(in particular not when `q'` differs from `q` in exactly one of media type, digest, size) -/
theorem isolation_between_subjects (mode : Index) (h : List Op) (q q' : Desc) (hne : q ≠ q')
    (hnd : (h.map (·.id)).Nodup) (o : Op) (ho : o ∈ h) (hsub : o.subject = some q') :
    o.id ∉ (listObs mode (stateOf h) q).sigs.map (·.id) := by
  intro hmem
  obtain ⟨s, hs, hid⟩ := List.mem_map.1 hmem
  obtain ⟨o', ho', hid', hsub', _⟩ := isolation mode h q s hs
  have : o' = o := by
    have hinj : ∀ (l : List Op), (l.map (·.id)).Nodup → ∀ a ∈ l, ∀ b ∈ l, a.id = b.id → a = b := by
      intro l
      induction l with
      | nil => intro _ a ha; simp at ha
      | cons x r ih =>
        intro hn a ha b hb hab
        simp only [List.map_cons, List.nodup_cons, List.mem_map, not_exists, not_and] at hn
        simp only [List.mem_cons] at ha hb
        rcases ha with ha | ha <;> rcases hb with hb | hb
        · rw [ha, hb]
        · subst ha; exact absurd hab.symm (hn.1 b hb)
        · subst hb; exact absurd hab (hn.1 a ha)
        · exact ih hn.2 a ha b hb hab
    exact hinj h hnd o' ho' o ho (by rw [hid', hid])
  subst this
  rw [hsub] at hsub'
  exact hne (Option.some.inj hsub').symm

/-- the subject filter of `signatureReferrers` makes the answer independent of how exact the
predecessor index is: whenever both listings succeed they are the same -/
theorem list_independent_of_index (h : List Op) (q : Desc)
    (h1 : (listObs .exact (stateOf h) q).ok = true) (h2 : (listObs .digestOnly (stateOf h) q).ok = true) :
    listObs .exact (stateOf h) q = listObs .digestOnly (stateOf h) q := by
  rw [listObs_spec] at h1 h2 ⊢
  rw [listObs_spec]
  have r1 : refused .exact q h = false := by simpa using h1
  have r2 : refused .digestOnly q h = false := by simpa using h2
  simp [r1, r2]

/-- a listing is refused exactly when a referrer manifest of the subject exceeds the manifest
cap; it then lists nothing, and no manifest over the cap is ever read -/
theorem list_refused_iff (mode : Index) (h : List Op) (q : Desc) :
    (listObs mode (stateOf h) q).ok = !refused mode q h ∧
    ((listObs mode (stateOf h) q).ok = false → (listObs mode (stateOf h) q).sigs = []) ∧
    (listObs mode (stateOf h) q).bigRead = false := by
  rw [listObs_spec]
  refine ⟨rfl, ?_, rfl⟩
  intro hok
  have : refused mode q h = true := by simpa using hok
  simp [this]

/-- an oversized referrer of one subject does not disturb the listing of another digest -/
theorem refusal_is_per_subject (mode : Index) (h : List Op) (q : Desc)
    (hnone : ∀ o ∈ h, ∀ s, o.subject = some s → s.dig ≠ q.dig) : refused mode q h = false := by
  induction h with
  | nil => rfl
  | cons o h ih =>
    simp only [refused, Bool.or_eq_false_iff]
    refine ⟨ih (fun o' ho' => hnone o' (List.mem_cons_of_mem _ ho')), ?_⟩
    have hm : subjMatches mode q o.subject = false := by
      cases hs : o.subject with
      | none => simp [subjMatches]
      | some s =>
        have := hnone o List.mem_cons_self s hs
        cases mode <;> simp [subjMatches]
        · intro heq; exact this (by rw [heq])
        · exact this
    simp [hm]

/-- the fetch of a listed signature is what the history says (`expectFetch`) -/
theorem listed_fetch (mode : Index) (h : List Op) (q : Desc) (hn : (h.map (·.id)).Nodup)
    (hr : refused mode q h = false) (o : Op) (ho : o ∈ sigsFor q h) :
    (sigObs (stateOf h) (mkManifest o)).fetch = expectFetch h o := by
  have hs := (mem_sigsFor q o h).1 ho
  have hp := sigIn_props q o h hs
  simp only [sigObs, descOf, mk_mt, mk_id, mk_size]
  exact fetchSig_spec h o hn (sigIn_created q o h hs) hp.2.2.1 (sigIn_small mode q o h hr hs)

/-- **fetch_roundtrip**: after any history, a signature stored by a successful `PushSignature`
whose envelope is within the blob cap is listed for its subject, and fetching it returns exactly
the pushed bytes (label) and the pushed media type. -/
theorem fetch_roundtrip (mode : Index) (h : List Op) (q : Desc) (hn : (h.map (·.id)).Nodup)
    (hr : refused mode q h = false) (o : Op) (ho : o ∈ sigsFor q h) (hk : o.kind = .push)
    (hsz : o.bsize ≤ capB) :
    (sigObs (stateOf h) (mkManifest o)) ∈ (listObs mode (stateOf h) q).sigs ∧
    (sigObs (stateOf h) (mkManifest o)).fetch =
      { ok := true, blob := o.blob, mt := o.mt, manifestRead := true, blobRead := true } := by
  constructor
  · rw [listObs_spec]; simp only [hr, Bool.false_eq_true, if_false]
    exact List.mem_map.2 ⟨o, ho, rfl⟩
  · rw [listed_fetch mode h q hn hr o ho]
    have hs := (mem_sigsFor q o h).1 ho
    have hst := pushed_blob_stored o hk h (sigIn_created q o h hs)
    have : ¬ (o.bsize > capB) := by omega
    simp [expectFetch, opLayers, hk, hst, this]

theorem mem_insertKV (kv x : KV) : ∀ (l : List KV), x ∈ l → x ∈ insertKV kv l := by
  intro l
  induction l with
  | nil => intro h; simp at h
  | cons y r ih =>
    intro h
    simp only [insertKV]
    by_cases hlt : kv.k < y.k
    · simp only [hlt, if_true]; exact List.mem_cons_of_mem _ h
    · simp only [hlt, if_false]
      rcases List.mem_cons.1 h with h | h
      · rw [h]; exact List.mem_cons_self
      · exact List.mem_cons_of_mem _ (ih h)

/-- **annotations_superset**: every annotation handed to `PushSignature` (or written into a raw
manifest) is on the stored manifest, hence on the listed descriptor; the packer may add `created`. -/
theorem annotations_superset (o : Op) (kv : KV) (hkv : kv ∈ o.annos) : kv ∈ (mkManifest o).annos := by
  unfold mkManifest
  cases o.kind <;> simp only []
  · unfold ensureCreated
    split
    · exact hkv
    · exact mem_insertKV _ _ _ hkv
  · exact hkv
  · exact hkv

/-- **hostile_refused_before_use** (listed manifests): a listed manifest that does not carry exactly
one blob, or whose blob is declared larger than the cap, is refused and no blob is read. -/
theorem hostile_refused_before_use (h : List Op) (o : Op) (hh : hostileLayers (opLayers o) = true) :
    (expectFetch h o).ok = false ∧ (expectFetch h o).manifestRead = true ∧ (expectFetch h o).blobRead = false := by
  unfold expectFetch
  split
  · rename_i l heq
    simp only [hostileLayers, heq, List.length_singleton, bne_self_eq_false, Bool.false_or, List.any_cons,
      List.any_nil, Bool.or_false, decide_eq_true_eq] at hh
    simp [hh, refuse]
  · simp [refuse]

/-- **hostile_refused_before_use** (descriptors): a descriptor of another media type, or declaring
more than the manifest cap, is refused before anything is read - in any state. -/
theorem descriptor_refused_before_read (st : State) (d : Desc)
    (hd : isManifestType d.mt = false ∨ d.size > capM) :
    fetchSig st d = refuse false false := by
  unfold fetchSig
  rcases hd with hd | hd
  · have : (d.mt != mtArtifact && d.mt != mtImage) = true := by
      simp only [isManifestType, Bool.or_eq_false_iff] at hd
      simp [bne, hd.1, hd.2]
    simp [this]
  · by_cases hmt : (d.mt != mtArtifact && d.mt != mtImage) = true
    · simp [hmt]
    · simp [hmt, hd]

/-- in no state does `FetchSignatureBlob` read a blob that is declared larger than the cap, or
read anything for a manifest that does not have exactly one blob -/
theorem blob_read_implies_single_small_layer (st : State) (ls : List Layer)
    (hread : (fetchLayers st ls).blobRead = true) : ∃ l, ls = [l] ∧ l.size ≤ capB := by
  unfold fetchLayers at hread
  split at hread
  · rename_i l
    refine ⟨l, rfl, ?_⟩
    by_cases hb : l.size > capB
    · simp [hb, refuse] at hread
    · omega
  · simp [refuse] at hread

/-! ### concurrent pushes and done contexts -/

theorem stored_mem (h : List Op) (b : Nat) (hs : stored h b = true) : ∃ o ∈ h, o.blob = b := by
  simp only [stored, List.any_eq_true, Bool.and_eq_true, beq_iff_eq] at hs
  obtain ⟨o, ho, _, hb⟩ := hs
  exact ⟨o, ho, hb⟩

/-- pushes of pairwise distinct envelopes, in whatever order they take effect: the signatures listed
for `q` afterwards are exactly the pushes whose subject is `q` - none is lost, the order does not
matter (the right-hand side does not mention it). This is what the concurrency stage is held to. -/
theorem distinct_pushes_all_listed (q : Desc) (o : Op) : ∀ (h : List Op), (∀ x ∈ h, x.kind = .push) →
    (h.map (·.blob)).Nodup → (o ∈ sigsFor q h ↔ o ∈ h ∧ o.subject = some q) := by
  intro h
  induction h with
  | nil => intro _ _; simp [sigsFor]
  | cons x h ih =>
    intro hk hn
    simp only [List.map_cons, List.nodup_cons] at hn
    have hns : stored h x.blob = false := by
      cases hs : stored h x.blob with
      | false => rfl
      | true =>
        obtain ⟨y, hy, hb⟩ := stored_mem h x.blob hs
        exact absurd (List.mem_map.2 ⟨y, hy, hb⟩) hn.1
    have hsig : isSigFor h x q = (x.subject == some q) := by
      simp [isSigFor, hk x List.mem_cons_self, hns]
    simp only [sigsFor, List.mem_append, ih (fun y hy => hk y (List.mem_cons_of_mem _ hy)) hn.2, hsig,
      List.mem_cons]
    by_cases hx : (x.subject == some q) = true
    · have hx' : x.subject = some q := by simpa using hx
      simp only [hx, if_true, List.mem_singleton]
      constructor
      · rintro (⟨h1, h2⟩ | h1)
        · exact ⟨Or.inr h1, h2⟩
        · exact ⟨Or.inl h1, by rw [h1]; exact hx'⟩
      · rintro ⟨h1 | h1, h2⟩
        · exact Or.inr h1
        · exact Or.inl ⟨h1, h2⟩
    · have hx' : ¬ x.subject = some q := by simpa using hx
      have hxf : (x.subject == some q) = false := by simpa using hx
      simp only [hxf, Bool.false_eq_true, if_false, List.not_mem_nil, or_false]
      constructor
      · rintro ⟨h1, h2⟩; exact ⟨Or.inr h1, h2⟩
      · rintro ⟨h1 | h1, h2⟩
        · rw [h1] at h2; exact absurd h2 hx'
        · exact ⟨h1, h2⟩

/-- ... and every one of them is accepted -/
theorem distinct_pushes_all_accepted : ∀ (ops h : List Op), (∀ x ∈ ops, x.kind = .push) →
    ((ops.reverse ++ h).map (·.blob)).Nodup → (∀ x ∈ h, writesBlob x = true) →
    (expectOks h ops).all id = true := by
  intro ops
  induction ops with
  | nil => intro h _ _ _; rfl
  | cons o rest ih =>
    intro h hk hn hw
    have hn' : ((rest.reverse ++ (o :: h)).map (·.blob)).Nodup := by
      simpa [List.reverse_cons, List.append_assoc] using hn
    have hoh : ((o :: h).map (·.blob)).Nodup := by
      rw [List.map_append] at hn'
      exact (List.nodup_append.1 hn').2.1
    simp only [List.map_cons, List.nodup_cons] at hoh
    have hns : stored h o.blob = false := by
      cases hs : stored h o.blob with
      | false => rfl
      | true =>
        obtain ⟨y, hy, hb⟩ := stored_mem h o.blob hs
        exact absurd (List.mem_map.2 ⟨y, hy, hb⟩) hoh.1
    have hko := hk o List.mem_cons_self
    simp only [expectOks, List.all_cons, id, succeeds, hko, hns, Bool.not_false, Bool.true_and]
    refine ih (o :: h) (fun x hx => hk x (List.mem_cons_of_mem _ hx)) hn' ?_
    intro x hx
    rcases List.mem_cons.1 hx with hx | hx
    · rw [hx]; simp [writesBlob, hko]
    · exact hw x hx

/-- a listing under a done context is the listing under a live one (the store ignores the
context, `signatureReferrers` does not look at it): complete, or the same refusal -/
theorem cancelled_listing_complete (mode : Index) (h : List Op) (q : Desc) :
    (ctxObs mode (stateOf h) q).err = true ∨ (ctxObs mode (stateOf h) q).ids = (sigsFor q h).map (·.id) := by
  by_cases hok : (listObs mode (stateOf h) q).ok = true
  · right; simp [ctxObs, list_exact mode h q hok]
  · left; simp [ctxObs, hok]

/-- in the model results are values: nothing a later call (on this or another repository) does
can change what an earlier call returned, and no two results share anything. The harness checks
the real code against exactly this: it keeps every returned envelope slice, blob descriptor,
callback slice and annotation map and re-compares them after all later calls (`retained`), and
checks that their memory is disjoint from each other and from caller-owned input (`unaliased`). -/
theorem results_are_values (i : Input) : (run i).retained = true ∧ (run i).unaliased = true := ⟨rfl, rfl⟩

/-! ### the whole property -/

theorem probeTarget_spec (d : Desc) : ∀ (h : List Op) (o : Op), probeTarget h d = some o →
    CreatedIn o h ∧ o.id = d.dig ∧ opMt o = d.mt ∧ o.msize = d.size := by
  intro h
  induction h with
  | nil => intro o ho; simp [probeTarget] at ho
  | cons x h ih =>
    intro o ho
    simp only [probeTarget] at ho
    by_cases hc : (creates h x && x.id == d.dig) = true
    · simp only [hc, if_true] at ho
      by_cases hm : (opMt x == d.mt && x.msize == d.size) = true
      · simp only [hm, if_true, Option.some.injEq] at ho
        subst ho
        simp only [Bool.and_eq_true, beq_iff_eq] at hc hm
        exact ⟨Or.inl ⟨rfl, hc.1⟩, hc.2, hm.1, hm.2⟩
      · simp [hm] at ho
    · simp only [hc] at ho
      obtain ⟨h1, h2⟩ := ih o ho
      exact ⟨Or.inr h1, h2⟩

/-- **C19, the whole property**: every clause of `Holds` is true of the model's behaviour, for
every well-formed input (any number of operations, subjects, queries and probes). -/
theorem model_holds (i : Input) (hwf : wf i = true) : Holds i (run i) = true := by
  have hgood := views_run i hwf
  have hn : (i.ops.map (·.id)).Nodup := wf_ops i hwf
  have hnr : (i.ops.reverse.map (·.id)).Nodup := by
    rw [List.map_reverse]; exact nodup_reverse_of hn
  have hfin : (runSteps i.mode i.queries {} i.ops).2 = stateOf i.ops.reverse :=
    runSteps_final_init i.mode i.queries i.ops
  -- per-view facts
  have hview : ∀ (f : View → Bool),
      (∀ mode h q, (h.map (·.id)).Nodup → f ⟨mode, h, q, listObs mode (stateOf h) q⟩ = true) →
      (views i (run i)).all f = true := by
    intro f hf
    apply List.all_eq_true.2
    intro v hv
    obtain ⟨hlo, hnd⟩ := hgood v hv
    have := hf v.mode v.hist v.q hnd
    rw [← hlo] at this
    exact this
  -- the listed signatures of a non-refused view
  have hpaired : ∀ mode h q, refused mode q h = false → ∀ (P : Op × SigObs → Bool),
      (paired ⟨mode, h, q, listObs mode (stateOf h) q⟩).all P =
        (sigsFor q h).all (fun o => P (o, sigObs (stateOf h) (mkManifest o))) := by
    intro mode h q hr P
    simp only [paired]
    rw [listObs_spec]
    simp only [hr, Bool.false_eq_true, if_false]
    exact all_zip_map _ P _
  unfold Holds clauses
  simp only [Clauses.holds_cons, Clauses.holds_nil, Bool.and_true, Bool.and_eq_true]
  refine ⟨hwf, ?shape, ?pdesc, ?push, ?exact, ?iso, ?refused, ?big, ?round, ?pushed, ?annos, ?hostile, ?probe1, ?probe2, ?reopen, ?race, ?ctx, ?retained, ?unaliased⟩
  case shape =>
    simp only [shapeOk, run, runSteps_length, runSteps_lists, List.length_map, beq_self_eq_true, Bool.true_and,
      Bool.and_true]
    by_cases hr : i.reopenOk = true <;> simp [hr]
  case pdesc => simp only [run]; exact runSteps_descOk _ _ _ _
  case push =>
    have := stepPairs_run i.mode i.queries i.ops []
    simpa [run, stateOf] using this
  case exact =>
    apply hview
    intro mode h q _
    by_cases hok : (listObs mode (stateOf h) q).ok = true
    · simp [hok, list_exact mode h q hok]
    · simp [hok]
  case iso =>
    apply hview
    intro mode h q _
    apply List.all_eq_true.2
    intro s hs
    obtain ⟨o, ho, hid, hsub, hkind⟩ := isolation mode h q s hs
    apply List.any_eq_true.2
    refine ⟨o, ho, ?_⟩
    rcases hkind with hk | ⟨hk, hat, hmt⟩
    · simp [hid, hsub, hk]
    · simp [hid, hsub, hk, hat, hmt]
  case refused =>
    apply hview
    intro mode h q _
    obtain ⟨h1, h2, _⟩ := list_refused_iff mode h q
    by_cases hok : (listObs mode (stateOf h) q).ok = true
    · simp [h1]; rw [h1] at hok; simp at hok; simp [hok]
    · have hok' : (listObs mode (stateOf h) q).ok = false := by simpa using hok
      simp [h1, h2 hok']
  case big =>
    apply hview
    intro mode h q _
    simp [(list_refused_iff mode h q).2.2]
  case round =>
    apply hview
    intro mode h q hnd
    by_cases hr : refused mode q h = true
    · simp [(list_refused_iff mode h q).1, hr]
    · have hr' : refused mode q h = false := by simpa using hr
      simp only [Bool.or_eq_true]
      right
      rw [hpaired mode h q hr']
      apply List.all_eq_true.2
      intro o ho
      dsimp only
      rw [listed_fetch mode h q hnd hr' o ho]
      cases hl : opLayers o with
      | nil => rfl
      | cons l r =>
        cases r with
        | cons l2 r2 => rfl
        | nil =>
          by_cases hsz : l.size > capB
          · have : ¬ (l.size ≤ capB) := by omega
            simp [this]
          · by_cases hst : storedSize h l.blob = some l.size
            · simp [expectFetch, hl, hsz, hst]
            · simp [hst]
  case pushed =>
    apply hview
    intro mode h q hnd
    by_cases hr : refused mode q h = true
    · simp [(list_refused_iff mode h q).1, hr]
    · have hr' : refused mode q h = false := by simpa using hr
      simp only [Bool.or_eq_true]
      right
      rw [hpaired mode h q hr']
      apply List.all_eq_true.2
      intro o ho
      by_cases hk : o.kind = .push
      · by_cases hsz : o.bsize ≤ capB
        · have := (fetch_roundtrip mode h q hnd hr' o ho hk hsz).2
          simp [this]
        · simp [hsz]
      · have : (o.kind == Kind.push) = false := by simpa using hk
        simp [this]
  case annos =>
    apply hview
    intro mode h q hnd
    by_cases hr : refused mode q h = true
    · simp [(list_refused_iff mode h q).1, hr]
    · have hr' : refused mode q h = false := by simpa using hr
      simp only [Bool.or_eq_true]
      right
      rw [hpaired mode h q hr']
      apply List.all_eq_true.2
      intro o _
      apply List.all_eq_true.2
      intro kv hkv
      simpa [sigObs] using annotations_superset o kv hkv
  case hostile =>
    apply hview
    intro mode h q hnd
    by_cases hr : refused mode q h = true
    · simp [(list_refused_iff mode h q).1, hr]
    · have hr' : refused mode q h = false := by simpa using hr
      simp only [Bool.or_eq_true]
      right
      rw [hpaired mode h q hr']
      apply List.all_eq_true.2
      intro o ho
      by_cases hh : hostileLayers (opLayers o) = true
      · rw [listed_fetch mode h q hnd hr' o ho]
        obtain ⟨h1, h2, h3⟩ := hostile_refused_before_use h o hh
        simp [h1, h2, h3]
      · simp [hh]
  case probe1 =>
    simp only [run, all_zip_map]
    apply List.all_eq_true.2
    intro d _
    by_cases hd : isManifestType d.mt = false ∨ d.size > capM
    · rw [descriptor_refused_before_read _ d hd]; simp [refuse]
    · have h1 : isManifestType d.mt = true := by
        cases hh : isManifestType d.mt <;> simp [hh] at hd ⊢
      have h2 : ¬ d.size > capM := fun hh => hd (Or.inr hh)
      simp [h1, h2]
  case probe2 =>
    simp only [run, all_zip_map, hfin]
    apply List.all_eq_true.2
    intro d _
    by_cases hd : (isManifestType d.mt && decide (d.size ≤ capM)) = true
    · simp only [hd, Bool.not_true, Bool.false_or]
      cases hp : probeTarget i.ops.reverse d with
      | none => rfl
      | some o =>
        obtain ⟨hc, hid, hmt, hsz⟩ := probeTarget_spec d _ o hp
        simp only [Bool.and_eq_true, decide_eq_true_eq] at hd
        have := fetchSig_spec i.ops.reverse o hnr hc (by rw [hmt]; exact hd.1) (by rw [hsz]; exact hd.2)
        rw [hmt, hid, hsz] at this
        simp [this]
    · simp [hd]
  case reopen => rfl
  case race =>
    have := runSteps_oks .exact [] i.race []
    simp only [run, beq_iff_eq]
    simpa [stateOf] using this
  case ctx =>
    simp only [run, all_zip_map, hfin]
    apply List.all_eq_true.2
    intro q _
    by_cases hok : (listObs i.mode (stateOf i.ops.reverse) q).ok = true
    · simp [ctxObs, hok, list_exact i.mode _ q hok]
    · simp [ctxObs, hok]
  case retained => rfl
  case unaliased => rfl

/-! ### non-vacuity -/

def s0 : Desc := ⟨mtImage, 0, 421⟩
def s0' : Desc := ⟨mtImage, 0, 422⟩      -- same digest, other size
def s1 : Desc := ⟨mtImage, 1, 422⟩

def pushOp (id : Nat) (s : Desc) (blob : Nat) : Op :=
  { kind := .push, id := id, subject := some s, mt := "application/jose+json", blob := blob, bsize := 100,
    msize := 600, atype := "", topType := "", layers := [], stray := [], annos := [⟨"a", "1"⟩] }

def rawOp (id : Nat) (mt : String) (s : Desc) (atype : String) (layers : List Layer) (msize : Nat := 500) : Op :=
  { kind := .raw, id := id, subject := some s, mt := mt, blob := 0, bsize := 0, msize := msize, atype := atype,
    topType := "", layers := layers, stray := [], annos := [] }

/-- two subjects; a signature each; a notation manifest for a subject that shares only the digest
with `s0`; another artifact type on `s0`; a hostile two-layer signature manifest on `s0`; a look-alike
artifact type (letter case) on `s1`; two concurrent first pushes; listings under done contexts -/
def demo : Input :=
  { mode := .digestOnly,
    ops := [pushOp 0 s0 1, pushOp 1 s1 2,
            rawOp 2 mtImage s0' notationType [⟨"application/cose", 1, 100⟩],
            rawOp 3 mtArtifact s0 "application/vnd.example.sbom" [⟨"application/cose", 2, 100⟩],
            rawOp 4 mtArtifact s0 notationType [⟨"application/cose", 1, 100⟩, ⟨"application/cose", 2, 100⟩],
            rawOp 5 mtImage s1 "application/vnd.cncf.notary.Signature" [⟨"application/cose", 1, 100⟩]],
    queries := [s0, s1], probes := [⟨mtImage, 0, 600⟩, ⟨mtImage, 0, capM + 1⟩], reopenOk := true,
    race := [pushOp 0 s0 1, pushOp 1 s0 2], raceSubject := s0, cuts := [0, 1] }

example : wf demo = true := by decide

/-- the final listings: `s0` has its pushed signature (fetchable, with the `created` annotation
added) and the hostile manifest (refused, no blob read); `s1` has exactly its own -/
example : (run demo).reopened =
    [ { ok := true, bigRead := false,
        sigs := [ { id := 0, annos := [⟨"a", "1"⟩, ⟨createdKey, timeMark⟩],
                    fetch := ⟨true, 1, "application/jose+json", true, true⟩ },
                  { id := 4, annos := [], fetch := ⟨false, 0, "", true, false⟩ } ] },
      { ok := true, bigRead := false,
        sigs := [ { id := 1, annos := [⟨"a", "1"⟩, ⟨createdKey, timeMark⟩],
                    fetch := ⟨true, 2, "application/jose+json", true, true⟩ } ] } ] := by decide

example : (run demo).probes = [⟨true, 1, "application/jose+json", true, true⟩, ⟨false, 0, "", false, false⟩] := by decide

/-- both concurrent pushes are accepted and listed; every cancelled listing is the complete one -/
example : (run demo).raceOks = [true, true] ∧ (run demo).raceList.sigs.map (·.id) = [0, 1] ∧
    (run demo).cancelled = [⟨false, [0, 4]⟩, ⟨false, [0, 4]⟩, ⟨false, [1]⟩, ⟨false, [1]⟩] := by decide

example : Holds demo (run demo) = true := by decide

/-- an oversized referrer refuses the listing of its subject only -/
example : ((run { demo with ops := demo.ops ++ [rawOp 6 mtImage s0 "x/y" [] (capM + 1)] }).reopened.map (·.ok)) =
    [false, true] := by decide

/-- wrong observations are rejected: the loser of the race not stored; a silently truncated
listing under a cancelled context; the look-alike artifact type listed -/
example : Holds demo { run demo with raceOks := [true, false] } = false := by decide
example : Holds demo { run demo with raceList := { (run demo).raceList with sigs := (run demo).raceList.sigs.take 1 } } = false := by decide
example : Holds demo { run demo with cancelled := [⟨false, [0]⟩, ⟨false, [0, 4]⟩, ⟨false, [1]⟩, ⟨false, [1]⟩] } = false := by decide
example : Holds demo { run demo with cancelled := [⟨true, []⟩, ⟨false, [0, 4]⟩, ⟨false, [1]⟩, ⟨true, []⟩] } = true := by decide
example : Holds demo { run demo with reopened := (run demo).reopened.map (fun l =>
    { l with sigs := l.sigs ++ [{ id := 5, annos := [], fetch := ⟨true, 1, "application/cose", true, true⟩ }] }) } = false := by decide

def goodSig0 : SigObs :=
  { id := 0, annos := [⟨"a", "1"⟩, ⟨createdKey, timeMark⟩], fetch := ⟨true, 1, "application/jose+json", true, true⟩ }
def okList (sigs : List SigObs) : ListObs := { ok := true, sigs := sigs, bigRead := false }
def stepOf (sigs : List SigObs) : StepObs := { ok := true, descOk := true, lists := [okList sigs] }

def demo2 : Input :=
  { mode := .digestOnly,
    ops := [pushOp 0 s0 1, rawOp 1 mtImage s0' notationType [⟨"application/cose", 1, 100⟩]],
    queries := [s0], probes := [], reopenOk := false, race := [], raceSubject := s0, cuts := [] }

def obs2 (steps : List StepObs) : Obs :=
  { steps := steps, probes := [], reopened := [], reopenSame := true, raceOks := [], raceList := okList [],
    cancelled := [], retained := true, unaliased := true }

example : run demo2 = obs2 [stepOf [goodSig0], stepOf [goodSig0]] := by decide

/-- a wrong observation is rejected: the manifest whose subject only shares the digest listed for `s0` -/
example : Holds demo2 (obs2 [stepOf [goodSig0],
    stepOf [goodSig0, { id := 1, annos := [], fetch := ⟨true, 1, "application/cose", true, true⟩ }]]) = false := by decide

/-- and so is a fetch that returns other bytes than were pushed -/
example : Holds demo2 (obs2 [stepOf [{ goodSig0 with fetch := ⟨true, 7, "application/jose+json", true, true⟩ }],
    stepOf [goodSig0]]) = false := by decide

/-- and an earlier fetch result that a later fetch overwrote (pooled buffer) -/
example : Holds demo2 { obs2 [stepOf [goodSig0], stepOf [goodSig0]] with retained := false } = false := by decide

/-- and a push that hands back a blob descriptor with another media type than was pushed -/
example : Holds demo2 (obs2 [{ stepOf [goodSig0] with descOk := false }, stepOf [goodSig0]]) = false := by decide

/-- a polyglot - an image manifest with no layer but a stray `blobs` member of the legacy format - is listed (notation type,
exact subject), refused by a fetch through its own descriptor without a blob read; only a hand-made descriptor that
names the OTHER manifest type makes the code read the stray list -/
def polyglotIn : Input :=
  { demo2 with ops := [pushOp 0 s0 1, { rawOp 1 mtImage s0 notationType [] with stray := [⟨"application/cose", 1, 100⟩] }],
               probes := [⟨mtImage, 1, 500⟩, ⟨mtArtifact, 1, 500⟩] }
example : ((run polyglotIn).steps.map (fun s => s.lists.map (fun l => l.sigs.map (fun g => (g.id, g.fetch.ok, g.fetch.blobRead))))) =
    [[[(0, true, true)]], [[(0, true, true), (1, false, false)]]] ∧
    (run polyglotIn).probes.map (fun f => (f.ok, f.blob)) = [(false, 0), (true, 1)] := by decide
example : Holds polyglotIn (run polyglotIn) = true := by decide
example : Holds polyglotIn { run polyglotIn with steps := (run polyglotIn).steps.map (fun s => { s with lists := s.lists.map (fun l =>
    { l with sigs := l.sigs.map (fun g => if g.id == 1 then { g with fetch := ⟨true, 1, "application/cose", true, true⟩ } else g) }) }) } = false := by
  decide

/-- and a listing that misses a pushed signature -/
example : Holds demo2 (obs2 [stepOf [goodSig0], stepOf []]) = false := by decide

/-! ### tie to the translated source (docs/TIE_BRIEF.md) -/
namespace Tie
open NotationModel.Src.registry

/-! #### the listing: one decision function, two instantiations -/

/-- what the loop of `signatureReferrers` needs to know about one predecessor -/
structure NodeView where
  manifestType : Bool              -- the media type is the artifact manifest or the image manifest type
  big : Bool                       -- size > maxManifestSizeLimit
  content : Option (Bool × Bool)   -- none: fetching / decoding failed; some (subject equals the queried
                                   -- descriptor, artifact type is the notation type)

inductive NodeDec | skip | keep | tooLarge | fail
  deriving DecidableEq, Repr

/-- the per-node decision. `content` is looked at only for a manifest type within the cap. -/
def decideNode (v : NodeView) : NodeDec :=
  if v.manifestType then
    if v.big then .tooLarge
    else match v.content with
      | none => .fail
      | some (subjOk, typeOk) => if subjOk && typeOk then .keep else .skip
  else .skip

/-- the listing over any kind of node: the first oversized / unreadable node refuses the whole
listing, otherwise the kept nodes in order -/
def listG {α : Type} (view : α → NodeView) : List α → Option (List α)
  | [] => some []
  | a :: r =>
    match decideNode (view a) with
    | .tooLarge => none
    | .fail => none
    | .keep => (listG view r).map (a :: ·)
    | .skip => listG view r

/-- the model's view of a stored manifest when `q` is listed (content is always readable there) -/
def modelView (q : Desc) (m : Manifest) : NodeView :=
  { manifestType := isManifestType m.mt, big := decide (m.size > capM),
    content := some (m.subject == some q, m.atype == notationType) }

/-- the model's loop is `listG` of the model's view -/
theorem model_scan_is_listG (q : Desc) : ∀ (ms : List Manifest),
    (if (scan q ms).err then none else some (scan q ms).kept) = listG (modelView q) ms := by
  intro ms
  induction ms with
  | nil => simp [scan, listG]
  | cons m r ih =>
    have hcase : isManifestType m.mt = true →
        (if (scanCase q m (scan q r)).err then none else some (scanCase q m (scan q r)).kept) = listG (modelView q) (m :: r) := by
      intro hmt
      simp only [listG, decideNode, modelView, hmt, if_true, scanCase]
      by_cases hbig : m.size > capM
      · simp [hbig]
      · simp only [hbig, decide_false, Bool.false_eq_true, if_false]
        by_cases hs : (m.subject == some q) = true
        · have hs' : (m.subject != some q) = false := by simp [bne, hs]
          by_cases ht : (m.atype == notationType) = true
          · simp only [hs', hs, ht, Bool.false_eq_true, if_false, if_true, Bool.and_self, ← ih]
            by_cases he : (scan q r).err = true <;> simp [he]
          · simp only [hs', hs, ht, Bool.false_eq_true, if_false, Bool.and_false, Bool.true_and, ← ih]
        · have hs' : (m.subject != some q) = true := by simp [bne, hs]
          simp only [hs', hs, if_true, Bool.false_and, Bool.false_eq_true, if_false, ← ih]
    simp only [scan]
    by_cases h1 : (m.mt == mtArtifact) = true
    · simp only [h1, if_true]; exact hcase (by simp [isManifestType, h1])
    · simp only [h1, if_false]
      by_cases h2 : (m.mt == mtImage) = true
      · simp only [h2, if_true]; exact hcase (by simp [isManifestType, h2])
      · have hmt : isManifestType m.mt = false := by simp [isManifestType, h1, h2]
        simp only [h2, if_false, listG, decideNode, modelView, hmt, Bool.false_eq_true, ih]

/-- what the oracles tell the translated loop about the content of a predecessor -/
structure SrcContent where
  subject : Option ocispec.Descriptor
  atype : String
  annos : GoLite.Map String String

def srcFetchErr (w : World) (t : Via) (n : ocispec.Descriptor) : Option GoLite.Err :=
  if (w.FetchAll t n).2.isSome then (w.FetchAll t n).2
  else if n.MediaType == artifactspec.MediaTypeArtifactManifest then (w.decodeArtifact (w.FetchAll t n).1 default).2
  else (w.decodeManifest (w.FetchAll t n).1 default).2

/-- fetch + decode by media type (a fresh decode target every time) -/
def srcDecode (w : World) (t : Via) (n : ocispec.Descriptor) : Option SrcContent :=
  if (srcFetchErr w t n).isSome then none
  else if n.MediaType == artifactspec.MediaTypeArtifactManifest then
    let d := (w.decodeArtifact (w.FetchAll t n).1 default).1
    some ⟨d.Subject, d.ArtifactType, d.Annotations⟩
  else
    let d := (w.decodeManifest (w.FetchAll t n).1 default).1
    some ⟨d.Subject, d.Config.MediaType, d.Annotations⟩

/-- the translated loop's view of a predecessor -/
def srcView (w : World) (t : Via) (desc : ocispec.Descriptor) (n : ocispec.Descriptor) : NodeView :=
  { manifestType := n.MediaType == artifactspec.MediaTypeArtifactManifest || n.MediaType == ocispec.MediaTypeImageManifest,
    big := decide (n.Size > maxManifestSizeLimit),
    content := (srcDecode w t n).map (fun c =>
      (c.subject.isSome && content.Equal (GoLite.deref c.subject) desc, c.atype == ArtifactTypeNotation)) }

/-- a kept node is appended with artifact type and annotations taken from its content -/
def srcUpdate (w : World) (t : Via) (n : ocispec.Descriptor) : ocispec.Descriptor :=
  match srcDecode w t n with
  | some c => { n with ArtifactType := c.atype, Annotations := c.annos }
  | none => n

/-- result shape of a listing: refused, or the descriptors in order -/
def listShape (r : List ocispec.Descriptor × Option GoLite.Err) : Option (List ocispec.Descriptor) :=
  if r.2.isSome then none else some r.1

abbrev LoopSt := Option (List ocispec.Descriptor × Option GoLite.Err) × List ocispec.Descriptor × Option GoLite.Err

def srcStep (w : World) (t : Via) (desc : ocispec.Descriptor) (acc : List ocispec.Descriptor) (n : ocispec.Descriptor) :
    Except (Option GoLite.Err × Option GoLite.Err) (List ocispec.Descriptor) :=
  match decideNode (srcView w t desc n) with
  | .tooLarge => .error (some (GoLite.errorf ""), none)
  | .fail => .error (srcFetchErr w t n, srcFetchErr w t n)
  | .keep => .ok (acc ++ [srcUpdate w t n])
  | .skip => .ok acc

def absSt (acc : List ocispec.Descriptor) : LoopSt := (none, acc, none)
def stopSt (acc : List ocispec.Descriptor) (e : Option GoLite.Err × Option GoLite.Err) : LoopSt := (some (default, e.1), acc, e.2)

theorem decideNode_fail (v : NodeView) (h : decideNode v = .fail) : v.content = none := by
  unfold decideNode at h
  by_cases h1 : v.manifestType = true
  · by_cases h2 : v.big = true
    · simp [h1, h2] at h
    · cases hc : v.content with
      | none => rfl
      | some p =>
        obtain ⟨a, b⟩ := p
        simp only [h1, h2, hc, if_true, Bool.false_eq_true, if_false] at h
        by_cases hab : (a && b) = true <;> simp [hab] at h
  · simp [h1] at h

theorem srcDecode_none (w : World) (t : Via) (n : ocispec.Descriptor) (h : srcDecode w t n = none) :
    (srcFetchErr w t n).isSome = true := by
  unfold srcDecode at h
  by_cases he : (srcFetchErr w t n).isSome = true
  · exact he
  · simp only [he, Bool.false_eq_true, if_false] at h
    by_cases ha : (n.MediaType == artifactspec.MediaTypeArtifactManifest) = true <;> simp [ha] at h

theorem srcStep_error_isSome (w : World) (t : Via) (desc : ocispec.Descriptor) (acc : List ocispec.Descriptor)
    (n : ocispec.Descriptor) (e : Option GoLite.Err × Option GoLite.Err) (h : srcStep w t desc acc n = .error e) :
    e.1.isSome = true := by
  unfold srcStep at h
  cases hd : decideNode (srcView w t desc n) with
  | tooLarge => rw [hd] at h; simp only [Except.error.injEq] at h; rw [← h]; rfl
  | fail =>
    rw [hd] at h; simp only [Except.error.injEq] at h; rw [← h]
    have hc := decideNode_fail _ hd
    simp only [srcView, Option.map_eq_none_iff] at hc
    exact srcDecode_none w t n hc
  | keep => rw [hd] at h; simp at h
  | skip => rw [hd] at h; simp at h

theorem foldE_listG (w : World) (t : Via) (desc : ocispec.Descriptor) : ∀ (nodes acc : List ocispec.Descriptor),
    (match GoLite.foldE (srcStep w t desc) nodes acc with
      | .ok r => some r
      | .error _ => none) = (listG (srcView w t desc) nodes).map (fun l => acc ++ l.map (srcUpdate w t)) := by
  intro nodes
  induction nodes with
  | nil => intro acc; simp [GoLite.foldE, listG]
  | cons n r ih =>
    intro acc
    simp only [GoLite.foldE, listG, srcStep]
    cases hd : decideNode (srcView w t desc n) with
    | tooLarge => simp
    | fail => simp
    | keep =>
      simp only [ih]
      cases listG (srcView w t desc) r <;> simp
    | skip => simp only [ih]

/-- TIE (translated source): `signatureReferrers`, translated from registry/repository.go on every run
(`Generated/SrcC19.lean`), computes for EVERY world (store, decoder) and every queried descriptor the
generic listing `listG` of its view of the predecessors: refused when `Predecessors` fails or when
the first node that is not simply skipped / kept is over the manifest cap (decided on the
descriptor's size alone - `srcView.content` is not consulted) or cannot be fetched / decoded;
otherwise exactly the nodes whose subject `content.Equal`s the queried descriptor and whose
artifact type (artifact manifest: `artifactType`, image manifest: `config.mediaType`) is the notation
type, in the order of `Predecessors`, each with artifact type and annotations from its content.
`model_scan_is_listG` says the model's `scan` is the same `listG` of the model's view. -/
theorem source_signatureReferrers_refines_model (w : World) (t : Via) (desc : ocispec.Descriptor) :
    listShape (signatureReferrers w t desc) =
      if (w.Predecessors desc).2.isSome then none
      else (listG (srcView w t desc) (w.Predecessors desc).1).map (fun l => l.map (srcUpdate w t)) := by
  unfold signatureReferrers
  generalize hP : w.Predecessors desc = p
  obtain ⟨nodes, e⟩ := p
  simp only [Id.run]
  cases e with
  | some e0 => simp [listShape, GoLite.idPure]
  | none =>
    simp only [Option.isSome_none, Bool.false_eq_true, if_false]
    rw [GoLite.forIn_eq_foldE' _ (srcStep w t desc) absSt stopSt ?h nodes (none, default, none) []
      (show ((none, default, none) : LoopSt) = absSt [] from rfl)]
    case h =>
      intro a acc
      simp only [srcStep, decideNode, srcView, srcDecode, srcFetchErr, srcUpdate, absSt, stopSt, World.Unmarshal, Decode.decode]
      have hneAI : ¬ (artifactspec.MediaTypeArtifactManifest = ocispec.MediaTypeImageManifest) := by decide
      by_cases hA : (a.MediaType == artifactspec.MediaTypeArtifactManifest) = true
      · have hI : (a.MediaType == ocispec.MediaTypeImageManifest) = false := by
          have : a.MediaType = artifactspec.MediaTypeArtifactManifest := by simpa using hA
          rw [this]; simpa using hneAI
        by_cases hbig : a.Size > maxManifestSizeLimit
        · simp [hA, hI, hbig, GoLite.errorf]
        · by_cases hf : (w.FetchAll t a).2.isSome = true
          · simp [hA, hI, hbig, hf]
          · by_cases hd : (w.decodeArtifact (w.FetchAll t a).1 default).2.isSome = true
            · simp [hA, hI, hbig, hf, hd]
            · have hdn : (w.decodeArtifact (w.FetchAll t a).1 default).2 = none := by simpa using hd
              by_cases hs : ((w.decodeArtifact (w.FetchAll t a).1 default).1.Subject.isNone ||
                  !content.Equal (GoLite.deref (w.decodeArtifact (w.FetchAll t a).1 default).1.Subject) desc) = true
              · have hs' : ((w.decodeArtifact (w.FetchAll t a).1 default).1.Subject.isSome &&
                    content.Equal (GoLite.deref (w.decodeArtifact (w.FetchAll t a).1 default).1.Subject) desc) = false := by
                  cases hsub : (w.decodeArtifact (w.FetchAll t a).1 default).1.Subject <;> simp_all
                simp [hA, hI, hbig, hf, hd, hdn, hs, hs']
              · have hs' : ((w.decodeArtifact (w.FetchAll t a).1 default).1.Subject.isSome &&
                    content.Equal (GoLite.deref (w.decodeArtifact (w.FetchAll t a).1 default).1.Subject) desc) = true := by
                  cases hsub : (w.decodeArtifact (w.FetchAll t a).1 default).1.Subject <;> simp_all
                by_cases hty : (w.decodeArtifact (w.FetchAll t a).1 default).1.ArtifactType = ArtifactTypeNotation
                · simp [hA, hI, hbig, hf, hd, hdn, hs, hs', hty]
                · have hty' : ¬ (ArtifactTypeNotation = (w.decodeArtifact (w.FetchAll t a).1 default).1.ArtifactType) := fun h => hty h.symm
                  simp [hA, hI, hbig, hf, hd, hdn, hs, hs', hty, hty']
      · by_cases hI : (a.MediaType == ocispec.MediaTypeImageManifest) = true
        · by_cases hbig : a.Size > maxManifestSizeLimit
          · simp [hA, hI, hbig, GoLite.errorf]
          · by_cases hf : (w.FetchAll t a).2.isSome = true
            · simp [hA, hI, hbig, hf]
            · by_cases hd : (w.decodeManifest (w.FetchAll t a).1 default).2.isSome = true
              · simp [hA, hI, hbig, hf, hd]
              · have hdn : (w.decodeManifest (w.FetchAll t a).1 default).2 = none := by simpa using hd
                by_cases hs : ((w.decodeManifest (w.FetchAll t a).1 default).1.Subject.isNone ||
                    !content.Equal (GoLite.deref (w.decodeManifest (w.FetchAll t a).1 default).1.Subject) desc) = true
                · have hs' : ((w.decodeManifest (w.FetchAll t a).1 default).1.Subject.isSome &&
                      content.Equal (GoLite.deref (w.decodeManifest (w.FetchAll t a).1 default).1.Subject) desc) = false := by
                    cases hsub : (w.decodeManifest (w.FetchAll t a).1 default).1.Subject <;> simp_all
                  simp [hA, hI, hbig, hf, hd, hdn, hs, hs']
                · have hs' : ((w.decodeManifest (w.FetchAll t a).1 default).1.Subject.isSome &&
                      content.Equal (GoLite.deref (w.decodeManifest (w.FetchAll t a).1 default).1.Subject) desc) = true := by
                    cases hsub : (w.decodeManifest (w.FetchAll t a).1 default).1.Subject <;> simp_all
                  by_cases hty : (w.decodeManifest (w.FetchAll t a).1 default).1.Config.MediaType = ArtifactTypeNotation
                  · simp [hA, hI, hbig, hf, hd, hdn, hs, hs', hty]
                  · have hty' : ¬ (ArtifactTypeNotation = (w.decodeManifest (w.FetchAll t a).1 default).1.Config.MediaType) := fun h => hty h.symm
                    simp [hA, hI, hbig, hf, hd, hdn, hs, hs', hty, hty']
        · simp [hA, hI]
    have hfold := foldE_listG w t desc nodes []
    cases hr : GoLite.foldE (srcStep w t desc) nodes [] with
    | ok r =>
      rw [hr] at hfold
      simp only [List.nil_append] at hfold
      simp only [absSt, listShape, GoLite.idPure, GoLite.idBind, ← hfold]
      simp
    | error p =>
      obtain ⟨acc', e⟩ := p
      rw [hr] at hfold
      have hsome : e.1.isSome = true := by
        -- the error came out of some step
        have : ∀ (l acc : List ocispec.Descriptor) acc' e, GoLite.foldE (srcStep w t desc) l acc = .error (acc', e) → e.1.isSome = true := by
          intro l
          induction l with
          | nil => intro acc acc' e h; simp [GoLite.foldE] at h
          | cons x l ih =>
            intro acc acc' e h
            simp only [GoLite.foldE] at h
            cases hx : srcStep w t desc acc x with
            | ok t' => rw [hx] at h; exact ih t' acc' e h
            | error e' =>
              rw [hx] at h
              simp only [Except.error.injEq, Prod.mk.injEq] at h
              rw [← h.2]
              exact srcStep_error_isSome w t desc acc x e' hx
        exact this nodes [] acc' e hr
      simp only [List.nil_append] at hfold
      simp only [stopSt, listShape, GoLite.idPure, GoLite.idBind, ← hfold]
      simp [hsome]

/-! the two instantiations side by side -/

theorem listG_congr {α : Type} (v1 v2 : α → NodeView) : ∀ (l : List α), (∀ a ∈ l, decideNode (v1 a) = decideNode (v2 a)) →
    listG v1 l = listG v2 l := by
  intro l
  induction l with
  | nil => intro _; rfl
  | cons a r ih =>
    intro h
    simp only [listG, h a List.mem_cons_self, ih (fun b hb => h b (List.mem_cons_of_mem _ hb))]

theorem listG_map {α β : Type} (f : β → α) (v : α → NodeView) : ∀ (zs : List β),
    listG v (zs.map f) = (listG (fun z => v (f z)) zs).map (fun l => l.map f) := by
  intro zs
  induction zs with
  | nil => simp [listG]
  | cons z r ih =>
    simp only [List.map_cons, listG, ih]
    cases decideNode (v (f z)) <;> simp
    cases listG (fun z => v (f z)) r <;> simp

/-- TIE, both sides together: pair every predecessor the store returns with the stored manifest it
stands for. If the world shows of each predecessor what the model knows of its manifest (same
view: manifest type, over the cap, subject equals the query, notation type), then the translated
`signatureReferrers` and the model's `scan` refuse together and otherwise keep the SAME positions in
the SAME order: there is one list `kept` of pairs such that the source returns the descriptors of
`kept` (with artifact type / annotations filled in) and the model keeps the manifests of `kept`. -/
theorem source_lists_exactly_what_model_lists (w : World) (t : Via) (desc : ocispec.Descriptor) (q : Desc)
    (zs : List (ocispec.Descriptor × Manifest)) (hP : w.Predecessors desc = (zs.map (·.1), none))
    (hv : ∀ z ∈ zs, srcView w t desc z.1 = modelView q z.2) :
    ∃ kept : Option (List (ocispec.Descriptor × Manifest)),
      listShape (signatureReferrers w t desc) = kept.map (fun l => l.map (fun z => srcUpdate w t z.1)) ∧
      (if (scan q (zs.map (·.2))).err then none else some (scan q (zs.map (·.2))).kept) = kept.map (fun l => l.map (·.2)) := by
  refine ⟨listG (fun z => srcView w t desc z.1) zs, ?_, ?_⟩
  · rw [source_signatureReferrers_refines_model, hP]
    simp only [Option.isSome_none, Bool.false_eq_true, if_false, listG_map]
    cases listG (fun z => srcView w t desc z.1) zs <;> simp
  · rw [model_scan_is_listG, listG_map]
    rw [listG_congr (fun z => srcView w t desc z.1) (fun z => modelView q z.2) zs (fun z hz => by rw [hv z hz])]

/-- refused BEFORE the content is read: for a node that is not of a manifest type, or is over the
cap, the decision does not depend on what fetching / decoding would give; and the two guards of
the translated loop's view do not mention the oracles at all. -/
theorem oversized_decided_before_fetch (v : NodeView) (c c' : Option (Bool × Bool))
    (h : v.manifestType = false ∨ v.big = true) :
    decideNode { v with content := c } = decideNode { v with content := c' } := by
  unfold decideNode
  rcases h with h | h
  · simp [h]
  · by_cases hm : v.manifestType = true <;> simp [hm, h]

theorem srcView_guards_oracle_free (w w' : World) (t t' : Via) (desc n : ocispec.Descriptor) :
    (srcView w t desc n).manifestType = (srcView w' t' desc n).manifestType ∧
    (srcView w t desc n).big = (srcView w' t' desc n).big := ⟨rfl, rfl⟩

/-- non-vacuity: the translated loop on a world with three predecessors - a notation image manifest
of the subject, one of another subject, one of another type -/
def demoDesc : ocispec.Descriptor := { MediaType := ocispec.MediaTypeImageManifest, Digest := "sha256:s", Size := 421 }
def demoNode (k : Nat) : ocispec.Descriptor := { MediaType := ocispec.MediaTypeImageManifest, Digest := s!"sha256:n{k}", Size := 600 + k }
def demoWorld : World :=
  { (default : World) with
    Predecessors := fun _ => ([demoNode 0, demoNode 1, demoNode 2], none),
    FetchAll := fun _ n => (⟨(n.Size - 600).toNat⟩, none),
    decodeManifest := fun b _ =>
      ({ MediaType := ocispec.MediaTypeImageManifest, ArtifactType := "",
         Config := { MediaType := if b.id == 2 then "application/vnd.example" else ArtifactTypeNotation, Digest := "sha256:c", Size := 2 },
         Layers := [], Subject := some (if b.id == 1 then { demoDesc with Size := 422 } else demoDesc),
         Annotations := [("k", "v")] }, none) }

example : (signatureReferrers demoWorld .direct demoDesc).1.map (·.Digest) = ["sha256:n0"] ∧
    (signatureReferrers demoWorld .direct demoDesc).2 = none := by decide

/-- TIE (translated source): `ListSignatures` on an OCI layout (the target is no `registry.ReferrerLister`) hands
exactly the result of `signatureReferrers` for the client's own target to the callback, once, and returns the
callback's answer - or an error when the listing was refused. -/
theorem source_ListSignatures_refines_model (w : World) (c : repositoryClient) (desc : ocispec.Descriptor)
    (fn : List ocispec.Descriptor → Option GoLite.Err) (hl : w.isRepository = false) :
    ListSignatures w c desc fn =
      if (signatureReferrers w c.GraphTarget desc).2.isSome then some (GoLite.wrapf "" (signatureReferrers w c.GraphTarget desc).2)
      else fn (signatureReferrers w c.GraphTarget desc).1 := by
  unfold ListSignatures
  generalize signatureReferrers w c.GraphTarget desc = r
  obtain ⟨l, e⟩ := r
  simp only [Id.run, World.asReferrerLister, hl, GoLite.wrapf]
  (repeat' split) <;> simp_all [GoLite.idPure, GoLite.idBind, pure, bind]

/-! #### the fetch: one decision function, two instantiations -/

/-- outcome of the decisions of `FetchSignatureBlob`: refused (was the manifest fetched? the blob?)
or the single layer whose blob is returned -/
inductive FetchDec (α : Type) | refuse (manifestRead blobRead : Bool) | ok (l : α)
  deriving DecidableEq, Repr

/-- `mtOk`: the descriptor's media type is one of the two manifest types; `tooBig`: its size is over the
manifest cap; `manifest`: the layers / blobs that fetching + decoding gives (none: failed);
`overCap l`: the layer's declared size is over the blob cap; `blobOk l`: fetching the blob works.
`blobOk` is consulted only for a manifest with exactly one layer within the cap. -/
def decideFetch {α : Type} (mtOk tooBig : Bool) (manifest : Option (List α)) (overCap : α → Bool) (blobOk : α → Bool) :
    FetchDec α :=
  if !mtOk then .refuse false false
  else if tooBig then .refuse false false
  else match manifest with
    | none => .refuse true false
    | some [l] => if overCap l then .refuse true false else if blobOk l then .ok l else .refuse true true
    | some _ => .refuse true false

def renderModel : FetchDec Layer → FetchObs
  | .refuse a b => refuse a b
  | .ok l => { ok := true, blob := l.blob, mt := l.mt, manifestRead := true, blobRead := true }

/-- the model's `fetchSig` is `decideFetch` of what the state answers -/
theorem model_fetchSig_is_decideFetch (st : State) (d : Desc) :
    fetchSig st d = renderModel (decideFetch (isManifestType d.mt) (decide (d.size > capM))
      (((st.manifests.find? (·.id == d.dig)).filter (fun m => m.size == d.size)).map
        (fun m => if d.mt == m.mt then m.layers else if isManifestType m.mt then m.stray else []))
      (fun l => decide (l.size > capB)) (fun l => blobSize st l.blob == some l.size)) := by
  unfold fetchSig decideFetch
  by_cases hmt : isManifestType d.mt = true
  · have h1 : (d.mt != mtArtifact && d.mt != mtImage) = false := by
      simp only [isManifestType, Bool.or_eq_true] at hmt
      rcases hmt with h | h <;> simp [bne, h]
    simp only [h1, hmt, Bool.false_eq_true, if_false, Bool.not_true]
    by_cases hbig : d.size > capM
    · simp [hbig, renderModel]
    · simp only [hbig, decide_false, Bool.false_eq_true, if_false]
      cases hf : st.manifests.find? (fun x => x.id == d.dig) with
      | none => simp [renderModel]
      | some m =>
        by_cases hs : m.size = d.size
        · simp only [hs, bne_self_eq_false, Bool.false_eq_true, if_false, Option.filter, beq_self_eq_true, if_true,
            Option.map_some, fetchLayers]
          cases hL : (if d.mt == m.mt then m.layers else if isManifestType m.mt then m.stray else []) with
          | nil => simp [renderModel]
          | cons l r =>
            cases r with
            | cons l2 r2 => simp [renderModel]
            | nil =>
              by_cases hb : l.size > capB
              · simp [hb, renderModel]
              · by_cases hbl : (blobSize st l.blob == some l.size) = true
                · simp [hb, hbl, renderModel]
                · simp [hb, hbl, renderModel]
        · have hs' : (m.size != d.size) = true := by simp [bne, hs]
          have hs'' : (m.size == d.size) = false := by simp [hs]
          simp [hs', hs'', Option.filter, renderModel]
  · have hmt' : isManifestType d.mt = false := by simpa using hmt
    have h1 : (d.mt != mtArtifact && d.mt != mtImage) = true := by
      simp only [isManifestType, Bool.or_eq_false_iff] at hmt'
      simp [bne, hmt'.1, hmt'.2]
    simp [h1, hmt', renderModel]

/-- what fetching + decoding the manifest gives the translated code: its layers (image manifest)
or blobs (artifact manifest), by the DESCRIPTOR's media type; a fresh decode target -/
def srcManifest (w : World) (v : Via) (d : ocispec.Descriptor) : Option (List ocispec.Descriptor) :=
  if (w.FetchAll v d).2.isSome then none
  else if d.MediaType == ocispec.MediaTypeImageManifest then
    (if (w.decodeManifest (w.FetchAll v d).1 default).2.isSome then none else some (w.decodeManifest (w.FetchAll v d).1 default).1.Layers)
  else
    (if (w.decodeArtifact (w.FetchAll v d).1 default).2.isSome then none else some (w.decodeArtifact (w.FetchAll v d).1 default).1.Blobs)

def srcFetchDec (w : World) (d : ocispec.Descriptor) : FetchDec ocispec.Descriptor :=
  decideFetch (d.MediaType == artifactspec.MediaTypeArtifactManifest || d.MediaType == ocispec.MediaTypeImageManifest)
    (decide (d.Size > maxManifestSizeLimit)) (srcManifest w .direct d)
    (fun l => decide (l.Size > maxBlobSizeLimit)) (fun l => (w.FetchAll .direct l).2.isNone)

/-- result shape: the bytes (if any), the returned descriptor, error yes/no -/
def fetchShape (r : Option Bytes × ocispec.Descriptor × Option GoLite.Err) : Option Bytes × ocispec.Descriptor × Bool :=
  (r.1, r.2.1, r.2.2.isSome)

def renderSrc (w : World) : FetchDec ocispec.Descriptor → Option Bytes × ocispec.Descriptor × Bool
  | .refuse _ _ => (none, default, true)
  | .ok l => (some (w.FetchAll .direct l).1, l, false)

/-- TIE (translated source): `getSignatureBlobDesc` decides, for every world on an OCI layout (the target is
not a remote `registry.Repository`), exactly the manifest part of `decideFetch`: media type, manifest cap
(both before the fetch), then exactly one layer / blob, which it returns. -/
theorem source_getSignatureBlobDesc_refines_model (w : World) (c : repositoryClient) (d : ocispec.Descriptor)
    (hl : w.isRepository = false) (hc : c.GraphTarget = .direct) :
    ((getSignatureBlobDesc w c d).2.isSome, (getSignatureBlobDesc w c d).1) =
      match decideFetch (d.MediaType == artifactspec.MediaTypeArtifactManifest || d.MediaType == ocispec.MediaTypeImageManifest)
          (decide (d.Size > maxManifestSizeLimit)) (srcManifest w .direct d) (fun _ => false) (fun _ => true) with
      | .ok l => (false, l)
      | .refuse _ _ => (true, default) := by
  unfold getSignatureBlobDesc decideFetch srcManifest
  simp only [Id.run, World.asRepository, hl, hc, World.Unmarshal, Decode.decode, RemoteRepo.Manifests]
  have hne : ¬ (ocispec.MediaTypeImageManifest = artifactspec.MediaTypeArtifactManifest) := by decide
  by_cases hI : d.MediaType = ocispec.MediaTypeImageManifest
  · by_cases hbig : d.Size > maxManifestSizeLimit
    · simp [hI, hne, hbig, GoLite.idPure]
    · by_cases hf : (w.FetchAll .direct d).2.isSome = true
      · simp [hI, hne, hbig, hf, GoLite.idPure]
      · by_cases hd : (w.decodeManifest (w.FetchAll .direct d).1 default).2.isSome = true
        · simp [hI, hne, hbig, hf, hd, GoLite.idPure]
        · cases hL : (w.decodeManifest (w.FetchAll .direct d).1 default).1.Layers with
          | nil => simp [hI, hne, hbig, hf, hd, hL, GoLite.idPure, GoLite.len]
          | cons l r =>
            cases r with
            | nil => simp [hI, hne, hbig, hf, hd, hL, GoLite.idPure, GoLite.len, GoLite.idx]
            | cons l2 r2 =>
              have : ¬ ((((r2.length : Int) + 1) + 1) = 1) := by omega
              have this' : ¬ (1 = (((r2.length : Int) + 1) + 1)) := by omega
              simp [hI, hne, hbig, hf, hd, hL, GoLite.idPure, GoLite.len, this, this']
  · by_cases hA : d.MediaType = artifactspec.MediaTypeArtifactManifest
    · have hne' : ¬ (artifactspec.MediaTypeArtifactManifest = ocispec.MediaTypeImageManifest) := fun h => hne h.symm
      by_cases hbig : d.Size > maxManifestSizeLimit
      · simp [hA, hne', hbig, GoLite.idPure]
      · by_cases hf : (w.FetchAll .direct d).2.isSome = true
        · simp [hA, hne', hbig, hf, GoLite.idPure]
        · by_cases hd : (w.decodeArtifact (w.FetchAll .direct d).1 default).2.isSome = true
          · simp [hA, hne', hbig, hf, hd, GoLite.idPure]
          · cases hL : (w.decodeArtifact (w.FetchAll .direct d).1 default).1.Blobs with
            | nil => simp [hA, hne', hbig, hf, hd, hL, GoLite.idPure, GoLite.len]
            | cons l r =>
              cases r with
              | nil => simp [hA, hne', hbig, hf, hd, hL, GoLite.idPure, GoLite.len, GoLite.idx]
              | cons l2 r2 =>
                have : ¬ ((((r2.length : Int) + 1) + 1) = 1) := by omega
                have this' : ¬ (1 = (((r2.length : Int) + 1) + 1)) := by omega
                simp [hA, hne', hbig, hf, hd, hL, GoLite.idPure, GoLite.len, this, this']
    · by_cases hbig : d.Size > maxManifestSizeLimit <;> simp [hI, hA, hbig, GoLite.idPure]

theorem decideFetch_split {α : Type} (a b : Bool) (m : Option (List α)) (oc bo : α → Bool) :
    decideFetch a b m oc bo =
      match decideFetch a b m (fun _ => false) (fun _ => true) with
      | .refuse x y => .refuse x y
      | .ok l => if oc l then .refuse true false else if bo l then .ok l else .refuse true true := by
  unfold decideFetch
  by_cases ha : a = true <;> by_cases hb : b = true <;> simp [ha, hb]
  cases m with
  | none => rfl
  | some ls =>
    cases ls with
    | nil => rfl
    | cons l r => cases r <;> simp

/-- TIE (translated source): `FetchSignatureBlob` on an OCI layout computes, for EVERY world, the decision
`decideFetch` of what the world answers - the same function the model's `fetchSig` computes of what
its state answers (`model_fetchSig_is_decideFetch`): refused unless the descriptor has a manifest media
type within the manifest cap, the manifest can be fetched and decoded, it has exactly one layer /
blob, that layer's declared size is within the blob cap and the blob can be fetched; then the bytes
fetched for exactly that layer descriptor and that descriptor are returned. -/
theorem source_FetchSignatureBlob_refines_model (w : World) (c : repositoryClient) (d : ocispec.Descriptor)
    (hl : w.isRepository = false) (hc : c.GraphTarget = .direct) :
    fetchShape (FetchSignatureBlob w c d) = renderSrc w (srcFetchDec w d) := by
  have hg := source_getSignatureBlobDesc_refines_model w c d hl hc
  unfold FetchSignatureBlob srcFetchDec
  rw [decideFetch_split]
  generalize getSignatureBlobDesc w c d = g at hg ⊢
  obtain ⟨gd, ge⟩ := g
  simp only [Id.run, World.asRepository, hl, hc, RemoteRepo.Blobs]
  cases hD : decideFetch (d.MediaType == artifactspec.MediaTypeArtifactManifest || d.MediaType == ocispec.MediaTypeImageManifest)
      (decide (d.Size > maxManifestSizeLimit)) (srcManifest w .direct d) (fun _ => false) (fun _ => true) with
  | refuse x y =>
    rw [hD] at hg
    simp only [Prod.mk.injEq] at hg
    simp [hg.1, fetchShape, renderSrc, GoLite.idPure]
  | ok l =>
    rw [hD] at hg
    simp only [Prod.mk.injEq] at hg
    obtain ⟨h1, h2⟩ := hg
    subst h2
    have hne : ge.isSome = false := h1
    by_cases hb : gd.Size > maxBlobSizeLimit
    · simp [hne, hb, fetchShape, renderSrc, GoLite.idPure]
    · by_cases hf : (w.FetchAll .direct gd).2.isSome = true
      · have hf'' : ¬ ((w.FetchAll .direct gd).2 = none) := by
          intro h; rw [h] at hf; simp at hf
        simp [hne, hb, hf, hf'', fetchShape, renderSrc, GoLite.idPure]
      · have hf' : (w.FetchAll .direct gd).2 = none := by simpa using hf
        simp [hne, hb, hf, hf', fetchShape, renderSrc, GoLite.idPure]

/-- refused BEFORE the blob is read: a manifest that does not carry exactly one layer, or whose layer is
declared over the blob cap, is refused whatever fetching the blob would give -/
theorem hostile_decided_before_blob_fetch {α : Type} (a b : Bool) (ls : List α) (oc bo bo' : α → Bool)
    (h : ls.length ≠ 1 ∨ ls.any oc = true) :
    decideFetch a b (some ls) oc bo = decideFetch a b (some ls) oc bo' ∧
    (a = true → b = false → decideFetch a b (some ls) oc bo = .refuse true false) := by
  unfold decideFetch
  by_cases ha : a = true <;> by_cases hb : b = true <;> simp [ha, hb]
  cases ls with
  | nil => simp
  | cons l r =>
    cases r with
    | cons l2 r2 => simp
    | nil =>
      rcases h with h | h
      · simp at h
      · have : oc l = true := by simpa using h
        simp [this]

/-- ... and a descriptor of another media type or over the manifest cap before anything is read -/
theorem descriptor_decided_before_any_fetch {α : Type} (a b : Bool) (m m' : Option (List α)) (oc bo bo' : α → Bool)
    (h : a = false ∨ b = true) :
    decideFetch a b m oc bo = .refuse false false ∧ decideFetch a b m' oc bo' = .refuse false false := by
  unfold decideFetch
  rcases h with h | h
  · simp [h]
  · by_cases ha : a = true <;> simp [ha, h]

/-- non-vacuity: fetching through the translated code -/
def fetchWorld (layers : List ocispec.Descriptor) : World :=
  { (default : World) with
    FetchAll := fun _ n => (⟨n.Size.toNat⟩, if n.Digest == "sha256:missing" then some ⟨"notfound"⟩ else none),
    decodeManifest := fun _ _ => ({ (default : ocispec.Manifest) with Layers := layers }, none) }
def envDesc (size : Int) : ocispec.Descriptor := { MediaType := "application/jose+json", Digest := "sha256:e", Size := size }

example : fetchShape (FetchSignatureBlob (fetchWorld [envDesc 100]) {} demoDesc) = (some ⟨100⟩, envDesc 100, false) := by decide
example : fetchShape (FetchSignatureBlob (fetchWorld [envDesc 100, envDesc 7]) {} demoDesc) = (none, default, true) := by decide
example : fetchShape (FetchSignatureBlob (fetchWorld [envDesc (maxBlobSizeLimit + 1)]) {} demoDesc) = (none, default, true) := by decide
example : fetchShape (FetchSignatureBlob (fetchWorld [envDesc 100]) {} { demoDesc with Size := maxManifestSizeLimit + 1 }) =
    (none, default, true) := by decide

/-! #### the push: what goes into the packed manifest -/

/-- the config descriptor every signature manifest gets: its media type is the model's `notationType`
(what `signatureReferrers` later reads as the artifact type of an image manifest) -/
theorem config_is_notation_type : notationEmptyConfigDesc.MediaType = notationType := by decide

/-- TIE (translated source): `pushNotationManifestConfig` succeeds - with exactly `notationEmptyConfigDesc` -
iff the existence check works and the config is there, or can be pushed, or the push says
"already exists" (a concurrent first push won the race; the model's concurrency stage relies on it). -/
theorem source_pushNotationManifestConfig_refines_model (w : World) (p : Via) :
    pushNotationManifestConfig w p =
      if (w.Exists notationEmptyConfigDesc).2.isSome then (default, some (GoLite.wrapf "" (w.Exists notationEmptyConfigDesc).2))
      else if (w.Exists notationEmptyConfigDesc).1 then (notationEmptyConfigDesc, none)
      else if (w.Push notationEmptyConfigDesc notationEmptyConfigData).isSome &&
              !(w.Push notationEmptyConfigDesc notationEmptyConfigData == some errdef.ErrAlreadyExists) then
        (default, some (GoLite.wrapf "" (w.Push notationEmptyConfigDesc notationEmptyConfigData)))
      else (notationEmptyConfigDesc, none) := by
  generalize hex : w.Exists notationEmptyConfigDesc = ex
  generalize hpu : w.Push notationEmptyConfigDesc notationEmptyConfigData = pu
  unfold pushNotationManifestConfig
  obtain ⟨x, xe⟩ := ex
  simp only [Id.run, GoLite.errIs, GoLite.wrapf, id, hex, hpu]
  cases xe with
  | some e0 => simp [GoLite.idPure]
  | none =>
    cases x with
    | true => simp [GoLite.idPure]
    | false =>
      cases pu with
      | none => simp [GoLite.idPure]
      | some e1 =>
        by_cases ha : e1 = errdef.ErrAlreadyExists
        · simp [ha, GoLite.idPure]
        · have ha' : ¬ (errdef.ErrAlreadyExists = e1) := fun h => ha h.symm
          simp [ha, ha', GoLite.idPure]

/-- what the model stores for a push (`mkManifest`, kind push), as pack options -/
def modelPackOptions (subject blobDesc : ocispec.Descriptor) (annotations : GoLite.Map String String) : oras.PackManifestOptions :=
  { Subject := some subject, ManifestAnnotations := annotations, Layers := [blobDesc], ConfigDescriptor := some notationEmptyConfigDesc }

/-- TIE (translated source): `uploadSignatureManifest` packs an OCI 1.1 manifest without an `artifactType`
whose subject is the given subject, whose only layer is the given blob descriptor, whose annotations are the
given ones and whose config is the notation config - what the model's `mkManifest` stores for a push
(`oras.PackManifest` adds `created`, the model's `ensureCreated`) - or fails because the config could not be pushed. -/
theorem source_uploadSignatureManifest_refines_model (w : World) (c : repositoryClient) (subject blobDesc : ocispec.Descriptor)
    (annotations : GoLite.Map String String) :
    uploadSignatureManifest w c subject blobDesc annotations =
      if (pushNotationManifestConfig w c.GraphTarget).2.isSome then
        (default, some (GoLite.wrapf "" (pushNotationManifestConfig w c.GraphTarget).2))
      else w.PackManifest c.GraphTarget oras.PackManifestVersion1_1 ""
        { modelPackOptions subject blobDesc annotations with ConfigDescriptor := some (pushNotationManifestConfig w c.GraphTarget).1 } := by
  unfold uploadSignatureManifest
  generalize pushNotationManifestConfig w c.GraphTarget = r
  obtain ⟨cd, ce⟩ := r
  simp only [Id.run, GoLite.wrapf, modelPackOptions]
  (repeat' split) <;> simp_all [GoLite.idPure, GoLite.idBind, pure, bind]

/-- TIE (translated source): `PushSignature` on an OCI layout pushes the envelope first and gives up when that fails
(the model's "already exists" for known bytes: nothing else changes); otherwise it uploads a manifest for exactly
the descriptor `oras.PushBytes` returned, the given subject and annotations, and returns both descriptors. -/
theorem source_PushSignature_refines_model (w : World) (c : repositoryClient) (mediaType : String) (blob : Bytes)
    (subject : ocispec.Descriptor) (annotations : GoLite.Map String String) (hl : w.isRepository = false) :
    PushSignature w c mediaType blob subject annotations =
      let b := w.PushBytes c.GraphTarget mediaType blob
      if b.2.isSome then (default, default, b.2)
      else
        let m := uploadSignatureManifest w c subject b.1 annotations
        if m.2.isSome then (default, default, m.2) else (b.1, m.1, none) := by
  unfold PushSignature
  generalize hb : w.PushBytes c.GraphTarget mediaType blob = b
  simp only [Id.run, World.asRepository, hl, hb]
  obtain ⟨bd, be⟩ := b
  by_cases h1 : be.isSome = true
  · simp [h1, hb, GoLite.idPure]
  · generalize uploadSignatureManifest w c subject bd annotations = m
    obtain ⟨md, me⟩ := m
    cases me with
    | some e2 => simp [h1, hb, GoLite.idPure]
    | none => simp [h1, hb, GoLite.idPure]

end Tie

end NotationModel.C19

/- C19 - property theorems (stub: not built yet) -/
import NotationModel.Model.C19

namespace NotationModel.C19

end NotationModel.C19

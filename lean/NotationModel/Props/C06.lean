/-
C06 - Expiry and certificate validity are judged against the right clock.
Property theorems only; the model is in `Model/C06.lean`.

Units: every instant is an `Int` number of nanoseconds since the Unix epoch, `now` is an input.
Strictness of the comparisons, as coded (and as stated in the theorems below):
  * expiry:            fails iff `expiry ≤ now`            (`now = expiry` FAILS: `!now.Before(expiry)`)
  * window membership: `notBefore ≤ t ∧ t ≤ notAfter`      (both ends INCLUDED: `Before`/`After` are strict)
  * chain expired:     `notAfter < now`                    (`now = notAfter` is NOT expired)
  * timestamp range:   `notBefore ≤ t - acc ∧ t + acc ≤ notAfter`   (both ends INCLUDED)
All statements are for certificate chains (and TSA revocation vectors) of any length.
-/
import NotationModel.Model.C06
import NotationModel.Props.C05
set_option linter.unusedSimpArgs false
set_option linter.unusedVariables false

namespace NotationModel.C06

/-! ### the loops of the code are the quantified statements -/

theorem saLoop_eq (t : Int) (ws : List Window) : saLoop t ws = !(ws.all (·.contains t)) := by
  induction ws with
  | nil => simp [saLoop]
  | cons w rest ih =>
    simp only [saLoop, List.all_cons, Window.contains, ih]
    by_cases h1 : t < w.notBefore
    · have : ¬ (w.notBefore ≤ t) := by omega
      simp [h1, this]
    · by_cases h2 : t > w.notAfter
      · have : ¬ (t ≤ w.notAfter) := by omega
        simp [h1, h2, this]
      · have a : w.notBefore ≤ t := by omega
        have b : t ≤ w.notAfter := by omega
        simp [h1, h2, a, b]

theorem validNowLoop_eq (now : Int) (ws : List Window) : validNowLoop now ws = !(ws.all (·.contains now)) := by
  induction ws with
  | nil => simp [validNowLoop]
  | cons w rest ih =>
    simp only [validNowLoop, List.all_cons, Window.contains, ih]
    by_cases h1 : now < w.notBefore
    · have : ¬ (w.notBefore ≤ now) := by omega
      simp [h1, this]
    · by_cases h2 : now > w.notAfter
      · have : ¬ (now ≤ w.notAfter) := by omega
        simp [h1, h2, this]
      · have a : w.notBefore ≤ now := by omega
        have b : now ≤ w.notAfter := by omega
        simp [h1, h2, a, b]

theorem expiredLoop_eq (now : Int) (ws : List Window) :
    expiredLoop now ws = ws.any (fun w => decide (w.notAfter < now)) := by
  induction ws with
  | nil => simp [expiredLoop]
  | cons w rest ih =>
    simp only [expiredLoop, List.any_cons, ih]
    by_cases h : now > w.notAfter
    · have : w.notAfter < now := by omega
      simp [h, this]
    · have : ¬ (w.notAfter < now) := by omega
      simp [h, this]

theorem rangeLoop_eq (t acc : Int) (ws : List Window) :
    rangeLoop t acc ws = !(ws.all (·.containsRange (t - acc) (t + acc))) := by
  induction ws with
  | nil => simp [rangeLoop]
  | cons w rest ih =>
    simp only [rangeLoop, List.all_cons, Window.containsRange, ih]
    by_cases h1 : t - acc ≥ w.notBefore
    · have a : w.notBefore ≤ t - acc := by omega
      by_cases h2 : t + acc ≤ w.notAfter
      · simp [h1, h2, a]
      · simp [h1, h2, a]
    · have a : ¬ (w.notBefore ≤ t - acc) := by omega
      simp [h1, a]

theorem contains_iff (w : Window) (t : Int) : w.contains t = true ↔ w.notBefore ≤ t ∧ t ≤ w.notAfter := by
  simp [Window.contains]

theorem containsRange_iff (w : Window) (lo hi : Int) :
    w.containsRange lo hi = true ↔ w.notBefore ≤ lo ∧ hi ≤ w.notAfter := by
  simp [Window.containsRange]

theorem all_contains_iff (ws : List Window) (t : Int) :
    ws.all (·.contains t) = true ↔ ∀ w ∈ ws, w.notBefore ≤ t ∧ t ≤ w.notAfter := by
  simp [List.all_eq_true, contains_iff]

theorem performs_eq (i : Input) : performs i = tsApplies i := by
  unfold performs tsApplies chainExpired
  rw [expiredLoop_eq]
  generalize (i.chain.any fun w => decide (w.notAfter < i.now)) = b
  cases i.tsaListed <;> cases i.option <;> cases b <;> rfl

/-- step 5: the aggregation of the TSA chain's revocation results (proved in C05) -/
theorem revFails_eq (n : Nat) (rs : List C05.R) :
    tsaRevocationFails n rs = !(rs.length == n && rs.all C05.R.good) := by
  unfold tsaRevocationFails
  by_cases hn : rs.length = n
  · subst hn
    rw [C05.final_complete]
    simp only [beq_self_eq_true, Bool.true_and]
    by_cases hg : rs.all C05.R.good = true
    · rw [(C05.final_ok_iff rs).2 hg, hg]; rfl
    · have hne : (C05.revocationFinal rs).1 ≠ .ok := fun h => hg ((C05.final_ok_iff _).1 h)
      have hf : rs.all C05.R.good = false := by simpa using hg
      rw [hf]
      cases hx : (C05.revocationFinal rs).1 <;> simp_all
  · rw [C05.final_incomplete n rs hn]
    have : (rs.length == n) = false := by simpa using hn
    simp [this]

theorem pipeline_eq (i : Input) : pipeline i = !(tokenGood i) := by
  unfold pipeline tokenGood
  cases i.token with
  | none => rfl
  | some k =>
    simp only [rangeLoop_eq, revFails_eq]
    generalize (i.chain.all fun w => w.containsRange (k.genTime - accuracyNs k) (k.genTime + accuracyNs k)) = rg
    generalize (i.tsaRevocation.all C05.R.good) = rv
    generalize (i.tsaRevocation.length == i.tsaChainLen) = rl
    cases k.parses <;> cases k.imprintMatches <;> cases i.tsaStoresLoad <;> cases i.tsaStoresNonEmpty <;>
      cases k.tsaRootListed <;> cases k.tsaCertOk <;> cases k.chainRulesOk <;> cases rg <;>
      cases i.tsaRevocationError <;> cases rl <;> cases rv <;> rfl

/-- closed form of `verifyTimestamp` -/
theorem verifyTimestamp_eq (i : Input) :
    verifyTimestamp i = if tsApplies i then !(tokenGood i) else !(i.chain.all (·.contains i.now)) := by
  unfold verifyTimestamp
  rw [performs_eq, pipeline_eq, validNowLoop_eq]
  cases tsApplies i <;> simp

/-! ### readable theorems -/

/-- **expiry_fails_iff**: the expiry validation fails exactly when an expiry is present and the
clock is not before it - `now = expiry` fails, `now = expiry - 1ns` passes -/
theorem expiry_fails_iff (i : Input) :
    (run i).expiryFailed = true ↔ ∃ e, i.expiry = some e ∧ ¬ (i.now < e) := by
  simp only [run, verifyExpiry]
  cases i.expiry with
  | none => simp
  | some e => simp

/-- the same with `≤`: "a signature whose expiry time is not after the moment of verification" -/
theorem expiry_fails_iff_le (i : Input) :
    (run i).expiryFailed = true ↔ ∃ e, i.expiry = some e ∧ e ≤ i.now := by
  rw [expiry_fails_iff]
  constructor <;> (rintro ⟨e, h1, h2⟩; exact ⟨e, h1, by omega⟩)

theorem expiry_boundary (e : Int) :
    verifyExpiry e (some e) = true ∧ verifyExpiry (e - 1) (some e) = false ∧ verifyExpiry (e + 1) (some e) = true ∧
    ∀ now, verifyExpiry now none = false := by
  refine ⟨?_, ?_, ?_, ?_⟩ <;> simp [verifyExpiry] <;> omega

/-- **sa_pass_iff**: under notary.x509.signingAuthority the authentic-timestamp validation passes
exactly when every certificate's window contains the authentic signing time, ends included -
whatever the clock, the policy's tsa stores, the verifyTimestamp option and the countersignature are -/
theorem sa_pass_iff (i : Input) (hs : i.scheme = .signingAuthority) :
    (run i).authTsFailed = false ↔ ∀ w ∈ i.chain, w.notBefore ≤ i.signingTime ∧ i.signingTime ≤ w.notAfter := by
  simp only [run, verifyAuthenticTimestamp, hs, saLoop_eq]
  rw [← all_contains_iff]
  simp

/-- under notary.x509 the signed signing time plays no role -/
theorem x509_ignores_signing_time (i : Input) (hs : i.scheme = .x509) (t : Int) :
    (run { i with signingTime := t }).authTsFailed = (run i).authTsFailed := by
  simp [run, verifyAuthenticTimestamp, hs, verifyTimestamp, performs, pipeline]

/-- when timestamp verification applies (`performTimestampVerification` stays true) -/
theorem performs_iff (i : Input) :
    performs i = true ↔
      i.tsaListed = true ∧ (i.option ≠ .afterCertExpiry ∨ ∃ w ∈ i.chain, w.notAfter < i.now) := by
  rw [performs_eq]
  simp [tsApplies, chainExpired]

/-- **x509_no_tsa_pass_iff**: when timestamp verification does not apply (no tsa store listed, or
afterCertExpiry with an unexpired chain) the validation passes exactly when every certificate's
window contains `now`, ends included -/
theorem x509_no_tsa_pass_iff (i : Input) (hs : i.scheme = .x509) (hp : performs i = false) :
    (run i).authTsFailed = false ↔ ∀ w ∈ i.chain, w.notBefore ≤ i.now ∧ i.now ≤ w.notAfter := by
  rw [performs_eq] at hp
  simp only [run, verifyAuthenticTimestamp, hs, verifyTimestamp_eq, hp]
  rw [← all_contains_iff]
  simp

/-- what a passing countersignature check establishes -/
def GoodCountersignature (i : Input) : Prop :=
  ∃ k, i.token = some k ∧                                   -- a countersignature is present,
    k.parses = true ∧
    k.imprintMatches = true ∧                               -- over THIS envelope's signature value,
    i.tsaStoresLoad = true ∧ i.tsaStoresNonEmpty = true ∧
    k.tsaRootListed = true ∧                                -- from a TSA chaining to a tsa store the policy lists,
    k.tsaCertOk = true ∧ k.chainRulesOk = true ∧            -- with a proper timestamping certificate chain,
    (∀ w ∈ i.chain,                                         -- whose time range lies inside every window,
        w.notBefore ≤ k.genTime - accuracyNs k ∧ k.genTime + accuracyNs k ≤ w.notAfter) ∧
    i.tsaRevocationError = false ∧                          -- and whose chain is not revoked / unknown:
    i.tsaRevocation.length = i.tsaChainLen ∧                -- one result per TSA certificate, each OK or non-revokable
    (∀ r ∈ i.tsaRevocation, r = .ok ∨ r = .nonRevokable)

theorem tokenGood_iff (i : Input) : tokenGood i = true ↔ GoodCountersignature i := by
  unfold tokenGood GoodCountersignature
  have good_iff : ∀ r : C05.R, r.good = true ↔ (r = .ok ∨ r = .nonRevokable) := by
    intro r; cases r <;> simp [C05.R.good]
  cases i.token with
  | none => simp
  | some k =>
    simp only [Bool.and_eq_true, List.all_eq_true, containsRange_iff, Bool.not_eq_true', good_iff,
      Option.some.injEq, exists_eq_left', beq_iff_eq]
    constructor
    · rintro ⟨⟨⟨⟨⟨⟨⟨⟨⟨⟨a, b⟩, c⟩, d⟩, e⟩, f⟩, g⟩, h⟩, j⟩, l⟩, m⟩
      exact ⟨a, b, c, d, e, f, g, h, j, l, m⟩
    · rintro ⟨a, b, c, d, e, f, g, h, j, l, m⟩
      exact ⟨⟨⟨⟨⟨⟨⟨⟨⟨⟨a, b⟩, c⟩, d⟩, e⟩, f⟩, g⟩, h⟩, j⟩, l⟩, m⟩

/-- **x509_tsa_pass_sound**: when timestamp verification applies, a pass means a good countersignature -/
theorem x509_tsa_pass_sound (i : Input) (hs : i.scheme = .x509) (hp : performs i = true)
    (hpass : (run i).authTsFailed = false) : GoodCountersignature i := by
  rw [performs_eq] at hp
  simp only [run, verifyAuthenticTimestamp, hs, verifyTimestamp_eq, hp, if_true] at hpass
  exact (tokenGood_iff i).1 (by simpa using hpass)

/-- **x509_tsa_pass_complete**: and a good countersignature passes - in particular the clock plays
no further role: certificates expired or not yet valid *now* do not matter -/
theorem x509_tsa_pass_complete (i : Input) (hs : i.scheme = .x509) (hp : performs i = true)
    (hg : GoodCountersignature i) : (run i).authTsFailed = false := by
  rw [performs_eq] at hp
  simp only [run, verifyAuthenticTimestamp, hs, verifyTimestamp_eq, hp, if_true]
  simp [(tokenGood_iff i).2 hg]

/-- **afterCertExpiry_unexpired_uses_now**: with `verifyTimestamp: afterCertExpiry` and no
certificate expired (`now ≤ notAfter` for all - equality is still unexpired) the verdict is the
valid-now test, whether or not a tsa store is listed and whatever countersignature is attached -/
theorem afterCertExpiry_unexpired_uses_now (i : Input) (hs : i.scheme = .x509)
    (ho : i.option = .afterCertExpiry) (hu : ∀ w ∈ i.chain, i.now ≤ w.notAfter) :
    (run i).authTsFailed = false ↔ ∀ w ∈ i.chain, w.notBefore ≤ i.now ∧ i.now ≤ w.notAfter := by
  apply x509_no_tsa_pass_iff i hs
  cases hp : performs i
  · rfl
  · obtain ⟨_, h⟩ := (performs_iff i).1 hp
    rcases h with h | ⟨w, hw, hlt⟩
    · exact absurd ho h
    · have := hu w hw; omega

/-- with `always` / unset and a tsa store listed, or afterCertExpiry and an expired certificate,
the countersignature decides -/
theorem x509_tsa_pass_iff (i : Input) (hs : i.scheme = .x509) (hl : i.tsaListed = true)
    (ho : i.option ≠ .afterCertExpiry ∨ ∃ w ∈ i.chain, w.notAfter < i.now) :
    (run i).authTsFailed = false ↔ GoodCountersignature i :=
  have hp := (performs_iff i).2 ⟨hl, ho⟩
  ⟨x509_tsa_pass_sound i hs hp, x509_tsa_pass_complete i hs hp⟩

/-- no tsa store listed: the option and the countersignature are irrelevant -/
theorem x509_without_tsa_store_uses_now (i : Input) (hs : i.scheme = .x509) (hl : i.tsaListed = false) :
    (run i).authTsFailed = false ↔ ∀ w ∈ i.chain, w.notBefore ≤ i.now ∧ i.now ≤ w.notAfter := by
  apply x509_no_tsa_pass_iff i hs
  cases hp : performs i
  · rfl
  · have := ((performs_iff i).1 hp).1
    rw [hl] at this; exact Bool.noConfusion this

/-- boundary behaviour of the window tests on a one-certificate chain -/
theorem window_boundaries (nb na : Int) (h : nb ≤ na) :
    saLoop nb [⟨nb, na⟩] = false ∧ saLoop na [⟨nb, na⟩] = false ∧
    saLoop (nb - 1) [⟨nb, na⟩] = true ∧ saLoop (na + 1) [⟨nb, na⟩] = true ∧
    validNowLoop nb [⟨nb, na⟩] = false ∧ validNowLoop na [⟨nb, na⟩] = false ∧
    validNowLoop (nb - 1) [⟨nb, na⟩] = true ∧ validNowLoop (na + 1) [⟨nb, na⟩] = true ∧
    expiredLoop na [⟨nb, na⟩] = false ∧ expiredLoop (na + 1) [⟨nb, na⟩] = true := by
  simp [saLoop, validNowLoop, expiredLoop]
  omega

/-- boundary behaviour of the timestamp range: the range may touch both ends of the window -/
theorem range_boundaries (nb na t acc : Int) :
    (rangeLoop t acc [⟨nb, na⟩] = false ↔ nb ≤ t - acc ∧ t + acc ≤ na) ∧
    rangeLoop (nb + acc) acc [⟨nb, nb + 2 * acc⟩] = false ∧
    rangeLoop (nb + acc) (acc + 1) [⟨nb, nb + 2 * acc + 1⟩] = true ∧
    rangeLoop (nb + acc) (acc + 1) [⟨nb - 1, nb + 2 * acc⟩] = true := by
  refine ⟨?_, ?_, ?_, ?_⟩
  · rw [rangeLoop_eq]; simp [Window.containsRange]
  · simp [rangeLoop]; omega
  · simp [rangeLoop]; omega
  · simp [rangeLoop]; omega

/-! ### translation invariance

The harness hands the instants to the model relative to an origin of its choosing (so that a case
does not depend on the wall clock of the run that produced it).  That is legitimate because the
model only ever compares instants with each other: -/

def Window.shift (d : Int) (w : Window) : Window := ⟨w.notBefore + d, w.notAfter + d⟩
def Token.shift (d : Int) (k : Token) : Token := { k with genTime := k.genTime + d }
def Input.shift (d : Int) (i : Input) : Input :=
  { i with now := i.now + d, signingTime := i.signingTime + d, expiry := i.expiry.map (· + d),
           chain := i.chain.map (Window.shift d), token := i.token.map (Token.shift d) }

theorem all_contains_shift (d t : Int) (ws : List Window) :
    (ws.map (Window.shift d)).all (·.contains (t + d)) = ws.all (·.contains t) := by
  induction ws with
  | nil => rfl
  | cons w rest ih =>
    simp only [List.map_cons, List.all_cons, ih]
    congr 1
    simp only [Window.contains, Window.shift]
    congr 1 <;> (apply decide_eq_decide.2; omega)

theorem all_containsRange_shift (d t acc : Int) (ws : List Window) :
    (ws.map (Window.shift d)).all (·.containsRange (t + d - acc) (t + d + acc)) =
      ws.all (·.containsRange (t - acc) (t + acc)) := by
  induction ws with
  | nil => rfl
  | cons w rest ih =>
    simp only [List.map_cons, List.all_cons, ih]
    congr 1
    simp only [Window.containsRange, Window.shift]
    congr 1 <;> (apply decide_eq_decide.2; omega)

theorem any_expired_shift (d now : Int) (ws : List Window) :
    (ws.map (Window.shift d)).any (fun w => decide (w.notAfter < now + d)) =
      ws.any (fun w => decide (w.notAfter < now)) := by
  induction ws with
  | nil => rfl
  | cons w rest ih =>
    simp only [List.map_cons, List.any_cons, ih]
    congr 1
    simp only [Window.shift]
    apply decide_eq_decide.2; omega

/-- **run_shift**: moving every instant by the same amount changes nothing -/
theorem run_shift (d : Int) (i : Input) : run (i.shift d) = run i := by
  have hexp : verifyExpiry (i.now + d) (i.expiry.map (· + d)) = verifyExpiry i.now i.expiry := by
    unfold verifyExpiry
    cases i.expiry with
    | none => rfl
    | some e =>
      simp only [Option.map_some]
      congr 1
      apply decide_eq_decide.2; omega
  have happ : tsApplies (i.shift d) = tsApplies i := by
    show (i.tsaListed && (i.option != .afterCertExpiry ||
        (i.chain.map (Window.shift d)).any fun w => decide (w.notAfter < i.now + d))) = tsApplies i
    rw [any_expired_shift]
    rfl
  have hgood : tokenGood (i.shift d) = tokenGood i := by
    unfold tokenGood
    simp only [Input.shift]
    cases i.token with
    | none => rfl
    | some k =>
      have hacc : accuracyNs (k.shift d) = accuracyNs k := rfl
      simp only [Option.map_some, hacc]
      simp only [Token.shift, all_containsRange_shift]
  simp only [run, verifyAuthenticTimestamp, verifyTimestamp_eq, saLoop_eq, happ, hgood]
  simp only [Input.shift, hexp, all_contains_shift]

/-! ### the whole property -/

/-- **C06**: every clause of `Holds` is true of the model's behaviour -/
theorem model_holds (i : Input) : Holds i (run i) = true := by
  have he : verifyExpiry i.now i.expiry = expired i := by
    unfold verifyExpiry expired
    cases i.expiry with
    | none => rfl
    | some e =>
      by_cases h : i.now < e
      · have : ¬ (e ≤ i.now) := by omega
        simp [h, this]
      · have : e ≤ i.now := by omega
        simp [h, this]
  unfold Holds clauses run
  simp only [Clauses.holds, he, verifyAuthenticTimestamp]
  cases hs : i.scheme
  · -- x509
    simp only [verifyTimestamp_eq]
    generalize tsApplies i = a
    generalize tokenGood i = g
    generalize (i.chain.all fun x => x.contains i.now) = vn
    generalize (i.chain.all fun x => x.contains i.signingTime) = vs
    generalize expired i = e
    cases a <;> cases g <;> cases vn <;> cases vs <;> cases e <;> decide
  · -- signing authority
    simp only [saLoop_eq]
    generalize tsApplies i = a
    generalize tokenGood i = g
    generalize (i.chain.all fun x => x.contains i.now) = vn
    generalize (i.chain.all fun x => x.contains i.signingTime) = vs
    generalize expired i = e
    cases a <;> cases g <;> cases vn <;> cases vs <;> cases e <;> decide

/-! ### non-vacuity -/

private def w (a b : Int) : Window := ⟨a, b⟩
private def goodToken : Token :=
  { parses := true, imprintMatches := true, genTime := 50, accSeconds := 0, accMillis := 0, accMicros := 0,
    baselinePolicy := false, tsaRootListed := true, tsaCertOk := true, chainRulesOk := true }
private def obs (ev e a : Bool) : Obs :=
  { evaluated := ev, expiryFailed := e, authTsFailed := a, tsaRevocationArgsOk := true, signingRevocationArgsOk := true }
private def base : Input :=
  { now := 100, scheme := .x509, signingTime := 10, expiry := some 101, chain := [w 0 200, w 0 300],
    tsaListed := false, option := .unset, token := none, tsaStoresLoad := true, tsaStoresNonEmpty := true,
    tsaRevocationError := false, tsaRevocation := [.ok, .ok], tsaChainLen := 2 }

-- valid now, unexpired: both pass
example : run base = (obs true false false) := by decide
-- expiry equal to the clock fails
example : (run { base with expiry := some 100 }).expiryFailed = true := by decide
-- an expired certificate fails without timestamping ...
example : (run { base with chain := [w 0 200, w 0 99] }).authTsFailed = true := by decide
-- ... and passes with a good countersignature inside both windows, under afterCertExpiry
example : (run { base with chain := [w 0 200, w 0 99], tsaListed := true, option := .afterCertExpiry,
                           token := some goodToken }).authTsFailed = false := by decide
-- the same token timed outside a window fails
example : (run { base with chain := [w 0 200, w 60 99], tsaListed := true, option := .always,
                           token := some goodToken }).authTsFailed = true := by decide
-- a revoked TSA certificate fails
example : (run { base with tsaListed := true, token := some goodToken, tsaRevocation := [.ok, .revoked] }).authTsFailed = true := by decide
-- signing authority looks at the signing time only
example : (run { base with scheme := .signingAuthority, now := 1000, signingTime := 200 }).authTsFailed = false := by decide
example : (run { base with scheme := .signingAuthority, now := 100, signingTime := 201 }).authTsFailed = true := by decide
-- `Holds` rejects wrong observations
example : Holds { base with expiry := some 100 } (obs true false false) = false := by decide
example : Holds { base with chain := [w 0 200, w 0 99] } (obs true false false) = false := by decide
example : Holds { base with tsaListed := true } (obs true false false) = false := by decide
example : Holds { base with scheme := .signingAuthority, signingTime := 201 } (obs true false false) = false := by decide
-- a result vector that does not have one entry per TSA certificate fails, even if every entry is OK
example : (run { base with tsaListed := true, token := some goodToken, tsaRevocation := [.ok] }).authTsFailed = true := by decide
example : (run { base with tsaListed := true, token := some goodToken, tsaRevocation := [.ok, .ok, .ok] }).authTsFailed = true := by decide
example : (run { base with tsaListed := true, token := some goodToken }).authTsFailed = false := by decide
-- an outcome without the two results does not satisfy the property
example : Holds base (obs false false false) = false := by decide
-- a TSA revocation check that was handed an authentic signing time, or the wrong chain, does not satisfy the property
example : Holds base { obs true false false with tsaRevocationArgsOk := false } = false := by decide
example : Holds base { obs true false false with signingRevocationArgsOk := false } = false := by decide
example : Holds base (run base) = true := by decide

end NotationModel.C06

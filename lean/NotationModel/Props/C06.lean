/- C06 - property theorems (stub: not built yet) -/
import NotationModel.Model.C06

namespace NotationModel.C06

end NotationModel.C06

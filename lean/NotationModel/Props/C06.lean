/-
C06 - Expiry and certificate validity are judged against the right clock.
Property theorems only; the model is in `Model/C06.lean`.

Units: every instant is an `Int` number of nanoseconds since the Unix epoch, `now` is an input.
Strictness of the comparisons, as coded (and as stated in the theorems below):
  * expiry:            fails iff `expiry ≤ now`            (`now = expiry` FAILS: `!now.Before(expiry)`)
  * window membership: `notBefore ≤ t ∧ t ≤ notAfter`      (both ends INCLUDED: `Before`/`After` are strict)
  * chain expired:     `notAfter < now`                    (`now = notAfter` is NOT expired)
  * timestamp range:   `notBefore ≤ t - acc ∧ t + acc ≤ notAfter`   (both ends INCLUDED)
All statements are for certificate chains (and TSA revocation vectors) of any length.
-/
import NotationModel.Model.C06
import NotationModel.Props.C05
import NotationModel.Generated.SrcC06
set_option linter.unusedSimpArgs false
set_option linter.unusedVariables false

namespace NotationModel.C06

/-! ### the loops of the code are the quantified statements -/

theorem saLoop_eq (t : Int) (ws : List Window) : saLoop t ws = !(ws.all (·.contains t)) := by
  induction ws with
  | nil => simp [saLoop]
  | cons w rest ih =>
    simp only [saLoop, List.all_cons, Window.contains, ih]
    by_cases h1 : t < w.notBefore
    · have : ¬ (w.notBefore ≤ t) := by omega
      simp [h1, this]
    · by_cases h2 : t > w.notAfter
      · have : ¬ (t ≤ w.notAfter) := by omega
        simp [h1, h2, this]
      · have a : w.notBefore ≤ t := by omega
        have b : t ≤ w.notAfter := by omega
        simp [h1, h2, a, b]

theorem validNowLoop_eq (now : Int) (ws : List Window) : validNowLoop now ws = !(ws.all (·.contains now)) := by
  induction ws with
  | nil => simp [validNowLoop]
  | cons w rest ih =>
    simp only [validNowLoop, List.all_cons, Window.contains, ih]
    by_cases h1 : now < w.notBefore
    · have : ¬ (w.notBefore ≤ now) := by omega
      simp [h1, this]
    · by_cases h2 : now > w.notAfter
      · have : ¬ (now ≤ w.notAfter) := by omega
        simp [h1, h2, this]
      · have a : w.notBefore ≤ now := by omega
        have b : now ≤ w.notAfter := by omega
        simp [h1, h2, a, b]

theorem expiredLoop_eq (now : Int) (ws : List Window) :
    expiredLoop now ws = ws.any (fun w => decide (w.notAfter < now)) := by
  induction ws with
  | nil => simp [expiredLoop]
  | cons w rest ih =>
    simp only [expiredLoop, List.any_cons, ih]
    by_cases h : now > w.notAfter
    · have : w.notAfter < now := by omega
      simp [h, this]
    · have : ¬ (w.notAfter < now) := by omega
      simp [h, this]

theorem rangeLoop_eq (t acc : Int) (ws : List Window) :
    rangeLoop t acc ws = !(ws.all (·.containsRange (t - acc) (t + acc))) := by
  induction ws with
  | nil => simp [rangeLoop]
  | cons w rest ih =>
    simp only [rangeLoop, List.all_cons, Window.containsRange, ih]
    by_cases h1 : t - acc ≥ w.notBefore
    · have a : w.notBefore ≤ t - acc := by omega
      by_cases h2 : t + acc ≤ w.notAfter
      · simp [h1, h2, a]
      · simp [h1, h2, a]
    · have a : ¬ (w.notBefore ≤ t - acc) := by omega
      simp [h1, a]

theorem contains_iff (w : Window) (t : Int) : w.contains t = true ↔ w.notBefore ≤ t ∧ t ≤ w.notAfter := by
  simp [Window.contains]

theorem containsRange_iff (w : Window) (lo hi : Int) :
    w.containsRange lo hi = true ↔ w.notBefore ≤ lo ∧ hi ≤ w.notAfter := by
  simp [Window.containsRange]

theorem all_contains_iff (ws : List Window) (t : Int) :
    ws.all (·.contains t) = true ↔ ∀ w ∈ ws, w.notBefore ≤ t ∧ t ≤ w.notAfter := by
  simp [List.all_eq_true, contains_iff]

theorem performs_eq (i : Input) : performs i = tsApplies i := by
  unfold performs performsWith tsApplies chainExpired
  rw [expiredLoop_eq]
  generalize (i.chain.any fun w => decide (w.notAfter < i.now)) = b
  cases i.tsaListed <;> cases i.option <;> cases b <;> rfl

/-- step 5: the aggregation of the TSA chain's revocation results (proved in C05) -/
theorem revFails_eq (n : Nat) (rs : List C05.R) :
    tsaRevocationFails n rs = !(rs.length == n && rs.all C05.R.good) := by
  unfold tsaRevocationFails
  by_cases hn : rs.length = n
  · subst hn
    rw [C05.final_complete]
    simp only [beq_self_eq_true, Bool.true_and]
    by_cases hg : rs.all C05.R.good = true
    · rw [(C05.final_ok_iff rs).2 hg, hg]; rfl
    · have hne : (C05.revocationFinal rs).1 ≠ .ok := fun h => hg ((C05.final_ok_iff _).1 h)
      have hf : rs.all C05.R.good = false := by simpa using hg
      rw [hf]
      cases hx : (C05.revocationFinal rs).1 <;> simp_all
  · rw [C05.final_incomplete n rs hn]
    have : (rs.length == n) = false := by simpa using hn
    simp [this]

theorem pipeline_eq (i : Input) : pipeline i = !(tokenGood i) := by
  unfold pipeline pipelineSteps Input.steps tokenGood
  cases i.token with
  | none => rfl
  | some k =>
    simp only [rangeLoop_eq, revFails_eq]
    generalize (i.chain.all fun w => w.containsRange (k.genTime - accuracyNs k) (k.genTime + accuracyNs k)) = rg
    generalize (i.tsaRevocation.all C05.R.good) = rv
    generalize (i.tsaRevocation.length == i.tsaChainLen) = rl
    cases k.parses <;> cases k.imprintMatches <;> cases i.tsaStoresLoad <;> cases i.tsaStoresNonEmpty <;>
      cases k.tsaRootListed <;> cases k.tsaCertOk <;> cases k.chainRulesOk <;> cases rg <;>
      cases i.tsaRevocationError <;> cases rl <;> cases rv <;> rfl

/-- closed form of `verifyTimestamp` -/
theorem verifyTimestamp_eq (i : Input) :
    verifyTimestamp i = if tsApplies i then !(tokenGood i) else !(i.chain.all (·.contains i.now)) := by
  show (if !(performs i) then validNowLoop i.now i.chain else pipeline i) = _
  rw [performs_eq, pipeline_eq, validNowLoop_eq]
  cases tsApplies i <;> simp

/-! ### readable theorems -/

/-- **expiry_fails_iff**: the expiry validation fails exactly when an expiry is present and the
clock is not before it - `now = expiry` fails, `now = expiry - 1ns` passes -/
theorem expiry_fails_iff (i : Input) :
    (runAccepted i).expiryFailed = true ↔ ∃ e, i.expiry = some e ∧ ¬ (i.now < e) := by
  simp only [runAccepted, verifyExpiry]
  cases i.expiry with
  | none => simp
  | some e => simp

/-- the same with `≤`: "a signature whose expiry time is not after the moment of verification" -/
theorem expiry_fails_iff_le (i : Input) :
    (runAccepted i).expiryFailed = true ↔ ∃ e, i.expiry = some e ∧ e ≤ i.now := by
  rw [expiry_fails_iff]
  constructor <;> (rintro ⟨e, h1, h2⟩; exact ⟨e, h1, by omega⟩)

theorem expiry_boundary (e : Int) :
    verifyExpiry e (some e) = true ∧ verifyExpiry (e - 1) (some e) = false ∧ verifyExpiry (e + 1) (some e) = true ∧
    ∀ now, verifyExpiry now none = false := by
  refine ⟨?_, ?_, ?_, ?_⟩ <;> simp [verifyExpiry] <;> omega

/-- **sa_pass_iff**: under notary.x509.signingAuthority the authentic-timestamp validation passes
exactly when every certificate's window contains the authentic signing time, ends included -
whatever the clock, the policy's tsa stores, the verifyTimestamp option and the countersignature are -/
theorem sa_pass_iff (i : Input) (hs : i.scheme = .signingAuthority) :
    (runAccepted i).authTsFailed = false ↔ ∀ w ∈ i.chain, w.notBefore ≤ i.signingTime ∧ i.signingTime ≤ w.notAfter := by
  simp only [runAccepted, verifyAuthenticTimestamp, hs, saLoop_eq]
  rw [← all_contains_iff]
  simp

/-- under notary.x509 the signed signing time plays no role -/
theorem x509_ignores_signing_time (i : Input) (hs : i.scheme = .x509) (t : Int) :
    (runAccepted { i with signingTime := t }).authTsFailed = (runAccepted i).authTsFailed := by
  simp [runAccepted, verifyAuthenticTimestamp, hs, verifyTimestamp, verifyTimestampWith, Input.steps]

/-- when timestamp verification applies (`performTimestampVerification` stays true) -/
theorem performs_iff (i : Input) :
    performs i = true ↔
      i.tsaListed = true ∧ (i.option ≠ .afterCertExpiry ∨ ∃ w ∈ i.chain, w.notAfter < i.now) := by
  rw [performs_eq]
  simp [tsApplies, chainExpired]

/-- **x509_no_tsa_pass_iff**: when timestamp verification does not apply (no tsa store listed, or
afterCertExpiry with an unexpired chain) the validation passes exactly when every certificate's
window contains `now`, ends included -/
theorem x509_no_tsa_pass_iff (i : Input) (hs : i.scheme = .x509) (hp : performs i = false) :
    (runAccepted i).authTsFailed = false ↔ ∀ w ∈ i.chain, w.notBefore ≤ i.now ∧ i.now ≤ w.notAfter := by
  rw [performs_eq] at hp
  simp only [runAccepted, verifyAuthenticTimestamp, hs, verifyTimestamp_eq, hp]
  rw [← all_contains_iff]
  simp

/-- what a passing countersignature check establishes -/
def GoodCountersignature (i : Input) : Prop :=
  ∃ k, i.token = some k ∧                                   -- a countersignature is present,
    k.parses = true ∧
    k.imprintMatches = true ∧                               -- over THIS envelope's signature value,
    i.tsaStoresLoad = true ∧ i.tsaStoresNonEmpty = true ∧
    k.tsaRootListed = true ∧                                -- from a TSA chaining to a tsa store the policy lists,
    k.tsaCertOk = true ∧ k.chainRulesOk = true ∧            -- with a proper timestamping certificate chain,
    (∀ w ∈ i.chain,                                         -- whose time range lies inside every window,
        w.notBefore ≤ k.genTime - accuracyNs k ∧ k.genTime + accuracyNs k ≤ w.notAfter) ∧
    i.tsaRevocationError = false ∧                          -- and whose chain is not revoked / unknown:
    i.tsaRevocation.length = i.tsaChainLen ∧                -- one result per TSA certificate, each OK or non-revokable
    (∀ r ∈ i.tsaRevocation, r = .ok ∨ r = .nonRevokable)

theorem tokenGood_iff (i : Input) : tokenGood i = true ↔ GoodCountersignature i := by
  unfold tokenGood GoodCountersignature
  have good_iff : ∀ r : C05.R, r.good = true ↔ (r = .ok ∨ r = .nonRevokable) := by
    intro r; cases r <;> simp [C05.R.good]
  cases i.token with
  | none => simp
  | some k =>
    simp only [Bool.and_eq_true, List.all_eq_true, containsRange_iff, Bool.not_eq_true', good_iff,
      Option.some.injEq, exists_eq_left', beq_iff_eq]
    constructor
    · rintro ⟨⟨⟨⟨⟨⟨⟨⟨⟨⟨a, b⟩, c⟩, d⟩, e⟩, f⟩, g⟩, h⟩, j⟩, l⟩, m⟩
      exact ⟨a, b, c, d, e, f, g, h, j, l, m⟩
    · rintro ⟨a, b, c, d, e, f, g, h, j, l, m⟩
      exact ⟨⟨⟨⟨⟨⟨⟨⟨⟨⟨a, b⟩, c⟩, d⟩, e⟩, f⟩, g⟩, h⟩, j⟩, l⟩, m⟩

/-- **x509_tsa_pass_sound**: when timestamp verification applies, a pass means a good countersignature -/
theorem x509_tsa_pass_sound (i : Input) (hs : i.scheme = .x509) (hp : performs i = true)
    (hpass : (runAccepted i).authTsFailed = false) : GoodCountersignature i := by
  rw [performs_eq] at hp
  simp only [runAccepted, verifyAuthenticTimestamp, hs, verifyTimestamp_eq, hp, if_true] at hpass
  exact (tokenGood_iff i).1 (by simpa using hpass)

/-- **x509_tsa_pass_complete**: and a good countersignature passes - in particular the clock plays
no further role: certificates expired or not yet valid *now* do not matter -/
theorem x509_tsa_pass_complete (i : Input) (hs : i.scheme = .x509) (hp : performs i = true)
    (hg : GoodCountersignature i) : (runAccepted i).authTsFailed = false := by
  rw [performs_eq] at hp
  simp only [runAccepted, verifyAuthenticTimestamp, hs, verifyTimestamp_eq, hp, if_true]
  simp [(tokenGood_iff i).2 hg]

/-- **afterCertExpiry_unexpired_uses_now**: with `verifyTimestamp: afterCertExpiry` and no
certificate expired (`now ≤ notAfter` for all - equality is still unexpired) the verdict is the
valid-now test, whether or not a tsa store is listed and whatever countersignature is attached -/
theorem afterCertExpiry_unexpired_uses_now (i : Input) (hs : i.scheme = .x509)
    (ho : i.option = .afterCertExpiry) (hu : ∀ w ∈ i.chain, i.now ≤ w.notAfter) :
    (runAccepted i).authTsFailed = false ↔ ∀ w ∈ i.chain, w.notBefore ≤ i.now ∧ i.now ≤ w.notAfter := by
  apply x509_no_tsa_pass_iff i hs
  cases hp : performs i
  · rfl
  · obtain ⟨_, h⟩ := (performs_iff i).1 hp
    rcases h with h | ⟨w, hw, hlt⟩
    · exact absurd ho h
    · have := hu w hw; omega

/-- with `always` / unset and a tsa store listed, or afterCertExpiry and an expired certificate,
the countersignature decides -/
theorem x509_tsa_pass_iff (i : Input) (hs : i.scheme = .x509) (hl : i.tsaListed = true)
    (ho : i.option ≠ .afterCertExpiry ∨ ∃ w ∈ i.chain, w.notAfter < i.now) :
    (runAccepted i).authTsFailed = false ↔ GoodCountersignature i :=
  have hp := (performs_iff i).2 ⟨hl, ho⟩
  ⟨x509_tsa_pass_sound i hs hp, x509_tsa_pass_complete i hs hp⟩

/-- no tsa store listed: the option and the countersignature are irrelevant -/
theorem x509_without_tsa_store_uses_now (i : Input) (hs : i.scheme = .x509) (hl : i.tsaListed = false) :
    (runAccepted i).authTsFailed = false ↔ ∀ w ∈ i.chain, w.notBefore ≤ i.now ∧ i.now ≤ w.notAfter := by
  apply x509_no_tsa_pass_iff i hs
  cases hp : performs i
  · rfl
  · have := ((performs_iff i).1 hp).1
    rw [hl] at this; exact Bool.noConfusion this

/-- boundary behaviour of the window tests on a one-certificate chain -/
theorem window_boundaries (nb na : Int) (h : nb ≤ na) :
    saLoop nb [⟨nb, na⟩] = false ∧ saLoop na [⟨nb, na⟩] = false ∧
    saLoop (nb - 1) [⟨nb, na⟩] = true ∧ saLoop (na + 1) [⟨nb, na⟩] = true ∧
    validNowLoop nb [⟨nb, na⟩] = false ∧ validNowLoop na [⟨nb, na⟩] = false ∧
    validNowLoop (nb - 1) [⟨nb, na⟩] = true ∧ validNowLoop (na + 1) [⟨nb, na⟩] = true ∧
    expiredLoop na [⟨nb, na⟩] = false ∧ expiredLoop (na + 1) [⟨nb, na⟩] = true := by
  simp [saLoop, validNowLoop, expiredLoop]
  omega

/-- boundary behaviour of the timestamp range: the range may touch both ends of the window -/
theorem range_boundaries (nb na t acc : Int) :
    (rangeLoop t acc [⟨nb, na⟩] = false ↔ nb ≤ t - acc ∧ t + acc ≤ na) ∧
    rangeLoop (nb + acc) acc [⟨nb, nb + 2 * acc⟩] = false ∧
    rangeLoop (nb + acc) (acc + 1) [⟨nb, nb + 2 * acc + 1⟩] = true ∧
    rangeLoop (nb + acc) (acc + 1) [⟨nb - 1, nb + 2 * acc⟩] = true := by
  refine ⟨?_, ?_, ?_, ?_⟩
  · rw [rangeLoop_eq]; simp [Window.containsRange]
  · simp [rangeLoop]; omega
  · simp [rangeLoop]; omega
  · simp [rangeLoop]; omega

/-! ### translation invariance

The harness hands the instants to the model relative to an origin of its choosing (so that a case
does not depend on the wall clock of the runAccepted that produced it).  That is legitimate because the
model only ever compares instants with each other: -/

def Window.shift (d : Int) (w : Window) : Window := ⟨w.notBefore + d, w.notAfter + d⟩
def Token.shift (d : Int) (k : Token) : Token := { k with genTime := k.genTime + d }
def Input.shift (d : Int) (i : Input) : Input :=
  { i with now := i.now + d, signingTime := i.signingTime + d, expiry := i.expiry.map (· + d),
           chain := i.chain.map (Window.shift d), token := i.token.map (Token.shift d) }

theorem all_contains_shift (d t : Int) (ws : List Window) :
    (ws.map (Window.shift d)).all (·.contains (t + d)) = ws.all (·.contains t) := by
  induction ws with
  | nil => rfl
  | cons w rest ih =>
    simp only [List.map_cons, List.all_cons, ih]
    congr 1
    simp only [Window.contains, Window.shift]
    congr 1 <;> (apply decide_eq_decide.2; omega)

theorem all_containsRange_shift (d t acc : Int) (ws : List Window) :
    (ws.map (Window.shift d)).all (·.containsRange (t + d - acc) (t + d + acc)) =
      ws.all (·.containsRange (t - acc) (t + acc)) := by
  induction ws with
  | nil => rfl
  | cons w rest ih =>
    simp only [List.map_cons, List.all_cons, ih]
    congr 1
    simp only [Window.containsRange, Window.shift]
    congr 1 <;> (apply decide_eq_decide.2; omega)

theorem any_expired_shift (d now : Int) (ws : List Window) :
    (ws.map (Window.shift d)).any (fun w => decide (w.notAfter < now + d)) =
      ws.any (fun w => decide (w.notAfter < now)) := by
  induction ws with
  | nil => rfl
  | cons w rest ih =>
    simp only [List.map_cons, List.any_cons, ih]
    congr 1
    simp only [Window.shift]
    apply decide_eq_decide.2; omega

/-- **run_shift**: moving every instant by the same amount changes nothing -/
theorem run_shift (d : Int) (i : Input) : runAccepted (i.shift d) = runAccepted i := by
  have hexp : verifyExpiry (i.now + d) (i.expiry.map (· + d)) = verifyExpiry i.now i.expiry := by
    unfold verifyExpiry
    cases i.expiry with
    | none => rfl
    | some e =>
      simp only [Option.map_some]
      congr 1
      apply decide_eq_decide.2; omega
  have happ : tsApplies (i.shift d) = tsApplies i := by
    show (i.tsaListed && (i.option != .afterCertExpiry ||
        (i.chain.map (Window.shift d)).any fun w => decide (w.notAfter < i.now + d))) = tsApplies i
    rw [any_expired_shift]
    rfl
  have hgood : tokenGood (i.shift d) = tokenGood i := by
    unfold tokenGood
    simp only [Input.shift]
    cases i.token with
    | none => rfl
    | some k =>
      have hacc : accuracyNs (k.shift d) = accuracyNs k := rfl
      simp only [Option.map_some, hacc]
      simp only [Token.shift, all_containsRange_shift]
  simp only [runAccepted, verifyAuthenticTimestamp, verifyTimestamp_eq, saLoop_eq, happ, hgood]
  simp only [Input.shift, hexp, all_contains_shift]

/-! ### the whole property -/

/-- the clauses for accepted statements hold of what the verifier does with an accepted statement -/
theorem accepted_holds (i : Input) : (clausesAccepted i (runAccepted i)).holds = true := by
  have he : verifyExpiry i.now i.expiry = expired i := by
    unfold verifyExpiry expired
    cases i.expiry with
    | none => rfl
    | some e =>
      by_cases h : i.now < e
      · have : ¬ (e ≤ i.now) := by omega
        simp [h, this]
      · have : e ≤ i.now := by omega
        simp [h, this]
  unfold clausesAccepted runAccepted
  simp only [Clauses.holds, he, verifyAuthenticTimestamp]
  cases hs : i.scheme
  · -- x509
    simp only [verifyTimestamp_eq]
    generalize tsApplies i = a
    generalize tokenGood i = g
    generalize (i.chain.all fun x => x.contains i.now) = vn
    generalize (i.chain.all fun x => x.contains i.signingTime) = vs
    generalize expired i = e
    cases a <;> cases g <;> cases vn <;> cases vs <;> cases e <;> decide
  · -- signing authority
    simp only [saLoop_eq]
    generalize tsApplies i = a
    generalize tokenGood i = g
    generalize (i.chain.all fun x => x.contains i.now) = vn
    generalize (i.chain.all fun x => x.contains i.signingTime) = vs
    generalize expired i = e
    cases a <;> cases g <;> cases vn <;> cases vs <;> cases e <;> decide

theorem holds_map_or_true (cl : Clauses) : Clauses.holds (cl.map (fun c => (c.1, true || c.2))) = true := by
  induction cl with
  | nil => rfl
  | cons c rest ih => simpa [Clauses.holds] using ih

theorem holds_map_or_false (cl : Clauses) : Clauses.holds (cl.map (fun c => (c.1, false || c.2))) = Clauses.holds cl := by
  induction cl with
  | nil => rfl
  | cons c rest ih => simp only [Clauses.holds] at ih ⊢; simp [ih]

/-- **C06**: every clause of `Holds` is true of the model's behaviour - for refused statements (nothing is claimed
but that only a non-canonical spelling is refused) and for accepted ones -/
theorem model_holds (i : Input) : Holds i (run i) = true := by
  unfold Holds clauses run
  by_cases h : refusedByValidation i = true
  · simp only [h, if_true, Clauses.holds_cons, Bool.not_true, Bool.false_or, Bool.true_and]
    exact holds_map_or_true _
  · have h' : refusedByValidation i = false := by simpa using h
    simp only [h', Bool.false_eq_true, if_false, Clauses.holds_cons]
    have hr : (runAccepted i).refused = false := rfl
    rw [hr]
    simp only [Bool.not_false, Bool.true_or, Bool.true_and]
    rw [holds_map_or_false]
    exact accepted_holds i

/-- a statement whose store types are spelled canonically is never refused, and then the verifier behaves as `runAccepted` -/
theorem canonical_runs (i : Input) (h1 : i.tsaTypeSpelling = .canonical) (h2 : i.signingTypeSpelling = .canonical) :
    run i = runAccepted i := by
  simp [run, refusedByValidation, h1, h2]

/-! ### non-vacuity -/

private def w (a b : Int) : Window := ⟨a, b⟩
private def goodToken : Token :=
  { parses := true, imprintMatches := true, genTime := 50, accSeconds := 0, accMillis := 0, accMicros := 0,
    baselinePolicy := false, tsaRootListed := true, tsaCertOk := true, chainRulesOk := true }
private def obs (ev e a : Bool) : Obs :=
  { refused := false, evaluated := ev, expiryFailed := e, authTsFailed := a, tsaRevocationArgsOk := true,
    signingRevocationArgsOk := true }
private def base : Input :=
  { now := 100, scheme := .x509, signingTime := 10, expiry := some 101, chain := [w 0 200, w 0 300],
    tsaListed := false, option := .unset, token := none, tsaStoresLoad := true, tsaStoresNonEmpty := true,
    tsaRevocationError := false, tsaRevocation := [.ok, .ok], tsaChainLen := 2,
    tsaTypeSpelling := .canonical, signingTypeSpelling := .canonical }

-- valid now, unexpired: both pass
example : runAccepted base = (obs true false false) := by decide
-- expiry equal to the clock fails
example : (runAccepted { base with expiry := some 100 }).expiryFailed = true := by decide
-- an expired certificate fails without timestamping ...
example : (runAccepted { base with chain := [w 0 200, w 0 99] }).authTsFailed = true := by decide
-- ... and passes with a good countersignature inside both windows, under afterCertExpiry
example : (runAccepted { base with chain := [w 0 200, w 0 99], tsaListed := true, option := .afterCertExpiry,
                                   token := some goodToken }).authTsFailed = false := by decide
-- the same token timed outside a window fails
example : (runAccepted { base with chain := [w 0 200, w 60 99], tsaListed := true, option := .always,
                                   token := some goodToken }).authTsFailed = true := by decide
-- a revoked TSA certificate fails
example : (runAccepted { base with tsaListed := true, token := some goodToken, tsaRevocation := [.ok, .revoked] }).authTsFailed = true := by decide
-- signing authority looks at the signing time only
example : (runAccepted { base with scheme := .signingAuthority, now := 1000, signingTime := 200 }).authTsFailed = false := by decide
example : (runAccepted { base with scheme := .signingAuthority, now := 100, signingTime := 201 }).authTsFailed = true := by decide
-- `Holds` rejects wrong observations
example : Holds { base with expiry := some 100 } (obs true false false) = false := by decide
example : Holds { base with chain := [w 0 200, w 0 99] } (obs true false false) = false := by decide
example : Holds { base with tsaListed := true } (obs true false false) = false := by decide
example : Holds { base with scheme := .signingAuthority, signingTime := 201 } (obs true false false) = false := by decide
-- a result vector that does not have one entry per TSA certificate fails, even if every entry is OK
example : (runAccepted { base with tsaListed := true, token := some goodToken, tsaRevocation := [.ok] }).authTsFailed = true := by decide
example : (runAccepted { base with tsaListed := true, token := some goodToken, tsaRevocation := [.ok, .ok, .ok] }).authTsFailed = true := by decide
example : (runAccepted { base with tsaListed := true, token := some goodToken }).authTsFailed = false := by decide
-- an outcome without the two results does not satisfy the property
example : Holds base (obs false false false) = false := by decide
-- a TSA revocation check that was handed an authentic signing time, or the wrong chain, does not satisfy the property
example : Holds base { obs true false false with tsaRevocationArgsOk := false } = false := by decide
example : Holds base { obs true false false with signingRevocationArgsOk := false } = false := by decide
example : Holds base (runAccepted base) = true := by decide
example : Holds base (run base) = true := by decide
-- a statement that spells "TSA:x" is refused by today's policy validation: nothing to verify, nothing claimed ...
example : (run { base with tsaListed := true, tsaTypeSpelling := .otherCase }).refused = true := by decide
example : Holds { base with tsaListed := true, tsaTypeSpelling := .otherCase }
    (run { base with tsaListed := true, tsaTypeSpelling := .otherCase }) = true := by decide
-- ... but a verifier that ACCEPTS it must treat the entry as the tsa store it is: passing without countersignature
-- because "no tsa store is configured" does not satisfy the property
example : Holds { base with tsaListed := true, tsaTypeSpelling := .otherCase } (obs true false false) = false := by decide
example : Holds { base with tsaListed := true, tsaTypeSpelling := .otherCase } (obs true false true) = true := by decide
-- and a canonically spelled statement must not be refused
example : Holds base { obs false false false with refused := true } = false := by decide

/-! ### tie to the translated source

`Generated/SrcC06.lean` is the Lean translation of `verifyExpiry`, `verifyAuthenticTimestamp` and `verifyTimestamp`
(verifier/verifier.go), regenerated on every run by /verif/extract (go2lean). The theorems below say that the
translated functions fail / pass exactly as the model's functions do, for all times and all oracle answers
(Src/TypesC06.lean lists the oracles). The proofs never quote the generated text: loops are rewritten by the loop
lemmas of this section, oracle answers are generalised to variables, early exits become Boolean disjunctions. -/

namespace Tie
open NotationModel.Src NotationModel.Src.verifier

@[reducible] def expiryOf (t : time.Time) : Option Int := if t.ns = 0 then none else some t.ns
@[reducible] def windowOf (c : c06.Certificate) : Window := ⟨c.NotBefore.ns, c.NotAfter.ns⟩
@[reducible] def chainOf (o : c06.VerificationOutcome) : List Window := o.EnvelopeContent.SignerInfo.CertificateChain.map windowOf

/-- TIE (translated source): `verifyExpiry`, regenerated from verifier/verifier.go on every run
(`Generated/SrcC06.lean`), reports an error exactly when the model's `verifyExpiry` does - for every clock reading
(the oracle `env.Now`) and every expiry, the zero time standing for "no expiry" -/
theorem source_verifyExpiry_refines_model (env : Env) (o : c06.VerificationOutcome) :
    (verifier.verifyExpiry env o).Error.isSome =
      C06.verifyExpiry env.Now.ns (expiryOf o.EnvelopeContent.SignerInfo.SignedAttributes.Expiry) := by
  unfold verifier.verifyExpiry C06.verifyExpiry expiryOf
  simp only [Id.run, time.Time.IsZero, time.Time.Before]
  by_cases hz : o.EnvelopeContent.SignerInfo.SignedAttributes.Expiry.ns = 0 <;>
    by_cases hb : env.Now.ns < o.EnvelopeContent.SignerInfo.SignedAttributes.Expiry.ns <;>
    simp [hz, hb, GoLite.idPure] <;> first | rfl | (exfalso; omega) | simp_all

/-! loops of the translated text, whatever they return -/

/-- `for _, a := range l { if p(a) { return v(a) } }` -/
theorem forIn_ifStop {α ρ : Type} (l : List α) (p : α → Bool) (v : α → ρ) :
    (forIn l ((none : Option ρ), ()) (fun a _ =>
      if p a = true then (pure (ForInStep.done (some (v a), ())) : Id _) else pure (ForInStep.yield (none, ())))) =
      pure ((l.find? p).map v, ()) := by
  induction l with
  | nil => simp
  | cons a l ih =>
    rw [List.forIn_cons]
    by_cases h : p a = true
    · simp [h]
    · simp [h, ih]

/-- `for _, a := range l { if p(a) { return v(a) }; if q(a) { return w(a) } }` -/
theorem forIn_ifStop2 {α ρ : Type} (l : List α) (p q : α → Bool) (v w : α → ρ) :
    (forIn l ((none : Option ρ), ()) (fun a _ =>
      if p a = true then (pure (ForInStep.done (some (v a), ())) : Id _)
      else if q a = true then pure (ForInStep.done (some (w a), ())) else pure (ForInStep.yield (none, ())))) =
      pure ((l.find? (fun a => p a || q a)).map (fun a => if p a then v a else w a), ()) := by
  induction l with
  | nil => simp
  | cons a l ih =>
    rw [List.forIn_cons]
    by_cases h : p a = true
    · simp [h]
    · by_cases h2 : q a = true
      · simp [h, h2]
      · simp [h, h2, ih]

/-- `for _, a := range l { if p(a) { flag = true; break } }` -/
theorem forIn_anyBreak {α : Type} (l : List α) (p : α → Bool) (b : Bool) :
    (forIn l b (fun a r => if p a = true then (pure (ForInStep.done true) : Id _) else pure (ForInStep.yield r))) =
      pure (l.any p || b) := by
  induction l generalizing b with
  | nil => simp
  | cons a l ih =>
    rw [List.forIn_cons]
    by_cases h : p a = true
    · simp [h]
    · simp [h, ih]

/-- pointwise equality of two Boolean tests built from integer comparisons (whatever way the source spells them) -/
macro "bool_arith" : tactic => `(tactic|
  (intro c; first
    | rfl
    | (rw [Bool.eq_iff_iff]; simp; done)
    | (rw [Bool.eq_iff_iff]; simp; omega)))

theorem saLoop_of_find {t : Int} {l : List c06.Certificate} {P : c06.Certificate → Bool} {x : Option c06.Certificate}
    (h : l.find? P = x) (hP : ∀ c, P c = (decide (t < c.NotBefore.ns) || decide (t > c.NotAfter.ns))) :
    saLoop t (l.map windowOf) = x.isSome := by
  subst h
  have : P = fun c => (decide (t < c.NotBefore.ns) || decide (t > c.NotAfter.ns)) := funext hP
  subst this
  induction l with
  | nil => rfl
  | cons c l ih =>
    simp only [List.map_cons, saLoop, List.find?_cons]
    by_cases h : (decide (t < c.NotBefore.ns) || decide (t > c.NotAfter.ns)) = true
    · simp [h]
    · simp only [h]; simpa [windowOf] using ih

/-- TIE: under any scheme but notary.x509 the translated `verifyAuthenticTimestamp` fails exactly when the model's
signing-authority loop does: some certificate's window does not contain the authentic signing time -/
theorem source_verifyAuthenticTimestamp_signingAuthority_refines_model (env : Env) (pn : String) (ts : List String) (sv : c06.SignatureVerification)
    (st : truststore.X509TrustStore) (r : revocation.Validator) (o : c06.VerificationOutcome)
    (hs : o.EnvelopeContent.SignerInfo.SignedAttributes.SigningScheme ≠ signature.SigningSchemeX509) :
    (verifier.verifyAuthenticTimestamp env pn ts sv st r o).Error.isSome =
      saLoop o.EnvelopeContent.SignerInfo.SignedAttributes.SigningTime.ns (chainOf o) := by
  unfold verifier.verifyAuthenticTimestamp
  simp only [Id.run]
  rw [forIn_ifStop]
  have hs' : (o.EnvelopeContent.SignerInfo.SignedAttributes.SigningScheme == signature.SigningSchemeX509) = false := by
    simpa using hs
  simp only [hs', Bool.false_eq_true, if_false]
  cases hF : List.find? _ o.EnvelopeContent.SignerInfo.CertificateChain <;>
    rw [saLoop_of_find hF (by bool_arith)] <;> simp [GoLite.idPure, GoLite.idBind, bind] <;> rfl

/-- `for _, a := range l { if p(a) { flag = true } }` (the same without `break`) -/
theorem forIn_anyFlag {α : Type} (l : List α) (p : α → Bool) (b : Bool) :
    (forIn l b (fun a r => if p a = true then (pure (ForInStep.yield true) : Id _) else pure (ForInStep.yield r))) =
      pure (l.any p || b) := by
  induction l generalizing b with
  | nil => simp
  | cons a l ih =>
    rw [List.forIn_cons]
    by_cases h : p a = true
    · simp [h, ih]
    · simp [h, ih]

theorem foldl_AddCert (l : List x509.Certificate) (p : x509.CertPool) :
    List.foldl (fun b a => b.AddCert a) p l = ⟨p.certs ++ l⟩ := by
  induction l generalizing p with
  | nil => simp
  | cons a l ih => simp only [List.foldl_cons]; rw [ih]; simp [x509.CertPool.AddCert]

theorem expiredLoop_of_any {now : Int} {l : List c06.Certificate} {P : c06.Certificate → Bool} {b : Bool}
    (h : l.any P = b) (hP : ∀ c, P c = decide (now > c.NotAfter.ns)) : expiredLoop now (l.map windowOf) = b := by
  subst h
  have : P = fun c => decide (now > c.NotAfter.ns) := funext hP
  subst this
  induction l with
  | nil => rfl
  | cons c l ih =>
    simp only [List.map_cons, expiredLoop, List.any_cons]
    by_cases h : now > c.NotAfter.ns <;> simp [h, windowOf] <;> simpa [windowOf] using ih

theorem validNowLoop_of_find {now : Int} {l : List c06.Certificate} {P : c06.Certificate → Bool} {x : Option c06.Certificate}
    (h : l.find? P = x) (hP : ∀ c, P c = (decide (now < c.NotBefore.ns) || decide (now > c.NotAfter.ns))) :
    validNowLoop now (l.map windowOf) = x.isSome := by
  subst h
  have : P = fun c => (decide (now < c.NotBefore.ns) || decide (now > c.NotAfter.ns)) := funext hP
  subst this
  induction l with
  | nil => rfl
  | cons c l ih =>
    simp only [List.map_cons, validNowLoop, List.find?_cons]
    by_cases h1 : now < c.NotBefore.ns <;> by_cases h2 : now > c.NotAfter.ns <;> simp [h1, h2, windowOf] <;>
      simpa [windowOf] using ih

theorem rangeLoop_of_find {t acc : Int} {l : List c06.Certificate} {P : c06.Certificate → Bool} {x : Option c06.Certificate}
    (h : l.find? P = x)
    (hP : ∀ c, P c = (!(decide (t - acc ≥ c.NotBefore.ns)) || !(decide (t + acc ≤ c.NotAfter.ns)))) :
    rangeLoop t acc (l.map windowOf) = x.isSome := by
  subst h
  have : P = fun c => (!(decide (t - acc ≥ c.NotBefore.ns)) || !(decide (t + acc ≤ c.NotAfter.ns))) := funext hP
  subst this
  induction l with
  | nil => rfl
  | cons c l ih =>
    simp only [List.map_cons, rangeLoop, List.find?_cons]
    by_cases h1 : t - acc ≥ c.NotBefore.ns <;> by_cases h2 : t + acc ≤ c.NotAfter.ns <;> simp [h1, h2, windowOf] <;>
      simpa [windowOf] using ih

@[reducible] def optionOf (s : trustpolicy.TimestampOption) : TsOption :=
  if s = trustpolicy.OptionAfterCertExpiry then .afterCertExpiry
  else if s = trustpolicy.OptionAlways then .always else .unset

@[reducible] def stepsOf (env : Env) (pn : String) (ts : List String) (st : truststore.X509TrustStore) (r : revocation.Validator)
    (o : c06.VerificationOutcome) : Steps :=
  let si := o.EnvelopeContent.SignerInfo
  let p := env.ParseSignedToken si.UnsignedAttributes.TimestampSignature
  let inf := p.1.Info
  let v := inf.1.Validate si.Signature
  let ld := env.loadX509TSATrustStores si.SignedAttributes.SigningScheme pn ts st
  let vf := p.1.Verify { CurrentTime := v.1.Value, Roots := ⟨ld.1⟩ }
  let rv := r.ValidateContext { CertChain := vf.1 }
  { present := si.UnsignedAttributes.TimestampSignature.length != 0,
    parses := p.2.isNone && inf.2.isNone, imprintMatches := v.2.isNone, storesLoad := ld.2.isNone,
    storesNonEmpty := ld.1.length != 0, tokenVerifies := vf.2.isNone,
    chainRulesOk := (env.ValidateTimestampingCertChain vf.1).isNone,
    genTime := v.1.Value.ns, acc := v.1.Accuracy, revocationError := rv.2.isSome,
    revocation := rv.1.map C05.Tie.resOf, tsaChainLen := vf.1.length }

theorem isSome_ite_some {β : Type} (c : Prop) [Decidable c] (x : β) (y : Option β) :
    (if c then some x else y).isSome = (decide c || y.isSome) := by
  by_cases h : c <;> simp [h]
theorem isSome_ite_some_id {β : Type} (c : Prop) [Decidable c] (x : β) (y : Id (Option β)) :
    Option.isSome (@ite (Id (Option β)) c _ (some x) y) = (decide c || Option.isSome y) := by
  by_cases h : c <;> simp [h]
theorem isSome_ite_none_id {β : Type} (c : Prop) [Decidable c] (y : Id (Option β)) :
    Option.isSome (@ite (Id (Option β)) c _ none y) = (!decide c && Option.isSome y) := by
  by_cases h : c <;> simp [h]
theorem zero_eq_len {α : Type} (l : List α) : ((0 : Int) = (l.length : Int)) = (l = []) := by
  cases l <;> simp <;> omega
theorem if_true_or (c : Prop) [Decidable c] (b : Bool) : (if c then true else b) = (decide c || b) := by
  by_cases h : c <;> simp [h]

/- closes a goal `isSome (steps 1-5 of the translated text) = pipelineSteps ..` once the oracle answers are the
variables `eP eI eV eL certs eVF RU eRV tchain res tsv` (names of the tie proof, not of the generated text): the
early exits become a Boolean disjunction on both sides, which is then compared case by case -/
set_option hygiene false in
macro "pipeline_leaf" : tactic => `(tactic|
  (cases hfind : List.find? _ o.EnvelopeContent.SignerInfo.CertificateChain <;>
   rw [rangeLoop_of_find hfind (by bool_arith)] <;>
   simp only [Option.map_none, Option.map_some, isSome_ite_some, isSome_ite_some_id, isSome_ite_none_id, if_true_or,
     Option.isSome_none, Option.isSome_some, Bool.or_false, Bool.or_true] <;>
   generalize (C05.revocationFinalFor tchain.length _).fst = fin <;>
   cases fin <;> cases eP <;> cases eI <;> cases eV <;> cases eL <;> cases eVF <;> cases RU <;> cases eRV <;>
     first
     | (simp [GoLite.len, C05.Tie.ofFinal]; done)
     | (simp [GoLite.len, C05.Tie.ofFinal, zero_eq_len]; done)
     | (simp [GoLite.len, C05.Tie.ofFinal, zero_eq_len]; omega)))

/- the same for the leaf that ends in the valid-now loop -/
set_option hygiene false in
macro "validnow_leaf" : tactic => `(tactic|
  (cases hfind : List.find? _ o.EnvelopeContent.SignerInfo.CertificateChain <;>
   rw [validNowLoop_of_find hfind (by bool_arith)] <;> simp <;> (try split) <;> simp))

/-- TIE: the translated `verifyTimestamp` returns an error exactly when the model's `verifyTimestampWith` says so -
for EVERY clock reading and EVERY answer of the oracles (trust store listing and loading, token parsing, TSTInfo,
message imprint, token verification against the pool made of exactly the loaded certificates at the token's time,
certificate rules, revocation validator asked about exactly the verified TSA chain with no authentic signing time);
a malformed trust store list (the listing oracle's error) is an error -/
theorem source_verifyTimestamp_refines_model (env : Env) (pn : String) (ts : List String) (sv : c06.SignatureVerification)
    (st : truststore.X509TrustStore) (r : revocation.Validator) (o : c06.VerificationOutcome) :
    (verifier.verifyTimestamp env pn ts sv st r o).isSome =
      match env.isTSATrustStoreInPolicy pn ts with
      | (_, some _) => true
      | (tsaListed, none) =>
        verifyTimestampWith env.Now.ns (chainOf o) tsaListed (optionOf sv.VerifyTimestamp) (stepsOf env pn ts st r o) := by
  unfold verifier.verifyTimestamp
  simp only [Id.run, forIn_ifStop2, forIn_anyBreak, forIn_anyFlag, List.forIn_pure_yield_eq_foldl]
  simp only [stepsOf, foldl_AddCert, List.nil_append,
    C05.Tie.source_revocationFinalResult_refines_model, verifyTimestampWith, performsWith, pipelineSteps,
    tsaRevocationFails]
  obtain ⟨q0, hq0⟩ : ∃ q, q = env.isTSATrustStoreInPolicy pn ts := ⟨_, rfl⟩
  obtain ⟨P, hP⟩ : ∃ q, q = env.ParseSignedToken o.EnvelopeContent.SignerInfo.UnsignedAttributes.TimestampSignature := ⟨_, rfl⟩
  obtain ⟨L, hL⟩ : ∃ q, q = env.loadX509TSATrustStores o.EnvelopeContent.SignerInfo.SignedAttributes.SigningScheme pn ts st := ⟨_, rfl⟩
  simp only [← hq0, ← hP, ← hL]
  clear hq0 hP hL
  obtain ⟨I, hI⟩ : ∃ q, q = P.1.Info := ⟨_, rfl⟩
  simp only [← hI]
  obtain ⟨V, hV⟩ : ∃ q, q = I.1.Validate o.EnvelopeContent.SignerInfo.Signature := ⟨_, rfl⟩
  simp only [← hV]
  clear hI hV
  obtain ⟨listed, e0⟩ := q0
  obtain ⟨tok, eP⟩ := P
  obtain ⟨inf, eI⟩ := I
  obtain ⟨tsv, eV⟩ := V
  obtain ⟨certs, eL⟩ := L
  simp only [GoLite.idPure, GoLite.idBind, bind, pure]
  generalize tok.Verify { CurrentTime := tsv.Value, Roots := ⟨certs⟩ } = VF
  obtain ⟨tchain, eVF⟩ := VF
  simp only []
  generalize env.ValidateTimestampingCertChain tchain = RU
  generalize r.ValidateContext { CertChain := tchain } = RV
  obtain ⟨res, eRV⟩ := RV
  simp only [GoLite.idPure, GoLite.idBind, bind, pure]
  cases e0 with
  | some e => simp
  | none =>
    have hd : (default : Bool) = false := rfl
    simp only [Option.isSome_none, Bool.false_eq_true, if_false, hd, Bool.or_false]
    cases listed with
    | false =>
      simp only [Bool.not_false, if_true, Bool.false_and, Bool.false_eq_true, if_false, optionOf]
      validnow_leaf
    | true =>
      simp only [Bool.not_true, Bool.false_eq_true, if_false, Bool.true_and, Bool.not_false, if_true]
      by_cases hopt : sv.VerifyTimestamp = trustpolicy.OptionAfterCertExpiry
      · have hopt' : (sv.VerifyTimestamp == trustpolicy.OptionAfterCertExpiry) = true := by simpa using hopt
        have hm : (optionOf sv.VerifyTimestamp == TsOption.afterCertExpiry) = true := by
          unfold optionOf; simp only [hopt, if_true]; decide
        simp only [hopt', hm, if_true]
        cases hexp : List.any o.EnvelopeContent.SignerInfo.CertificateChain _
        · rw [expiredLoop_of_any hexp (by bool_arith)]
          simp only [Bool.not_false, if_true]
          validnow_leaf
        · rw [expiredLoop_of_any hexp (by bool_arith)]
          simp only [Bool.not_true, Bool.false_eq_true, if_false, Bool.not_false, if_true]
          pipeline_leaf
      · have hopt' : (sv.VerifyTimestamp == trustpolicy.OptionAfterCertExpiry) = false := by simpa using hopt
        have hm : (optionOf sv.VerifyTimestamp == TsOption.afterCertExpiry) = false := by
          unfold optionOf; simp only [hopt, if_false]; split <;> decide
        simp only [hopt', hm, Bool.false_eq_true, if_false, Bool.not_true]
        pipeline_leaf

/-- TIE: under notary.x509 the result of `verifyAuthenticTimestamp` carries the error of `verifyTimestamp` -/
theorem source_verifyAuthenticTimestamp_x509_refines_model (env : Env) (pn : String) (ts : List String)
    (sv : c06.SignatureVerification) (st : truststore.X509TrustStore) (r : revocation.Validator) (o : c06.VerificationOutcome)
    (hs : o.EnvelopeContent.SignerInfo.SignedAttributes.SigningScheme = signature.SigningSchemeX509) :
    (verifier.verifyAuthenticTimestamp env pn ts sv st r o).Error = verifier.verifyTimestamp env pn ts sv st r o := by
  unfold verifier.verifyAuthenticTimestamp
  simp only [Id.run]
  have hs' : (o.EnvelopeContent.SignerInfo.SignedAttributes.SigningScheme == signature.SigningSchemeX509) = true := by
    simpa using hs
  simp only [hs', if_true]
  rfl

/-- the scheme split, both halves together, in the model's terms -/
theorem source_verifyAuthenticTimestamp_refines_model (env : Env) (pn : String) (ts : List String)
    (sv : c06.SignatureVerification) (st : truststore.X509TrustStore) (r : revocation.Validator) (o : c06.VerificationOutcome) :
    (verifier.verifyAuthenticTimestamp env pn ts sv st r o).Error.isSome =
      if o.EnvelopeContent.SignerInfo.SignedAttributes.SigningScheme = signature.SigningSchemeX509 then
        match env.isTSATrustStoreInPolicy pn ts with
        | (_, some _) => true
        | (tsaListed, none) =>
          verifyTimestampWith env.Now.ns (chainOf o) tsaListed (optionOf sv.VerifyTimestamp) (stepsOf env pn ts st r o)
      else saLoop o.EnvelopeContent.SignerInfo.SignedAttributes.SigningTime.ns (chainOf o) := by
  by_cases hs : o.EnvelopeContent.SignerInfo.SignedAttributes.SigningScheme = signature.SigningSchemeX509
  · rw [source_verifyAuthenticTimestamp_x509_refines_model env pn ts sv st r o hs, source_verifyTimestamp_refines_model, if_pos hs]
  · rw [source_verifyAuthenticTimestamp_signingAuthority_refines_model env pn ts sv st r o hs, if_neg hs]

/-! non-vacuity: the translated functions on concrete inputs -/

private def lvl : trustpolicy.VerificationLevel := trustpolicy.LevelStrict
private def cert (nb na : Int) : c06.Certificate := ⟨⟨"c"⟩, ⟨nb⟩, ⟨na⟩⟩
private def outcomeOf (scheme : String) (signing expiry : Int) (chain : List c06.Certificate) (token : Bytes) :
    c06.VerificationOutcome :=
  ⟨⟨⟨⟨scheme, ⟨signing⟩, ⟨expiry⟩⟩, ⟨token⟩, chain, [1, 2, 3]⟩⟩, lvl⟩
/-- a TSA whose token verifies to a two-certificate chain at time 50, accuracy 1, under the root it is given -/
private def tokenOk : tspclient.SignedToken :=
  { info := (⟨fun m => (⟨⟨50⟩, 1⟩, if m = [1, 2, 3] then none else some ⟨"mismatch"⟩)⟩, none),
    verify := fun o => ([⟨⟨"tsa"⟩⟩, ⟨⟨"tsa root"⟩⟩], if o.Roots.certs = [⟨⟨"tsa root"⟩⟩] ∧ o.CurrentTime = ⟨50⟩ then none else some ⟨"untrusted"⟩) }
private def envAt (now : Int) (listed : Bool) : Env :=
  { Now := ⟨now⟩, isTSATrustStoreInPolicy := fun _ _ => (listed, none),
    loadX509TSATrustStores := fun _ _ _ _ => ([⟨⟨"tsa root"⟩⟩], none),
    ParseSignedToken := fun _ => (tokenOk, none), ValidateTimestampingCertChain := fun _ => none }
private def allOk : revocation.Validator :=
  ⟨fun o => (o.CertChain.map fun _ => some ⟨.ResultOK, [], .RevocationMethodUnknown⟩, none)⟩
private def leafRevoked : revocation.Validator :=
  ⟨fun _ => ([some ⟨.ResultRevoked, [], .RevocationMethodCRL⟩, some ⟨.ResultOK, [], .RevocationMethodUnknown⟩], none)⟩
/-- a validator that answers nil for the TSA root (and a result with a nil server result for the leaf) -/
private def rootNil : revocation.Validator :=
  ⟨fun _ => ([some ⟨.ResultOK, [none], .RevocationMethodOCSP⟩, none], none)⟩
private def serverNil : revocation.Validator :=
  ⟨fun o => (o.CertChain.map fun _ => some ⟨.ResultOK, [none], .RevocationMethodOCSP⟩, none)⟩
private def x509 := signature.SigningSchemeX509

-- expiry: equal to the clock fails, one nanosecond later passes, absent passes
example : (verifier.verifyExpiry (envAt 100 false) (outcomeOf x509 10 100 [] [])).Error.isSome = true := by decide
example : (verifier.verifyExpiry (envAt 100 false) (outcomeOf x509 10 101 [] [])).Error.isSome = false := by decide
example : (verifier.verifyExpiry (envAt 100 false) (outcomeOf x509 10 0 [] [])).Error.isSome = false := by decide
-- signing authority: the signing time against the windows, ends included
example : (verifier.verifyAuthenticTimestamp (envAt 1000 false) "p" [] ⟨""⟩ ⟨0⟩ allOk
    (outcomeOf "notary.x509.signingAuthority" 200 0 [cert 1 200, cert 200 300] [])).Error.isSome = false := by decide
example : (verifier.verifyAuthenticTimestamp (envAt 100 false) "p" [] ⟨""⟩ ⟨0⟩ allOk
    (outcomeOf "notary.x509.signingAuthority" 201 0 [cert 1 200, cert 200 300] [])).Error.isSome = true := by decide
-- x509, no tsa store: valid now or not
example : (verifier.verifyTimestamp (envAt 100 false) "p" [] ⟨"always"⟩ ⟨0⟩ allOk (outcomeOf x509 10 0 [cert 1 100] [])).isSome = false := by decide
example : (verifier.verifyTimestamp (envAt 101 false) "p" [] ⟨"always"⟩ ⟨0⟩ allOk (outcomeOf x509 10 0 [cert 1 100] [])).isSome = true := by decide
-- x509, tsa store listed: an expired chain passes with a good countersignature inside the window, fails when the
-- range touches outside, when the TSA certificate is revoked, and without countersignature
example : (verifier.verifyTimestamp (envAt 500 true) "p" [] ⟨"afterCertExpiry"⟩ ⟨0⟩ allOk (outcomeOf x509 10 0 [cert 49 51] [7])).isSome = false := by decide
example : (verifier.verifyTimestamp (envAt 500 true) "p" [] ⟨"afterCertExpiry"⟩ ⟨0⟩ allOk (outcomeOf x509 10 0 [cert 50 51] [7])).isSome = true := by decide
example : (verifier.verifyTimestamp (envAt 500 true) "p" [] ⟨"always"⟩ ⟨0⟩ leafRevoked (outcomeOf x509 10 0 [cert 49 51] [7])).isSome = true := by decide
example : (verifier.verifyTimestamp (envAt 50 true) "p" [] ⟨""⟩ ⟨0⟩ allOk (outcomeOf x509 10 0 [cert 49 51] [])).isSome = true := by decide
-- a nil entry in the TSA chain's revocation results fails closed; a nil server result inside an OK entry does not matter
example : (verifier.verifyTimestamp (envAt 500 true) "p" [] ⟨"always"⟩ ⟨0⟩ rootNil (outcomeOf x509 10 0 [cert 49 51] [7])).isSome = true := by decide
example : (verifier.verifyTimestamp (envAt 500 true) "p" [] ⟨"always"⟩ ⟨0⟩ serverNil (outcomeOf x509 10 0 [cert 49 51] [7])).isSome = false := by decide

end Tie

end NotationModel.C06

/-
C20 - `file.CopyToDir` (internal/file/file.go), the step by which one plugin file reaches the plugin
directory, translated on every run (Generated/SrcC20c.lean, protocol translator) and tied for EVERY
oracle - every pattern of failing calls, every mode `os.Stat` may report:

* `source_CopyToDir_refines_protocol`: stat the source; refuse anything that is not a regular file
  BEFORE touching anything; open it; make the destination directory; create `dst/base(src)` - no
  other name; set its mode to the source's permission bits masked with 0755; copy; and on every
  path close what was opened, the destination before the source (Go's defer order), exactly once;
* `source_CopyToDir_non_regular_touches_nothing`, `source_CopyToDir_closes_what_it_opened`,
  `copied_mode_never_group_or_world_writable`.
-/
import NotationModel.Generated.SrcC20c
set_option linter.unusedSimpArgs false
set_option linter.unusedVariables false

namespace NotationModel.C20.TieCp
open NotationModel.Src NotationModel.Src.copyproto

/-- **The protocol**, written down independently of the source. -/
def protocol (o : Oracle) (log0 : List Call) (src dst : String) : Option GoLite.Err × List Call :=
  let l1 := log0 ++ [Call.stat src]
  match o.fault l1 with
  | some e => (some e, l1)
  | none =>
    let m := o.statMode l1
    if m.regular = false then (some ErrNotRegularFile, l1)
    else
      let l2 := l1 ++ [Call.open_ src]
      match o.fault l2 with
      | some e => (some e, l2)
      | none =>
        let s : File := ⟨src⟩
        let l3 := l2 ++ [Call.mkdirAll dst 493]
        match o.fault l3 with
        | some e => (some e, l3 ++ [Call.close s])
        | none =>
          let d : File := ⟨filepath.Join dst (filepath.Base src)⟩
          let l4 := l3 ++ [Call.create d.name]
          match o.fault l4 with
          | some e => (some e, l4 ++ [Call.close s])
          | none =>
            let l5 := l4 ++ [Call.chmod d ⟨false, m.perm &&& 493⟩]
            match o.fault l5 with
            | some e => (some e, l5 ++ [Call.close d, Call.close s])
            | none =>
              let l6 := l5 ++ [Call.copy d s]
              (o.fault l6, l6 ++ [Call.close d, Call.close s])

/-- **Tie.** -/
theorem source_CopyToDir_refines_protocol (o : Oracle) (log0 : List Call) (src dst : String) :
    runCP (CopyToDir src dst) o log0 = protocol o log0 src dst := by
  cases h1 : o.fault (log0 ++ [Call.stat src]) with
  | some e => simp [runCP, CopyToDir, protocol, os.Stat, h1]
  | none =>
    cases hr : (o.statMode (log0 ++ [Call.stat src])).regular with
    | false => simp [runCP, CopyToDir, protocol, os.Stat, FileInfo.Mode, FileMode.IsRegular, h1, hr]
    | true =>
      cases h2 : o.fault (log0 ++ [Call.stat src, Call.open_ src]) with
      | some e => simp [runCP, CopyToDir, protocol, os.Stat, os.Open, FileInfo.Mode, FileMode.IsRegular, h1, hr, h2]
      | none =>
        cases h3 : o.fault (log0 ++ [Call.stat src, Call.open_ src, Call.mkdirAll dst 493]) with
        | some e =>
          simp [runCP, CopyToDir, protocol, os.Stat, os.Open, os.MkdirAll, File.Close, perform, FileInfo.Mode,
            FileMode.IsRegular, h1, hr, h2, h3]
        | none =>
          cases h4 : o.fault (log0 ++ [Call.stat src, Call.open_ src, Call.mkdirAll dst 493,
              Call.create (filepath.Join dst (filepath.Base src))]) with
          | some e =>
            simp [runCP, CopyToDir, protocol, os.Stat, os.Open, os.MkdirAll, os.Create, File.Close, perform,
              FileInfo.Mode, FileMode.IsRegular, h1, hr, h2, h3, h4]
          | none =>
            cases h5 : o.fault (log0 ++ [Call.stat src, Call.open_ src, Call.mkdirAll dst 493,
                Call.create (filepath.Join dst (filepath.Base src)),
                Call.chmod ⟨filepath.Join dst (filepath.Base src)⟩
                  ⟨false, (o.statMode (log0 ++ [Call.stat src])).perm &&& 493⟩]) with
            | some e =>
              simp [runCP, CopyToDir, protocol, os.Stat, os.Open, os.MkdirAll, os.Create, File.Close, File.Chmod,
                perform, FileInfo.Mode, FileMode.IsRegular, bitAnd, os.FileMode, h1, hr, h2, h3, h4, h5]
            | none =>
              simp [runCP, CopyToDir, protocol, os.Stat, os.Open, os.MkdirAll, os.Create, File.Close, File.Chmod,
                io.Copy, perform, FileInfo.Mode, FileMode.IsRegular, bitAnd, os.FileMode, h1, hr, h2, h3, h4, h5]

/-- **A source that is not a regular file touches nothing**: one `stat`, an error, no other call. -/
theorem source_CopyToDir_non_regular_touches_nothing (o : Oracle) (log0 : List Call) (src dst : String)
    (h1 : o.fault (log0 ++ [Call.stat src]) = none)
    (hr : (o.statMode (log0 ++ [Call.stat src])).regular = false) :
    runCP (CopyToDir src dst) o log0 = (some ErrNotRegularFile, log0 ++ [Call.stat src]) := by
  rw [source_CopyToDir_refines_protocol]
  simp [protocol, h1, hr]

/-- the mode given to the copy never grants write permission to group or others (0755 mask) -/
theorem copied_mode_never_group_or_world_writable (p : Nat) : (p &&& 493) &&& 18 = 0 := by
  rw [Nat.and_assoc]
  simp

/-- **Every file that was opened is closed**, whatever fails afterwards: once the source is open the
calls END with its close, and once the destination is created its close is among them. -/
theorem source_CopyToDir_closes_what_it_opened (o : Oracle) (log0 : List Call) (src dst : String)
    (hs : o.fault (log0 ++ [Call.stat src]) = none)
    (hr : (o.statMode (log0 ++ [Call.stat src])).regular = true)
    (ho : o.fault (log0 ++ [Call.stat src, Call.open_ src]) = none) :
    ((runCP (CopyToDir src dst) o log0).2.drop log0.length).getLast? = some (Call.close ⟨src⟩) ∧
      (o.fault (log0 ++ [Call.stat src, Call.open_ src, Call.mkdirAll dst 493]) = none →
       o.fault (log0 ++ [Call.stat src, Call.open_ src, Call.mkdirAll dst 493,
          Call.create (filepath.Join dst (filepath.Base src))]) = none →
        Call.close ⟨filepath.Join dst (filepath.Base src)⟩ ∈ (runCP (CopyToDir src dst) o log0).2.drop log0.length) := by
  rw [source_CopyToDir_refines_protocol]
  unfold protocol
  cases h3 : o.fault (log0 ++ [Call.stat src, Call.open_ src, Call.mkdirAll dst 493]) with
  | some e => simp [hs, hr, ho, h3]
  | none =>
    cases h4 : o.fault (log0 ++ [Call.stat src, Call.open_ src, Call.mkdirAll dst 493,
        Call.create (filepath.Join dst (filepath.Base src))]) with
    | some e => simp [hs, hr, ho, h3, h4]
    | none =>
      cases h5 : o.fault (log0 ++ [Call.stat src, Call.open_ src, Call.mkdirAll dst 493,
          Call.create (filepath.Join dst (filepath.Base src)),
          Call.chmod ⟨filepath.Join dst (filepath.Base src)⟩
            ⟨false, (o.statMode (log0 ++ [Call.stat src])).perm &&& 493⟩]) with
      | some e => simp [hs, hr, ho, h3, h4, h5]
      | none => simp [hs, hr, ho, h3, h4, h5]

/-! non-vacuity -/

def okOracle : Oracle := { fault := fun _ => none, statMode := fun _ => ⟨true, 511⟩ }

example : runCP (CopyToDir "/s/notation-foo" "/p/foo") okOracle =
    (none, [.stat "/s/notation-foo", .open_ "/s/notation-foo", .mkdirAll "/p/foo" 493,
            .create "/p/foo/notation-foo", .chmod ⟨"/p/foo/notation-foo"⟩ ⟨false, 493⟩,
            .copy ⟨"/p/foo/notation-foo"⟩ ⟨"/s/notation-foo"⟩, .close ⟨"/p/foo/notation-foo"⟩,
            .close ⟨"/s/notation-foo"⟩]) := by decide

end NotationModel.C20.TieCp

/-
C18 - The signer never returns plugin output it has not checked against the request.
Property theorems; the model is in `Model/C18.lean`, the tables in `Generated/C18.lean`.
-/
import NotationModel.Model.C18
import NotationModel.Generated.SrcC18
import NotationModel.Generated.SrcC18b
import NotationModel.Generated.SrcC18c
set_option linter.unusedSimpArgs false
set_option linter.unusedVariables false

namespace NotationModel.C18

/-! ### facts regenerated from the Go source -/

theorem target_key_fact : Facts.c18TargetKey = "targetArtifact" := by decide
theorem payload_fields_fact : Facts.c18PayloadFields = ["targetArtifact"] := by decide
theorem payload_type_fact :
    Facts.c18MediaTypePayloadV1 = "application/vnd.cncf.notary.payload.v1+json" := by decide
/-- the keys the scan treats as known are exactly the JSON names of `ocispec.Descriptor` -/
theorem known_keys_fact :
    Facts.c18KnownDescriptorKeys.all descFields.contains = true ∧
    descFields.all Facts.c18KnownDescriptorKeys.contains = true := by decide
/-- … as a function: the code's notion of "known" is the specification's -/
theorem isKnownKey_eq (k : String) : isKnownKey k = descFields.contains k := by
  rw [Bool.eq_iff_iff]
  constructor
  · intro h
    exact (List.all_eq_true.1 known_keys_fact.1) k (by simpa [isKnownKey] using h)
  · intro h
    have := (List.all_eq_true.1 known_keys_fact.2) k (by simpa using h)
    simpa [isKnownKey] using this

/-- what notation itself writes (SanitizeTargetArtifact) is within the known keys -/
theorem sanitized_fields_fact :
    Facts.c18SanitizedFields = ["MediaType", "Digest", "Size", "Annotations"] := by decide

/-- generateSignatureEnvelope rejects duplicate member names, and does so after the struct decode
and before the descriptor comparison and the unknown-field scan -/
theorem duplicate_check_fact :
    Facts.c18EnvelopeChecks.idxOf "json.Unmarshal" < Facts.c18EnvelopeChecks.idxOf "findDuplicateKey" ∧
    Facts.c18EnvelopeChecks.idxOf "findDuplicateKey" <
      Facts.c18EnvelopeChecks.idxOf "isPayloadDescriptorValid" ∧
    Facts.c18EnvelopeChecks.idxOf "findDuplicateKey" <
      Facts.c18EnvelopeChecks.idxOf "areUnknownAttributesAdded" ∧
    Facts.c18EnvelopeChecks.idxOf "sigEnv.Verify" < Facts.c18EnvelopeChecks.idxOf "json.Unmarshal" ∧
    Facts.c18EnvelopeChecks.idxOf "areUnknownAttributesAdded" < Facts.c18EnvelopeChecks.length ∧
    Facts.c18EnvelopeChecks.idxOf "isPayloadDescriptorValid" < Facts.c18EnvelopeChecks.length := by
  decide

/-! ### codec lemmas over the regenerated tables -/

theorem lookup_mem {α β : Type} [BEq α] [LawfulBEq α] :
    ∀ (l : List (α × β)) (a : α) (b : β), l.lookup a = some b → (a, b) ∈ l := by
  intro l
  induction l with
  | nil => intro a b h; simp [List.lookup] at h
  | cons p r ih =>
    intro a b h
    obtain ⟨k, v⟩ := p
    simp only [List.lookup] at h
    by_cases hk : a == k
    · simp [hk] at h
      have : a = k := by simpa using hk
      subst this; subst h; simp
    · simp [hk] at h
      exact List.mem_cons_of_mem _ (ih a b h)

/-- **codec**: `DecodeKeySpec (EncodeKeySpec k) = k` for all six key specs -/
theorem decode_encode_keySpec (k : KS) :
    (encodeKeySpec k.spec).bind decodeKeySpec = some k.spec := by
  cases k <;> decide

/-- **codec**: whatever `DecodeKeySpec` accepts, `EncodeKeySpec` maps back to the same text -/
theorem encode_decode_keySpec (s : String) (ks : Spec) (h : decodeKeySpec s = some ks) :
    encodeKeySpec ks = some s := by
  have hall : ∀ p ∈ Facts.c18DecodeKeySpec, encodeKeySpec p.2 = some p.1 := by decide
  exact hall (s, ks) (lookup_mem _ _ _ h)

/-- **codec**: only the six supported key specs are decodable -/
theorem decodeKeySpec_range (s : String) (ks : Spec) (h : decodeKeySpec s = some ks) :
    ∃ k : KS, ks = k.spec := by
  have hall : ∀ p ∈ Facts.c18DecodeKeySpec,
      p.2 = KS.rsa2048.spec ∨ p.2 = KS.rsa3072.spec ∨ p.2 = KS.rsa4096.spec ∨
      p.2 = KS.ec256.spec ∨ p.2 = KS.ec384.spec ∨ p.2 = KS.ec521.spec := by decide
  rcases hall (s, ks) (lookup_mem _ _ _ h) with h | h | h | h | h | h <;> exact ⟨_, h⟩

/-- **codec**: signing algorithm ↔ key spec: the algorithm of every key spec survives the wire
encoding, and no two key specs share an algorithm -/
theorem sigAlg_roundtrip (k : KS) :
    ∃ a, sigAlgOf k.spec = some a ∧ (encodeSigAlg a).bind decodeSigAlg = some a := by
  cases k <;> exact ⟨_, rfl, by decide⟩

theorem sigAlgOf_injective (k k' : KS) (h : sigAlgOf k.spec = sigAlgOf k'.spec) : k = k' := by
  cases k <;> cases k' <;> first | rfl | (exact absurd h (by decide))

/-- **codec**: the hash `HashAlgorithmFromKeySpec` requests from the plugin is the hash of the
key spec's signature algorithm -/
theorem hash_bound_to_keySpec (k : KS) :
    ∃ a h, sigAlgOf k.spec = some a ∧ hashOfAlg a = some h ∧ hashFromKeySpec k.spec = some h.2 := by
  cases k <;> exact ⟨_, _, rfl, rfl, by decide⟩

/-- SignBlob always finds a digest algorithm for a decodable key spec -/
theorem blobDigestAlg_total (k : KS) : (blobDigestAlg k.spec).isSome = true := by
  cases k <;> decide

theorem encode_hash_total (k : KS) :
    (encodeKeySpec k.spec).isSome = true ∧ (hashFromKeySpec k.spec).isSome = true := by
  cases k <;> decide

/-! ### member lookups -/

theorem lookupLast_none_of_not_mem (k : String) :
    ∀ (m : Members), (keysOf m).contains k = false → lookupLast k m = none := by
  intro m
  induction m with
  | nil => intro _; rfl
  | cons p r ih =>
    intro h
    obtain ⟨k', v⟩ := p
    simp only [keysOf, List.map_cons, List.contains_cons, Bool.or_eq_false_iff] at h
    have hr := ih (by simpa [keysOf] using h.2)
    have hne : (k' == k) = false := by
      have : k ≠ k' := by simpa using h.1
      simpa using fun e => this e.symm
    simp [lookupLast, hr, hne]

theorem lookupLast_cons_self (k : String) (v : JVal) (r : Members)
    (h : (keysOf r).contains k = false) : lookupLast k ((k, v) :: r) = some v := by
  simp [lookupLast, lookupLast_none_of_not_mem k r h]

theorem lookupLast_cons_ne (k k' : String) (v : JVal) (r : Members) (h : k' ≠ k) :
    lookupLast k ((k', v) :: r) = lookupLast k r := by
  have hne : (k' == k) = false := by simpa using h
  cases hl : lookupLast k r <;> simp [lookupLast, hl, hne]

/-- without duplicate member names it does not matter which member a reader takes -/
theorem lookupFirst_eq_lookupLast (k : String) :
    ∀ (m : Members), nodupB (keysOf m) = true → lookupFirst k m = lookupLast k m := by
  intro m
  induction m with
  | nil => intro _; rfl
  | cons p r ih =>
    intro h
    obtain ⟨k', v⟩ := p
    simp only [keysOf, List.map_cons, nodupB, Bool.and_eq_true, Bool.not_eq_true'] at h
    have hr := ih (by simpa [keysOf] using h.2)
    by_cases hk : k = k'
    · subst hk
      rw [lookupLast_cons_self k v r (by simpa [keysOf] using h.1)]
      simp [lookupFirst, List.lookup]
    · rw [lookupLast_cons_ne k k' v r (fun e => hk e.symm), ← hr]
      have : (k == k') = false := by simpa using hk
      simp [lookupFirst, List.lookup, this]

/-! ### the Go struct decoder on a descriptor object with known, distinct member names -/

def fieldStr (cur : String) : Option JVal → Option String
  | none => some cur
  | some v => decStr cur v

def fieldInt (cur : Int) : Option JVal → Option Int
  | none => some cur
  | some v => decInt64 cur v

def fieldAnn (cur : List (String × String)) : Option JVal → Option (List (String × String))
  | none => some cur
  | some v => decAnnotations cur v

theorem known_cases (k : String) (hk : isKnownKey k = true) :
    k = "mediaType" ∨ k = "digest" ∨ k = "size" ∨ k = "urls" ∨ k = "annotations" ∨ k = "data" ∨
    k = "platform" ∨ k = "artifactType" := by
  rw [isKnownKey_eq] at hk
  simpa [descFields] using hk

/-- a member with a known (exactly spelled) name touches its own field only -/
theorem decDescField_spec (cur c : GoDesc) (k : String) (v : JVal) (hk : isKnownKey k = true)
    (h : decDescField cur k v = some c) :
    (if k = "mediaType" then decStr cur.mediaType v = some c.mediaType else c.mediaType = cur.mediaType) ∧
    (if k = "digest" then decStr cur.digest v = some c.digest else c.digest = cur.digest) ∧
    (if k = "size" then decInt64 cur.size v = some c.size else c.size = cur.size) ∧
    (if k = "annotations" then decAnnotations cur.annotations v = some c.annotations
      else c.annotations = cur.annotations) := by
  rcases known_cases k hk with h' | h' | h' | h' | h' | h' | h' | h' <;> subst h' <;>
    simp [decDescField, matchField, descFields] at h
  · obtain ⟨s, hs, rfl⟩ := h; simp [hs]
  · obtain ⟨s, hs, rfl⟩ := h; simp [hs]
  · obtain ⟨s, hs, rfl⟩ := h; simp [hs]
  · obtain ⟨_, rfl⟩ := h; simp
  · obtain ⟨s, hs, rfl⟩ := h; simp [hs]
  · obtain ⟨_, rfl⟩ := h; simp
  · obtain ⟨_, rfl⟩ := h; simp
  · obtain ⟨_, rfl⟩ := h; simp

theorem field_step {α : Type} (fld : α → Option JVal → Option α) (dec : α → JVal → Option α)
    (hnone : ∀ a, fld a none = some a) (hsome : ∀ a v, fld a (some v) = dec a v)
    (f k : String) (v : JVal) (rest : Members) (curf cf rf : α)
    (hnot : (keysOf rest).contains k = false)
    (hA : if k = f then dec curf v = some cf else cf = curf)
    (hIH : fld cf (lookupLast f rest) = some rf) :
    fld curf (lookupLast f ((k, v) :: rest)) = some rf := by
  by_cases hkf : k = f
  · subst hkf
    simp only [if_true] at hA
    rw [lookupLast_cons_self k v rest hnot, hsome, hA]
    rw [lookupLast_none_of_not_mem k rest hnot, hnone] at hIH
    exact hIH
  · simp only [hkf, if_false] at hA
    rw [lookupLast_cons_ne f k v rest hkf, ← hA]
    exact hIH

theorem decDescFields_spec : ∀ (d : Members) (cur r : GoDesc),
    (keysOf d).all isKnownKey = true → nodupB (keysOf d) = true → decDescFields cur d = some r →
    fieldStr cur.mediaType (lookupLast "mediaType" d) = some r.mediaType ∧
    fieldStr cur.digest (lookupLast "digest" d) = some r.digest ∧
    fieldInt cur.size (lookupLast "size" d) = some r.size ∧
    fieldAnn cur.annotations (lookupLast "annotations" d) = some r.annotations := by
  intro d
  induction d with
  | nil =>
    intro cur r _ _ h
    simp [decDescFields] at h
    subst h
    simp [lookupLast, fieldStr, fieldInt, fieldAnn]
  | cons p rest ih =>
    intro cur r hk hn h
    obtain ⟨k, v⟩ := p
    simp only [keysOf, List.map_cons, List.all_cons, Bool.and_eq_true, nodupB, Bool.not_eq_true'] at hk hn
    simp only [decDescFields] at h
    cases hc : decDescField cur k v with
    | none => simp [hc] at h
    | some c =>
      simp only [hc] at h
      obtain ⟨i1, i2, i3, i4⟩ := ih c r (by simpa [keysOf] using hk.2) (by simpa [keysOf] using hn.2) h
      obtain ⟨a1, a2, a3, a4⟩ := decDescField_spec cur c k v hk.1 hc
      have hnot : (keysOf rest).contains k = false := by simpa [keysOf] using hn.1
      exact ⟨field_step fieldStr decStr (fun _ => rfl) (fun _ _ => rfl) _ k v rest _ _ _ hnot a1 i1,
             field_step fieldStr decStr (fun _ => rfl) (fun _ _ => rfl) _ k v rest _ _ _ hnot a2 i2,
             field_step fieldInt decInt64 (fun _ => rfl) (fun _ _ => rfl) _ k v rest _ _ _ hnot a3 i3,
             field_step fieldAnn decAnnotations (fun _ => rfl) (fun _ _ => rfl) _ k v rest _ _ _ hnot a4 i4⟩

theorem fieldStr_zero (o : Option JVal) : fieldStr "" o = exactStr o := by
  cases o with
  | none => rfl
  | some v => cases v <;> rfl

theorem fieldInt_zero (o : Option JVal) (n : Int) (h : fieldInt 0 o = some n) : exactInt o = some n := by
  cases o with
  | none => simpa [fieldInt, exactInt] using h
  | some v =>
    cases v <;> simp [fieldInt, decInt64, exactInt] at h ⊢
    · exact h
    · exact h.2

theorem fieldAnn_zero (o : Option JVal) : fieldAnn [] o = exactAnn o := by
  cases o with
  | none => rfl
  | some v => cases v <;> rfl

/-- the exact-key reader of a descriptor object agrees with the Go struct decoder when the
member names are known and distinct -/
theorem exactDesc_agrees (d : Members) (r : GoDesc)
    (hk : (keysOf d).all isKnownKey = true) (hn : nodupB (keysOf d) = true)
    (h : decDescFields {} d = some r) : exactDescBy lookupLast d = some r := by
  obtain ⟨h1, h2, h3, h4⟩ := decDescFields_spec d {} r hk hn h
  rw [fieldStr_zero] at h1 h2
  rw [fieldAnn_zero] at h4
  have h3' := fieldInt_zero _ _ h3
  simp [exactDescBy, h1, h2, h3', h4]

/-! ### the whole payload -/

theorem top_shape (kvs : Members) (ht : (keysOf kvs).all (· == "targetArtifact") = true)
    (hn : nodupB (keysOf kvs) = true) : kvs = [] ∨ ∃ v, kvs = [("targetArtifact", v)] := by
  cases kvs with
  | nil => exact Or.inl rfl
  | cons p rest =>
    obtain ⟨k, v⟩ := p
    simp only [keysOf, List.map_cons, List.all_cons, Bool.and_eq_true, beq_iff_eq] at ht
    obtain ⟨hk, hrest⟩ := ht
    subst hk
    cases rest with
    | nil => exact Or.inr ⟨v, rfl⟩
    | cons q r2 =>
      obtain ⟨k2, v2⟩ := q
      simp only [List.map_cons, List.all_cons, Bool.and_eq_true, beq_iff_eq] at hrest
      obtain ⟨hk2, _⟩ := hrest
      subst hk2
      simp [keysOf, nodupB] at hn

theorem exactDescBy_first (d : Members) (hn : nodupB (keysOf d) = true) :
    exactDescBy lookupFirst d = exactDescBy lookupLast d := by
  simp [exactDescBy, lookupFirst_eq_lookupLast _ d hn]

/-- **every reader sees the same descriptor**: when the payload carries only the exactly spelled
key `targetArtifact`, its object only known descriptor keys, and no member name is duplicated,
then a last-wins exact-key reader and a first-wins exact-key reader read exactly what the Go
struct decoder (exact name, else case-insensitive, merging) reads -/
theorem views_agree (p : JVal) (r : GoDesc) (ht : topKeysExact p = true)
    (hk : descKeysKnown p = true) (hd : hasDup p = false) (h : goDecodePayload p = some r) :
    exactView p = some r ∧ firstView p = some r := by
  cases p with
  | null =>
    simp [goDecodePayload] at h
    subst h
    exact ⟨rfl, rfl⟩
  | bool b => simp [goDecodePayload] at h
  | num n => simp [goDecodePayload] at h
  | str s => simp [goDecodePayload] at h
  | arr xs => simp [goDecodePayload] at h
  | obj kvs =>
    simp only [hasDup, Bool.or_eq_false_iff, Bool.not_eq_false'] at hd
    obtain ⟨hn, hd2⟩ := hd
    rcases top_shape kvs (by simpa [topKeysExact] using ht) hn with rfl | ⟨v, rfl⟩
    · simp [goDecodePayload, decPayloadFields] at h
      subst h
      exact ⟨rfl, rfl⟩
    · have hl : lookupLast "targetArtifact" [("targetArtifact", v)] = some v := by
        simp [lookupLast]
      have hf : lookupFirst "targetArtifact" [("targetArtifact", v)] = some v := by
        simp [lookupFirst, List.lookup]
      simp only [descKeysKnown, hl] at hk
      simp only [hl] at hd2
      cases v with
      | obj d =>
        simp only at hk hd2
        have hnd : nodupB (keysOf d) = true := by simpa using hd2
        simp [goDecodePayload, decPayloadFields, matchField, Facts.c18PayloadFields, decDesc] at h
        cases hc : decDescFields {} d with
        | none => simp [hc] at h
        | some c =>
          simp [hc] at h
          subst h
          have hk' : (keysOf d).all isKnownKey = true := by
            simpa [isKnownKey_eq] using hk
          have := exactDesc_agrees d c hk' hnd hc
          refine ⟨by simp [exactView, exactViewBy, hl, this], ?_⟩
          simp [firstView, exactViewBy, hf, exactDescBy_first d hnd, this]
      | null => simp at hk
      | bool b => simp at hk
      | num n => simp at hk
      | str s => simp at hk
      | arr xs => simp at hk

/-! ### the unknown-field scan -/

theorem mem_keys_of_lookupLast (k : String) (m : Members) (v : JVal)
    (h : lookupLast k m = some v) : (keysOf m).contains k = true := by
  cases hc : (keysOf m).contains k with
  | true => rfl
  | false => rw [lookupLast_none_of_not_mem k m hc] at h; cases h

/-- with the checked assertion the scan cannot panic - for ANY document -/
theorem scan_checked_ne_panic (p : JVal) : scanUnknown true p ≠ .panic := by
  cases p with
  | obj kvs => simp only [scanUnknown]; split <;> simp
  | null => simp [scanUnknown]
  | bool b => simp [scanUnknown]
  | num n => simp [scanUnknown]
  | str s => simp [scanUnknown]
  | arr xs => simp [scanUnknown]

/-- the defect repaired by 105e86f, in the model: with an unchecked assertion a payload spelled
`TargetArtifact` reaches the panic -/
theorem unchecked_assertion_panics :
    (match scanUnknown false (.obj [("TargetArtifact", .obj [])]) with | .panic => true | _ => false) = true := by
  decide

def scanClean : Scan → Bool
  | .panic => false
  | .unknown ks => ks.isEmpty

/-- the scan passes exactly when the top level has only the exactly spelled key and the target
object only known keys -/
theorem scan_checked_iff (p : JVal) :
    scanClean (scanUnknown true p) = (topKeysExact p && descKeysKnown p) := by
  cases p with
  | obj kvs =>
    simp only [scanUnknown, target_key_fact, topKeysExact, descKeysKnown]
    cases hl : lookupLast "targetArtifact" kvs with
    | none =>
      simp only [if_true, scanClean, Bool.and_true]
      cases kvs with
      | nil => rfl
      | cons q r =>
        obtain ⟨k, v⟩ := q
        simp only [keysOf, List.map_cons, List.isEmpty_cons, List.all_cons]
        by_cases hk : k = "targetArtifact"
        · subst hk
          exfalso
          have : lookupLast "targetArtifact" (("targetArtifact", v) :: r) ≠ none := by
            cases hr : lookupLast "targetArtifact" r <;> simp [lookupLast, hr]
          exact this hl
        · have : (k == "targetArtifact") = false := by simpa using hk
          simp [this]
    | some v =>
      have hmem := mem_keys_of_lookupLast _ _ _ hl
      have hne : (keysOf kvs).isEmpty = false := by
        cases kvs with
        | nil => simp [keysOf] at hmem
        | cons q r => simp [keysOf]
      cases v with
      | obj d =>
        simp only [scanClean]
        rw [Bool.eq_iff_iff]
        simp [List.isEmpty_iff, List.filter_eq_nil_iff, and_comm, isKnownKey_eq]
      | null => simp [scanClean, hne]
      | bool b => simp [scanClean, hne]
      | num n => simp [scanClean, hne]
      | str s => simp [scanClean, hne]
      | arr xs => simp [scanClean, hne]
  | null => simp [scanUnknown, scanClean, topKeysExact, descKeysKnown]
  | bool b => simp [scanUnknown, scanClean, topKeysExact, descKeysKnown]
  | num n => simp [scanUnknown, scanClean, topKeysExact, descKeysKnown]
  | str s => simp [scanUnknown, scanClean, topKeysExact, descKeysKnown]
  | arr xs => simp [scanUnknown, scanClean, topKeysExact, descKeysKnown]

/-! ### duplicate member names -/

theorem dupInMembers_false (kvs : Members) (h : dupInMembers kvs = false) :
    ∀ kv ∈ kvs, kv.2.dupDeep = false := by
  induction kvs with
  | nil => intro kv hkv; cases hkv
  | cons q r ih =>
    simp only [dupInMembers, Bool.or_eq_false_iff] at h
    intro kv hkv
    rcases List.mem_cons.1 hkv with rfl | hkv
    · exact h.1
    · exact ih h.2 kv hkv

theorem mem_of_lookupLast (k : String) : ∀ (m : Members) (v : JVal),
    lookupLast k m = some v → (k, v) ∈ m := by
  intro m
  induction m with
  | nil => intro v h; simp [lookupLast] at h
  | cons q r ih =>
    intro v h
    obtain ⟨k', v'⟩ := q
    simp only [lookupLast] at h
    cases hr : lookupLast k r with
    | some w =>
      simp only [hr, Option.some.injEq] at h
      subst h
      exact List.mem_cons_of_mem _ (ih w hr)
    | none =>
      simp only [hr] at h
      by_cases hk : (k' == k) = true
      · simp only [hk, if_true] at h
        cases h
        have : k' = k := by simpa using hk
        subst this
        exact List.mem_cons_self
      · simp [hk] at h

/-- no duplicate anywhere ⟹ none at the two levels the readers look at -/
theorem hasDup_of_dupDeep (p : JVal) (h : p.dupDeep = false) : hasDup p = false := by
  cases p with
  | obj kvs =>
    simp only [JVal.dupDeep, Bool.or_eq_false_iff, Bool.not_eq_false'] at h
    obtain ⟨hn, hm⟩ := h
    simp only [hasDup, Bool.or_eq_false_iff, Bool.not_eq_false']
    refine ⟨by simpa [keysOf] using hn, ?_⟩
    cases hl : lookupLast "targetArtifact" kvs with
    | none => rfl
    | some v =>
      cases v with
      | obj d =>
        have := dupInMembers_false kvs hm _ (mem_of_lookupLast _ _ _ hl)
        simp only [JVal.dupDeep, Bool.or_eq_false_iff, Bool.not_eq_false'] at this
        simpa [keysOf] using this.1
      | null => rfl
      | bool b => rfl
      | num n => rfl
      | str s => rfl
      | arr xs => rfl
  | null => rfl
  | bool b => rfl
  | num n => rfl
  | str s => rfl
  | arr xs => rfl

/-! ### the two paths, characterised -/

/-- everything `generateSignatureEnvelope` checks -/
def envChecks (i : Input) : Bool :=
  i.echoOk && !i.garbage && i.envFmt == i.format && wrapParses i && verifyOk i && i.ctypeOk &&
  singleDocument i && !i.payload.dupDeep &&
  sees i.req (goDecodePayload i.payload) && topKeysExact i.payload && descKeysKnown i.payload

theorem envelopePath_eq (i : Input) :
    envelopePath i = if (i.pluginErr != .generate && envChecks i) then sigObs else errObs := by
  unfold envelopePath envChecks
  by_cases h0 : i.pluginErr = .generate
  · simp [h0]
  by_cases h1 : i.echoOk = true
  case neg => simp [h0, h1]
  by_cases h2 : i.garbage = true
  · simp [h0, h1, h2]
  by_cases h3 : i.envFmt = i.format
  case neg => simp [h0, h1, h2, h3]
  by_cases hw : wrapParses i = true
  case neg => simp [h0, h1, h2, h3, hw]
  by_cases h4 : verifyOk i = true
  case neg => simp [h0, h1, h2, h3, hw, h4]
  by_cases h5 : i.ctypeOk = true
  case neg => simp [h0, h1, h2, h3, hw, h4, h5]
  by_cases hsd : singleDocument i = true
  case neg => simp [h0, h1, h2, h3, hw, h4, h5, hsd]
  cases hg : goDecodePayload i.payload with
  | none => simp [h0, h1, h2, h3, hw, h4, h5, hsd, sees]
  | some d =>
    by_cases hdd : i.payload.dupDeep = true
    · simp [h0, h1, h2, h3, hw, h4, h5, hsd, hdd]
    by_cases h6 : descValid i.req d = true
    case neg => simp [h0, h1, h2, h3, hw, h4, h5, hsd, hdd, h6, sees]
    have hs := scan_checked_iff i.payload
    have hp := scan_checked_ne_panic i.payload
    cases hsc : scanUnknown true i.payload with
    | panic => exact absurd hsc hp
    | unknown ks =>
      rw [hsc] at hs
      simp only [scanClean] at hs
      simp [h0, h1, h2, h3, hw, h4, h5, hsd, hdd, h6, sees, hs, Bool.and_assoc]

theorem spec_facts (k : KS) :
    ∃ e h a, encodeKeySpec k.spec = some e ∧ hashFromKeySpec k.spec = some h ∧
      sigAlgOf k.spec = some a := by
  have ⟨h1, h2⟩ := encode_hash_total k
  obtain ⟨e, he⟩ := Option.isSome_iff_exists.1 h1
  obtain ⟨h, hh⟩ := Option.isSome_iff_exists.1 h2
  obtain ⟨a, ha, _⟩ := sigAlg_roundtrip k
  exact ⟨e, h, a, he, hh, ha⟩

theorem rawPath_eq (i : Input) (k : KS) :
    rawPath i k.spec =
      if (i.pluginErr != .generate && i.gsKeyIdOk && verifyOk i && k == i.key) then sigObs else errObs := by
  obtain ⟨e, h, a, he, hh, ha⟩ := spec_facts k
  simp only [rawPath, he, hh, ha]
  by_cases h0 : i.pluginErr = .generate
  · simp [h0]
  by_cases h1 : i.gsKeyIdOk = true
  case neg => simp [h0, h1]
  by_cases h4 : verifyOk i = true
  case neg =>
    have h4' : verifyOk i = false := by simpa using h4
    simp only [h4']
    cases hch : i.chain <;> simp [h0, h1, leafSpec, hch] <;> split <;> simp
  have hchain : i.chain = .ok ∨ i.chain = .selfSigned ∨ i.chain = .otherKey := by
    simp only [verifyOk, Bool.and_eq_true, Bool.or_eq_true, beq_iff_eq] at h4
    rcases h4 with ⟨⟨_, h | h⟩ | ⟨_, h⟩, _⟩
    · exact Or.inl h
    · exact Or.inr (Or.inl h)
    · exact Or.inr (Or.inr h)
  have hleaf : leafSpec i = some i.key.spec := by
    rcases hchain with hc | hc | hc <;> simp [leafSpec, hc]
  have hng : (i.chain == Chain.garbage) = false := by
    rcases hchain with hc | hc | hc <;> simp [hc]
  simp only [hleaf, hng]
  by_cases hk : k = i.key
  · subst hk
    simp [h0, h1, h4, ha]
  · have : sigAlgOf i.key.spec ≠ some a := by
      intro hEq
      exact hk (sigAlgOf_injective k i.key (by rw [ha, hEq]))
    simp [h0, h1, h4, hk, this]

theorem getKeySpec_some (i : Input) (ks : Spec) (h : getKeySpec i = some ks) :
    i.pluginErr ≠ .describeKey ∧ i.dkKeyIdOk = true ∧ decodeKeySpec i.dkKeySpec = some ks := by
  unfold getKeySpec at h
  by_cases h0 : i.pluginErr = .describeKey
  · simp [h0] at h
  by_cases h1 : i.dkKeyIdOk = true
  case neg => simp [h0, h1] at h
  simp [h0, h1] at h
  exact ⟨h0, h1, h⟩

/-- the model only ever answers `errObs` or `sigObs` -/
theorem run_cases (i : Input) : run i = errObs ∨ run i = sigObs := by
  have henv : envelopePath i = errObs ∨ envelopePath i = sigObs := by
    rw [envelopePath_eq]; split <;> simp
  have hraw : ∀ ks, getKeySpec i = some ks → (rawPath i ks = errObs ∨ rawPath i ks = sigObs) := by
    intro ks hks
    obtain ⟨k, rfl⟩ := decodeKeySpec_range _ _ (getKeySpec_some i ks hks).2.2
    rw [rawPath_eq]; split <;> simp
  unfold run
  by_cases hm : i.pluginErr = .metadata
  · simp [hm]
  simp only [hm, beq_iff_eq, if_false]
  cases i.api with
  | sign =>
    simp only
    split
    · cases hks : getKeySpec i with
      | none => simp
      | some ks => simpa using hraw ks hks
    · split
      · exact henv
      · simp
  | signBlob =>
    simp only
    cases hks : getKeySpec i with
    | none => simp
    | some ks =>
      simp only
      cases blobDigestAlg ks with
      | none => simp
      | some _ =>
        simp only
        split
        · simp
        · split
          · exact hraw ks hks
          · split
            · exact henv
            · simp

/-! ### property theorems -/

theorem sig_ne_err : errObs.outcome ≠ .sig := by decide

theorem verifyOk_genuine (i : Input) (h : verifyOk i = true) : sigGenuine i = true := by
  simp only [verifyOk, Bool.and_eq_true, beq_iff_eq] at h
  simp only [sigGenuine, Bool.and_eq_true]
  exact ⟨h.1, by rw [h.2]; rfl⟩

theorem raw_sig (i : Input) (ks : Spec) (hks : getKeySpec i = some ks) (hr : hasRaw i.cap = true)
    (h : (rawPath i ks).outcome = .sig) : required i = true ∧ verifyOk i = true := by
  obtain ⟨_, hid, hdec⟩ := getKeySpec_some i ks hks
  obtain ⟨k, rfl⟩ := decodeKeySpec_range _ _ hdec
  rw [rawPath_eq] at h
  split at h
  case isFalse => exact absurd h sig_ne_err
  case isTrue hc =>
    simp only [Bool.and_eq_true, beq_iff_eq] at hc
    obtain ⟨⟨⟨_, hgs⟩, hv⟩, hk⟩ := hc
    subst hk
    exact ⟨by simp [required, pathOf, hr, hid, hgs, verifyOk_genuine i hv, hdec], hv⟩

theorem envChecks_verifyOk (i : Input) (h : envChecks i = true) : verifyOk i = true := by
  simp only [envChecks, Bool.and_eq_true] at h
  exact h.1.1.1.1.1.1.2

theorem env_sig (i : Input) (hr : hasRaw i.cap = false) (he : hasEnvelope i.cap = true)
    (h : (envelopePath i).outcome = .sig) : required i = true ∧ envChecks i = true := by
  rw [envelopePath_eq] at h
  split at h
  case isFalse => exact absurd h sig_ne_err
  case isTrue hc =>
    simp only [Bool.and_eq_true] at hc
    refine ⟨?_, hc.2⟩
    have hc2 := hc.2
    simp only [envChecks, Bool.and_eq_true] at hc2
    obtain ⟨⟨⟨⟨⟨⟨⟨⟨⟨⟨a1, a2⟩, a3⟩, aw⟩, a4⟩, a5⟩, asd⟩, _⟩, a6⟩, a7⟩, a8⟩ := hc2
    simp [required, pathOf, hr, he, a1, a3, aw, a4, a5, asd, a6, a7, a8]
    simpa using a2

/-- a signature is returned only after every check the property demands (and after the code's own, stricter,
check of the signature bytes) -/
theorem run_sig_full (i : Input) (h : (run i).outcome = .sig) :
    required i = true ∧ (pathOf i = .envelope → envChecks i = true) ∧ verifyOk i = true := by
  unfold run at h
  by_cases hm : i.pluginErr = .metadata
  · simp [hm] at h; exact absurd h sig_ne_err
  simp only [hm, beq_iff_eq, if_false] at h
  cases hapi : i.api with
  | sign =>
    simp only [hapi] at h
    by_cases hr : hasRaw i.cap = true
    · simp only [hr, if_true] at h
      cases hks : getKeySpec i with
      | none => simp [hks] at h; exact absurd h sig_ne_err
      | some ks =>
        simp only [hks] at h
        exact ⟨(raw_sig i ks hks hr h).1, by simp [pathOf, hr], (raw_sig i ks hks hr h).2⟩
    · have hr' : hasRaw i.cap = false := by simpa using hr
      simp only [hr', Bool.false_eq_true, if_false] at h
      by_cases he : hasEnvelope i.cap = true
      · simp only [he, if_true] at h
        exact ⟨(env_sig i hr' he h).1, fun _ => (env_sig i hr' he h).2, envChecks_verifyOk i (env_sig i hr' he h).2⟩
      · simp [he] at h; exact absurd h sig_ne_err
  | signBlob =>
    simp only [hapi] at h
    cases hks : getKeySpec i with
    | none => simp [hks] at h; exact absurd h sig_ne_err
    | some ks =>
      simp only [hks] at h
      cases hb : blobDigestAlg ks with
      | none => simp [hb] at h; exact absurd h sig_ne_err
      | some _ =>
        simp only [hb] at h
        by_cases hgen : i.gen = .failing
        · simp [hgen] at h; exact absurd h sig_ne_err
        simp only [hgen, beq_iff_eq, if_false] at h
        by_cases hr : hasRaw i.cap = true
        · simp only [hr, if_true] at h
          exact ⟨(raw_sig i ks hks hr h).1, by simp [pathOf, hr], (raw_sig i ks hks hr h).2⟩
        · have hr' : hasRaw i.cap = false := by simpa using hr
          simp only [hr', Bool.false_eq_true, if_false] at h
          by_cases he : hasEnvelope i.cap = true
          · simp only [he, if_true] at h
            exact ⟨(env_sig i hr' he h).1, fun _ => (env_sig i hr' he h).2, envChecks_verifyOk i (env_sig i hr' he h).2⟩
          · simp [he] at h; exact absurd h sig_ne_err

/-- a signature is returned only after every check the property demands -/
theorem run_sig_required (i : Input) (h : (run i).outcome = .sig) :
    required i = true ∧ (pathOf i = .envelope → envChecks i = true) :=
  ⟨(run_sig_full i h).1, (run_sig_full i h).2.1⟩

/-- **never panics**: whatever the plugin answers - in particular for ALL payload documents -
the outcome is an error or a signature (uses the regenerated fact that the type assertion in
`areUnknownAttributesAdded` is the checked form) -/
theorem never_panics (i : Input) : (run i).outcome ≠ .panic := by
  rcases run_cases i with h | h <;> rw [h] <;> decide

/-- never a signature over something else: a returned signature is the checked envelope -/
theorem returns_only_checked (i : Input) (h : (run i).outcome = .sig) :
    (run i).payloadOk = true ∧ (run i).leafOk = true := by
  rcases run_cases i with h' | h' <;> rw [h'] at h ⊢
  · exact absurd h sig_ne_err
  · exact ⟨rfl, rfl⟩

/-- every exact-key reader (last-wins or first-wins) sees the requested descriptor -/
theorem readers_see_requested (i : Input) (h : (run i).outcome = .sig) (hp : pathOf i = .envelope) :
    sees i.req (exactView i.payload) = true ∧ sees i.req (firstView i.payload) = true := by
  have hc := (run_sig_required i h).2 hp
  simp only [envChecks, Bool.and_eq_true, Bool.not_eq_true'] at hc
  obtain ⟨⟨⟨⟨_, hdd⟩, hsee⟩, ht⟩, hk⟩ := hc
  have hd := hasDup_of_dupDeep _ hdd
  cases hg : goDecodePayload i.payload with
  | none => simp [hg, sees] at hsee
  | some d =>
    obtain ⟨h1, h2⟩ := views_agree i.payload d ht hk hd hg
    rw [h1, h2, ← hg]
    exact ⟨hsee, hsee⟩

/-- a payload that repeats a member name anywhere is never signed off (F-C18b, repaired by
95bb17e) -/
theorem duplicates_refused (i : Input) (hp : pathOf i = .envelope) (h : i.payload.dupDeep = true) :
    (run i).outcome ≠ .sig := by
  intro hs
  have hc := (run_sig_required i hs).2 hp
  simp [envChecks, h] at hc

/-- **C18, the whole property** for well-formed requests (distinct annotation keys, int64 size -
what a Go `ocispec.Descriptor` can hold, and what the generator emits; `dupKeys` is the redundant
flag the harness computes). -/
theorem model_holds (i : Input) (hwf : reqWellFormed i.req = true)
    (hdk : i.dupKeys = i.payload.dupDeep) : Holds i (runAll i) = true := by
  have ho : (runAll i).outcome = (run i).outcome := rfl
  have hpo : (runAll i).payloadOk = (run i).payloadOk := rfl
  have hlo : (runAll i).leafOk = (run i).leafOk := rfl
  have he : (runAll i).earlier = i.history.map (fun s => (run (s.apply i)).outcome) := rfl
  unfold Holds clauses
  simp only [Clauses.holds_cons, Clauses.holds_nil, Bool.and_true, Bool.and_eq_true, ho, hpo, hlo, he]
  refine ⟨by simp [hwf, hdk], ?_, ?_, ?_, ?_, ?_, by simp, ?_, ?_⟩
  · have := never_panics i
    simpa using this
  · by_cases h : (run i).outcome = .sig
    · simp [(run_sig_required i h).1]
    · simp [h]
  · by_cases h : (run i).outcome = .sig
    · by_cases hp : pathOf i = .envelope
      · have := readers_see_requested i h hp
        simp [this.1, this.2]
      · simp [hp]
    · simp [h]
  · by_cases h : (run i).outcome = .sig
    · by_cases hp : pathOf i = .envelope
      · by_cases hdd : i.payload.dupDeep = true
        · exact absurd h (duplicates_refused i hp hdd)
        · simp [hdd]
      · simp [hp]
    · simp [h]
  · by_cases h : (run i).outcome = .sig
    · have := returns_only_checked i h
      simp [this.1, this.2]
    · simp [h]
  · rw [List.all_eq_true]
    intro x hx
    obtain ⟨s, _, rfl⟩ := List.mem_map.1 hx
    have := never_panics (s.apply i)
    simpa using this
  · rw [List.all_eq_true]
    intro p hp
    have hmem : ∀ (l : List Step) (p : Outcome × Step),
        p ∈ (l.map (fun s => (run (s.apply i)).outcome)).zip l → p.1 = (run (p.2.apply i)).outcome := by
      intro l
      induction l with
      | nil => intro p hp; simp at hp
      | cons a l ih =>
        intro p hp
        simp only [List.map_cons, List.zip_cons_cons, List.mem_cons] at hp
        rcases hp with rfl | hp
        · rfl
        · exact ih p hp
    have h1 := hmem _ p hp
    by_cases h : p.1 = .sig
    · rw [h1] at h
      simp [(run_sig_required (p.2.apply i) h).1]
    · simp [h]

/-- **each call on its own**: whatever was asked and answered before on the same signer value, a call is
answered as if it were the first one -/
theorem history_ignored (i : Input) (h : List Step) : run { i with history := h } = run i := rfl

/-- the framing of the returned bytes: an envelope that the registered parser of the requested format does
not read as it stands (an untagged or doubly tagged COSE_Sign1, bytes after the message, indefinite-length
encoding, blanks around CBOR) is never handed back -/
theorem unparsable_framing_refused (i : Input) (hp : pathOf i = .envelope) (h : wrapParses i = false) :
    (run i).outcome ≠ .sig := by
  intro hs
  have hc := (run_sig_required i hs).2 hp
  simp [envChecks, h] at hc

/-! ### readable corollaries -/

theorem descValid_iff (req : Desc) (d : GoDesc) :
    descValid req d = true ↔
      d.mediaType = req.mediaType ∧ d.digest = req.digest ∧ d.size = req.size ∧
      ∀ kv ∈ req.annotations, d.annotations.lookup kv.1 = some kv.2 := by
  simp [descValid, and_assoc]
  constructor
  · rintro ⟨a, b, c, e⟩; exact ⟨c, b, a, e⟩
  · rintro ⟨a, b, c, e⟩; exact ⟨c, b, a, e⟩

/-- **envelope path, soundness**: a signature comes back only if the plugin echoed the requested
format and produced an envelope of that format, the envelope verifies under its own chain, it
carries the Notary payload type, the struct-decoded target is the requested descriptor with
every original annotation, the only top-level key is the exactly spelled `targetArtifact` and
the target object has only known descriptor keys. -/
theorem envelope_path_sound (i : Input) (h : (envelopePath i).outcome = .sig) :
    i.echoOk = true ∧ i.garbage = false ∧ i.envFmt = i.format ∧ wrapParses i = true ∧ verifyOk i = true ∧
    i.ctypeOk = true ∧
    singleDocument i = true ∧ i.payload.dupDeep = false ∧
    (∃ d, goDecodePayload i.payload = some d ∧ d.mediaType = i.req.mediaType ∧ d.digest = i.req.digest ∧
        d.size = i.req.size ∧ ∀ kv ∈ i.req.annotations, d.annotations.lookup kv.1 = some kv.2) ∧
    topKeysExact i.payload = true ∧ descKeysKnown i.payload = true := by
  rw [envelopePath_eq] at h
  split at h
  case isFalse => exact absurd h sig_ne_err
  case isTrue hc =>
    simp only [envChecks, Bool.and_eq_true, Bool.not_eq_true', beq_iff_eq] at hc
    obtain ⟨_, ⟨⟨⟨⟨⟨⟨⟨⟨⟨h1, h2⟩, h3⟩, hw⟩, h4⟩, h5⟩, hsd⟩, hdd⟩, h6⟩, h7⟩, h8⟩ := hc
    refine ⟨h1, h2, h3, hw, h4, h5, hsd, hdd, ?_, h7, h8⟩
    cases hg : goDecodePayload i.payload with
    | none => simp [hg, sees] at h6
    | some d =>
      simp only [hg, sees] at h6
      exact ⟨d, rfl, (descValid_iff _ _).1 h6⟩

/-- … hence the exact-key readers (last-wins and first-wins) and the case-insensitive, merging
Go decoder all read the same, requested, descriptor -/
theorem envelope_path_sound_readers (i : Input) (h : (envelopePath i).outcome = .sig) :
    ∃ d, goDecodePayload i.payload = some d ∧ exactView i.payload = some d ∧
      firstView i.payload = some d ∧ descValid i.req d = true := by
  obtain ⟨_, _, _, _, _, _, _, hdd, ⟨d, hg, hv⟩, ht, hk⟩ := envelope_path_sound i h
  obtain ⟨h1, h2⟩ := views_agree i.payload d ht hk (hasDup_of_dupDeep _ hdd) hg
  exact ⟨d, hg, h1, h2, (descValid_iff _ _).2 hv⟩

/-- **envelope path, completeness**: the converse - these checks are all there is -/
theorem envelope_path_complete (i : Input) (hp : i.pluginErr ≠ .generate)
    (h1 : i.echoOk = true) (h2 : i.garbage = false) (h3 : i.envFmt = i.format) (hw : wrapParses i = true)
    (h4 : verifyOk i = true) (h5 : i.ctypeOk = true) (hsd : singleDocument i = true)
    (hdd : i.payload.dupDeep = false)
    (h6 : ∃ d, goDecodePayload i.payload = some d ∧ descValid i.req d = true)
    (h7 : topKeysExact i.payload = true) (h8 : descKeysKnown i.payload = true) :
    envelopePath i = sigObs := by
  obtain ⟨d, hg, hv⟩ := h6
  rw [envelopePath_eq]
  simp [envChecks, hp, h1, h2, h3, hw, h4, h5, hsd, hdd, hg, sees, hv, h7, h8]

/-- **raw path, soundness**: through a raw-signature plugin a signature comes back only if
DescribeKey and GenerateSignature answered for the requested key id, the described key spec is
the spec of the key that signed, and the signature was made with the key the chain's leaf
certifies (the plugin's key under its chains, or consistently another key of the same spec), and
the plugin wrote the signature in the one wire form the envelope formats take. -/
theorem raw_path_sound (i : Input) (hr : hasRaw i.cap = true) (h : (run i).outcome = .sig) :
    i.dkKeyIdOk = true ∧ i.gsKeyIdOk = true ∧ decodeKeySpec i.dkKeySpec = some i.key.spec ∧
    ((i.sigMode = .good ∧ (i.chain = .ok ∨ i.chain = .selfSigned)) ∨
     (i.sigMode = .otherKey ∧ i.chain = .otherKey)) ∧ i.sigEnc = .fixed := by
  have := (run_sig_full i h).1
  have hv := (run_sig_full i h).2.2
  simp only [required, pathOf, hr, if_true, Bool.and_eq_true, beq_iff_eq] at this
  simp only [verifyOk, Bool.and_eq_true, beq_iff_eq, Bool.or_eq_true] at hv
  obtain ⟨⟨⟨a, b⟩, c⟩, _⟩ := this
  exact ⟨a, b, c, hv.1, hv.2⟩

/-! ### the wire form of the signature bytes -/

/-- a returned signature was checked to verify: in particular its bytes are in the fixed form -/
theorem run_sig_verifyOk (i : Input) (h : (run i).outcome = .sig) : verifyOk i = true := (run_sig_full i h).2.2

/-- the code's check is at least what the property asks of the signature bytes -/
theorem code_check_stricter_than_property (i : Input) (h : verifyOk i = true) : sigGenuine i = true :=
  verifyOk_genuine i h

/-- **signature bytes in another wire form are refused**: whatever the plugin answers otherwise - a DER
`SEQUENCE { r, s }` of an honest ECDSA signature, a forged SEQUENCE with integers wider than the field, padded,
truncated, extended, doubled, text-encoded octets - on either path, for every key spec, no signature comes back
(and, with `never_panics`, an error does: nothing is converted, so nothing can overflow) -/
theorem other_signature_encoding_refused (i : Input) (h : i.sigEnc ≠ .fixed) : (run i).outcome = .err := by
  have hne : (run i).outcome ≠ .sig := by
    intro hs
    have hv := run_sig_verifyOk i hs
    simp only [verifyOk, Bool.and_eq_true, beq_iff_eq] at hv
    exact h hv.2
  rcases run_cases i with hr | hr
  · rw [hr]; rfl
  · rw [hr] at hne; exact absurd rfl hne

/-- … and so is every EARLIER call on the same signer value answered by that plugin -/
theorem other_signature_encoding_refused_in_every_call (i : Input) (h : i.sigEnc ≠ .fixed) :
    (runAll i).outcome = .err ∧ ∀ o ∈ (runAll i).earlier, o = .err := by
  refine ⟨other_signature_encoding_refused i h, ?_⟩
  intro o ho
  have he : (runAll i).earlier = i.history.map (fun s => (run (s.apply i)).outcome) := rfl
  rw [he] at ho
  obtain ⟨s, _, rfl⟩ := List.mem_map.1 ho
  exact other_signature_encoding_refused (s.apply i) h

/-- WHICH other wire form it is does not matter to the model: all of them are answered alike (the signer
looks at the signature bytes nowhere; only the verifier does, and it refuses them all) -/
theorem signature_encoding_variant_irrelevant (i : Input) (e e' : SigEnc) (he : e ≠ .fixed) (he' : e' ≠ .fixed) :
    runAll { i with sigEnc := e } = runAll { i with sigEnc := e' } := by
  have h1 : (e == SigEnc.fixed) = false := by cases e <;> first | rfl | exact absurd rfl he
  have h2 : (e' == SigEnc.fixed) = false := by cases e' <;> first | rfl | exact absurd rfl he'
  have hrun : ∀ j : Input, run { j with sigEnc := e } = run { j with sigEnc := e' } := by
    intro j
    simp only [run, envelopePath, rawPath, verifyOk, getKeySpec, leafSpec, wrapParses, singleDocument,
      Input.echoOk, h1, h2, Bool.and_false]
  have hall : ∀ x : SigEnc, runAll { i with sigEnc := x } =
      { run { i with sigEnc := x } with
        earlier := i.history.map (fun s => (run { s.apply i with sigEnc := x }).outcome) } := fun _ => rfl
  have hearlier : (i.history.map fun s => (run { s.apply i with sigEnc := e }).outcome) =
      i.history.map fun s => (run { s.apply i with sigEnc := e' }).outcome :=
    List.map_congr_left (fun s _ => by rw [hrun (s.apply i)])
  rw [hall, hall, hrun i, hearlier]

/-- the key spec does not matter either: an RSA answer in another form is refused like an EC one -/
theorem fixed_form_needed_for_every_key (i : Input) (k : KS) (h : i.sigEnc ≠ .fixed) :
    (run { i with key := k }).outcome = .err :=
  other_signature_encoding_refused { i with key := k } h


/-- **one document**: an envelope whose payload bytes go on after the first JSON value (a second
payload object, a stray `]`, a BOM or any other non-blank byte before or after it) is never signed
off - whatever the first value says -/
theorem trailing_data_refused (i : Input) (hp : pathOf i = .envelope)
    (h : jsonWs i.lead = false ∨ jsonWs i.trail = false) : (run i).outcome ≠ .sig := by
  intro hs
  have hc := (run_sig_required i hs).2 hp
  simp only [envChecks, Bool.and_eq_true, singleDocument] at hc
  obtain ⟨⟨⟨⟨⟨_, ⟨h1, h2⟩⟩, _⟩, _⟩, _⟩, _⟩ := hc
  rcases h with h | h
  · rw [h1] at h; cases h
  · rw [h2] at h; cases h

/-- blanks between the tokens of the document do not matter -/
theorem spacing_ignored (i : Input) (b : Bool) : run { i with spaced := b } = run i := rfl

/-- an answer labelled with another envelope type than the requested one - even a truthful label of a
well-formed envelope in the OTHER registered format - is never handed back -/
theorem other_format_refused (i : Input) (hp : pathOf i = .envelope)
    (h : i.echo ≠ .requested ∨ i.envFmt ≠ i.format) : (run i).outcome ≠ .sig := by
  intro hs
  have hc := (run_sig_required i hs).2 hp
  simp only [envChecks, Bool.and_eq_true, Input.echoOk, beq_iff_eq] at hc
  obtain ⟨⟨⟨⟨⟨⟨⟨⟨⟨⟨h1, _⟩, h3⟩, _⟩, _⟩, _⟩, _⟩, _⟩, _⟩, _⟩, _⟩ := hc
  rcases h with h | h
  · exact h h1
  · exact h h3

/-- SignBlob with a generator that fails returns an error; which generator it is otherwise (called
once) makes no difference to the answer -/
theorem failing_generator_refused (i : Input) (ha : i.api = .signBlob) (hg : i.gen = .failing) :
    run i = errObs := by
  unfold run
  by_cases hm : i.pluginErr = .metadata
  · simp [hm]
  simp only [hm, beq_iff_eq, if_false, ha]
  cases getKeySpec i with
  | none => rfl
  | some ks =>
    simp only
    cases blobDigestAlg ks with
    | none => rfl
    | some _ => simp [hg]

theorem honest_blob_ignored (i : Input) (b : Bool) (s : String) : run { i with honest := b, blob := s } = run i := rfl

/-- `response.SigningAlgorithm` of GenerateSignature is never read: the algorithm is fixed by
the described key spec and checked against the leaf certificate instead -/
theorem response_algorithm_ignored (i : Input) (a : String) : run { i with gsAlg := a } = run i := rfl

/-- the former witness of F-C18b: the descriptor split over two `targetArtifact` members (the Go
decoder merges them into the requested descriptor, a last-wins reader sees no digest) -/
def findingWitness : Input :=
  { api := .sign, cap := .envelope, format := .jws, key := .ec256,
    req := { mediaType := "m", digest := "sha256:00", size := 7, annotations := [] },
    pluginErr := .noErr, dkKeyIdOk := true, dkKeySpec := "EC-256", echo := .requested, envFmt := .jws,
    garbage := false, ctypeOk := true,
    payload := .obj [("targetArtifact", .obj [("mediaType", .str "m"), ("digest", .str "sha256:00")]),
                     ("targetArtifact", .obj [("size", .num 7)])],
    lead := "", trail := "", spaced := false,
    gsKeyIdOk := true, gsAlg := "ECDSA-SHA-256", sigMode := .good, chain := .ok, gen := .fixed, blob := "",
    honest := false, wrap := .asIs, history := [], dupKeys := true,
    emptyAnnMap := false }

theorem former_finding_refused :
    run findingWitness = errObs ∧
    sees findingWitness.req (goDecodePayload findingWitness.payload) = true ∧
    sees findingWitness.req (exactView findingWitness.payload) = false ∧
    Holds findingWitness sigObs = false := by decide

/-! ### non-vacuity -/

def benign : Input :=
  { findingWitness with
    payload := .obj [("targetArtifact", .obj [("mediaType", .str "m"), ("digest", .str "sha256:00"),
                                               ("size", .num 7)])],
    dupKeys := false }

example : run benign = sigObs := by decide
example : Holds benign (run benign) = true := by decide
example : Holds benign panicObs = false := by decide
/-- alternative spelling of the top-level key: refused -/
example : run { benign with payload := .obj [("TargetArtifact", .obj [("mediaType", .str "m"),
    ("digest", .str "sha256:00"), ("size", .num 7)])] } = errObs := by decide
/-- an evil digest under a case variant placed after the exact key: the Go decoder merges it -/
example : run { benign with payload := .obj [("targetArtifact", .obj [("mediaType", .str "m"),
    ("digest", .str "sha256:00"), ("size", .num 7), ("Digest", .str "sha256:ff")])] } = errObs := by decide
/-- a signature for a wrong digest would violate the property -/
example : Holds { benign with payload := .obj [("targetArtifact", .obj [("mediaType", .str "m"),
    ("digest", .str "sha256:ff"), ("size", .num 7)])] } sigObs = false := by decide
/-- raw path: a key spec that is not the signing key's is refused -/
example : run { benign with cap := .raw, dkKeySpec := "EC-384" } = errObs := by decide
example : run { benign with cap := .raw } = sigObs := by decide
/-- surrounding blanks are fine, a second document or a stray bracket is not -/
example : run { benign with lead := " \n", trail := "\r\n\t " } = sigObs := by decide
example : run { benign with trail := "{\"targetArtifact\":{\"digest\":\"sha256:ff\"}}" } = errObs := by decide
example : run { benign with trail := "]" } = errObs := by decide
example : run { benign with lead := "\uFEFF" } = errObs := by decide
example : Holds { benign with trail := "]" } sigObs = false := by decide
-- the wire form of the signature bytes
example : run { benign with cap := .raw, key := .ec521, dkKeySpec := "EC-521" } = sigObs := by decide
example : run { benign with cap := .raw, key := .ec521, dkKeySpec := "EC-521", sigEnc := .der } = errObs := by decide
example : run { benign with sigEnc := .derWideR } = errObs := by decide
example : Holds { benign with cap := .raw, key := .ec521, dkKeySpec := "EC-521", sigEnc := .der } panicObs = false := by decide
example : Holds { benign with cap := .raw, sigEnc := .derHuge } sigObs = false := by decide
example : Holds { benign with cap := .raw, sigEnc := .b64 } errObs = true := by decide
-- a signer that converted a lossless re-encoding and handed out a verifying envelope differs from the model
-- (correspondence) but does not break the property; one that answers a forged SEQUENCE with a signature does
example : Holds { benign with cap := .raw, sigEnc := .der } sigObs = true := by decide
example : Holds { benign with cap := .raw, sigEnc := .derWideS } sigObs = false := by decide
example : Holds { benign with cap := .raw, sigEnc := .der } ⟨.sig, false, true, []⟩ = false := by decide
example : Holds { benign with sigEnc := .der } sigObs = false := by decide   -- envelope path: returned as it is, must verify as it is

/-! ### the duplicate-name scanner (`findDuplicateKey`) as a token state machine -/

/-- the delimiter cases of the source do what the transcription assumes -/
theorem scanner_table_fact : tableOf Facts.c18DupScannerDelims = canonTable := by decide

/-- a member value is expected (or we are outside every object) -/
def valPos : List Frame → Prop
  | [] => True
  | f :: _ => f.keys = none ∨ f.expectKey = false

/-- the stack once a complete value has gone by -/
def afterValue (st : List Frame) : List Frame := applyAct st .rearm

def clash (ks : List String) : List (String × JVal) → Bool
  | [] => false
  | kv :: r => ks.contains kv.1 || clash (kv.1 :: ks) r

def pushKeys (ks : List String) : List (String × JVal) → List String
  | [] => ks
  | kv :: r => pushKeys (kv.1 :: ks) r

theorem any_or {α : Type} (l : List α) (p q : α → Bool) : l.any (fun x => p x || q x) = (l.any p || l.any q) := by
  induction l with
  | nil => rfl
  | cons a l ih => simp only [List.any_cons, ih]; cases p a <;> cases q a <;> cases l.any p <;> cases l.any q <;> rfl

theorem clash_eq (kvs : List (String × JVal)) : ∀ ks,
    clash ks kvs = ((kvs.map (·.1)).any ks.contains || !nodupB (kvs.map (·.1))) := by
  induction kvs with
  | nil => intro ks; rfl
  | cons kv r ih =>
    intro ks
    simp only [clash, ih, List.map_cons, List.any_cons, nodupB, List.contains_cons, any_or, Bool.not_and, Bool.not_not]
    have : (List.map (fun x => x.fst) r).any (fun x => x == kv.fst) = (List.map (fun x => x.fst) r).contains kv.fst := by
      induction (List.map (fun x => x.fst) r) with
      | nil => rfl
      | cons a l ih2 =>
        simp only [List.any_cons, List.contains_cons, ih2]
        congr 1
        exact Bool.eq_iff_iff.2 (by simp only [beq_iff_eq]; exact ⟨Eq.symm, Eq.symm⟩)
    have hfun : (kv.fst :: ks).contains = fun x => (x == kv.fst || ks.contains x) :=
      funext (fun x => List.contains_cons)
    rw [hfun, any_or, this]
    cases ks.contains kv.fst <;> cases (List.map (fun x => x.fst) r).contains kv.fst <;>
      cases (List.map (fun x => x.fst) r).any ks.contains <;> cases nodupB (List.map (fun x => x.fst) r) <;> rfl

theorem any_nil_contains (l : List String) : l.any ([] : List String).contains = false := by
  induction l with
  | nil => rfl
  | cons a l ih => simp [ih]

theorem clash_nil (kvs : List (String × JVal)) : clash [] kvs = !nodupB (kvs.map (·.1)) := by
  rw [clash_eq, any_nil_contains, Bool.false_or]

theorem scalar_step (st : List Frame) (t : Tok) (ht : t = .other ∨ ∃ s, t = .str s) (hv : valPos st) :
    tokStep canonTable st t = some (afterValue st) := by
  cases st with
  | nil => rcases ht with rfl | ⟨s, rfl⟩ <;> rfl
  | cons f r =>
    cases hk : f.keys with
    | none =>
      rcases ht with rfl | ⟨s, rfl⟩ <;> simp [tokStep, hk, afterValue, applyAct]
    | some ks =>
      have he : f.expectKey = false := by
        rcases hv with h | h
        · rw [hk] at h; cases h
        · exact h
      obtain ⟨k, e⟩ := f
      simp only at hk he
      subst hk; subst he
      rcases ht with rfl | ⟨s, rfl⟩ <;> simp [tokStep, afterValue, applyAct]

mutual
theorem scan_value : ∀ (v : JVal) (st : List Frame) (rest : List Tok), valPos st →
    scan canonTable st (v.tokens ++ rest) = (v.dupDeep || scan canonTable (afterValue st) rest)
  | .null, st, rest, hv => by
    simp only [JVal.tokens, List.cons_append, List.nil_append, scan, scalar_step st .other (Or.inl rfl) hv, JVal.dupDeep, Bool.false_or]
  | .bool _, st, rest, hv => by
    simp only [JVal.tokens, List.cons_append, List.nil_append, scan, scalar_step st .other (Or.inl rfl) hv, JVal.dupDeep, Bool.false_or]
  | .num _, st, rest, hv => by
    simp only [JVal.tokens, List.cons_append, List.nil_append, scan, scalar_step st .other (Or.inl rfl) hv, JVal.dupDeep, Bool.false_or]
  | .str s, st, rest, hv => by
    simp only [JVal.tokens, List.cons_append, List.nil_append, scan, scalar_step st (.str s) (Or.inr ⟨s, rfl⟩) hv, JVal.dupDeep, Bool.false_or]
  | .arr xs, st, rest, hv => by
    have h := scan_list xs st (.rbrack :: rest)
    simp only [JVal.tokens, List.cons_append, List.append_assoc, List.nil_append, scan, tokStep, canonTable, List.foldl, applyAct,
      JVal.dupDeep] at h ⊢
    rw [h]
    simp [scan, tokStep, canonTable, applyAct, afterValue]
  | .obj kvs, st, rest, hv => by
    have h := scan_members kvs [] st (.rbrace :: rest)
    simp only [JVal.tokens, List.cons_append, List.append_assoc, List.nil_append, scan, tokStep, canonTable, List.foldl, applyAct,
      JVal.dupDeep] at h ⊢
    rw [h, clash_nil]
    simp [scan, tokStep, canonTable, applyAct, afterValue]
theorem scan_list : ∀ (xs : List JVal) (st : List Frame) (rest : List Tok),
    scan canonTable (⟨none, false⟩ :: st) (tokensList xs ++ rest) =
      (dupInList xs || scan canonTable (⟨none, false⟩ :: st) rest)
  | [], st, rest => by simp [tokensList, dupInList]
  | x :: r, st, rest => by
    have h1 := scan_value x (⟨none, false⟩ :: st) (tokensList r ++ rest) (Or.inl rfl)
    have h2 := scan_list r st rest
    simp only [tokensList, List.append_assoc, dupInList]
    rw [h1]
    simp only [afterValue, applyAct, Option.isSome_none, Bool.false_eq_true, if_false]
    rw [h2, Bool.or_assoc]
theorem scan_members : ∀ (kvs : List (String × JVal)) (ks : List String) (st : List Frame) (rest : List Tok),
    scan canonTable (⟨some ks, true⟩ :: st) (tokensMembers kvs ++ rest) =
      (clash ks kvs || dupInMembers kvs || scan canonTable (⟨some (pushKeys ks kvs), true⟩ :: st) rest)
  | [], ks, st, rest => by simp [tokensMembers, clash, dupInMembers, pushKeys]
  | kv :: r, ks, st, rest => by
    have h1 := scan_value kv.2 (⟨some (kv.1 :: ks), false⟩ :: st) (tokensMembers r ++ rest) (Or.inr rfl)
    have h2 := scan_members r (kv.1 :: ks) st rest
    simp only [tokensMembers, List.cons_append, List.append_assoc, clash, dupInMembers, pushKeys, scan, tokStep]
    cases hc : ks.contains kv.1 with
    | true => simp
    | false =>
      simp only [Bool.false_eq_true, if_false, Bool.false_or, if_true]
      rw [h1]
      simp only [afterValue, applyAct, Option.isSome_some, if_true]
      rw [h2]
      cases kv.2.dupDeep <;> cases clash (kv.1 :: ks) r <;> cases dupInMembers r <;> simp
end

/-- **the scanner is right**: `findDuplicateKey`'s state machine (with the delimiter table regenerated
from the source) reports a duplicate exactly for the documents in which some object, at any depth,
repeats a member name - for ALL documents, whatever arrays, objects or strings precede or follow -/
theorem scanner_computes_dupDeep (p : JVal) : scanDup p = p.dupDeep := by
  unfold scanDup
  rw [scanner_table_fact]
  have := scan_value p [] [] trivial
  simpa [scan, afterValue, applyAct] using this

/-- seed C18-10 in the model: a `]` that does not re-arm the enclosing object puts the scanner out of
step, and a name repeated after an array-valued member slips through -/
def brokenTable : DelimTable := { canonTable with rbrack := [.pop] }
example : scan brokenTable []
    (JVal.obj [("urls", .arr []), ("digest", .str "sha256:bad"), ("digest", .str "sha256:00")]).tokens = false := by decide
example : scanDup
    (JVal.obj [("urls", .arr []), ("digest", .str "sha256:bad"), ("digest", .str "sha256:00")]) = true := by decide
example : scanDup (JVal.obj [("a", .arr [.str "b", .str "b"]), ("b", .str "a"), ("c", .obj [("a", .null)])]) = false := by
  decide

/-! ### tie to the translated source (docs/TIE_BRIEF.md)

`Generated/SrcC18*.lean` are produced from signer/plugin.go, internal/envelope/envelope.go and
plugin/proto/algorithm.go on every run. The theorems below say that the translated functions compute,
for ALL inputs, what the hand-written model computes. Library calls are oracles (`Src/TypesC18.lean`). -/

namespace Tie
open NotationModel.Src

/-- the framework's wire constants, as hand-written in `Src/TypesC18.lean`, are the regenerated ones -/
theorem wire_constants_fact : plugin.wireConstants = Facts.c18WireConstants := by decide

/-- a Go descriptor as the model's request / decoded descriptor -/
def reqOf (o : ocispec.Descriptor) : Desc :=
  { mediaType := o.MediaType, digest := o.Digest, size := o.Size, annotations := o.Annotations }
def goOf (n : ocispec.Descriptor) : GoDesc :=
  { mediaType := n.MediaType, digest := n.Digest, size := n.Size, annotations := n.Annotations }

theorem lookup_spec (m : List (String × String)) (k : String) :
    GoLite.Map.lookup m k = (match List.lookup k m with | some v => (v, true) | none => (default, false)) := by
  induction m with
  | nil => simp [GoLite.Map.lookup, GoLite.Map.get?]
  | cons a m ih =>
    obtain ⟨k', v'⟩ := a
    by_cases h : k' = k
    · subst h
      simp [GoLite.Map.lookup, GoLite.Map.get?, List.lookup]
    · have h' : (k == k') = false := by simp; exact fun e => h e.symm
      have h'' : (k' == k) = false := by simp [h]
      simp only [GoLite.Map.lookup, GoLite.Map.get?, List.find?, h'', List.lookup, h'] at ih ⊢
      exact ih

def mstep (ann : List (String × String)) (_ : Unit) (kv : String × String) : Except Unit Unit :=
  if List.lookup kv.1 ann == some kv.2 then .ok () else .error ()

theorem foldE_all (ann : List (String × String)) (req : List (String × String)) :
    (match GoLite.foldE (mstep ann) req () with | .ok _ => true | .error _ => false) =
      req.all (fun kv => List.lookup kv.1 ann == some kv.2) := by
  induction req with
  | nil => simp [GoLite.foldE]
  | cons a l ih =>
    simp only [GoLite.foldE, mstep, List.all_cons]
    by_cases h : (List.lookup a.1 ann == some a.2) = true
    · simp only [h, if_true, Bool.true_and]; exact ih
    · simp [h]

theorem contentEqual_eq (o n : ocispec.Descriptor) :
    content.Equal o n = (n.Size == o.Size && n.Digest == o.Digest && n.MediaType == o.MediaType) := by
  rw [Bool.eq_iff_iff]
  simp only [content.Equal, Bool.and_eq_true, beq_iff_eq]
  constructor <;> (rintro ⟨⟨a, b⟩, c⟩; exact ⟨⟨a.symm, b.symm⟩, c.symm⟩)

/-- TIE: `isDescriptorSubset`, translated from signer/plugin.go, is the model's `descValid`: the three
fields of `content.Equal`, then every original annotation present with its value - for every pair
of descriptors and every iteration order of the annotation map. -/
theorem source_isDescriptorSubset_refines_model (o n : ocispec.Descriptor) :
    signer.isDescriptorSubset o n = descValid (reqOf o) (goOf n) := by
  unfold signer.isDescriptorSubset
  simp only [Id.run]
  by_cases hc : content.Equal o n = true
  case neg =>
    have hc' := hc
    rw [contentEqual_eq] at hc'
    simp only [hc, Bool.not_false, if_true]
    simp only [descValid, reqOf, goOf]
    cases h : (n.Size == o.Size && n.Digest == o.Digest && n.MediaType == o.MediaType) with
    | true => exact absurd h hc'
    | false => simp [pure, h]
  have hc' := hc
  rw [contentEqual_eq] at hc'
  simp only [hc, Bool.not_true, Bool.false_eq_true, if_false]
  rw [GoLite.forIn_eq_foldE' _ (mstep n.Annotations)
        (fun _ => (none, ())) (fun _ _ => (some false, ())) ?h _ _ () rfl]
  case h =>
    intro a t
    simp only [lookup_spec, mstep]
    cases hl : List.lookup a.1 n.Annotations with
    | none => simp
    | some x =>
      by_cases hx : x = a.2
      · subst hx; simp
      · have hx' : ¬ a.2 = x := fun e => hx e.symm
        simp [hx, hx']
  have hall := foldE_all n.Annotations o.Annotations
  simp only [descValid, reqOf, goOf, hc', Bool.true_and]
  rw [← hall]
  cases GoLite.foldE (mstep n.Annotations) o.Annotations () with
  | ok t => simp only [pure_bind]; rfl
  | error e => obtain ⟨t, e⟩ := e; simp only [pure_bind]; rfl

/-- TIE: `isPayloadDescriptorValid` is `descValid` too (`content.Equal` once more, then the subset test) -/
theorem source_isPayloadDescriptorValid_refines_model (o n : ocispec.Descriptor) :
    signer.isPayloadDescriptorValid o n = descValid (reqOf o) (goOf n) := by
  unfold signer.isPayloadDescriptorValid
  simp only [Id.run, pure, source_isDescriptorSubset_refines_model]
  rw [contentEqual_eq]
  simp only [descValid, reqOf, goOf]
  cases (n.Size == o.Size && n.Digest == o.Digest && n.MediaType == o.MediaType) <;> simp

example : signer.isPayloadDescriptorValid
    { MediaType := "m", Digest := "d", Size := 1, Annotations := [("a", "")] }
    { MediaType := "m", Digest := "d", Size := 1, Annotations := [] } = false := by decide
example : signer.isPayloadDescriptorValid
    { MediaType := "", Digest := "d", Size := 1, Annotations := [("a", "")] }
    { MediaType := "x", Digest := "d", Size := 1, Annotations := [("a", "")] } = false := by decide
example : signer.isPayloadDescriptorValid
    { MediaType := "m", Digest := "d", Size := 1, Annotations := [("a", "")] }
    { MediaType := "m", Digest := "d", Size := 1, Annotations := [("z", "1"), ("a", "")] } = true := by decide

/-- TIE: `ValidatePayloadContentType` (internal/envelope/envelope.go) accepts exactly the one literal
media type - no case folding, no parameters, no trimming -/
theorem source_ValidatePayloadContentType_refines_model (p : signature.Payload) :
    (envelope.ValidatePayloadContentType p).isNone = (p.ContentType == Facts.c18MediaTypePayloadV1) := by
  unfold envelope.ValidatePayloadContentType
  simp only [Id.run]
  have : envelope.MediaTypePayloadV1 = Facts.c18MediaTypePayloadV1 := by decide
  rw [this]
  by_cases h : (p.ContentType == Facts.c18MediaTypePayloadV1) = true
  · simp [h, pure]
  · simp [h, pure]

example : (envelope.ValidatePayloadContentType ⟨"application/vnd.cncf.notary.payload.v1+json;version=2", ""⟩).isSome = true := by
  decide

/-- the model's (type, size) of a Go key spec -/
def specOf (ks : signature.KeySpec) : Spec :=
  (match ks.«Type» with | .KeyTypeRSA => "RSA" | .KeyTypeEC => "EC" | .none => "", ks.Size.toNat)

/-- `proto.DecodeKeySpec k` and the regenerated table agree on `k`: same key spec, or both refuse -/
def decodeAgrees (k : String) : Bool :=
  match decodeKeySpec k with
  | some s => (proto.DecodeKeySpec k).2.isNone && specOf (proto.DecodeKeySpec k).1 == s
  | none => (proto.DecodeKeySpec k).2.isSome

/-- TIE: `proto.DecodeKeySpec` (plugin/proto/algorithm.go) decodes exactly the names of the regenerated
table, to the table's key spec; every other string - in particular a name wrapped in blanks - is an error -/
theorem source_DecodeKeySpec_refines_model (k : String) : decodeAgrees k = true := by
  by_cases h1 : k = "RSA-2048"
  · subst h1; decide
  by_cases h2 : k = "RSA-3072"
  · subst h2; decide
  by_cases h3 : k = "RSA-4096"
  · subst h3; decide
  by_cases h4 : k = "EC-256"
  · subst h4; decide
  by_cases h5 : k = "EC-384"
  · subst h5; decide
  by_cases h6 : k = "EC-521"
  · subst h6; decide
  have e1 : (k == "RSA-2048") = false := by simpa using h1
  have e2 : (k == "RSA-3072") = false := by simpa using h2
  have e3 : (k == "RSA-4096") = false := by simpa using h3
  have e4 : (k == "EC-256") = false := by simpa using h4
  have e5 : (k == "EC-384") = false := by simpa using h5
  have e6 : (k == "EC-521") = false := by simpa using h6
  have hd : decodeKeySpec k = none := by
    simp [decodeKeySpec, Facts.c18DecodeKeySpec, List.lookup, e1, e2, e3, e4, e5, e6]
  unfold decodeAgrees
  rw [hd]
  simp [proto.DecodeKeySpec, Id.run, plugin.KeySpecRSA2048, plugin.KeySpecRSA3072, plugin.KeySpecRSA4096,
    plugin.KeySpecEC256, plugin.KeySpecEC384, plugin.KeySpecEC521, h1, h2, h3, h4, h5, h6, pure]

example : (proto.DecodeKeySpec "EC-256\n").2.isSome = true := by decide

/-- TIE: `EncodeKeySpec` and `HashAlgorithmFromKeySpec` on the six key specs are the regenerated tables -/
theorem source_EncodeKeySpec_refines_model (k : KS) :
    ∃ ks, specOf ks = k.spec ∧ some (proto.EncodeKeySpec ks).1 = encodeKeySpec k.spec ∧
      (proto.EncodeKeySpec ks).2 = none ∧
      some (proto.HashAlgorithmFromKeySpec ks).1 = hashFromKeySpec k.spec ∧
      (proto.HashAlgorithmFromKeySpec ks).2 = none := by
  cases k
  · exact ⟨⟨.KeyTypeRSA, 2048⟩, by decide⟩
  · exact ⟨⟨.KeyTypeRSA, 3072⟩, by decide⟩
  · exact ⟨⟨.KeyTypeRSA, 4096⟩, by decide⟩
  · exact ⟨⟨.KeyTypeEC, 256⟩, by decide⟩
  · exact ⟨⟨.KeyTypeEC, 384⟩, by decide⟩
  · exact ⟨⟨.KeyTypeEC, 521⟩, by decide⟩

/-! #### the unknown-field scan -/

/-- a `for .. range` loop whose body always runs to its end is a left fold
(generic; offered for GoLite.lean as /tmp/golite-C18.diff) -/
theorem forIn_yield_fold {α σ : Type} (body : α → σ → Id (ForInStep σ)) (f : σ → α → σ)
    (h : ∀ a s, body a s = pure (ForInStep.yield (f s a))) (l : List α) (s : σ) :
    forIn l s body = pure (l.foldl f s) := by
  induction l generalizing s with
  | nil => simp
  | cons a l ih => rw [List.forIn_cons, h]; simp [ih]

theorem foldl_keys {ν : Type} (l : List (String × ν)) (acc : List String) :
    l.foldl (fun s a => s ++ [a.1]) acc = acc ++ l.map (·.1) := by
  induction l generalizing acc with
  | nil => simp
  | cons a l ih => simp [ih]

/-- TIE: `getKeySet` lists the keys of the map (in the iteration order) -/
theorem source_getKeySet_refines_model (m : GoLite.Map String signer.JAny) :
    signer.getKeySet m = m.map (·.1) := by
  unfold signer.getKeySet
  simp only [Id.run]
  rw [forIn_yield_fold _ (fun s a => s ++ [a.1]) ?h]
  case h => intro a s; obtain ⟨k, v⟩ := a; rfl
  simp only [pure_bind, foldl_keys, List.nil_append]
  rfl

/-- what the translated scan returns, read off its text: with an object under `targetArtifact` the
names left after the deletions plus the other top-level names, else all top-level names -/
theorem areUnknown_shape (w : signer.World) (c : signer.Bytes) :
    (signer.areUnknownAttributesAdded w c).isEmpty =
      (match signer.JAny.asObj (GoLite.Map.get (w.UnmarshalMap c default).1 "targetArtifact") with
       | (d, true) => d.all (fun p => isKnownKey p.1) && (w.UnmarshalMap c default).1.all (fun p => p.1 == "targetArtifact")
       | (_, false) => (w.UnmarshalMap c default).1.isEmpty) := by
  unfold signer.areUnknownAttributesAdded
  simp only [Id.run, source_getKeySet_refines_model]
  generalize (w.UnmarshalMap c default).1 = m
  cases h : signer.JAny.asObj (GoLite.Map.get m "targetArtifact") with
  | mk d ok =>
    cases ok with
    | false => simp [pure]
    | true =>
      simp only [pure, Bool.not_true, Bool.false_eq_true, if_false, if_true, (by decide : (true == false) = false),
        (by decide : (false == true) = false), (by decide : (true == true) = true), (by decide : (true != true) = false)]
      rw [Bool.eq_iff_iff]
      simp only [List.isEmpty_iff, List.append_eq_nil_iff, List.map_eq_nil_iff]
      simp only [List.eq_nil_iff_forall_not_mem, GoLite.Map.mem_erase, Bool.and_eq_true, List.all_eq_true]
      constructor
      · rintro ⟨hd, hm⟩
        refine ⟨fun x hx => ?_, fun x hx => ?_⟩
        · cases hk : isKnownKey x.1 with
          | true => rfl
          | false =>
            exfalso
            simp [isKnownKey, Facts.c18KnownDescriptorKeys] at hk
            exact hd x (by simp_all)
        · cases hk : (x.1 == "targetArtifact") with
          | true => rfl
          | false => exact absurd ⟨hx, hk⟩ (hm x)
      · rintro ⟨hd, hm⟩
        refine ⟨fun x hx => ?_, fun x hx => ?_⟩
        · simp only [and_assoc] at hx
          have := known_cases _ (hd x hx.1)
          rcases this with h' | h' | h' | h' | h' | h' | h' | h' <;> simp_all
        · have := hm x hx.1
          simp_all

def keysAgree (a b : List String) : Prop := ∀ k, k ∈ a ↔ k ∈ b

/-- the CONTRACT of the oracle `json.Unmarshal(content, &map[string]interface{})` for a document `p`
(keys are exact and unique, the last member of a name wins, a non-object document leaves the map nil):
the map has the document's top-level names, and under `targetArtifact` it holds an object with the
names of the LAST such member's object - or something that is no object when that member is none -/
structure MapDecodes (m : GoLite.Map String signer.JAny) (p : JVal) : Prop where
  top : keysAgree (m.map (·.1)) (match p with | .obj kvs => keysOf kvs | _ => [])
  target : ∀ kvs, p = .obj kvs → ∀ v, lookupLast "targetArtifact" kvs = some v →
    match v with
    | .obj d => ∃ dm, GoLite.Map.get? m "targetArtifact" = some (.obj dm) ∧ keysAgree (dm.map (·.1)) (keysOf d)
    | _ => ∃ x, GoLite.Map.get? m "targetArtifact" = some x ∧ (signer.JAny.asObj x).2 = false

theorem all_of_keysAgree {ν : Type} (l : List (String × ν)) (ks : List String) (q : String → Bool)
    (h : keysAgree (l.map (·.1)) ks) : l.all (fun p => q p.1) = ks.all q := by
  rw [Bool.eq_iff_iff]
  simp only [List.all_eq_true]
  constructor
  · intro hl k hk
    obtain ⟨p, hp, rfl⟩ := List.mem_map.1 ((h k).2 hk)
    exact hl p hp
  · intro hk p hp
    exact hk p.1 ((h p.1).1 (List.mem_map.2 ⟨p, hp, rfl⟩))

theorem nil_of_keysAgree_nil {ν : Type} (l : List (String × ν)) (h : keysAgree (l.map (·.1)) []) : l = [] := by
  cases l with
  | nil => rfl
  | cons a r => exact absurd ((h a.1).1 (by simp)) (by simp)

theorem get?_none_of_not_mem {ν : Type} (m : GoLite.Map String ν) (k : String) (h : k ∉ m.map (·.1)) :
    GoLite.Map.get? m k = none := by
  induction m with
  | nil => rfl
  | cons a r ih =>
    simp only [List.map_cons, List.mem_cons, not_or] at h
    have hne : (a.1 == k) = false := by simpa using fun e => h.1 e.symm
    simp only [GoLite.Map.get?, List.find?, hne] at ih ⊢
    exact ih h.2

theorem get?_mem {ν : Type} (m : GoLite.Map String ν) (k : String) (x : ν) (h : GoLite.Map.get? m k = some x) :
    m ≠ [] := by
  intro e; subst e; simp [GoLite.Map.get?] at h

theorem mem_keys_of_contains (k : String) : ∀ (m : Members), (keysOf m).contains k = true → ∃ v, lookupLast k m = some v := by
  intro m
  induction m with
  | nil => intro h; simp [keysOf] at h
  | cons a r ih =>
    intro h
    obtain ⟨k', v⟩ := a
    cases hr : lookupLast k r with
    | some w => exact ⟨w, by simp [lookupLast, hr]⟩
    | none =>
      by_cases hk : (k' == k) = true
      · exact ⟨v, by simp [lookupLast, hr, hk]⟩
      · exfalso
        simp only [keysOf, List.map_cons, List.contains_cons, Bool.or_eq_true] at h
        rcases h with h | h
        · have : k = k' := by simpa using h
          exact hk (by simp [this])
        · obtain ⟨w, hw⟩ := ih (by simpa [keysOf] using h)
          rw [hr] at hw; cases hw

/-- TIE: `areUnknownAttributesAdded`, translated from signer/plugin.go, reports nothing exactly when the
model's scan (`scanUnknown` with the checked assertion) is clean - for every document and every map
the JSON oracle may yield for it (any key order) -/
theorem source_areUnknownAttributesAdded_refines_model (w : signer.World) (c : signer.Bytes) (p : JVal)
    (h : MapDecodes (w.UnmarshalMap c default).1 p) :
    (signer.areUnknownAttributesAdded w c).isEmpty = scanClean (scanUnknown true p) := by
  rw [areUnknown_shape, scan_checked_iff]
  generalize (w.UnmarshalMap c default).1 = m at h
  obtain ⟨htop, htarget⟩ := h
  have hnil : ∀ (hm : m = []), (match signer.JAny.asObj (GoLite.Map.get m "targetArtifact") with
       | (d, true) => d.all (fun p => isKnownKey p.1) && m.all (fun p => p.1 == "targetArtifact")
       | (_, false) => m.isEmpty) = true := by
    intro hm; subst hm; rfl
  cases p with
  | obj kvs =>
    simp only at htop
    cases hl : lookupLast "targetArtifact" kvs with
    | none =>
      have hnot : (keysOf kvs).contains "targetArtifact" = false := by
        cases hc : (keysOf kvs).contains "targetArtifact" with
        | false => rfl
        | true => obtain ⟨v, hv⟩ := mem_keys_of_contains _ _ hc; rw [hl] at hv; cases hv
      have hnm : "targetArtifact" ∉ m.map (·.1) := by
        intro hmem
        have := (htop _).1 hmem
        simp [List.contains_iff_mem] at hnot
        exact hnot this
      have hget := get?_none_of_not_mem m _ hnm
      simp only [GoLite.Map.get, GoLite.Map.lookup, hget, topKeysExact, descKeysKnown, hl, Bool.and_true]
      have hdef : signer.JAny.asObj (default : signer.JAny) = ([], false) := rfl
      simp only [hdef]
      cases kvs with
      | nil => rw [nil_of_keysAgree_nil m (by simpa [keysOf] using htop)]; rfl
      | cons a r =>
        have hka : a.1 ≠ "targetArtifact" := by
          intro e
          simp [keysOf, e] at hnot
        have hmem : a.1 ∈ m.map (·.1) := (htop a.1).2 (by simp [keysOf])
        have hm : m ≠ [] := by intro e; subst e; simp at hmem
        have : (a.1 == "targetArtifact") = false := by simpa using hka
        cases m with
        | nil => exact absurd rfl hm
        | cons b m' => simp [keysOf, this]
    | some v =>
      have ht := htarget kvs rfl v hl
      cases v with
      | obj d =>
        obtain ⟨dm, hget, hkd⟩ := ht
        simp only [GoLite.Map.get, GoLite.Map.lookup, hget, signer.JAny.asObj, topKeysExact, descKeysKnown, hl]
        rw [all_of_keysAgree dm (keysOf d) isKnownKey hkd, all_of_keysAgree m (keysOf kvs) (· == "targetArtifact") htop]
        have : isKnownKey = descFields.contains := funext isKnownKey_eq
        simp only [this, Bool.and_comm]
      | null | bool _ | num _ | str _ | arr _ =>
        obtain ⟨x, hget, hx⟩ := ht
        have hm := get?_mem m _ x hget
        simp only [GoLite.Map.get, GoLite.Map.lookup, hget, topKeysExact, descKeysKnown, hl, Bool.and_false]
        cases hax : signer.JAny.asObj x with
        | mk y ok =>
          rw [hax] at hx
          simp only at hx
          subst hx
          cases m with
          | nil => exact absurd rfl hm
          | cons b m' => rfl
  | null | bool _ | num _ | str _ | arr _ =>
    have hm := nil_of_keysAgree_nil m (by simpa using htop)
    rw [hnil hm]
    simp [topKeysExact, descKeysKnown]

/-! #### the checks of generateSignatureEnvelope, composed -/

/-- the oracles answer as the scenario `i` says (the CONTRACT that links the abstract scenario to the
library calls of generateSignatureEnvelope) -/
structure Consistent (w : signer.World) (i : Input) (desc : ocispec.Descriptor)
    (opts : «notation».SignerSignOptions) (req : plugin.GenerateEnvelopeRequest)
    (resp : plugin.GenerateEnvelopeResponse) (err : Option GoLite.Err) : Prop where
  request : reqOf desc = i.req
  pluginErr : err.isSome = (i.pluginErr == .generate)
  echo : (resp.SignatureEnvelopeType != req.SignatureEnvelopeType) = !i.echoOk
  parse : (w.ParseEnvelope opts.SignatureMediaType resp.SignatureEnvelope).2.isSome =
            (i.garbage || i.envFmt != i.format || !wrapParses i)
  verify : (w.ParseEnvelope opts.SignatureMediaType resp.SignatureEnvelope).1.Verify.2.isSome = !verifyOk i
  ctype : ((w.ParseEnvelope opts.SignatureMediaType resp.SignatureEnvelope).1.Verify.1.Payload.ContentType
            == Facts.c18MediaTypePayloadV1) = i.ctypeOk
  decode : (w.UnmarshalPayload (w.ParseEnvelope opts.SignatureMediaType resp.SignatureEnvelope).1.Verify.1.Payload.Content default).2.isSome
            = !(singleDocument i && (goDecodePayload i.payload).isSome)
  decoded : ∀ d, goDecodePayload i.payload = some d →
      goOf (w.UnmarshalPayload (w.ParseEnvelope opts.SignatureMediaType resp.SignatureEnvelope).1.Verify.1.Payload.Content default).1.TargetArtifact = d
  dup : (w.findDuplicateKey (w.ParseEnvelope opts.SignatureMediaType resp.SignatureEnvelope).1.Verify.1.Payload.Content).2 = i.payload.dupDeep
  map : MapDecodes (w.UnmarshalMap (w.ParseEnvelope opts.SignatureMediaType resp.SignatureEnvelope).1.Verify.1.Payload.Content default).1 i.payload

/-- TIE: the part of `generateSignatureEnvelope` after the plugin call (translated from signer/plugin.go as
`checkGeneratedEnvelope`: error of the call, type echo, ParseEnvelope, Verify, payload type, struct decode,
duplicate names, descriptor comparison, unknown-field scan) returns no error exactly when the model's
`envelopePath` answers with a signature - for every scenario and all oracles consistent with it -/
theorem source_generateSignatureEnvelope_refines_model (w : signer.World) (i : Input) (desc : ocispec.Descriptor)
    (opts : «notation».SignerSignOptions) (req : plugin.GenerateEnvelopeRequest)
    (resp : plugin.GenerateEnvelopeResponse) (err : Option GoLite.Err)
    (h : Consistent w i desc opts req resp err) :
    (signer.checkGeneratedEnvelope w desc opts req resp err).2.2.isNone = ((envelopePath i).outcome == .sig) := by
  obtain ⟨hreq, h0, h1, h2, h3, h4, h5, h5d, h6, h7⟩ := h
  rw [envelopePath_eq]
  unfold signer.checkGeneratedEnvelope
  simp only [Id.run]
  have hv := source_ValidatePayloadContentType_refines_model
    (w.ParseEnvelope opts.SignatureMediaType resp.SignatureEnvelope).1.Verify.1.Payload
  rw [h4] at hv
  have hscan := source_areUnknownAttributesAdded_refines_model w _ _ h7
  rw [scan_checked_iff] at hscan
  have hlen : ∀ l : List String, (GoLite.len l != 0) = !l.isEmpty := by
    intro l; cases l <;> simp [GoLite.len] <;> omega
  have hlen' : ∀ l : List String, decide (GoLite.len l > 0) = !l.isEmpty := by
    intro l; cases l <;> simp [GoLite.len] <;> omega
  have hlen'' : ∀ l : List String, (GoLite.len l == 0) = l.isEmpty := by
    intro l; cases l <;> simp [GoLite.len] <;> omega
  have hlen3 : ∀ l : List String, ((0 : Int) != GoLite.len l) = !l.isEmpty := by
    intro l; cases l <;> simp [GoLite.len] <;> omega
  have hlen4 : ∀ l : List String, ((0 : Int) == GoLite.len l) = l.isEmpty := by
    intro l; cases l <;> simp [GoLite.len] <;> omega
  have hlen5 : ∀ l : List String, decide ((0 : Int) < GoLite.len l) = !l.isEmpty := by
    intro l; cases l <;> simp [GoLite.len] <;> omega
  have h1' : (req.SignatureEnvelopeType != resp.SignatureEnvelopeType) = !i.echoOk := by
    rw [← h1, Bool.eq_iff_iff]
    simp only [bne_iff_ne, ne_eq]
    exact ⟨fun h e => h e.symm, fun h e => h e.symm⟩
  have h1e : (resp.SignatureEnvelopeType == req.SignatureEnvelopeType) = i.echoOk := by
    have := h1; simp only [bne] at this; cases hh : (resp.SignatureEnvelopeType == req.SignatureEnvelopeType) <;> simp_all
  have h1e' : (req.SignatureEnvelopeType == resp.SignatureEnvelopeType) = i.echoOk := by
    rw [← h1e, Bool.eq_iff_iff]; simp only [beq_iff_eq]; exact ⟨Eq.symm, Eq.symm⟩
  simp only [hlen, hlen', hlen'', hlen3, hlen4, hlen5, hscan, source_isPayloadDescriptorValid_refines_model, hreq, h0, h1, h1', h1e, h1e', h2, h3, h5, h6]
  have hvs : (envelope.ValidatePayloadContentType
      (w.ParseEnvelope opts.SignatureMediaType resp.SignatureEnvelope).1.Verify.1.Payload).isSome = !i.ctypeOk := by
    cases hh : envelope.ValidatePayloadContentType
      (w.ParseEnvelope opts.SignatureMediaType resp.SignatureEnvelope).1.Verify.1.Payload <;> simp [hh] at hv ⊢ <;> simp [← hv]
  rw [hvs]
  generalize hpe2 : (w.ParseEnvelope opts.SignatureMediaType resp.SignatureEnvelope).2 = pe2 at h2 ⊢
  generalize hvp : envelope.ValidatePayloadContentType
      (w.ParseEnvelope opts.SignatureMediaType resp.SignatureEnvelope).1.Verify.1.Payload = vp at hvs hv ⊢
  by_cases c0 : i.pluginErr = .generate
  · simp [c0, pure, errObs]
  by_cases c1 : i.echoOk = true
  case neg => simp [c0, c1, pure, envChecks, errObs]
  by_cases c2 : (i.garbage || i.envFmt != i.format || !wrapParses i) = true
  · have : (!i.garbage && i.envFmt == i.format && wrapParses i) = false := by
      cases hg : i.garbage <;> cases hw : wrapParses i <;> simp_all
    have e2 : pe2.isNone = false := by cases pe2 <;> simp_all
    simp [c0, c1, c2, pure, envChecks, errObs, this, e2]
  have c2' : i.garbage = false ∧ i.envFmt = i.format := by
    cases hg : i.garbage <;> cases hw : wrapParses i <;> simp_all
  have c2w : wrapParses i = true := by
    cases hg : i.garbage <;> cases hw : wrapParses i <;> simp_all
  by_cases c3 : verifyOk i = true
  case neg => simp [c0, c1, c2, c2'.1, c2'.2, c2w, c3, pure, envChecks, errObs]
  by_cases c4 : i.ctypeOk = true
  case neg =>
    have e4 : vp.isNone = false := by cases vp <;> simp_all
    simp [c0, c1, c2, c2'.1, c2'.2, c2w, c3, c4, pure, envChecks, errObs, e4]
  by_cases c5 : singleDocument i = true
  case neg => simp [c0, c1, c2, c2'.1, c2'.2, c2w, c3, c4, c5, pure, envChecks, errObs]
  cases hg : goDecodePayload i.payload with
  | none => simp [c0, c1, c2, c2'.1, c2'.2, c2w, c3, c4, c5, hg, pure, envChecks, errObs, sees]
  | some d =>
    have hd := h5d d hg
    rw [hd]
    by_cases c6 : i.payload.dupDeep = true
    · simp [c0, c1, c2, c2'.1, c2'.2, c2w, c3, c4, c5, hg, c6, pure, envChecks, errObs]
    have c6' : i.payload.dupDeep = false := by simpa using c6
    have hE : envChecks i = (descValid i.req d && (topKeysExact i.payload && descKeysKnown i.payload)) := by
      simp [envChecks, c1, c2'.1, c2'.2, c2w, c3, c4, c5, c6', hg, sees, Bool.and_assoc]
    cases hA : descValid i.req d <;> cases hB : (topKeysExact i.payload && descKeysKnown i.payload) <;>
      simp [hE, hA, hB, c0, c1, c2, c3, c4, c5, hg, c6', pure, sigObs, errObs]

/-- non-vacuity: the translated checks run on concrete oracles - a perfect answer passes, a wrong echo,
an extra descriptor member or a changed media type (requested: none) do not -/
def sampleWorld (m : GoLite.Map String signer.JAny) (d : ocispec.Descriptor) : signer.World :=
  { UnmarshalMap := fun _ _ => (m, none)
    UnmarshalPayload := fun _ _ => (⟨d⟩, none)
    ParseEnvelope := fun _ _ => (⟨(⟨⟨"application/vnd.cncf.notary.payload.v1+json", "{}"⟩, ⟨7⟩⟩, none)⟩, none)
    findDuplicateKey := fun _ => ("", false) }

def sampleDesc : ocispec.Descriptor := { MediaType := "", Digest := "sha256:00", Size := 7, Annotations := [] }

example : (signer.checkGeneratedEnvelope
    (sampleWorld [("targetArtifact", .obj [("digest", .str "sha256:00"), ("size", .num 7)])] sampleDesc)
    sampleDesc ⟨"application/jose+json"⟩ ⟨"application/jose+json"⟩ ⟨"env", "application/jose+json", []⟩ none)
    = ("env", some ⟨7⟩, none) := by decide
example : (signer.checkGeneratedEnvelope
    (sampleWorld [("targetArtifact", .obj [("digest", .str "sha256:00"), ("size", .num 7)])] sampleDesc)
    sampleDesc ⟨"application/jose+json"⟩ ⟨"application/jose+json"⟩ ⟨"env", "application/cose", []⟩ none).2.2.isSome = true := by
  decide
example : (signer.checkGeneratedEnvelope
    (sampleWorld [("targetArtifact", .obj [("digest", .str "sha256:00"), ("Size", .num 7)])] sampleDesc)
    sampleDesc ⟨"application/jose+json"⟩ ⟨"application/jose+json"⟩ ⟨"env", "application/jose+json", []⟩ none).2.2.isSome = true := by
  decide
example : (signer.checkGeneratedEnvelope
    (sampleWorld [("targetArtifact", .obj [("digest", .str "sha256:00"), ("size", .num 7)])] { sampleDesc with MediaType := "text/x-shellscript" })
    sampleDesc ⟨"application/jose+json"⟩ ⟨"application/jose+json"⟩ ⟨"env", "application/jose+json", []⟩ none).2.2.isSome = true := by
  decide

end Tie

end NotationModel.C18

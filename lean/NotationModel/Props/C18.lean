/- C18 - property theorems (stub: not built yet) -/
import NotationModel.Model.C18

namespace NotationModel.C18

end NotationModel.C18

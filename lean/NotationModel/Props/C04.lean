/- C04 - property theorems (stub: not built yet) -/
import NotationModel.Model.C04

namespace NotationModel.C04

end NotationModel.C04

/-
C04 - Identity pinning matches only the signing certificate's own subject.
Property theorems; the model is in `Model/C04.lean`, the loop lemmas in `Lemmas/C04.lean`.

Reading guide: `verifyIdentities ids chain` is the model of
`verifyX509TrustedIdentities(_, ids, chain) == nil`; `usable id` says that `id` is an
`x509.subject:` identity with a non-empty, interpretable value; `attrsOf d.rdns` are the
attributes (after the S->ST alias) of a parsed name; `validDN` is "notation can interpret
this name" (spelled out by `validDN_iff`).
-/
import NotationModel.Lemmas.C04
import NotationModel.Generated.C04
import NotationModel.Generated.SrcC04
import NotationModel.Generated.SrcC04c
set_option linter.unusedSimpArgs false
set_option linter.unusedVariables false

namespace NotationModel.C04

/-! ### the facts read from the Go source are the ones the property is about -/

/-- the constants of the identity check as read from the Go source on this run are the ones the
model and the property use: the leaf is `certs[0]`, the wildcard is `*`, identities are
`x509.subject:<DN>` cut at the first `:`, `S` is an alias of `ST`, an RDN has at most one attribute,
`C`, `ST`, `O` are mandatory, `=#` is refused. A change of any of them in the Go source changes
`Generated/C04.lean` and makes this theorem fail. -/
theorem facts_wf :
    Facts.c04LeafIndex = leafIndex ∧ Facts.c04Wildcard = wildcard ∧ Facts.c04Separator = separator ∧
    Facts.c04X509Subject = x509Subject ∧ Facts.c04AliasFrom = aliasFrom ∧ Facts.c04AliasTo = aliasTo ∧
    Facts.c04MaxAttrsPerRDN = maxAttrs ∧
    (Facts.c04Mandatory.all (mandatory.contains ·) && mandatory.all (Facts.c04Mandatory.contains ·)) = true ∧
    Facts.c04Unsupported = unsupported := by decide

/-- the wildcard is not an `a:b` identity -/
theorem cut_wildcard : cut wildcard = none := by decide

theorem leafIndex_zero : leafIndex = 0 := rfl
theorem alias_ne : aliasTo ≠ aliasFrom := by decide

/-! ### what "interpretable" means -/

/-- a name is interpretable iff its text has no `=#`, go-ldap parses it, no RDN is multi-valued,
no attribute type occurs twice (after the alias) and every mandatory attribute is present with
a non-empty value -/
theorem validDN_iff (text : Text) (rdns : Option (List (List Attr))) :
    validDN text rdns = true ↔
      hasInfix unsupported text = false ∧
      ∃ rs, rdns = some rs ∧ (∀ r ∈ rs, r.length ≤ maxAttrs) ∧ ((flat rs).map Prod.fst).Nodup ∧
        ∀ f ∈ mandatory, ∃ v, v ≠ [] ∧ (f, v) ∈ flat rs := by
  unfold validDN
  cases rdns with
  | none => simp
  | some rs =>
    simp only [Bool.and_eq_true, Bool.not_eq_true', List.all_eq_true, decide_eq_true_eq,
      nodupKeys_iff, hasMandatory, List.any_eq_true, beq_iff_eq, Option.some.injEq, keys]
    constructor
    · rintro ⟨h0, ⟨h1, h2⟩, h3⟩
      refine ⟨h0, rs, rfl, h1, h2, ?_⟩
      intro f hf
      obtain ⟨a, ha, e1, e2⟩ := h3 f hf
      refine ⟨a.2, ?_, ?_⟩
      · intro e; rw [e] at e2; simp at e2
      · rw [← e1]; exact ha
    · rintro ⟨h0, rs', e, h1, h2, h3⟩
      subst e
      refine ⟨h0, ⟨h1, h2⟩, ?_⟩
      intro f hf
      obtain ⟨v, hv, hmem⟩ := h3 f hf
      refine ⟨(f, v), hmem, rfl, ?_⟩
      cases v with
      | nil => exact absurd rfl hv
      | cons c r => rfl

/-- `usable` spelled out -/
theorem usable_iff (id : Identity) :
    usable id = true ↔ ∃ val, cut id.raw = some (x509Subject, val) ∧ val ≠ [] ∧ validDN val id.rdns = true := by
  unfold usable x509Value
  cases hc : cut id.raw with
  | none => simp
  | some pv =>
    obtain ⟨pfx, val⟩ := pv
    by_cases hp : pfx = x509Subject
    · subst hp
      simp only [if_true, Bool.and_eq_true, Bool.not_eq_true', Option.some.injEq, Prod.mk.injEq,
        true_and, exists_eq_left']
      constructor
      · rintro ⟨h1, h2⟩
        exact ⟨by intro e; rw [e] at h1; simp at h1, h2⟩
      · rintro ⟨h1, h2⟩
        refine ⟨?_, h2⟩
        cases val with
        | nil => exact absurd rfl h1
        | cons c r => rfl
    · simp only [hp, if_false, Option.some.injEq, Prod.mk.injEq]
      constructor
      · intro h; cases h
      · rintro ⟨v, ⟨e, _⟩, _⟩; exact e.elim

/-- `malformed` spelled out: no separator, or an `x509.subject:` identity whose value is empty or
cannot be interpreted -/
theorem malformed_iff (id : Identity) :
    malformed id = true ↔
      cut id.raw = none ∨
      ∃ val, cut id.raw = some (x509Subject, val) ∧ (val = [] ∨ validDN val id.rdns = false) := by
  unfold malformed
  cases hc : cut id.raw with
  | none => simp
  | some pv =>
    obtain ⟨pfx, val⟩ := pv
    simp only [Bool.and_eq_true, beq_iff_eq, Bool.or_eq_true, Bool.not_eq_true', Option.some.injEq,
      Prod.mk.injEq, false_or, reduceCtorEq]
    constructor
    · rintro ⟨e, h⟩
      refine ⟨val, ⟨e, rfl⟩, ?_⟩
      rcases h with h | h
      · left
        cases val with
        | nil => rfl
        | cons c r => simp at h
      · right; exact h
    · rintro ⟨v, ⟨e1, e2⟩, h⟩
      subst e2
      refine ⟨e1, ?_⟩
      rcases h with h | h
      · left; rw [h]; rfl
      · right; exact h

/-! ### the model computes the specification -/

theorem verifyIdentities_nil (chain : List DN) : verifyIdentities [] chain = false := by
  simp [verifyIdentities, collect]

/-- without an applicable statement there is no identity that could decide -/
theorem identities_of_not_applicable (i : Input) (h : applicable i = none) : i.identities = [] := by
  simp [Input.identities, h]

theorem run_applicable (i : Input) (s : Statement) (h : applicable i = some s) : run i = process i := by
  simp [run, h]

theorem run_native (i : Input) (h : nativeCheck i = true) :
    (run i).pass = verifyIdentities i.identities i.chain := by
  cases ha : applicable i with
  | none => simp [run, ha, identities_of_not_applicable i ha, verifyIdentities_nil]
  | some s => simp [run, ha, process, h]

theorem run_eq_spec (i : Input) (h : nativeCheck i = true) : (run i).pass = spec i := by
  simp only [run_native i h, verifyIdentities_eq leafIndex_zero, spec_eq_specOf]

/-- **plugins**: a signature that names no plugin, or a plugin whose exactly spelled capabilities
do not include the trusted-identity one (e.g. revocation only), leaves the identity check native:
the plugin and its answers do not matter. -/
theorem plugin_without_identity_capability_does_not_matter (i : Input) (h : nativeCheck i = true) :
    (run i).pass = verifyIdentities i.identities i.chain := run_native i h

/-- a capability counts only in its exact spelling: declaring other strings (another letter case,
white space) next to the revocation capability does not take the identity check away -/
theorem only_exact_spelling_counts (i : Input) (p : Plugin) (h : i.plugin = some p)
    (hr : capRevocationCheck ∈ p.capabilities) (ht : capTrustedIdentity ∉ p.capabilities) :
    (run i).pass = verifyIdentities i.identities i.chain := by
  apply run_native
  have h1 : capRevocationCheck ∈ pluginCaps p := by
    simp [pluginCaps, hr]
  have h2 : capTrustedIdentity ∉ pluginCaps p := by
    intro hm
    exact ht (List.mem_filter.1 hm).1
  have h3 : (pluginCaps p).isEmpty = false := by
    cases hc : pluginCaps p with
    | nil => rw [hc] at h1; simp at h1
    | cons a r => rfl
  simp [nativeCheck, h, h3, h2]

theorem revocation_only_plugin_is_native (i : Input) (b : Bool)
    (h : i.plugin = some { capabilities := [capRevocationCheck], identitySuccess := b }) :
    (run i).pass = verifyIdentities i.identities i.chain := by
  apply only_exact_spelling_counts i _ h
  · simp
  · show capTrustedIdentity ∉ [capRevocationCheck]
    decide

/-- ... and a plugin that declares it (exactly) decides -/
theorem plugin_with_identity_capability_decides (i : Input) (p : Plugin) (h : i.plugin = some p)
    (hc : capTrustedIdentity ∈ p.capabilities) (s : Statement) (ha : applicable i = some s) :
    (run i).pass = p.identitySuccess := by
  have h1 : capTrustedIdentity ∈ pluginCaps p := by simp [pluginCaps, hc]
  have h3 : (pluginCaps p).isEmpty = false := by
    cases hc' : pluginCaps p with
    | nil => rw [hc'] at h1; simp at h1
    | cons a r => rfl
  have : nativeCheck i = false := by simp [nativeCheck, h, h1]
  simp [run, ha, process, this, pluginVerdict, h, h3]

/-- a plugin none of whose declared capabilities is spelled exactly is refused -/
theorem plugin_without_capability_is_refused (i : Input) (h : refused i = true) : (run i).pass = false := by
  unfold refused at h
  cases hp : i.plugin with
  | none => rw [hp] at h; cases h
  | some p =>
    rw [hp] at h
    simp only at h
    cases ha : applicable i with
    | none => simp [run, ha]
    | some s => simp [run, ha, process, nativeCheck, pluginVerdict, hp, h]

theorem mem_all_contains {l attrs : List Attr} :
    l.all (fun a => attrs.contains a) = true ↔ ∀ a ∈ l, a ∈ attrs := by
  simp [List.all_eq_true, List.contains_iff_mem]

/-- no identity is the wildcard -/
def NoWildcard (ids : List Identity) : Prop := ∀ id ∈ ids, id.raw ≠ wildcard

theorem anyWild_false {ids : List Identity} (h : NoWildcard ids) : ids.any isWild = false := by
  rw [List.any_eq_false]
  intro id hid
  simpa [isWild] using h id hid

/-! ### readable theorems (DESIGN.md section 5, C04) -/

/-- **soundness**: if the check passes and the list has no wildcard, then the chain has a leaf
whose subject is interpretable, and some *listed* `x509.subject` identity is interpretable and
all of its attributes occur with equal value among the attributes of the **leaf** subject. -/
theorem identity_pass_sound (ids : List Identity) (chain : List DN) (hnw : NoWildcard ids)
    (h : verifyIdentities ids chain = true) :
    ∃ leaf rest, chain = leaf :: rest ∧ validDN leaf.text leaf.rdns = true ∧
      ∃ id ∈ ids, usable id = true ∧ ∀ a ∈ attrsOf id.rdns, a ∈ attrsOf leaf.rdns := by
  rw [verifyIdentities_eq leafIndex_zero] at h
  simp only [specOf, spec, identities_ociInput, chain_ociInput, anyWild, anyMalformed, anyX509, leafValid, anyWithinLeaf, leafAttrs,
    leafOf, anyWild_false hnw, Bool.false_or, Bool.and_eq_true] at h
  obtain ⟨⟨⟨_, _⟩, hv⟩, hw⟩ := h
  cases chain with
  | nil => simp at hv
  | cons leaf rest =>
    simp only [List.head?_cons] at hv hw
    refine ⟨leaf, rest, rfl, hv, ?_⟩
    simp only [hv, if_true, List.any_eq_true, within, Bool.and_eq_true] at hw
    obtain ⟨id, hid, hu, hall⟩ := hw
    exact ⟨id, hid, hu, mem_all_contains.1 hall⟩

/-- **completeness** (converse): with no malformed identity in the list, an interpretable leaf
subject and a listed interpretable identity whose attributes all occur in it, the check passes. -/
theorem identity_pass_complete (ids : List Identity) (leaf : DN) (rest : List DN)
    (hm : ∀ id ∈ ids, malformed id = false) (hv : validDN leaf.text leaf.rdns = true)
    (h : ∃ id ∈ ids, usable id = true ∧ ∀ a ∈ attrsOf id.rdns, a ∈ attrsOf leaf.rdns) :
    verifyIdentities ids (leaf :: rest) = true := by
  rw [verifyIdentities_eq leafIndex_zero]
  obtain ⟨id, hid, hu, hall⟩ := h
  have hmal : ids.any malformed = false := by
    rw [List.any_eq_false]; intro x hx; simp [hm x hx]
  have hx : ids.any isX509 = true := by
    rw [List.any_eq_true]
    exact ⟨id, hid, by rw [← usable_eq_isX509_of_not_malformed (hm id hid)]; exact hu⟩
  have hw : ids.any (fun id => within id (attrsOf leaf.rdns)) = true := by
    rw [List.any_eq_true]
    exact ⟨id, hid, by simp only [within, hu, Bool.true_and]; exact mem_all_contains.2 hall⟩
  simp [specOf, spec, identities_ociInput, chain_ociInput, anyWild, anyMalformed, anyX509, leafValid, anyWithinLeaf, leafAttrs, leafOf,
    hmal, hx, hv, hw]

/-- **leaf only**: the result is a function of the identity list and the *head* of the chain -
intermediate and root subjects cannot influence it. -/
theorem leaf_only (ids : List Identity) (chain chain' : List DN) (h : chain.head? = chain'.head?) :
    verifyIdentities ids chain = verifyIdentities ids chain' := by
  simp only [verifyIdentities_eq leafIndex_zero, specOf, spec, identities_ociInput, chain_ociInput, anyWild, anyMalformed, anyX509,
    leafValid, anyWithinLeaf, leafAttrs, leafOf, h]

theorem leaf_only_cons (ids : List Identity) (leaf : DN) (cas cas' : List DN) :
    verifyIdentities ids (leaf :: cas) = verifyIdentities ids (leaf :: cas') :=
  leaf_only ids _ _ rfl

/-- in particular: an identity that fits a CA subject but not the leaf subject does not pass -/
theorem ca_subject_is_not_enough (ids : List Identity) (leaf : DN) (cas : List DN)
    (hnw : NoWildcard ids)
    (hleaf : ∀ id ∈ ids, usable id = true → ∃ a ∈ attrsOf id.rdns, a ∉ attrsOf leaf.rdns) :
    verifyIdentities ids (leaf :: cas) = false := by
  cases hres : verifyIdentities ids (leaf :: cas) with
  | false => rfl
  | true =>
    obtain ⟨l, r, e, _, id, hid, hu, hall⟩ := identity_pass_sound ids _ hnw hres
    simp only [List.cons.injEq] at e
    obtain ⟨a, ha, hna⟩ := hleaf id hid hu
    rw [← e.1] at hall
    exact absurd (hall a ha) hna

/-- **wildcard**: a list that contains `*` accepts every chain -/
theorem wildcard_accepts (ids : List Identity) (chain : List DN) (h : ∃ id ∈ ids, id.raw = wildcard) :
    verifyIdentities ids chain = true := by
  obtain ⟨id, hid, e⟩ := h
  have : ids.any (fun id => id.raw == wildcard) = true := by
    rw [List.any_eq_true]; exact ⟨id, hid, by simp [e]⟩
  simp [verifyIdentities, this]

/-- **fail closed** (no wildcard in the list): a malformed identity (no separator, empty or
uninterpretable `x509.subject` value), a list without any `x509.subject` identity, an empty chain
or an uninterpretable leaf subject each make the check fail. -/
theorem fail_closed (ids : List Identity) (chain : List DN) (hnw : NoWildcard ids)
    (h : (∃ id ∈ ids, malformed id = true) ∨ (∀ id ∈ ids, isX509 id = false) ∨
         chain = [] ∨ (∃ leaf rest, chain = leaf :: rest ∧ validDN leaf.text leaf.rdns = false)) :
    verifyIdentities ids chain = false := by
  rw [verifyIdentities_eq leafIndex_zero]
  simp only [specOf, spec, identities_ociInput, chain_ociInput, anyWild, anyMalformed, anyX509, leafValid, anyWithinLeaf, leafAttrs,
    leafOf, anyWild_false hnw, Bool.false_or]
  rcases h with ⟨id, hid, hm⟩ | h | h | ⟨leaf, rest, e, hv⟩
  · have : ids.any malformed = true := by rw [List.any_eq_true]; exact ⟨id, hid, hm⟩
    simp [this]
  · have : ids.any isX509 = false := by rw [List.any_eq_false]; intro x hx; simp [h x hx]
    simp [this]
  · subst h; simp
  · subst e; simp [hv]

/-- uninterpretable names, concretely: go-ldap refused the string, `=#` occurs in it, an RDN is
multi-valued, a type occurs twice (`S` counting as `ST`), or a mandatory attribute is absent -/
theorem uninterpretable (text : Text) (rdns : Option (List (List Attr)))
    (h : rdns = none ∨ hasInfix unsupported text = true ∨
      (∃ rs, rdns = some rs ∧ ((∃ r ∈ rs, maxAttrs < r.length) ∨ ¬ ((flat rs).map Prod.fst).Nodup ∨
        ∃ f ∈ mandatory, ∀ v, (f, v) ∈ flat rs → v = []))) :
    validDN text rdns = false := by
  cases hv : validDN text rdns with
  | false => rfl
  | true =>
    exfalso
    obtain ⟨h0, rs, e, h1, h2, h3⟩ := (validDN_iff text rdns).1 hv
    rcases h with h | h | ⟨rs', e', h⟩
    · rw [h] at e; cases e
    · rw [h] at h0; cases h0
    · rw [e] at e'
      simp only [Option.some.injEq] at e'
      subst e'
      rcases h with ⟨r, hr, hl⟩ | h | ⟨f, hf, hall⟩
      · have := h1 r hr; omega
      · exact h h2
      · obtain ⟨v, hv1, hv2⟩ := h3 f hf
        exact hv1 (hall v hv2)

/-! ### invariance -/

/-- two identities the check cannot tell apart -/
structure IdEquiv (a b : Identity) : Prop where
  wild : isWild a = isWild b
  malformed : malformed a = malformed b
  x509 : isX509 a = isX509 b
  usable : usable a = usable b
  attrs : ∀ x, x ∈ attrsOf a.rdns ↔ x ∈ attrsOf b.rdns

/-- two subjects the check cannot tell apart -/
structure DNEquiv (a b : DN) : Prop where
  valid : validDN a.text a.rdns = validDN b.text b.rdns
  attrs : ∀ x, x ∈ attrsOf a.rdns ↔ x ∈ attrsOf b.rdns

theorem all_contains_congr {l l' attrs attrs' : List Attr} (h1 : ∀ x, x ∈ l ↔ x ∈ l')
    (h2 : ∀ x, x ∈ attrs ↔ x ∈ attrs') :
    l.all (fun a => attrs.contains a) = l'.all (fun a => attrs'.contains a) := by
  rw [Bool.eq_iff_iff, mem_all_contains, mem_all_contains]
  constructor
  · intro h a ha; exact (h2 a).1 (h a ((h1 a).2 ha))
  · intro h a ha; exact (h2 a).2 (h a ((h1 a).1 ha))

theorem within_congr {a b : Identity} {attrs attrs' : List Attr} (h : IdEquiv a b)
    (h2 : ∀ x, x ∈ attrs ↔ x ∈ attrs') : within a attrs = within b attrs' := by
  simp only [within, h.usable, all_contains_congr h.attrs h2]

theorem IdEquiv.refl (a : Identity) : IdEquiv a a := ⟨rfl, rfl, rfl, rfl, fun _ => Iff.rfl⟩

/-- replacing one identity of the list by an equivalent one, and the leaf subject by an
equivalent one, does not change the result -/
theorem verify_congr (pre post : List Identity) (a b : Identity) (leaf leaf' : DN) (cas cas' : List DN)
    (hid : IdEquiv a b) (hdn : DNEquiv leaf leaf') :
    verifyIdentities (pre ++ a :: post) (leaf :: cas) = verifyIdentities (pre ++ b :: post) (leaf' :: cas') := by
  simp only [verifyIdentities_eq leafIndex_zero, specOf, spec, identities_ociInput, chain_ociInput, anyWild, anyMalformed, anyX509,
    leafValid, anyWithinLeaf, leafAttrs, leafOf, List.head?_cons, List.any_append, List.any_cons,
    hid.wild, hid.malformed, hid.x509, hdn.valid]
  have hattrs : ∀ x, x ∈ (if validDN leaf'.text leaf'.rdns = true then attrsOf leaf.rdns else []) ↔
      x ∈ (if validDN leaf'.text leaf'.rdns = true then attrsOf leaf'.rdns else []) := by
    intro x
    by_cases hv : validDN leaf'.text leaf'.rdns = true
    · simp only [hv, if_true]; exact hdn.attrs x
    · simp [hv]
  rw [within_congr hid hattrs]
  have hc : ∀ l : List Identity,
      l.any (fun id => within id (if validDN leaf'.text leaf'.rdns = true then attrsOf leaf.rdns else [])) =
      l.any (fun id => within id (if validDN leaf'.text leaf'.rdns = true then attrsOf leaf'.rdns else [])) := by
    intro l
    apply List.any_congr rfl
    intro id
    exact within_congr (IdEquiv.refl id) hattrs
  rw [hc pre, hc post]

theorem validDN_perm {t t' : Text} {rs rs' : List (List Attr)} (hp : rs.Perm rs')
    (ht : hasInfix unsupported t = hasInfix unsupported t') :
    validDN t (some rs) = validDN t' (some rs') := by
  have hf : (flat rs).Perm (flat rs') := (hp.flatten).map norm
  unfold validDN
  simp only [ht]
  congr 2
  · congr 1
    · exact hp.all_eq
    · rw [Bool.eq_iff_iff, nodupKeys_iff, nodupKeys_iff]
      exact (hf.map Prod.fst).nodup_iff
  · unfold hasMandatory
    apply List.all_congr rfl
    intro f
    exact hf.any_eq

theorem attrs_perm {rs rs' : List (List Attr)} (hp : rs.Perm rs') (x : Attr) :
    x ∈ attrsOf (some rs) ↔ x ∈ attrsOf (some rs') :=
  ((hp.flatten).map norm).mem_iff

/-- the identity value and what go-ldap made of it changed, the rest of the string did not -/
theorem idEquiv_of {a b : Identity} {pfx v v' : Text}
    (ha : cut a.raw = some (pfx, v)) (hb : cut b.raw = some (pfx, v'))
    (hempty : v.isEmpty = v'.isEmpty) (hvalid : validDN v a.rdns = validDN v' b.rdns)
    (hattrs : ∀ x, x ∈ attrsOf a.rdns ↔ x ∈ attrsOf b.rdns) : IdEquiv a b := by
  have hwa : isWild a = false := by
    simp only [isWild, beq_eq_false_iff_ne]
    intro e; rw [e, cut_wildcard] at ha; cases ha
  have hwb : isWild b = false := by
    simp only [isWild, beq_eq_false_iff_ne]
    intro e; rw [e, cut_wildcard] at hb; cases hb
  refine ⟨by rw [hwa, hwb], ?_, ?_, ?_, hattrs⟩
  · simp only [malformed, ha, hb, hempty, hvalid]
  · simp only [isX509, x509Value, ha, hb]
    by_cases hp : pfx = x509Subject <;> simp [hp]
  · simp only [usable, x509Value, ha, hb]
    by_cases hp : pfx = x509Subject
    · simp only [hp, if_true, hempty, hvalid]
    · simp only [hp, if_false]

/-- **order invariance, subject**: permuting the RDNs of the leaf subject (any `List.Perm`) does
not change the result (the `=#` test looks at the text, so it has to agree on the two texts;
it does whenever neither rendering contains `=#`). -/
theorem order_invariant_subject (ids : List Identity) (t t' : Text) (rs rs' : List (List Attr))
    (cas cas' : List DN) (hp : rs.Perm rs') (ht : hasInfix unsupported t = hasInfix unsupported t') :
    verifyIdentities ids ({ text := t, rdns := some rs } :: cas) =
    verifyIdentities ids ({ text := t', rdns := some rs' } :: cas') := by
  have hdn : DNEquiv { text := t, rdns := some rs } { text := t', rdns := some rs' } :=
    ⟨validDN_perm hp ht, attrs_perm hp⟩
  cases ids with
  | nil => simp [verifyIdentities, collect]
  | cons a post => exact verify_congr [] post a a _ _ cas cas' (IdEquiv.refl a) hdn

/-- **order invariance, identity**: permuting the RDNs of one listed identity does not change
the result. `a` and `b` are `pfx:v` and `pfx:v'` where go-ldap parses `v` to `rs` and `v'` to a
permutation `rs'` of `rs`. -/
theorem order_invariant_identity (pre post : List Identity) (a b : Identity) (chain : List DN)
    (pfx v v' : Text) (rs rs' : List (List Attr))
    (ha : cut a.raw = some (pfx, v)) (hb : cut b.raw = some (pfx, v'))
    (hra : a.rdns = some rs) (hrb : b.rdns = some rs') (hp : rs.Perm rs')
    (hempty : v.isEmpty = v'.isEmpty) (ht : hasInfix unsupported v = hasInfix unsupported v') :
    verifyIdentities (pre ++ a :: post) chain = verifyIdentities (pre ++ b :: post) chain := by
  have hid : IdEquiv a b := by
    apply idEquiv_of ha hb hempty
    · rw [hra, hrb]; exact validDN_perm hp ht
    · rw [hra, hrb]; exact attrs_perm hp
  cases chain with
  | nil =>
    simp only [verifyIdentities_eq leafIndex_zero, specOf, spec, identities_ociInput, chain_ociInput, anyWild, anyMalformed, anyX509,
      leafValid, anyWithinLeaf, leafAttrs, leafOf, List.head?_nil, List.any_append, List.any_cons,
      hid.wild, hid.malformed, hid.x509]
    simp
  | cons leaf cas => exact verify_congr pre post a b leaf leaf cas cas hid ⟨rfl, fun _ => Iff.rfl⟩

theorem flat_alias {rs rs' : List (List Attr)} (h : rs.map (List.map norm) = rs'.map (List.map norm)) :
    flat rs = flat rs' := by
  have h1 : ∀ l : List (List Attr), flat (l.map (List.map norm)) = flat l := by
    intro l
    induction l with
    | nil => rfl
    | cons r l ih =>
      simp only [List.map_cons, flat_cons, ih, List.map_map]
      congr 1
      apply List.map_congr_left
      intro a _
      exact norm_norm alias_ne a
  rw [← h1 rs, ← h1 rs', h]

theorem validDN_alias {t t' : Text} {rs rs' : List (List Attr)}
    (h : rs.map (List.map norm) = rs'.map (List.map norm))
    (ht : hasInfix unsupported t = hasInfix unsupported t') :
    validDN t (some rs) = validDN t' (some rs') := by
  have hl : rs.map List.length = rs'.map List.length := by
    have := congrArg (List.map List.length) h
    simpa [List.map_map, Function.comp_def] using this
  have hall : rs.all (fun r => decide (r.length ≤ maxAttrs)) = rs'.all (fun r => decide (r.length ≤ maxAttrs)) := by
    have e : ∀ l : List (List Attr), l.all (fun r => decide (r.length ≤ maxAttrs)) =
        (l.map List.length).all (fun n => decide (n ≤ maxAttrs)) := by
      intro l; simp [List.all_map, Function.comp_def]
    rw [e rs, e rs', hl]
  unfold validDN
  simp only [ht, flat_alias h, hall]

/-- **alias invariance, subject**: writing `S` or `ST` (RDN by RDN, in either direction) does
not change the result: two parses that agree after the alias are indistinguishable. -/
theorem alias_invariant_subject (ids : List Identity) (t t' : Text) (rs rs' : List (List Attr))
    (cas cas' : List DN) (h : rs.map (List.map norm) = rs'.map (List.map norm))
    (ht : hasInfix unsupported t = hasInfix unsupported t') :
    verifyIdentities ids ({ text := t, rdns := some rs } :: cas) =
    verifyIdentities ids ({ text := t', rdns := some rs' } :: cas') := by
  have hdn : DNEquiv { text := t, rdns := some rs } { text := t', rdns := some rs' } :=
    ⟨validDN_alias h ht, by intro x; simp only [attrsOf, flat_alias h]⟩
  cases ids with
  | nil => simp [verifyIdentities, collect]
  | cons a post => exact verify_congr [] post a a _ _ cas cas' (IdEquiv.refl a) hdn

/-- **alias invariance, identity** -/
theorem alias_invariant_identity (pre post : List Identity) (a b : Identity) (chain : List DN)
    (pfx v v' : Text) (rs rs' : List (List Attr))
    (ha : cut a.raw = some (pfx, v)) (hb : cut b.raw = some (pfx, v'))
    (hra : a.rdns = some rs) (hrb : b.rdns = some rs')
    (h : rs.map (List.map norm) = rs'.map (List.map norm))
    (hempty : v.isEmpty = v'.isEmpty) (ht : hasInfix unsupported v = hasInfix unsupported v') :
    verifyIdentities (pre ++ a :: post) chain = verifyIdentities (pre ++ b :: post) chain := by
  have hid : IdEquiv a b := by
    apply idEquiv_of ha hb hempty
    · rw [hra, hrb]; exact validDN_alias h ht
    · rw [hra, hrb]; intro x; simp only [attrsOf, flat_alias h]
  cases chain with
  | nil =>
    simp only [verifyIdentities_eq leafIndex_zero, specOf, spec, identities_ociInput, chain_ociInput, anyWild, anyMalformed, anyX509,
      leafValid, anyWithinLeaf, leafAttrs, leafOf, List.head?_nil, List.any_append, List.any_cons,
      hid.wild, hid.malformed, hid.x509]
    simp
  | cons leaf cas => exact verify_congr pre post a b leaf leaf cas cas hid ⟨rfl, fun _ => Iff.rfl⟩

/-- the alias itself: `S=v` and `ST=v` are the same attribute -/
theorem alias_S_ST (v : Text) : norm (['S'], v) = norm (['S', 'T'], v) := by
  simp [norm, aliasFrom, aliasTo]

/-! ### the whole property -/

theorem holds_append (a b : Clauses) : (a ++ b).holds = (a.holds && b.holds) := by
  simp [Clauses.holds, List.all_append]

theorem anyX509_of_anyWithinLeaf (i : Input) (h : anyWithinLeaf i = true) : anyX509 i = true := by
  simp only [anyWithinLeaf, anyX509, List.any_eq_true] at h ⊢
  obtain ⟨id, hid, hw⟩ := h
  refine ⟨id, hid, ?_⟩
  simp only [within, Bool.and_eq_true] at hw
  obtain ⟨val, hc, _, _⟩ := (usable_iff id).1 hw.1
  simp [isX509, x509Value, hc]

theorem holds_guarded (g : Bool) (cs : Clauses) : (guarded g cs).holds = (!g || cs.holds) := by
  induction cs with
  | nil => cases g <;> rfl
  | cons c cs ih =>
    obtain ⟨n, b⟩ := c
    simp only [guarded, List.map_cons] at ih ⊢
    rw [Clauses.holds_cons, Clauses.holds_cons, ih]
    cases g <;> cases b <;> simp

/-- **C04, the property relative to the rendered subject**: whenever the check is native, every
core clause is true of the model's behaviour, for all identity lists and chains, without any
assumption. -/
theorem model_holds_core (i : Input) (hn : nativeCheck i = true) : (coreClauses i (run i)).holds = true := by
  have hrun := run_eq_spec i hn
  have hax := anyX509_of_anyWithinLeaf i
  unfold coreClauses
  simp only [Clauses.holds_cons, Clauses.holds_nil, Bool.and_true, hrun]
  unfold spec
  generalize anyWild i = w
  generalize anyMalformed i = m
  generalize anyX509 i = x at hax
  generalize leafValid i = lv
  generalize anyWithinLeaf i = a at hax
  cases a
  · cases w <;> cases m <;> cases x <;> cases lv <;> rfl
  · rw [hax rfl]
    cases w <;> cases m <;> cases lv <;> rfl

theorem model_holds_minted (i : Input) (hn : nativeCheck i = true) (hwf : wf i = true) :
    (mintedClauses i (run i)).holds = true := by
  have hrun := run_eq_spec i hn
  have hmint : anyWithinLeaf i = true → i.identities.any (fun id => within id (mintedAttrs i)) = true := by
    intro h
    simp only [anyWithinLeaf, List.any_eq_true] at h ⊢
    obtain ⟨id, hid, hw⟩ := h
    refine ⟨id, hid, ?_⟩
    simp only [within, Bool.and_eq_true] at hw ⊢
    refine ⟨hw.1, ?_⟩
    have hw2 := mem_all_contains.1 hw.2
    apply mem_all_contains.2
    intro a ha
    simp only [wf] at hwf
    exact mem_all_contains.1 hwf a (hw2 a ha)
  unfold mintedClauses
  simp only [Clauses.holds_cons, Clauses.holds_nil, Bool.and_true, hrun]
  cases hs : spec i with
  | false => rfl
  | true =>
    cases hw : anyWild i with
    | true => rfl
    | false =>
      have : anyWithinLeaf i = true := by
        simp only [spec, hw, Bool.false_or, Bool.and_eq_true] at hs
        exact hs.2
      rw [hmint this]
      rfl

theorem model_holds_plugin (i : Input) : (pluginClauses i (run i)).holds = true := by
  unfold pluginClauses
  simp only [Clauses.holds_cons, Clauses.holds_nil, Bool.and_true]
  cases hr : refused i with
  | true =>
    have hp := plugin_without_capability_is_refused i hr
    have hn : nativeCheck i = false := by
      unfold refused at hr; unfold nativeCheck
      cases h : i.plugin with
      | none => rw [h] at hr; cases hr
      | some p => rw [h] at hr; simp only at hr; simp [hr]
    have hv : pluginVerdict i = false := by
      unfold refused at hr; unfold pluginVerdict
      cases h : i.plugin with
      | none => rw [h] at hr; cases hr
      | some p => rw [h] at hr; simp only at hr; simp [hr]
    simp [hp, hn, hv]
  | false =>
    cases hn : nativeCheck i with
    | true => rfl
    | false =>
      cases ha : applicable i with
      | none => simp
      | some s => simp [run, ha, process, hn]

theorem model_holds_statement (i : Input) : (statementClauses i (run i)).holds = true := by
  unfold statementClauses
  simp only [Clauses.holds_cons, Clauses.holds_nil, Bool.and_true]
  cases ha : applicable i with
  | none => simp [run, ha]
  | some s => simp

/-- **C04, the whole property**: every clause of `Holds` is true of the model's behaviour, for
all identity lists, chains and plugins, under the (decidable, per-case checked) assumption `wf`
on the trusted rendering: an interpretable leaf subject shows only attributes the certificate
was minted with. `wf` is itself the last clause, so the driver evaluates it on every case. -/
theorem model_holds (i : Input) (hwf : wf i = true) : Holds i (run i) = true := by
  unfold Holds clauses
  rw [holds_append, holds_append, holds_append, holds_guarded, holds_append, model_holds_plugin, model_holds_statement]
  have ha : (assumptionClauses i).holds = true := by
    simp [assumptionClauses, Clauses.holds_cons, Clauses.holds_nil, hwf]
  rw [ha]
  cases hn : nativeCheck i with
  | false => rfl
  | true => rw [model_holds_core i hn, model_holds_minted i hn hwf]; rfl

/-! ### non-vacuity -/

section examples

def C : Text := ['C']
def ST : Text := ['S', 'T']
def S : Text := ['S']
def O : Text := ['O']
def CN : Text := ['C', 'N']
def us : Text := ['U', 'S']
def wa : Text := ['W', 'A']
def org : Text := ['N']
def leafCN : Text := ['l']
def rootCN : Text := ['r']

/-- leaf `CN=l,O=N,ST=WA,C=US`, root `CN=r,O=N,ST=WA,C=US` -/
def exChain : List DN :=
  [ { text := ['l'], rdns := some [[(CN, leafCN)], [(O, org)], [(ST, wa)], [(C, us)]] },
    { text := ['r'], rdns := some [[(CN, rootCN)], [(O, org)], [(ST, wa)], [(C, us)]] } ]

def pfx : Text := ['x', '5', '0', '9', '.', 's', 'u', 'b', 'j', 'e', 'c', 't', ':']

/-- `x509.subject:<v>` with the given parse -/
def exId (v : Text) (rs : List (List Attr)) : Identity := { raw := pfx ++ v, rdns := some rs }

def minted : List Attr := [(CN, leafCN), (O, org), (ST, wa), (C, us)]

-- a permuted subset of the leaf subject written with the S alias passes
example : run (ociInput [exId ['a'] [[(C, us)], [(S, wa)], [(O, org)]]] exChain minted none)
    = { pass := true } := by decide
-- the root's subject does not
example : run (ociInput [exId ['a'] [[(CN, rootCN)], [(O, org)], [(ST, wa)], [(C, us)]]] exChain minted none)
    = { pass := false } := by decide
-- a superset of the leaf subject does not
example : run (ociInput [exId ['a'] [[(CN, leafCN)], [(O, org)], [(ST, wa)], [(C, us)], [(['L'], [])]]] exChain minted none)
    = { pass := false } := by decide
-- the lone wildcard does
example : run (ociInput [{ raw := ['*'], rdns := none }] exChain minted none)
    = { pass := true } := by decide
-- a list without any x509.subject identity does not
example : run (ociInput [{ raw := ['a', ':', 'b'], rdns := none }] exChain minted none)
    = { pass := false } := by decide
-- `Holds` rejects a wrong observation: passing on the strength of the root's subject
example : Holds (ociInput [exId ['a'] [[(CN, rootCN)], [(O, org)], [(ST, wa)], [(C, us)]]] exChain minted none)
    { pass := true } = false := by decide
-- ... and failing although a listed identity is within the leaf subject
example : Holds (ociInput [exId ['a'] [[(C, us)], [(ST, wa)], [(O, org)]]] exChain minted none)
    { pass := false } = false := by decide
example : Holds (ociInput [exId ['a'] [[(C, us)], [(ST, wa)], [(O, org)]]] exChain minted none)
    { pass := true } = true := by decide
example : wf (ociInput [] exChain minted none) = true := by decide
-- a revocation-only plugin changes nothing: the root's subject still does not pass ...
example : run (ociInput [exId ['a'] [[(CN, rootCN)], [(O, org)], [(ST, wa)], [(C, us)]]] exChain minted (some { capabilities := [capRevocationCheck], identitySuccess := true })) = { pass := false } := by decide
-- ... and `Holds` rejects an implementation that lets it pass
example : Holds (ociInput [exId ['a'] [[(CN, rootCN)], [(O, org)], [(ST, wa)], [(C, us)]]] exChain minted (some { capabilities := [capRevocationCheck], identitySuccess := true })) { pass := true } = false := by decide
-- a plugin owning the trusted-identity capability decides
example : run (ociInput [exId ['a'] [[(CN, rootCN)], [(O, org)], [(ST, wa)], [(C, us)]]] exChain minted (some { capabilities := [capTrustedIdentity, capRevocationCheck], identitySuccess := true })) = { pass := true } := by decide
example : Holds (ociInput [{ raw := ['*'], rdns := none }] exChain minted (some { capabilities := [capTrustedIdentity], identitySuccess := false })) { pass := true } = false := by decide

-- another letter case is another string: with the revocation capability next to it the check stays native ...
example : run (ociInput [exId ['a'] [[(CN, rootCN)], [(O, org)], [(ST, wa)], [(C, us)]]] exChain minted (some { capabilities := [capTrustedIdentity.map Char.toLower, capRevocationCheck], identitySuccess := true })) = { pass := false } := by decide
example : Holds (ociInput [exId ['a'] [[(CN, rootCN)], [(O, org)], [(ST, wa)], [(C, us)]]] exChain minted (some { capabilities := [capTrustedIdentity.map Char.toLower, capRevocationCheck], identitySuccess := true })) { pass := true } = false := by decide
-- ... and alone it is no verification capability at all: refused
example : run (ociInput [{ raw := ['*'], rdns := none }] exChain minted (some { capabilities := [capTrustedIdentity.map Char.toLower], identitySuccess := true })) = { pass := false } := by decide

end examples


/-! ### tie to the translated source

`extract/go2lean_c04.go` translates `pkix.IsSubsetDN`, `pkix.ParseDistinguishedName`
(internal/pkix/pkix.go) and `verifier.verifyX509TrustedIdentities` (verifier/verifier.go) into
Lean on every run (`Generated/SrcC04.lean`, `SrcC04c.lean`; the two constants of
internal/trustpolicy in `SrcC04b.lean`). The theorems below say that the translated functions
compute, for ALL inputs, what the hand-written model computes. Go strings are `String` there and
`List Char` in the model (`String.toList`); Go maps are association lists, and the statements hold
for every list, i.e. for every iteration order Go may choose. Oracles: go-ldap's `ParseDN` (a
parameter of the translated `ParseDistinguishedName`) and, in the verifier,
`pkix.ParseDistinguishedName` itself (instantiated with the translated one at the end). -/

namespace Tie
open NotationModel.Src

def toAttr (p : String × String) : Attr := (p.1.toList, p.2.toList)
/-- a Go `map[string]string` (association list of strings) as the model's map -/
def toMap (m : GoLite.Map String String) : AttrMap := m.map toAttr

theorem lookup_toMap (m : GoLite.Map String String) (k : String) :
    lookup k.toList (toMap m) = (GoLite.Map.get? m k).map String.toList := by
  induction m with
  | nil => rfl
  | cons a r ih =>
    obtain ⟨k', v⟩ := a
    simp only [toMap, List.map_cons, toAttr, lookup, GoLite.Map.get?, List.find?_cons] at ih ⊢
    by_cases h : k' = k
    · simp [h]
    · have h1 : ¬ k'.toList = k.toList := fun e => h (String.toList_inj.1 e)
      have h2 : (k' == k) = false := by simpa using h
      simp only [h1, if_false, h2]
      exact ih

/-- `got, ok := m[k]; !ok || got != v` is the negation of the model's presence test -/
theorem lookup_test (m : GoLite.Map String String) (k v : String) :
    (!(GoLite.Map.lookup m k).2 || (GoLite.Map.lookup m k).1 != v) =
      !present (fun got => got == v.toList) (lookup k.toList (toMap m)) := by
  rw [lookup_toMap]
  unfold GoLite.Map.lookup
  cases GoLite.Map.get? m k with
  | none => simp [present]
  | some g =>
    by_cases e : g = v
    · simp [present, e]
    · have h1 : (g != v) = true := by simpa using e
      have h2 : (g.toList == v.toList) = false := by
        simpa using (fun h => e (String.toList_inj.1 h) : ¬ g.toList = v.toList)
      simp [present, h1, h2]

theorem foldE_isSubset (dn1 dn2 : GoLite.Map String String) :
    (match GoLite.foldE (fun (_ : Unit) (x : String × String) =>
        if (!(GoLite.Map.lookup dn2 x.1).2 || (GoLite.Map.lookup dn2 x.1).1 != x.2) = true then Except.error () else Except.ok ()) dn1 () with
      | .ok _ => true
      | .error _ => false) = isSubset (toMap dn1) (toMap dn2) := by
  induction dn1 with
  | nil => simp [GoLite.foldE, isSubset, toMap]
  | cons a r ih =>
    have hs : isSubset (toMap (a :: r)) (toMap dn2) =
        (present (fun got => got == a.2.toList) (lookup a.1.toList (toMap dn2)) && isSubset (toMap r) (toMap dn2)) := rfl
    rw [hs, ← ih]
    simp only [GoLite.foldE]
    rw [lookup_test]
    cases h : present (fun got => got == a.2.toList) (lookup a.1.toList (toMap dn2)) <;> simp

/-- TIE: `pkix.IsSubsetDN` -/
theorem source_IsSubsetDN_refines_model (dn1 dn2 : GoLite.Map String String) :
    pkix.IsSubsetDN dn1 dn2 = isSubset (toMap dn1) (toMap dn2) := by
  unfold pkix.IsSubsetDN
  simp only [Id.run]
  -- the loop may return early or set a flag and break: two shapes of loop state
  first
    | rw [GoLite.forIn_eq_foldE' _ (fun (_ : Unit) (x : String × String) =>
        if (!(GoLite.Map.lookup dn2 x.1).2 || (GoLite.Map.lookup dn2 x.1).1 != x.2) = true then Except.error () else Except.ok ())
        (fun _ => (none, ())) (fun _ _ => (some false, ())) ?h dn1 _ () rfl]
    | rw [GoLite.forIn_eq_foldE' _ (fun (_ : Unit) (x : String × String) =>
        if (!(GoLite.Map.lookup dn2 x.1).2 || (GoLite.Map.lookup dn2 x.1).1 != x.2) = true then Except.error () else Except.ok ())
        (fun _ => true) (fun _ _ => false) ?h dn1 _ () rfl]
  case h =>
    intro x t
    (try (repeat' split)) <;> first | rfl | simp_all
  rw [← foldE_isSubset]
  simp only [pure_bind]
  (try (repeat' split)) <;> first | rfl | simp_all [GoLite.idPure]

example : pkix.IsSubsetDN [("C", "US"), ("O", "x")] [("O", "x"), ("CN", "y"), ("C", "US")] = true := by decide
example : pkix.IsSubsetDN [("C", "US"), ("L", "")] [("O", "x"), ("C", "US")] = false := by decide

/-! #### ParseDistinguishedName -/

/-- go-ldap's attribute as the model's -/
def toA (a : ldapv3.AttributeTypeAndValue) : Attr := (a.«Type».toList, a.Value.toList)
def toRdns (dn : ldapv3.DN) : List (List Attr) := dn.RDNs.map (fun r => r.Attributes.map toA)
/-- what the oracle `ldap.ParseDN` answered, as the model's input -/
def rdnsOf (r : Option ldapv3.DN × Option GoLite.Err) : Option (List (List Attr)) :=
  if r.2.isSome then none else some (toRdns (GoLite.deref r.1))

def goAlias (t : String) : String := if t == "S" then "ST" else t

/-- one round of the attribute loop on the Go map -/
def innerStep (m : GoLite.Map String String) (a : ldapv3.AttributeTypeAndValue) : Except Unit (GoLite.Map String String) :=
  if (GoLite.Map.lookup m (goAlias a.«Type»)).2 = true then .error ()
  else .ok (GoLite.Map.set m (goAlias a.«Type») a.Value)

/-- one round of the RDN loop -/
def outerStep (m : GoLite.Map String String) (rdn : ldapv3.RelativeDN) :
    Except (GoLite.Map String String) (GoLite.Map String String) :=
  if rdn.Attributes.length > 1 then .error m
  else match GoLite.foldE innerStep rdn.Attributes m with
    | .ok m' => .ok m'
    | .error (mf, _) => .error mf

abbrev PRes := Option (GoLite.Map String String) × Option GoLite.Err
abbrev absP (m : GoLite.Map String String) : Option PRes × GoLite.Map String String := (none, m)
abbrev stopP (m : GoLite.Map String String) (_ : Unit) : Option PRes × GoLite.Map String String :=
  (some (none, some (GoLite.errorf "")), m)
/-- the RDN loop stops with the map as it was when the error occurred -/
abbrev stopO (_ : GoLite.Map String String) (mf : GoLite.Map String String) : Option PRes × GoLite.Map String String :=
  (some (none, some (GoLite.errorf "")), mf)

theorem alias_toList (t : String) :
    (goAlias t).toList = (if t.toList = aliasFrom then aliasTo else t.toList) := by
  unfold goAlias
  by_cases h : t = "S"
  · subst h; rfl
  · have h1 : (t == "S") = false := by simpa using h
    have h2 : ¬ t.toList = aliasFrom := by
      intro e; apply h; apply String.toList_inj.1; rw [e]; rfl
    simp [h1, h2]

theorem norm_toA (a : ldapv3.AttributeTypeAndValue) :
    norm (toA a) = ((goAlias a.«Type»).toList, a.Value.toList) := by
  unfold norm toA
  simp only [alias_toList]

theorem toMap_set_absent (m : GoLite.Map String String) (k v : String) (h : GoLite.Map.get? m k = none) :
    toMap (GoLite.Map.set m k v) = toMap m ++ [(k.toList, v.toList)] := by
  have : m.any (fun p => p.1 == k) = false := by
    rw [List.any_eq_false]
    intro p hp hpk
    simp only [GoLite.Map.get?, Option.map_eq_none_iff, List.find?_eq_none] at h
    exact h p hp hpk
  simp [GoLite.Map.set, this, toMap, toAttr]

theorem innerStep_none {m : GoLite.Map String String} {a : ldapv3.AttributeTypeAndValue}
    (h : GoLite.Map.get? m (goAlias a.«Type») = none) :
    innerStep m a = .ok (GoLite.Map.set m (goAlias a.«Type») a.Value) := by
  simp [innerStep, GoLite.Map.lookup, h]

theorem innerStep_some {m : GoLite.Map String String} {a : ldapv3.AttributeTypeAndValue} {g : String}
    (h : GoLite.Map.get? m (goAlias a.«Type») = some g) : innerStep m a = .error () := by
  simp [innerStep, GoLite.Map.lookup, h]

theorem foldE_inner (attrs : List ldapv3.AttributeTypeAndValue) : ∀ m : GoLite.Map String String,
    (match GoLite.foldE innerStep attrs m with
      | .ok m' => some (toMap m')
      | .error _ => none) = addAttrs (attrs.map toA) (toMap m) := by
  induction attrs with
  | nil => intro m; simp [GoLite.foldE, addAttrs]
  | cons a r ih =>
    intro m
    simp only [GoLite.foldE, List.map_cons, addAttrs, norm_toA, lookup_toMap]
    rcases Option.eq_none_or_eq_some (GoLite.Map.get? m (goAlias a.«Type»)) with hg | ⟨g, hg⟩
    · rw [innerStep_none hg, hg]
      simp only [Option.map_none]
      rw [← toMap_set_absent m _ _ hg]
      exact ih _
    · rw [innerStep_some hg, hg]
      simp

theorem foldE_outer (rdns : List ldapv3.RelativeDN) : ∀ m : GoLite.Map String String,
    (match GoLite.foldE outerStep rdns m with
      | .ok m' => some (toMap m')
      | .error _ => none) = addRDNs (rdns.map (fun r => r.Attributes.map toA)) (toMap m) := by
  induction rdns with
  | nil => intro m; simp [GoLite.foldE, addRDNs]
  | cons r rs ih =>
    intro m
    simp only [GoLite.foldE, List.map_cons, addRDNs, outerStep, List.length_map, maxAttrs]
    by_cases hl : r.Attributes.length > 1
    · simp [hl]
    · simp only [hl, if_false]
      rw [← foldE_inner]
      cases GoLite.foldE innerStep r.Attributes m with
      | ok m' => simpa using ih m'
      | error e => simp

/-- `attrKeyValue[field] == ""` -/
theorem get_empty_test (m : GoLite.Map String String) (k : String) :
    (GoLite.Map.get m k == "") = !present (fun v => !v.isEmpty) (lookup k.toList (toMap m)) := by
  rw [lookup_toMap]
  unfold GoLite.Map.get GoLite.Map.lookup
  cases GoLite.Map.get? m k with
  | none => simp [present]
  | some g =>
    by_cases e : g = ""
    · subst e; simp [present]
    · have h1 : (g == "") = false := by simpa using e
      have h2 : g.toList ≠ [] := by
        intro h; apply e; apply String.toList_inj.1; rw [h]; rfl
      cases hl : g.toList with
      | nil => exact absurd hl h2
      | cons c r => simp [present, h1, hl]

def mandStep (m : GoLite.Map String String) (_ : Unit) (field : String) : Except Unit Unit :=
  if (GoLite.Map.get m field == "") = true then .error () else .ok ()

theorem foldE_mand (m : GoLite.Map String String) (fields : List String) :
    (match GoLite.foldE (mandStep m) fields () with
      | .ok _ => true
      | .error _ => false) =
      fields.all (fun f => present (fun v => !v.isEmpty) (lookup f.toList (toMap m))) := by
  induction fields with
  | nil => simp [GoLite.foldE]
  | cons f fs ih =>
    simp only [GoLite.foldE, mandStep, List.all_cons, get_empty_test]
    cases present (fun v => !v.isEmpty) (lookup f.toList (toMap m)) with
    | true => simpa [mandStep] using ih
    | false => simp

theorem foldE_mand_eq (m : GoLite.Map String String) (fields : List String) :
    GoLite.foldE (mandStep m) fields () =
      if fields.all (fun f => present (fun v => !v.isEmpty) (lookup f.toList (toMap m))) = true then .ok ()
      else .error ((), ()) := by
  have h := foldE_mand m fields
  cases hf : GoLite.foldE (mandStep m) fields () with
  | ok u => rw [hf] at h; simp [← h]
  | error p => rw [hf] at h; simp [← h]

def shapeP (r : PRes) : Option AttrMap × Bool := (r.1.map toMap, r.2.isSome)
def ofModelP : Option AttrMap → Option AttrMap × Bool
  | some m => (some m, false)
  | none => (none, true)

theorem hasInfixL_eq (p : List Char) (s : List Char) : strings.hasInfixL p s = hasInfix p s := by
  induction s with
  | nil => rfl
  | cons c r ih => simp [strings.hasInfixL, hasInfix, ih]

theorem source_ParseDistinguishedName_refines_model
    (ldapParseDN : String → Option ldapv3.DN × Option GoLite.Err) (name : String) :
    shapeP (pkix.ParseDistinguishedName ldapParseDN name) =
      ofModelP (parseDN name.toList (rdnsOf (ldapParseDN name))) := by
  unfold pkix.ParseDistinguishedName
  simp only [Id.run]
  unfold parseDN rdnsOf
  have hinf : strings.Contains name "=#" = hasInfix unsupported name.toList := by
    unfold strings.Contains; rw [hasInfixL_eq]; rfl
  rw [hinf]
  by_cases h1 : hasInfix unsupported name.toList = true
  · simp [h1, shapeP, ofModelP, GoLite.idPure]
  · simp only [h1, Bool.false_eq_true, if_false]
    by_cases h2 : (ldapParseDN name).2.isSome = true
    · simp [h2, shapeP, ofModelP, GoLite.idPure]
    · simp only [h2, Bool.false_eq_true, if_false]
      rw [GoLite.forIn_eq_foldE' _ outerStep absP stopO ?h _ _ [] rfl]
      case h =>
        intro rdn m
        by_cases hl : rdn.Attributes.length > 1
        · have hd : decide (GoLite.len rdn.Attributes > 1) = true := by simp [GoLite.len]; omega
          simp [hd, outerStep, hl, absP, stopO, GoLite.errorf]
        · have hd : decide (GoLite.len rdn.Attributes > 1) = false := by simp [GoLite.len]; omega
          simp only [hd, Bool.false_eq_true, if_false]
          rw [GoLite.forIn_eq_foldE' _ innerStep absP stopP ?hi rdn.Attributes _ m rfl]
          case hi =>
            intro a m'
            unfold innerStep goAlias
            (try (repeat' split)) <;> first | rfl | simp_all [GoLite.errorf, eq_comm (a := "S")]
          simp only [outerStep, hl, if_false, pure_bind]
          cases GoLite.foldE innerStep rdn.Attributes m with
          | ok m' => rfl
          | error p => simp [stopP, stopO, GoLite.errorf]
      simp only [pure_bind]
      have ho := foldE_outer (GoLite.deref (ldapParseDN name).fst).RDNs []
      have ht : toMap ([] : GoLite.Map String String) = [] := rfl
      rw [ht] at ho
      unfold toRdns
      rw [← ho]
      cases GoLite.foldE outerStep (GoLite.deref (ldapParseDN name).fst).RDNs [] with
      | error p => simp [stopO, shapeP, ofModelP, GoLite.idPure]
      | ok m' =>
        simp only [absP]
        rw [GoLite.forIn_eq_foldE' _ (mandStep m') (fun _ => (none, ())) (fun _ _ => (some (none, some (GoLite.errorf "")), ())) ?hm _ _ () rfl]
        case hm =>
          intro f t
          unfold mandStep
          (try (repeat' split)) <;> first | rfl | simp_all [GoLite.errorf, eq_comm (a := "")]
        simp only [pure_bind, foldE_mand_eq]
        have e1 : "C".toList = ['C'] := rfl
        have e2 : "ST".toList = ['S', 'T'] := rfl
        have e3 : "O".toList = ['O'] := rfl
        simp only [mandatoryPresent, mandatory, List.all_cons, List.all_nil, e1, e2, e3, Bool.and_true]
        cases present (fun v => !v.isEmpty) (lookup ['C'] (toMap m')) <;>
          cases present (fun v => !v.isEmpty) (lookup ['S', 'T'] (toMap m')) <;>
          cases present (fun v => !v.isEmpty) (lookup ['O'] (toMap m')) <;>
          simp [shapeP, ofModelP, GoLite.idPure, GoLite.errorf]

example : (pkix.ParseDistinguishedName (fun _ => (some { RDNs := [{ Attributes := [{ «Type» := "C", Value := "US" }] },
    { Attributes := [{ «Type» := "S", Value := "WA" }] }, { Attributes := [{ «Type» := "O", Value := "x" }] }] }, none)) "C=US,S=WA,O=x").1
    = some [("C", "US"), ("ST", "WA"), ("O", "x")] := by decide


/-! #### verifyX509TrustedIdentities -/

theorem beq_toList (s t : String) : (s.toList == t.toList) = (s == t) := by
  by_cases h : s = t
  · subst h; simp
  · have : ¬ s.toList = t.toList := fun e => h (String.toList_inj.1 e)
    rw [beq_eq_false_iff_ne.2 h, beq_eq_false_iff_ne.2 this]

theorem isEmpty_toList (s : String) : s.toList.isEmpty = (s == "") := by
  by_cases h : s = ""
  · subst h; rfl
  · have h1 : (s == "") = false := by simpa using h
    cases hl : s.toList with
    | nil => exfalso; apply h; apply String.toList_inj.1; rw [hl]; rfl
    | cons c r => simp [h1]

theorem cut_eq (l : List Char) :
    cut l = if l.contains ':' then some (l.takeWhile (· != ':'), (l.dropWhile (· != ':')).drop 1) else none := by
  induction l with
  | nil => rfl
  | cons c r ih =>
    simp only [cut, separator]
    by_cases h : c = ':'
    · subst h; simp
    · have h1 : (c != ':') = true := by simpa using h
      have h2 : (':' == c) = false := by
        cases hh : (':' == c) with
        | false => rfl
        | true => simp at hh; exact absurd hh.symm h
      simp only [h, if_false, ih, List.contains_cons, h2, Bool.false_or, List.takeWhile_cons, h1, if_true,
        List.dropWhile_cons]
      by_cases hr : ':' ∈ r
      · have hr' : r.contains ':' = true := by simpa using hr
        simp [hr, hr']
      · have hr' : r.contains ':' = false := by simpa using hr
        simp [hr, hr']

/-- `strings.Cut(s, ":")` and the model's `cut` -/
theorem cut_src (s : String) :
    cut s.toList = if (GoLite.cut s (Char.ofNat 58)).2.2 = true
      then some ((GoLite.cut s (Char.ofNat 58)).1.toList, (GoLite.cut s (Char.ofNat 58)).2.1.toList) else none := by
  have hc : Char.ofNat 58 = ':' := rfl
  rw [cut_eq, hc]
  unfold GoLite.cut
  by_cases h : s.toList.contains ':' = true
  · have h' : ':' ∈ s.toList := by simpa using h
    simp [h', String.toList_ofList]
  · have h' : ¬ ':' ∈ s.toList := by simpa using h
    simp [h']

/-- the oracle `pkix.ParseDistinguishedName`, seen from the model: an error, or the parsed map -/
def ofP (r : GoLite.Map String String × Option GoLite.Err) : Option AttrMap :=
  if r.2.isSome then none else some (toMap r.1)

variable (P : String → GoLite.Map String String × Option GoLite.Err)
variable (R : String → Option (List (List Attr)))

/-- an identity string of the policy as the model's input -/
def mkId (s : String) : Identity := { raw := s.toList, rdns := R (GoLite.cut s (Char.ofNat 58)).2.1 }
/-- a certificate as the model's input -/
def mkDN (c : x509.Certificate) : DN := { text := c.Subject.text.toList, rdns := R c.Subject.text }

/-- one round of the identity loop, on the Go values -/
def idStep (acc : List (GoLite.Map String String)) (s : String) :
    Except (Option GoLite.Err) (List (GoLite.Map String String)) :=
  if (GoLite.cut s (Char.ofNat 58)).2.2 = false then .error (some (GoLite.errorf ""))
  else if (GoLite.cut s (Char.ofNat 58)).1 == "x509.subject" then
    if (GoLite.cut s (Char.ofNat 58)).2.1 == "" then .error (some (GoLite.errorf ""))
    else if (P (GoLite.cut s (Char.ofNat 58)).2.1).2.isSome = true then .error (P (GoLite.cut s (Char.ofNat 58)).2.1).2
    else .ok (acc ++ [(P (GoLite.cut s (Char.ofNat 58)).2.1).1])
  else .ok acc

theorem idStep_error_isSome {acc : List (GoLite.Map String String)} {s : String} {e : Option GoLite.Err}
    (h : idStep P acc s = .error e) : e.isSome = true := by
  unfold idStep at h
  (repeat' split at h) <;> simp_all
  all_goals (subst h; simp_all)

theorem foldE_error_isSome (ids : List String) : ∀ (acc a : List (GoLite.Map String String)) (e : Option GoLite.Err),
    GoLite.foldE (idStep P) ids acc = .error (a, e) → e.isSome = true := by
  induction ids with
  | nil => intro acc a e h; simp [GoLite.foldE] at h
  | cons s r ih =>
    intro acc a e h
    simp only [GoLite.foldE] at h
    cases hs : idStep P acc s with
    | ok acc' => rw [hs] at h; exact ih _ _ _ h
    | error e' =>
      rw [hs] at h
      simp only [Except.error.injEq, Prod.mk.injEq] at h
      rw [← h.2]; exact idStep_error_isSome P hs

theorem foldE_collect (hP : ∀ s, ofP (P s) = parseDN s.toList (R s)) (ids : List String) :
    ∀ acc : List (GoLite.Map String String),
    (match GoLite.foldE (idStep P) ids acc with
      | .ok acc' => some (acc'.map toMap)
      | .error _ => none) = collect (ids.map (mkId R)) (acc.map toMap) := by
  induction ids with
  | nil => intro acc; simp [GoLite.foldE, collect]
  | cons s r ih =>
    intro acc
    have hx : x509Subject = "x509.subject".toList := rfl
    simp only [GoLite.foldE, List.map_cons, collect, mkId, cut_src, idStep]
    by_cases hf : (GoLite.cut s (Char.ofNat 58)).2.2 = true
    · simp only [hf, if_true, Bool.true_eq_false, if_false, hx, String.toList_inj, isEmpty_toList]
      by_cases hp : (GoLite.cut s (Char.ofNat 58)).1 = "x509.subject"
      · have hp' : ((GoLite.cut s (Char.ofNat 58)).1 == "x509.subject") = true := by simpa using hp
        simp only [hp, hp', if_true]
        by_cases he : ((GoLite.cut s (Char.ofNat 58)).2.1 == "") = true
        · simp [he]
        · simp only [he, Bool.false_eq_true, if_false]
          rw [← hP]
          unfold ofP
          by_cases hs : (P (GoLite.cut s (Char.ofNat 58)).2.1).2.isSome = true
          · simp [hs]
          · simp only [hs, Bool.false_eq_true, if_false]
            have := ih (acc ++ [(P (GoLite.cut s (Char.ofNat 58)).2.1).1])
            simpa using this
      · have hp' : ((GoLite.cut s (Char.ofNat 58)).1 == "x509.subject") = false := by simpa using hp
        simp only [hp, hp', Bool.false_eq_true, if_false]
        exact ih acc
    · have hf' : (GoLite.cut s (Char.ofNat 58)).2.2 = false := by simpa using hf
      simp [hf']

/-- one round of the final matching loop -/
def matchStep (l : GoLite.Map String String) (_ : Unit) (m : GoLite.Map String String) : Except Unit Unit :=
  if pkix.IsSubsetDN m l = true then .error () else .ok ()

theorem foldE_match (l : GoLite.Map String String) (ms : List (GoLite.Map String String)) :
    (match GoLite.foldE (matchStep l) ms () with
      | .ok _ => false
      | .error _ => true) = (ms.map toMap).any (fun m => isSubset m (toMap l)) := by
  induction ms with
  | nil => simp [GoLite.foldE]
  | cons m r ih =>
    simp only [GoLite.foldE, matchStep, List.map_cons, List.any_cons, source_IsSubsetDN_refines_model]
    cases isSubset (toMap m) (toMap l) with
    | true => simp
    | false => simpa [matchStep, source_IsSubsetDN_refines_model] using ih

theorem wildcard_src (ids : List String) :
    GoLite.contains ids trustpolicyInternal.Wildcard = (ids.map (mkId R)).any (fun id => id.raw == wildcard) := by
  have hw : wildcard = trustpolicyInternal.Wildcard.toList := rfl
  induction ids with
  | nil => rfl
  | cons s r ih =>
    simp only [GoLite.contains, List.contains_cons, List.map_cons, List.any_cons, mkId, hw, beq_toList] at ih ⊢
    rw [← ih]
    congr 1
    exact Bool.beq_comm

/-- TIE (translated source): `verifier.verifyX509TrustedIdentities` returns no error exactly when
the model's `verifyIdentities` says so - for every identity list, every non-empty chain and every
`ParseDistinguishedName` oracle `P` that behaves like the model's `parseDN` on what go-ldap
answered (`R`). -/
theorem source_verifyX509TrustedIdentities_refines_model
    (hP : ∀ s, ofP (P s) = parseDN s.toList (R s))
    (policyName : String) (ids : List String) (certs : List x509.Certificate) (hc : certs ≠ []) :
    (verifier.verifyX509TrustedIdentities P policyName ids certs).isNone =
      verifyIdentities (ids.map (mkId R)) (certs.map (mkDN R)) := by
  unfold verifier.verifyX509TrustedIdentities
  simp only [Id.run]
  unfold verifyIdentities
  rw [wildcard_src R]
  by_cases hw : (ids.map (mkId R)).any (fun id => id.raw == wildcard) = true
  · simp [hw, GoLite.idPure]
  · simp only [hw, Bool.false_eq_true, if_false]
    have hd : (default : List (GoLite.Map String String)) = [] := rfl
    rw [hd]
    rw [GoLite.forIn_eq_foldE' _ (idStep P) (fun acc => (none, acc)) (fun acc e => (some e, acc)) ?h _ _ [] rfl]
    case h =>
      intro s acc
      unfold idStep
      have hx : trustpolicyInternal.X509Subject = "x509.subject" := rfl
      (try (repeat' split)) <;> first | rfl | simp_all [GoLite.errorf, eq_comm (a := "x509.subject"), eq_comm (a := "")]
    simp only [pure_bind]
    have hcol := foldE_collect P R hP ids []
    simp only [List.map_nil] at hcol
    rw [← hcol]
    cases hf : GoLite.foldE (idStep P) ids [] with
    | error p =>
      obtain ⟨a, e⟩ := p
      have := foldE_error_isSome P ids [] a e hf
      cases e with
      | none => simp at this
      | some e' => simp [GoLite.idPure]
    | ok acc =>
      simp only
      cases acc with
      | nil => simp [GoLite.idPure, GoLite.len]
      | cons m0 ms =>
        have hlen : (GoLite.len (m0 :: ms) == 0) = false := by simp [GoLite.len]; omega
        have hlen1 : decide (GoLite.len (m0 :: ms) < 1) = false := by simp [GoLite.len]; try omega
        have hlen2 : decide (GoLite.len (m0 :: ms) ≤ 0) = false := by simp [GoLite.len]; try omega
        have hlen3 : ((0 : Int) == GoLite.len (m0 :: ms)) = false := by simp [GoLite.len]; try omega
        simp only [hlen, hlen1, hlen2, hlen3, Bool.false_eq_true, if_false, List.map_cons]
        obtain ⟨c0, cs, rfl⟩ : ∃ c0 cs, certs = c0 :: cs := by
          cases certs with
          | nil => exact absurd rfl hc
          | cons c0 cs => exact ⟨c0, cs, rfl⟩
        have hidx : GoLite.idx (c0 :: cs) 0 = c0 := rfl
        have hleaf : (List.map (mkDN R) (c0 :: cs))[leafIndex]? = some (mkDN R c0) := rfl
        rw [hidx, hleaf]
        simp only [mkDN, pkix.Name.String]
        rw [← hP]
        unfold ofP
        by_cases hs : (P c0.Subject.text).2.isSome = true
        · simp [hs, GoLite.idPure]
        · simp only [hs, Bool.false_eq_true, if_false]
          rw [GoLite.forIn_eq_foldE' _ (matchStep (P c0.Subject.text).1) (fun _ => (none, ())) (fun _ _ => (some none, ())) ?hm _ _ () rfl]
          case hm =>
            intro m t
            unfold matchStep
            (try (repeat' split)) <;> first | rfl | simp_all
          have hmt := foldE_match (P c0.Subject.text).1 (m0 :: ms)
          simp only [List.map_cons] at hmt
          rw [← hmt]
          simp only [pure_bind]
          cases GoLite.foldE (matchStep (P c0.Subject.text).1) (m0 :: ms) () with
          | ok u => simp [GoLite.idPure]
          | error p => simp [GoLite.idPure]


/-! #### the two ties composed: only go-ldap's ParseDN is left as an oracle -/

/-- the translated `ParseDistinguishedName` as the verifier's oracle (a nil map reads as empty) -/
def pdnOf (L : String → Option ldapv3.DN × Option GoLite.Err) (s : String) :
    GoLite.Map String String × Option GoLite.Err :=
  ((pkix.ParseDistinguishedName L s).1.getD [], (pkix.ParseDistinguishedName L s).2)

theorem pdnOf_spec (L : String → Option ldapv3.DN × Option GoLite.Err) (s : String) :
    ofP (pdnOf L s) = parseDN s.toList (rdnsOf (L s)) := by
  have h := source_ParseDistinguishedName_refines_model L s
  unfold shapeP at h
  unfold ofP pdnOf
  cases hm : parseDN s.toList (rdnsOf (L s)) with
  | none =>
    rw [hm] at h
    simp only [ofModelP, Prod.mk.injEq] at h
    simp [h.2]
  | some m =>
    rw [hm] at h
    simp only [ofModelP, Prod.mk.injEq] at h
    cases h1 : (pkix.ParseDistinguishedName L s).1 with
    | none => rw [h1] at h; simp at h
    | some x =>
      rw [h1] at h
      simp only [Option.map_some, Option.some.injEq] at h
      simp [h.2, h.1]

/-- TIE, end to end: the translated `verifyX509TrustedIdentities`, calling the translated
`ParseDistinguishedName` and `IsSubsetDN`, accepts exactly when the model's `verifyIdentities`
does, whatever go-ldap's `ParseDN` (`L`) answers. -/
theorem source_identity_check_refines_model (L : String → Option ldapv3.DN × Option GoLite.Err)
    (policyName : String) (ids : List String) (certs : List x509.Certificate) (hc : certs ≠ []) :
    (verifier.verifyX509TrustedIdentities (pdnOf L) policyName ids certs).isNone =
      verifyIdentities (ids.map (mkId (fun s => rdnsOf (L s)))) (certs.map (mkDN (fun s => rdnsOf (L s)))) :=
  source_verifyX509TrustedIdentities_refines_model (pdnOf L) (fun s => rdnsOf (L s)) (pdnOf_spec L) policyName ids certs hc

/-- non-vacuity: the translated functions run -/
example : pkix.IsSubsetDN [("C", "US"), ("O", "x")] [("O", "x"), ("CN", "y"), ("C", "US")] = true := by decide
example : pkix.IsSubsetDN [("C", "US"), ("L", "")] [("O", "x"), ("C", "US")] = false := by decide

/-- a stand-in for go-ldap on three fixed strings -/
def exL (s : String) : Option ldapv3.DN × Option GoLite.Err :=
  let dn (l : List (String × String)) : Option ldapv3.DN := some { RDNs := l.map (fun p => { Attributes := [{ «Type» := p.1, Value := p.2 }] }) }
  if s == "C=US,S=WA,O=x" then (dn [("C", "US"), ("S", "WA"), ("O", "x")], none)
  else if s == "CN=l,O=x,ST=WA,C=US" then (dn [("CN", "l"), ("O", "x"), ("ST", "WA"), ("C", "US")], none)
  else if s == "CN=r,O=x,ST=WA,C=US" then (dn [("CN", "r"), ("O", "x"), ("ST", "WA"), ("C", "US")], none)
  else (none, some (GoLite.errorf ""))

example : (pkix.ParseDistinguishedName exL "C=US,S=WA,O=x").1 = some [("C", "US"), ("ST", "WA"), ("O", "x")] := by decide
example : (verifier.verifyX509TrustedIdentities (pdnOf exL) "p" ["x509.subject:C=US,S=WA,O=x"]
    [{ Subject := { text := "CN=l,O=x,ST=WA,C=US" } }, { Subject := { text := "CN=r,O=x,ST=WA,C=US" } }]).isNone = true := by decide
example : (verifier.verifyX509TrustedIdentities (pdnOf exL) "p" ["x509.subject:CN=r,O=x,ST=WA,C=US"]
    [{ Subject := { text := "CN=l,O=x,ST=WA,C=US" } }, { Subject := { text := "CN=r,O=x,ST=WA,C=US" } }]).isNone = false := by decide
example : (verifier.verifyX509TrustedIdentities (pdnOf exL) "p" ["*"] [{ Subject := { text := "whatever" } }]).isNone = true := by decide

end Tie

end NotationModel.C04

/- C16 - property theorems (stub: not built yet) -/
import NotationModel.Model.C16

namespace NotationModel.C16

end NotationModel.C16

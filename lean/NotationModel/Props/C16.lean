/-
C16 - A plugin name can never reach outside the plugin directory.
Property theorems; the model is in `Model/C16.lean`, path lemmas in `Lemmas/C16Path.lean`.

Reading guide:
* `facts_*`            decidable obligations on the facts extracted from the Go source
                       (guards present and first, rule of `validatePluginName`, prefix, data flow);
* `valid_is_single_component`, `comps_dirPath`, `comps_exePath`, `valid_name_confined`
                       a validated name is one component and leads to `<root>/<name>` /
                       `<root>/<name>/notation-<name>` - all strings, all roots;
* `invalid_name_no_effect`   a rejected name gives an error and the empty effect log;
* `guard_is_necessary` without validation the same path functions do leave the root;
* `list_real_dirs`     the listing is exactly the real sub-directories of the root;
* `Tie.source_*_refines_model`  the Lean translations of `validatePluginName`, `binName`,
                       `parsePluginName`, `CLIManager.Get`, `CLIManager.Uninstall` (regenerated from the Go
                       source on every run, `Generated/SrcC16.lean`) compute what the model computes;
* `physRoot_of_no_link_on_way`, `linked_root_confined`, `linked_root_listing`
                       a plugin root that is (or lies behind) a symbolic link: the operations work in the
                       directory the links lead to; links that are not on the root's way do not matter;
* `model_holds`        every clause of `Holds` for every input (worlds with symbolic links - to files,
                       to directories, to executables, dangling - anywhere, in particular inside a
                       left-over `<root>/<name>`, included).
-/
import NotationModel.Lemmas.C16Path
import NotationModel.Lemmas.C16Rel
import NotationModel.Generated.SrcC16
set_option linter.unusedSimpArgs false
set_option linter.unusedVariables false

namespace NotationModel.C16

/-! ### obligations on the extracted facts (re-checked whenever the Go source changes) -/

/-- the three entry points validate the name before anything else uses it -/
theorem facts_guards :
    Facts.c16GetValidatesFirst = true ∧ Facts.c16UninstallValidatesFirst = true ∧
    Facts.c16InstallValidatesBeforeUse = true := by decide

/-- `SysPath` and the verifier's hand-over have the shape the model gives them. (That the validated
variable is the one the path is built from, and the shapes of `binName` / `parsePluginName`, are no
longer taken from syntactic facts: section `Tie` proves them of the translated source.) -/
theorem facts_flow :
    Facts.c16SysPathIsJoinUnderRoot = true ∧ Facts.c16VerifierPassesAttributeToGet = true := by decide

/-- the rule of `validatePluginName` refuses the empty name, `.`, `..`, and every name with a
separator (`/`; `\` for Windows, where `filepath` treats it as one) or a NUL -/
theorem facts_rule :
    ([] : Text) ∈ Facts.c16SpecialNames ∧ dot ∈ Facts.c16SpecialNames ∧ dotdot ∈ Facts.c16SpecialNames ∧
    '/' ∈ Facts.c16ForbiddenChars ∧ '\x00' ∈ Facts.c16ForbiddenChars ∧ '\\' ∈ Facts.c16ForbiddenChars := by decide

/-- ... and nothing else that an ordinary name could be or contain -/
theorem facts_rule_not_excessive :
    Facts.c16SpecialNames.all (fun s => !plainName s) = true ∧
    Facts.c16ForbiddenChars.all (fun c => !plainChar c) = true := by decide

/-- the execute bit of a candidate is only set after its name was accepted -/
theorem facts_chmod_after_validation : Facts.c16SetExecutableAfterValidation = true := by decide

theorem facts_prefix : Facts.c16BinaryPrefix = ['n', 'o', 't', 'a', 't', 'i', 'o', 'n', '-'] := by decide

/-! ### names -/

theorem valid_good (n : Text) (h : validName n = true) : Good n := by
  obtain ⟨f1, f2, f3, f4, _, _⟩ := facts_rule
  simp only [validName, Bool.and_eq_true, Bool.not_eq_true', List.contains_eq_mem, List.any_eq_false,
    decide_eq_false_iff_not, decide_eq_true_eq] at h
  obtain ⟨h1, h2⟩ := h
  refine ⟨?_, ?_, ?_, ?_⟩
  · intro e; exact h1 (e ▸ f1)
  · intro e; exact h1 (e ▸ f2)
  · intro e; exact h1 (e ▸ f3)
  · intro e; exact h2 '/' e f4

/-- **a validated name is a single path component** -/
theorem valid_is_single_component (n : Text) (h : validName n = true) : singleComponent n = true := by
  obtain ⟨_, _, _, _, f5, _⟩ := facts_rule
  have g := valid_good n h
  simp only [validName, Bool.and_eq_true, Bool.not_eq_true', List.contains_eq_mem, List.any_eq_false,
    decide_eq_false_iff_not, decide_eq_true_eq] at h
  have h0 : '\x00' ∉ n := fun e => h.2 _ e f5
  simp [singleComponent, g.1, g.2.1, g.2.2.1, g.2.2.2, h0]

theorem binName_good (n : Text) (h : Good n) : Good (binName n) := by
  simp only [binName, facts_prefix]
  refine ⟨by simp, by simp [dot], by simp [dotdot], ?_⟩
  intro e
  rcases List.mem_append.1 e with e | e
  · revert e; decide
  · exact h.2.2.2 e

theorem join_good (items : List Text) (hne : items ≠ []) (h : ∀ x ∈ items, Good x) :
    join items = joinSlash items := by
  have hf : items.filter (fun e => !e.isEmpty) = items := by
    apply List.filter_eq_self.2
    intro x hx
    have := (h x hx).1
    cases x with
    | nil => exact absurd rfl this
    | cons => rfl
  have hq := joinSlash_good_ne_nil items hne h
  have hr := joinSlash_good_not_rooted items hne h
  have hs := splitSlash_joinSlash items hne (fun x hx => (h x hx).2.2.2)
  have hn : normComps false items = items := by
    have := normComps_append_good false [] items h
    simpa [normComps] using this
  unfold join
  rw [hf]
  cases items with
  | nil => exact absurd rfl hne
  | cons a r =>
    simp only [clean, hq, if_false, hr, hs, hn, Bool.false_eq_true]
    simp

/-- **where a validated name leads**: for every root string, `Uninstall` / `Install` work on the
path whose components are those of the cleaned root followed by exactly `[name]`, and `Get`
looks at the cleaned root followed by exactly `[name, "notation-" ++ name]`. -/
theorem comps_dirPath (root n : Text) (h : validName n = true) :
    comps (dirPath root n) = rootComps root ++ [n] := by
  have g := valid_good n h
  have := comps_sysPath root [n] (by simp) (by simpa using g)
  simpa [dirPath, joinSlash] using this

theorem comps_exePath (root n : Text) (h : validName n = true) :
    comps (exePath root n) = rootComps root ++ [n, binName n] := by
  have g := valid_good n h
  have hall : ∀ x ∈ [n, binName n], Good x := by
    intro x hx
    simp at hx
    rcases hx with e | e
    · exact e ▸ g
    · exact e ▸ binName_good n g
  have := comps_sysPath root [n, binName n] (by simp) hall
  rw [exePath, join_good _ (by simp) hall]
  exact this


/-! ### helper lemmas for `model_holds` -/

theorem mem_insertText (a x : Text) : ∀ l, x ∈ insertText a l ↔ x = a ∨ x ∈ l
  | [] => by simp [insertText]
  | b :: r => by
    simp only [insertText]
    split
    · simp
    · simp [mem_insertText a x r]; constructor
      · rintro (h | h | h) <;> simp [h]
      · rintro (h | h | h) <;> simp [h]

theorem mem_sortTexts (x : Text) : ∀ l, x ∈ sortTexts l ↔ x ∈ l
  | [] => by simp [sortTexts]
  | a :: r => by simp [sortTexts, mem_insertText, mem_sortTexts x r]

theorem all_sortTexts (p : Text → Bool) (l : List Text) : (sortTexts l).all p = l.all p := by
  rw [Bool.eq_iff_iff]
  simp [List.all_eq_true, mem_sortTexts]

theorem lookup_some {fs : List Node} {p : Text} {n : Node} (h : lookup fs p = some n) :
    n ∈ fs ∧ comps n.path = comps p := by
  unfold lookup at h
  refine ⟨List.mem_of_find?_eq_some h, ?_⟩
  have := List.find?_some h
  simpa [samePath] using this

theorem plain_valid (n : Text) (h : plainName n = true) : validName n = true := by
  obtain ⟨r1, r2⟩ := facts_rule_not_excessive
  simp only [plainName, Bool.and_eq_true, bne_iff_ne, ne_eq, List.all_eq_true] at h
  simp only [List.all_eq_true, Bool.not_eq_true'] at r1 r2
  simp only [validName, Bool.and_eq_true, Bool.not_eq_true', List.contains_eq_mem, List.any_eq_false,
    decide_eq_false_iff_not, decide_eq_true_eq]
  constructor
  · intro hm
    have := r1 n hm
    simp [plainName, h.1.1.1, h.1.1.2, h.1.2] at this
    obtain ⟨c, hc, hp⟩ := this
    simp [h.2 c hc] at hp
  · intro c hc hm
    have := r2 c hm
    simp [h.2 c hc] at this

theorem mgrGet_valid {fs : List Node} {root name : Text} (hv : validName name = true) :
    mgrGet fs root name =
      match lookup fs (exePath root name) with
      | none => .error .notExist
      | some n =>
        if n.kind = .symnone then .error .notExist
        else if n.kind.statRegular then .ok n else .error .notRegular := by
  unfold mgrGet
  cases lookup fs (exePath root name) <;> simp [hv]

theorem mgrGet_invalid {fs : List Node} {root name : Text} (hv : validName name = false) :
    mgrGet fs root name = .error .invalid := by
  obtain ⟨g1, _, _⟩ := facts_guards
  simp [mgrGet, g1, hv]

theorem mgrGet_ok {fs : List Node} {root name : Text} {n : Node} (h : mgrGet fs root name = .ok n) :
    validName name = true ∧ lookup fs (exePath root name) = some n ∧ n.kind.statRegular = true := by
  cases hv : validName name with
  | false => rw [mgrGet_invalid hv] at h; cases h
  | true =>
    rw [mgrGet_valid hv] at h
    cases hl : lookup fs (exePath root name) with
    | none => simp [hl] at h
    | some m =>
      simp only [hl] at h
      split at h
      · cases h
      · split at h
        · rename_i hr
          injection h with h
          subst h
          exact ⟨rfl, rfl, hr⟩
        · cases h

theorem mgrGet_ok_exe {fs : List Node} {root name : Text} {n : Node} (h : mgrGet fs root name = .ok n) :
    isPluginExe root name n.path = true := by
  obtain ⟨hv, hl, _⟩ := mgrGet_ok h
  have := (lookup_some hl).2
  simp [isPluginExe, this, comps_exePath root name hv]

theorem inPluginDir_inRoot {root n p : Text} (h : inPluginDir root n p = true) :
    (rootComps root).isPrefixOf (comps p) = true := by
  simp only [inPluginDir, List.isPrefixOf_iff_prefix] at h ⊢
  exact (List.prefix_append _ _).trans h

theorem all_inRoot {root n : Text} {l : List Text} (h : l.all (inPluginDir root n) = true) :
    l.all (fun p => (rootComps root).isPrefixOf (comps p)) = true := by
  rw [List.all_eq_true] at h ⊢
  intro p hp
  exact inPluginDir_inRoot (h p hp)

theorem holds_get (i : Input) (h : i.op = .get) : HoldsOp i (runGet i) = true := by
  simp only [HoldsOp, clausesOp, effName, h, Clauses.holds_cons, Clauses.holds_nil, Bool.and_true]
  unfold runGet
  cases hv : validName i.name with
  | false =>
    have hp : plainName i.name = false := by
      cases hp : plainName i.name with
      | false => rfl
      | true => rw [plain_valid _ hp] at hv; cases hv
    simp [mgrGet_invalid hv, errObs, hp]
  | true =>
    have hs := valid_is_single_component _ hv
    rw [mgrGet_valid hv]
    cases hl : lookup i.fs (exePath i.root i.name) with
    | none => simp [errObs, hs]
    | some n =>
      have hx : isPluginExe i.root i.name n.path = true := by
        have := (lookup_some hl).2
        simp [isPluginExe, this, comps_exePath i.root i.name hv]
      cases hk : n.kind <;> simp [hk, Kind.statRegular, Kind.runnable, ranBy, errObs, hs, hx]

theorem holds_verify (i : Input) (h : i.op = .verify) : HoldsOp i (runVerify i) = true := by
  simp only [HoldsOp, clausesOp, effName, h, Clauses.holds_cons, Clauses.holds_nil, Bool.and_true]
  unfold runVerify
  by_cases hsp : i.name.all isSpace = true
  · simp [hsp, errObs]
  · simp only [hsp, if_false, Bool.false_eq_true]
    cases hv : validName i.name with
    | false => simp [mgrGet_invalid hv, errObs]
    | true =>
      have hs := valid_is_single_component _ hv
      rw [mgrGet_valid hv]
      cases hl : lookup i.fs (exePath i.root i.name) with
      | none => simp [errObs, hs]
      | some n =>
        have hx : isPluginExe i.root i.name n.path = true := by
          have := (lookup_some hl).2
          simp [isPluginExe, this, comps_exePath i.root i.name hv]
        cases hk : n.kind <;> simp [hk, Kind.statRegular, Kind.runnable, ranBy, errObs, hs, hx]

theorem holds_list (i : Input) (h : i.op = .list) : HoldsOp i (runList i) = true := by
  simp [HoldsOp, clausesOp, effName, h, Clauses.holds_cons, Clauses.holds_nil, runList]

theorem holds_uninstall (i : Input) (h : i.op = .uninstall) : HoldsOp i (runUninstall i) = true := by
  obtain ⟨_, g2, _⟩ := facts_guards
  simp only [HoldsOp, clausesOp, effName, h, Clauses.holds_cons, Clauses.holds_nil, Bool.and_true]
  unfold runUninstall
  rw [g2]
  cases hv : validName i.name with
  | false =>
    have hp : plainName i.name = false := by
      cases hp : plainName i.name with
      | false => rfl
      | true => rw [plain_valid _ hp] at hv; cases hv
    simp [errObs, hp]
  | true =>
    have hs := valid_is_single_component _ hv
    have hd := comps_dirPath i.root i.name hv
    cases hl : lookup i.fs (dirPath i.root i.name) with
    | none => simp [errObs, hs]
    | some n =>
      obtain ⟨hm, hc⟩ := lookup_some hl
      by_cases hk : n.kind = .symnone
      · simp [hk, errObs, hs]
      · simp only [hk, if_false, hs]
        have h1 : (List.map (fun x => x.path) (List.filter (fun n => under (dirPath i.root i.name) n.path) i.fs)).all
            (inPluginDir i.root i.name) = true := by
          simp only [List.all_eq_true, List.mem_map, List.mem_filter]
          rintro p ⟨m, ⟨_, hu⟩, rfl⟩
          simpa [under, inPluginDir, hd] using hu
        have h1' := all_inRoot h1
        have h2 : (sortTexts (List.map (fun x => x.path) (List.filter (fun n => under (dirPath i.root i.name) n.path) i.fs))).contains n.path = true := by
          simp only [List.contains_eq_mem, decide_eq_true_eq, mem_sortTexts, List.mem_map, List.mem_filter]
          exact ⟨n, ⟨hm, by simp [under, hc]⟩, rfl⟩
        rw [← all_sortTexts] at h1 h1'
        simp [h1, h1', h2]
        exact Or.inr (Or.inr (by simpa using h2))

theorem fromDir_mem {fs : List Node} {d : Text} {r : Node × Text} (h : fromDir fs d = some r) :
    childOf (comps d) r.1.path = true := by
  unfold fromDir at h
  simp only [] at h
  have key : ∀ x, x ∈ List.filterMap (fun n =>
      if (childOf (comps d) n.path && n.kind.lstatRegular) = true then
        Option.map (fun nm => (n, nm)) (parsePluginName (baseName n.path))
      else none) fs → childOf (comps d) x.1.path = true := by
    intro x hx
    obtain ⟨n, _, hn⟩ := List.mem_filterMap.1 hx
    split at hn
    · rename_i hc
      cases hp : parsePluginName (baseName n.path) with
      | none => simp [hp] at hn
      | some nm =>
        simp [hp] at hn
        subst hn
        simp at hc
        exact hc.1
    · cases hn
  split at h
  · rename_i e he
    injection h with h
    subst h
    apply key
    have hmem : e ∈ [e] := by simp
    rw [← he] at hmem
    exact (List.mem_filter.1 hmem).1
  · split at h
    · rename_i c hc
      injection h with h
      subst h
      apply key
      rw [hc]; simp
    · cases h
  · cases h

theorem installSource_under {fs : List Node} {src : Text} {s e : Node} {nm : Text}
    (h : installSource fs src = some (s, e, nm)) : under src e.path = true := by
  unfold installSource at h
  split at h
  · cases h
  · split at h
    · cases h
    · rename_i s' hl
      have hc := (lookup_some hl).2
      split at h
      · cases h
      · split at h
        · cases hf : fromDir fs s'.path with
          | none => simp [hf] at h
          | some r =>
            have := fromDir_mem hf
            simp [hf] at h
            obtain ⟨_, h2, _⟩ := h
            subst h2
            simp only [childOf, beq_iff_eq] at this
            simp [under, this, ← hc]
        · split at h
          · cases h
          · split at h
            · injection h with h
              injection h with h1 h2
              injection h2 with h2 h3
              subst h2
              simp [under, hc]
            · cases h

theorem comps_copied {fs : List Node} {src exe : Node} {d : Text} {n : Node} (h : n ∈ copied fs src exe d) :
    (comps d).isPrefixOf (comps n.path) = true := by
  unfold copied at h
  simp only [List.mem_map] at h
  obtain ⟨f, _, rfl⟩ := h
  simp [comps_append_slash]

theorem holds_install_obs (i : Input) (h : i.op = .install) (s e : Node) (nm : Text)
    (hsrc : installSource i.fs i.src = some (s, e, nm)) (hv : validName nm = true)
    (ran : List Text) (hran : ∀ p ∈ ran, isPluginExe i.root nm p = true ∨ under i.src p = true) :
    HoldsOp i (installFail ran) = true ∧ HoldsOp i (installFinish i s e nm ran) = true := by
  obtain ⟨_, g2, _⟩ := facts_guards
  have hs := valid_is_single_component _ hv
  have hd := comps_dirPath i.root nm hv
  have hex : (sortTexts ran).all (fun p => isPluginExe i.root nm p || (i.op == Op.install && under i.src p)) = true := by
    rw [all_sortTexts, List.all_eq_true]
    intro p hp
    rcases hran p hp with e | e <;> simp [e, h]
  have hfail : HoldsOp i (installFail ran) = true := by
    simp only [HoldsOp, clausesOp, effName, h, hsrc, Clauses.holds_cons, Clauses.holds_nil, Bool.and_true, installFail]
    simp [hs]
    simpa [h] using hex
  refine ⟨hfail, ?_⟩
  unfold installFinish
  simp only [g2, hv, Bool.not_true, Bool.and_false, Bool.false_eq_true, if_false]
  split
  · exact hfail
  · simp only [HoldsOp, clausesOp, effName, h, hsrc, Clauses.holds_cons, Clauses.holds_nil, Bool.and_true]
    have hch : (sortTexts (diffPaths (List.filter (fun n => under (dirPath i.root nm) n.path) i.fs)
        ({ path := dirPath i.root nm, kind := Kind.dir, ver := 0, target := [] } :: copied i.fs s e (dirPath i.root nm)))).all
        (inPluginDir i.root nm) = true := by
      rw [all_sortTexts, List.all_eq_true]
      intro p hp
      simp only [diffPaths, List.mem_append, List.mem_map, List.mem_filter] at hp
      rcases hp with ⟨n, ⟨⟨_, hu⟩, _⟩, rfl⟩ | ⟨n, ⟨hn, _⟩, rfl⟩
      · simpa [under, inPluginDir, hd] using hu
      · rcases List.mem_cons.1 hn with e' | e'
        · subst e'
          simp [inPluginDir, hd]
        · have := comps_copied e'
          simpa [inPluginDir, hd] using this
    have hch' := all_inRoot hch
    simp [hs]
    refine ⟨?_, ?_, ?_⟩
    · simpa using hch
    · simpa using hch'
    · simpa [h] using hex

theorem holds_install (i : Input) (h : i.op = .install) : HoldsOp i (runInstall i) = true := by
  obtain ⟨_, _, g3⟩ := facts_guards
  unfold runInstall
  cases hsrc : installSource i.fs i.src with
  | none => simp [HoldsOp, clausesOp, effName, h, hsrc, errObs, Clauses.holds]
  | some r =>
    obtain ⟨s, e, nm⟩ := r
    simp only [g3, facts_chmod_after_validation]
    cases hv : validName nm with
    | false => simp [HoldsOp, clausesOp, effName, h, hsrc, errObs, Clauses.holds]
    | true =>
      have hs := valid_is_single_component _ hv
      simp only [Bool.not_true, Bool.and_false, Bool.false_eq_true, if_false]
      by_cases hk : e.kind = .exec
      · have hu := installSource_under hsrc
        have h1 : ∀ p ∈ [e.path], isPluginExe i.root nm p = true ∨ under i.src p = true := by
          intro p hp
          simp at hp
          subst hp
          exact Or.inr hu
        have o1 := holds_install_obs i h s e nm hsrc hv [e.path] h1
        simp only [hk, bne_self_eq_false, Bool.false_eq_true, if_false]
        cases hg : mgrGet i.fs i.root nm with
        | error er =>
          simp only []
          split
          · exact o1.1
          · exact o1.2
        | ok ex =>
          have h2 : ∀ p ∈ [e.path, ex.path], isPluginExe i.root nm p = true ∨ under i.src p = true := by
            intro p hp
            simp at hp
            rcases hp with hp | hp
            · subst hp; exact Or.inr hu
            · subst hp; exact Or.inl (mgrGet_ok_exe hg)
          have o2 := holds_install_obs i h s e nm hsrc hv [e.path, ex.path] h2
          simp only []
          split
          · split
            · exact o2.1
            · exact o2.2
          · split
            · exact o1.1
            · exact o1.2
      · have : (e.kind != Kind.exec) = true := by simp [hk]
        simp [this, HoldsOp, clausesOp, effName, h, hsrc, errObs, Clauses.holds, hs]
        exact installSource_under hsrc

/-! ### the property -/

/-- **C16, the whole property**: every clause of `Holds` is true of the model's behaviour, for
every operation, every root string, every name and every world. -/
theorem model_holds_op (i : Input) : HoldsOp i (runOp i) = true := by
  unfold runOp
  cases h : i.op with
  | get => exact holds_get i h
  | uninstall => exact holds_uninstall i h
  | install => exact holds_install i h
  | verify => exact holds_verify i h
  | list => exact holds_list i h

/-- **C16, the whole property, histories included**: whatever was done before on the same manager
object (installs, uninstalls, lookups, the install source replaced or deleted), every clause holds
of the observed operation. -/
theorem model_holds (i : Input) : Holds i (run i) = true := model_holds_op (eff i)

/-- **concurrent use of one manager**: what other goroutines do with OTHER names through the same
manager object at the same time does not enter the specification - the answer for a name, and what
may run or change, are those of the sequential call (the harness repeats the call many times while
peers hammer the manager, and every answer must be this one). -/
theorem peers_irrelevant (i : Input) (ps : List Text) :
    run { i with peers := ps } = run i ∧ ∀ o, Holds { i with peers := ps } o = Holds i o := by
  constructor
  · rfl
  · intro o; rfl

/-! ### readable corollaries -/

/-- **valid_name_confined** (paths): for every root string and every name that
`validatePluginName` accepts, the name is a single path component, the directory that
`Uninstall` / `Install` stat, remove and create is exactly `<cleaned root>/<name>`, and the
file that `Get` stats (and whose execution it enables) is exactly
`<cleaned root>/<name>/notation-<name>`. -/
theorem valid_name_confined (root n : Text) (h : validName n = true) :
    singleComponent n = true ∧
    comps (dirPath root n) = rootComps root ++ [n] ∧
    comps (exePath root n) = rootComps root ++ [n, Facts.c16BinaryPrefix ++ n] :=
  ⟨valid_is_single_component n h, comps_dirPath root n h, comps_exePath root n h⟩

/-- **valid_name_confined** (effects): whatever an operation changes lies in `<root>/<name>`,
whatever it runs is `<root>/<name>/notation-<name>` or (install) the install source - for
every input; `<name>` is a single component whenever anything ran or changed at all. -/
theorem effects_confined (i : Input) (hop : i.op ≠ .list) :
    (∀ p ∈ (runOp i).changed, ∃ n, effName i = some n ∧ singleComponent n = true ∧ inPluginDir i.root n p = true) ∧
    (∀ p ∈ (runOp i).executed, ∃ n, effName i = some n ∧ singleComponent n = true ∧
      (isPluginExe i.root n p = true ∨ (i.op = .install ∧ under i.src p = true))) := by
  have hm := model_holds_op i
  have hl : (i.op == Op.list) = false := by simpa using hop
  simp only [HoldsOp, clausesOp, Clauses.holds_cons, Clauses.holds_nil, Bool.and_true, Bool.and_eq_true, hl,
    Bool.false_or] at hm
  obtain ⟨_, c2, _, c3, _, c4, _⟩ := hm
  cases hn : effName i with
  | none =>
    simp only [hn] at c2 c3 c4
    simp only [Bool.and_eq_true, List.isEmpty_iff] at c2
    simp [c2.1.1, c2.1.2]
  | some n =>
    simp only [hn] at c2 c3 c4
    constructor
    · intro p hp
      refine ⟨n, rfl, ?_, List.all_eq_true.1 c3 p hp⟩
      cases hs : singleComponent n with
      | true => rfl
      | false =>
        simp only [hs, Bool.false_or, Bool.and_eq_true, List.isEmpty_iff] at c2
        rw [c2.1.2] at hp
        cases hp
    · intro p hp
      refine ⟨n, rfl, ?_, ?_⟩
      · cases hs : singleComponent n with
        | true => rfl
        | false =>
          simp only [hs, Bool.false_or, Bool.and_eq_true, List.isEmpty_iff] at c2
          rw [c2.1.1] at hp
          cases hp
      · have := List.all_eq_true.1 c4 p hp
        simpa using this

/-- **relative plugin roots**: with the process working in `cwd`, what the manager stats / removes /
creates for a validated name under a RELATIVE root is what it would under the absolute root
`Join(cwd, root)` - the model's `absRoot`; with `valid_name_confined` for that root: exactly
`<cwd>/<root>/<name>` and `<cwd>/<root>/<name>/notation-<name>`, for any number of leading `..`. -/
theorem relative_root_confined (cwd root n : Text) (h : validName n = true)
    (hc : isRooted cwd = true) (hr : isRooted root = false) :
    comps (join [cwd, dirPath root n]) = rootComps (join [cwd, root]) ++ [n] ∧
    comps (join [cwd, exePath root n]) = rootComps (join [cwd, root]) ++ [n, binName n] := by
  have g := valid_good n h
  have hall : ∀ x ∈ [n, binName n], Good x := by
    intro x hx
    simp at hx
    rcases hx with e | e
    · exact e ▸ g
    · exact e ▸ binName_good n g
  constructor
  · have := relative_root_resolves_as_absolute cwd root [n] (by simp) (by simpa using g) hc hr
    simp only [joinSlash] at this
    rw [dirPath, this]
    exact comps_dirPath _ n h
  · have := relative_root_resolves_as_absolute cwd root [n, binName n] (by simp) hall hc hr
    rw [exePath, join_good _ (by simp) hall, this, ← join_good _ (by simp) hall]
    exact comps_exePath _ n h

/-- **invalid_name_no_effect**: a name that `validatePluginName` refuses - in particular every
name that is not a single path component - yields an error, runs nothing and changes nothing,
through lookup, uninstall and end-to-end verification ... -/
theorem invalid_name_no_effect (i : Input) (h : validName i.name = false)
    (hop : i.op = .get ∨ i.op = .uninstall ∨ i.op = .verify) : runOp i = errObs := by
  obtain ⟨_, g2, _⟩ := facts_guards
  rcases hop with hop | hop | hop
  · simp [runOp, hop, runGet, mgrGet_invalid h]
  · simp [runOp, hop, runUninstall, g2, h]
  · simp only [runOp, hop, runVerify, mgrGet_invalid h]
    split <;> rfl

/-- ... and through install, where the name comes from the file name `notation-<name>` -/
theorem invalid_name_no_effect_install (i : Input) (s e : Node) (nm : Text) (hop : i.op = .install)
    (hsrc : installSource i.fs i.src = some (s, e, nm)) (h : validName nm = false) : runOp i = errObs := by
  obtain ⟨_, _, g3⟩ := facts_guards
  simp [runOp, hop, runInstall, hsrc, g3, h, facts_chmod_after_validation, errObs]

/-- every name that is not a single path component is refused by `validatePluginName` -/
theorem non_component_is_invalid (n : Text) (h : singleComponent n = false) : validName n = false := by
  cases hv : validName n with
  | false => rfl
  | true => rw [valid_is_single_component n hv] at h; cases h

/-- **guard_is_necessary**: the path functions alone do not confine anything - without the
validation `Uninstall("../victim")` on root `/a/p` works on `/a/victim`, `Get("../../victim")`
on root `/a/b/p` looks at `/a/victim/victim`, and a file `notation-..` installs into the
parent of the root. These are the replays of the defect repaired by the `fix:` commit. -/
theorem guard_is_necessary :
    dirPath "/a/p".toList "../victim".toList = "/a/victim".toList ∧
    exePath "/a/b/p".toList "../../victim".toList = "/a/victim/victim".toList ∧
    dirPath "/a/p".toList "..".toList = "/a".toList ∧
    inPluginDir "/a/p".toList "../victim".toList (dirPath "/a/p".toList "../victim".toList) = false ∧
    (rootComps "/a/p".toList).isPrefixOf (comps (dirPath "/a/p".toList "../victim".toList)) = false := by
  decide

theorem baseName_of_comps (q : Text) (pc : List Text) (x : Text) (h : comps q = pc ++ [x]) : baseName q = x := by
  simp [baseName, h]

/-- **list_real_dirs**: `List` reports `x` iff the world has a real directory (not a symbolic
link, not a file) whose path is `<cleaned root>/x`; nothing deeper, nothing outside. -/
theorem list_real_dirs (i : Input) (x : Text) :
    x ∈ (runList i).listed ↔
      ∃ n ∈ i.fs, n.kind = .dir ∧ comps n.path = rootComps i.root ++ [x] := by
  simp only [runList, mem_sortTexts, List.mem_map, List.mem_filter, Bool.and_eq_true, decide_eq_true_eq,
    childOf, beq_iff_eq]
  constructor
  · rintro ⟨n, ⟨hn, hk, hc⟩, rfl⟩
    exact ⟨n, hn, hk, hc⟩
  · rintro ⟨n, hn, hk, hc⟩
    have hb := baseName_of_comps _ _ _ hc
    exact ⟨n, ⟨hn, hk, by rw [hb]; exact hc⟩, hb⟩

/-- the listing never errs and touches nothing -/
theorem list_is_pure (i : Input) : (runList i).err = false ∧ (runList i).executed = [] ∧ (runList i).changed = [] := by
  simp [runList]

/-! ### a plugin root reached through symbolic links -/

/-- no link lies on the way `done/todo₁/…/todoₖ` -/
def NoLinkOnWay (fs : List Node) (done todo : List Text) : Prop :=
  ∀ k, k < todo.length → ∀ n, lookup fs (pathOf (done ++ todo.take (k + 1))) = some n → n.kind.isLink = false

theorem walk_no_link_on_way (fs : List Node) : ∀ (fuel : Nat) (done todo : List Text),
    NoLinkOnWay fs done todo → walk fs fuel done todo false = none
  | 0, _, _, _ => rfl
  | _ + 1, _, [], _ => by simp [walk]
  | fuel + 1, done, c :: rest, h => by
    have h0 := h 0 (by simp)
    have hrec : NoLinkOnWay fs (done ++ [c]) rest := by
      intro k hk n hn
      refine h (k + 1) (by simpa using hk) n ?_
      simpa [List.take_succ_cons, List.append_assoc] using hn
    have ih := walk_no_link_on_way fs fuel (done ++ [c]) rest hrec
    unfold walk
    cases hl : lookup fs (pathOf (done ++ [c])) with
    | none => simpa using ih
    | some n =>
      have : n.kind.isLink = false := h0 n (by simpa using hl)
      simpa [this] using ih

/-- **links elsewhere do not matter**: when no symbolic link lies on the way of the (cleaned) plugin
root - whatever links the world holds below `<root>/<name>`, in the install source or anywhere else -
the directory the root IS is the root as given: rounds 1-7 (lexical roots) are the special case. -/
theorem physRoot_of_no_link_on_way (fs : List Node) (root : Text)
    (h : NoLinkOnWay fs [] (rootComps root)) : physRoot fs root = root := by
  simp [physRoot, walk_no_link_on_way fs _ _ _ h]

/-- in particular in a world without any symbolic link -/
theorem physRoot_of_no_links (fs : List Node) (root : Text)
    (h : ∀ n ∈ fs, n.kind.isLink = false) : physRoot fs root = root :=
  physRoot_of_no_link_on_way fs root (fun _ _ n hn => h n (lookup_some hn).1)

theorem NoLinkOnWay.tail {fs : List Node} {done : List Text} {c : Text} {rest : List Text}
    (h : NoLinkOnWay fs done (c :: rest)) : NoLinkOnWay fs (done ++ [c]) rest := by
  intro k hk n hn
  refine h (k + 1) (by simpa using hk) n ?_
  simpa [List.take_succ_cons, List.append_assoc] using hn

theorem walk_followed_no_link (fs : List Node) : ∀ (fuel : Nat) (done todo : List Text),
    NoLinkOnWay fs done todo → todo.length < fuel → walk fs fuel done todo true = some (done ++ todo)
  | 0, _, _, _, hf => absurd hf (Nat.not_lt_zero _)
  | _ + 1, _, [], _, _ => by simp [walk]
  | fuel + 1, done, c :: rest, h, hf => by
    have h0 := h 0 (by simp)
    have ih := walk_followed_no_link fs fuel (done ++ [c]) rest h.tail (by simpa using hf)
    unfold walk
    cases hl : lookup fs (pathOf (done ++ [c])) with
    | none => simpa using ih
    | some n =>
      have : n.kind.isLink = false := h0 n (by simpa using hl)
      simpa [this] using ih

theorem walk_prefix (fs : List Node) : ∀ (cs : List Text) (fuel : Nat) (done rest : List Text) (f : Bool),
    NoLinkOnWay fs done cs → walk fs (fuel + cs.length) done (cs ++ rest) f = walk fs fuel (done ++ cs) rest f
  | [], _, _, _, _, _ => by simp
  | c :: cs, fuel, done, rest, f, h => by
    have h0 := h 0 (by simp)
    have ih := walk_prefix fs cs fuel (done ++ [c]) rest f h.tail
    have e : fuel + (c :: cs).length = (fuel + cs.length) + 1 := by simp; omega
    rw [e, List.cons_append, walk]
    cases hl : lookup fs (pathOf (done ++ [c])) with
    | none => simpa using ih
    | some n =>
      have : n.kind.isLink = false := h0 n (by simpa using hl)
      simpa [this] using ih

theorem le_sum_of_mem {α : Type} (f : α → Nat) : ∀ (l : List α) (a : α), a ∈ l → f a ≤ (l.map f).sum
  | [], _, h => by cases h
  | b :: r, a, h => by
    rcases List.mem_cons.1 h with e | e
    · subst e; simp
    · have := le_sum_of_mem f r a e
      simp only [List.map_cons, List.sum_cons]; omega

/-- **the plugin root is a symbolic link** (`~/.config/notation/plugins -> /vol/x/plugins`): when the last
component of the cleaned root is a link of the world - whatever kind - with no further link on the
way to it or on the way of its target, the directory the root IS is the target: that is where the
model lists, looks up, installs and removes (for every world, root and target). -/
theorem physRoot_root_is_link (fs : List Node) (root : Text) (cs : List Text) (c : Text) (n : Node)
    (hr : rootComps root = cs ++ [c]) (hanc : NoLinkOnWay fs [] cs)
    (hl : lookup fs (pathOf (cs ++ [c])) = some n) (hk : n.kind.isLink = true)
    (ht : NoLinkOnWay fs [] (comps n.target)) :
    physRoot fs root = pathOf (comps n.target) := by
  have hm := le_sum_of_mem (fun n : Node => (comps n.target).length + 1) fs n (lookup_some hl).1
  have hfuel : walkFuel fs (cs ++ [c]) =
      (((fs.map (fun n : Node => (comps n.target).length + 1)).sum + 1) + 1) + cs.length := by
    simp [walkFuel]; omega
  have h1 := walk_prefix fs cs (((fs.map (fun n : Node => (comps n.target).length + 1)).sum + 1) + 1) [] [c] false hanc
  have h2 := walk_followed_no_link fs ((fs.map (fun n : Node => (comps n.target).length + 1)).sum + 1) []
    (comps n.target) ht (by have := hm; omega)
  simp only [physRoot, hr, hfuel, h1, List.nil_append]
  rw [walk]
  simp only [hl, hk, if_true, List.append_nil, h2, List.nil_append]

/-- **a linked plugin root**: the operation the model observes runs in the world the history left,
against the PHYSICAL root - the directory the handed path resolves to through the links of the
world -, and the clauses are stated of that directory. -/
theorem eff_root (i : Input) : (eff i).root = physRoot i.fs (absRoot i) := rfl

/-- **linked_root_confined**: for a plugin root that is (or lies behind) a symbolic link, whatever
an operation changes lies in `<physical root>/<name>`, and whatever it runs is
`<physical root>/<name>/notation-<name>` (or the install source): the link is followed, never
replaced, removed or treated as "not a directory". -/
theorem linked_root_confined (i : Input) (hop : i.op ≠ .list) :
    (∀ p ∈ (run i).changed, ∃ n, effName (eff i) = some n ∧ singleComponent n = true ∧
      inPluginDir (physRoot i.fs (absRoot i)) n p = true) ∧
    (∀ p ∈ (run i).executed, ∃ n, effName (eff i) = some n ∧ singleComponent n = true ∧
      (isPluginExe (physRoot i.fs (absRoot i)) n p = true ∨ (i.op = .install ∧ under i.src p = true))) :=
  effects_confined (eff i) hop

/-- **linked_root_listing**: the listing through a linked root is the listing of the physical root:
exactly the real sub-directories of the directory the link leads to. -/
theorem linked_root_listing (i : Input) (h : i.op = .list) (x : Text) :
    x ∈ (run i).listed ↔
      ∃ n ∈ (eff i).fs, n.kind = .dir ∧ comps n.path = rootComps (physRoot i.fs (absRoot i)) ++ [x] := by
  have : run i = runList (eff i) := by
    have h' : (eff i).op = .list := h
    simp [run, runOp, h']
  rw [this]
  exact list_real_dirs (eff i) x

/-! ### non-vacuity -/

/-- (marker: a failure reported under this name is a failure of one of the `example`s below) -/
theorem nonvacuity_examples_follow : True := trivial

def sampleFS : List Node :=
  [ ⟨"/a".toList, .dir, 0, []⟩, ⟨"/a/p".toList, .dir, 0, []⟩, ⟨"/a/p/good".toList, .dir, 0, []⟩,
    ⟨"/a/p/good/notation-good".toList, .exec, 2, []⟩, ⟨"/a/p/lnk".toList, .symdir, 0, []⟩, ⟨"/a/p/f".toList, .file, 1, []⟩,
    ⟨"/a/victim".toList, .dir, 0, []⟩, ⟨"/a/victim/notation-victim".toList, .exec, 7, []⟩,
    ⟨"/src".toList, .dir, 0, []⟩, ⟨"/src/notation-new".toList, .exec, 2, []⟩, ⟨"/src/notation-..".toList, .exec, 2, []⟩ ]

/-- a valid, installed name is found and run where it should be -/
example : run { op := .get, root := "/a/p/".toList, name := "good".toList, src := [], overwrite := false, trusted := true, cwd := [], path := [], peers := [], history := [], fs := sampleFS } =
    { err := false, executed := ["/a/p/good/notation-good".toList], changed := [], listed := [], chmod := [] } := by decide

/-- uninstall removes exactly the plugin directory -/
example : run { op := .uninstall, root := "/a/p".toList, name := "good".toList, src := [], overwrite := false, trusted := true, cwd := [], path := [], peers := [], history := [], fs := sampleFS } =
    { err := false, executed := [], changed := ["/a/p/good".toList, "/a/p/good/notation-good".toList], listed := [], chmod := [] } := by decide

/-- the traversal is refused -/
example : run { op := .uninstall, root := "/a/p".toList, name := "../victim".toList, src := [], overwrite := false, trusted := true, cwd := [], path := [], peers := [], history := [], fs := sampleFS } =
    errObs := by decide

/-- install from a file creates `<root>/<name>/notation-<name>` and runs only the source -/
example : run { op := .install, root := "/a/p".toList, name := "new".toList, src := "/src/notation-new".toList, overwrite := false, trusted := true, cwd := [], path := [], peers := [], history := [], fs := sampleFS } =
    { err := false, executed := ["/src/notation-new".toList],
      changed := ["/a/p/new".toList, "/a/p/new/notation-new".toList], listed := [], chmod := [] } := by decide

/-- a file called `notation-..` is refused before it is run -/
example : run { op := .install, root := "/a/p".toList, name := "..".toList, src := "/src/notation-..".toList, overwrite := true, trusted := true, cwd := [], path := [], peers := [], history := [], fs := sampleFS } =
    errObs := by decide

/-- the listing: the real directory only -/
example : (run { op := .list, root := "/a/p".toList, name := [], src := [], overwrite := false, trusted := true, cwd := [], path := [], peers := [], history := [], fs := sampleFS }).listed =
    ["good".toList] := by decide

/-- a plugin directory left over by a broken installation: the executable entry is a dangling
link, the licence a link to a file outside the root -/
def leftoverFS : List Node :=
  [ ⟨"/a".toList, .dir, 0, []⟩, ⟨"/a/p".toList, .dir, 0, []⟩, ⟨"/a/p/new".toList, .dir, 0, []⟩,
    ⟨"/a/p/new/LICENSE".toList, .symfile, 0, "/outside/data".toList⟩,
    ⟨"/a/p/new/notation-new".toList, .symnone, 0, "/outside/ghost1".toList⟩,
    ⟨"/outside".toList, .dir, 0, []⟩, ⟨"/outside/data".toList, .file, 11, []⟩,
    ⟨"/src".toList, .dir, 0, []⟩, ⟨"/src/notation-new".toList, .exec, 2, []⟩ ]

/-- Install replaces the left-over directory: the links go, a fresh executable comes, and
nothing outside `<root>/<name>` is touched -/
example : run { op := .install, root := "/a/p".toList, name := "new".toList, src := "/src/notation-new".toList, overwrite := false, trusted := true, cwd := [], path := [], peers := [], history := [], fs := leftoverFS } =
    { err := false, executed := ["/src/notation-new".toList],
      changed := ["/a/p/new/LICENSE".toList, "/a/p/new/notation-new".toList], listed := [], chmod := [] } := by decide

/-- `Holds` is false of an Install that wrote through the dangling link -/
example : Holds { op := .install, root := "/a/p".toList, name := "new".toList, src := "/src/notation-new".toList, overwrite := false, trusted := true, cwd := [], path := [], peers := [], history := [], fs := leftoverFS }
    { err := false, executed := ["/src/notation-new".toList], changed := ["/outside/ghost1".toList], listed := [], chmod := [] } = false := by decide

/-- a download area outside the root, and the plugin `new` with neighbours whose names derive from it -/
def historyFS : List Node :=
  [ ⟨"/a".toList, .dir, 0, []⟩, ⟨"/a/p".toList, .dir, 0, []⟩,
    ⟨"/a/p/new".toList, .dir, 0, []⟩, ⟨"/a/p/new/notation-new".toList, .exec, 1, []⟩,
    ⟨"/a/p/new.removing".toList, .dir, 0, []⟩, ⟨"/a/p/new.removing/notation-new.removing".toList, .exec, 4, []⟩,
    ⟨"/dl".toList, .dir, 0, []⟩, ⟨"/dl/notation-new".toList, .exec, 2, []⟩ ]

/-- install, then the download is replaced, then Get on the same manager: what runs is the installed copy -/
example : run { op := .get, root := "/a/p".toList, name := "new".toList, src := "/dl/notation-new".toList, overwrite := false, trusted := true, cwd := [], path := [], peers := [], history := [.install, .touchSrc], fs := historyFS } =
    { err := false, executed := ["/a/p/new/notation-new".toList], changed := [], listed := [], chmod := [] } := by decide

/-- `Holds` is false of a manager that hands out the plugin object built from the download -/
example : Holds { op := .get, root := "/a/p".toList, name := "new".toList, src := "/dl/notation-new".toList, overwrite := false, trusted := true, cwd := [], path := [], peers := [], history := [.install, .touchSrc], fs := historyFS }
    { err := false, executed := ["/dl/notation-new".toList], changed := [], listed := [], chmod := [] } = false := by decide

/-- install - uninstall - get: the plugin is gone -/
example : run { op := .get, root := "/a/p".toList, name := "new".toList, src := "/dl/notation-new".toList, overwrite := false, trusted := true, cwd := [], path := [], peers := [], history := [.install, .uninstall], fs := historyFS } = errObs := by decide

/-- uninstall leaves the neighbour `new.removing` alone; `Holds` is false of one that does not -/
example : run { op := .uninstall, root := "/a/p".toList, name := "new".toList, src := [], overwrite := false, trusted := true, cwd := [], path := [], peers := [], history := [], fs := historyFS } =
    { err := false, executed := [], changed := ["/a/p/new".toList, "/a/p/new/notation-new".toList], listed := [], chmod := [] } := by decide
example : Holds { op := .uninstall, root := "/a/p".toList, name := "new".toList, src := [], overwrite := false, trusted := true, cwd := [], path := [], peers := [], history := [], fs := historyFS }
    { err := false, executed := [],
      changed := ["/a/p/new".toList, "/a/p/new.removing".toList, "/a/p/new.removing/notation-new.removing".toList, "/a/p/new/notation-new".toList],
      listed := [], chmod := [] } = false := by decide

/-- a relative plugin root, the process working in `/h/u/w`, and an executable `notation-tool` on the PATH -/
def envFS : List Node :=
  [ ⟨"/h".toList, .dir, 0, []⟩, ⟨"/h/u".toList, .dir, 0, []⟩, ⟨"/h/u/w".toList, .dir, 0, []⟩,
    ⟨"/h/lib".toList, .dir, 0, []⟩, ⟨"/h/lib/plugins".toList, .dir, 0, []⟩, ⟨"/h/lib/plugins/new".toList, .dir, 0, []⟩,
    ⟨"/h/lib/plugins/new/notation-new".toList, .exec, 1, []⟩,
    ⟨"/h/lib/lib/plugins/new/notation-new".toList, .exec, 9, []⟩,
    ⟨"/opt/pbin".toList, .dir, 0, []⟩, ⟨"/opt/pbin/notation-tool".toList, .exec, 5, []⟩ ]

/-- with root `../../lib/plugins` what runs is `<cwd>/../../lib/plugins/new/notation-new` -/
example : run { op := .get, root := "../../lib/plugins".toList, name := "new".toList, src := [], overwrite := false, trusted := true, cwd := "/h/u/w".toList, path := [], peers := [], history := [], fs := envFS } =
    { err := false, executed := ["/h/lib/plugins/new/notation-new".toList], changed := [], listed := [], chmod := [] } := by decide

/-- ... `Holds` is false when the relative path is resolved once more from the plugin's directory -/
example : Holds { op := .get, root := "../../lib/plugins".toList, name := "new".toList, src := [], overwrite := false, trusted := true, cwd := "/h/u/w".toList, path := [], peers := [], history := [], fs := envFS }
    { err := false, executed := ["/h/lib/lib/plugins/new/notation-new".toList], changed := [], listed := [], chmod := [] } = false := by decide

/-- a plugin that is not installed is not found, whatever the PATH holds; `Holds` is false of a lookup on the PATH -/
example : run { op := .verify, root := "/h/lib/plugins".toList, name := "tool".toList, src := [], overwrite := false, trusted := true, cwd := [], path := ["/opt/pbin".toList], peers := [], history := [], fs := envFS } =
    errObs := by decide
example : Holds { op := .verify, root := "/h/lib/plugins".toList, name := "tool".toList, src := [], overwrite := false, trusted := true, cwd := [], path := ["/opt/pbin".toList], peers := [], history := [], fs := envFS }
    { err := false, executed := ["/opt/pbin/notation-tool".toList], changed := [], listed := [], chmod := [] } = false := by decide

/-- the configured plugin root `/cfg/plugins` is a symbolic link to `/vol/x/plugins`; `/cfg/chain` leads
there through a second link, `/cfg/notation` is a linked ancestor -/
def linkedFS : List Node :=
  [ ⟨"/cfg".toList, .dir, 0, []⟩, ⟨"/cfg/plugins".toList, .symdir, 0, "/vol/x/plugins".toList⟩,
    ⟨"/cfg/chain".toList, .symdir, 0, "/cfg/plugins".toList⟩, ⟨"/cfg/notation".toList, .symdir, 0, "/vol/x".toList⟩,
    ⟨"/cfg/victim".toList, .dir, 0, []⟩,
    ⟨"/vol".toList, .dir, 0, []⟩, ⟨"/vol/x".toList, .dir, 0, []⟩, ⟨"/vol/x/plugins".toList, .dir, 0, []⟩,
    ⟨"/vol/x/plugins/alpha".toList, .dir, 0, []⟩, ⟨"/vol/x/plugins/alpha/notation-alpha".toList, .exec, 1, []⟩,
    ⟨"/vol/x/plugins/beta".toList, .dir, 0, []⟩, ⟨"/vol/x/plugins/linked".toList, .symdir, 0, "/outside/dir".toList⟩,
    ⟨"/vol/x/plugins/README".toList, .file, 1, []⟩,
    ⟨"/outside".toList, .dir, 0, []⟩, ⟨"/outside/dir".toList, .dir, 0, []⟩,
    ⟨"/dl".toList, .dir, 0, []⟩, ⟨"/dl/notation-new".toList, .exec, 2, []⟩ ]

example : physRoot linkedFS "/cfg/plugins/".toList = "/vol/x/plugins".toList ∧
    physRoot linkedFS "/cfg/chain".toList = "/vol/x/plugins".toList ∧
    physRoot linkedFS "/cfg/notation/plugins".toList = "/vol/x/plugins".toList ∧
    physRoot linkedFS "/vol/x/plugins/".toList = "/vol/x/plugins/".toList := by decide

/-- the listing through the linked root: the real sub-directories of the directory it leads to -/
example : run { op := .list, root := "/cfg/plugins".toList, name := [], src := [], overwrite := false, trusted := true, cwd := [], path := [], peers := [], history := [], fs := linkedFS } =
    { err := false, executed := [], changed := [], listed := ["alpha".toList, "beta".toList], chmod := [] } := by decide

/-- `Holds` is false of a listing that does not enter a root which is a link (seeded C16-21) -/
example : Holds { op := .list, root := "/cfg/plugins".toList, name := [], src := [], overwrite := false, trusted := true, cwd := [], path := [], peers := [], history := [], fs := linkedFS }
    { err := false, executed := [], changed := [], listed := [], chmod := [] } = false := by decide

/-- through the link: lookup runs the plugin of the physical root, install and uninstall work in it -/
example : run { op := .get, root := "/cfg/chain".toList, name := "alpha".toList, src := [], overwrite := false, trusted := true, cwd := [], path := [], peers := [], history := [], fs := linkedFS } =
    { err := false, executed := ["/vol/x/plugins/alpha/notation-alpha".toList], changed := [], listed := [], chmod := [] } := by decide
example : run { op := .install, root := "/cfg/notation/plugins".toList, name := "new".toList, src := "/dl/notation-new".toList, overwrite := false, trusted := true, cwd := [], path := [], peers := [], history := [], fs := linkedFS } =
    { err := false, executed := ["/dl/notation-new".toList],
      changed := ["/vol/x/plugins/new".toList, "/vol/x/plugins/new/notation-new".toList], listed := [], chmod := [] } := by decide

/-- `Holds` is false of an uninstall that also removed the link the root is reached through, and of a
lookup that refuses an installed plugin because its resolved path "leaves" the configured root -/
example : Holds { op := .uninstall, root := "/cfg/plugins".toList, name := "alpha".toList, src := [], overwrite := false, trusted := true, cwd := [], path := [], peers := [], history := [], fs := linkedFS }
    { err := false, executed := [], changed := ["/cfg/plugins".toList, "/vol/x/plugins/alpha".toList, "/vol/x/plugins/alpha/notation-alpha".toList], listed := [], chmod := [] } = false := by decide
example : Holds { op := .get, root := "/cfg/plugins".toList, name := "alpha".toList, src := [], overwrite := false, trusted := true, cwd := [], path := [], peers := [], history := [], fs := linkedFS }
    errObs = false := by decide

/-- `Holds` is false of the unguarded behaviour: the victim directory removed ... -/
example : Holds { op := .uninstall, root := "/a/p".toList, name := "../victim".toList, src := [], overwrite := false, trusted := true, cwd := [], path := [], peers := [], history := [], fs := sampleFS }
    { err := false, executed := [], changed := ["/a/victim".toList, "/a/victim/notation-victim".toList], listed := [], chmod := [] } = false := by decide

/-- end to end: the plugin named by the signature runs although the signer is not trusted -/
example : run { op := .verify, root := "/a/p".toList, name := "good".toList, src := [], overwrite := false, trusted := false, cwd := [], path := [], peers := [], history := [], fs := sampleFS } =
    { err := true, executed := ["/a/p/good/notation-good".toList], changed := [], listed := [], chmod := [] } := by decide

/-- ... a sentinel outside the root executed ... -/
example : Holds { op := .verify, root := "/a/p".toList, name := "../victim".toList, src := [], overwrite := false, trusted := false, cwd := [], path := [], peers := [], history := [], fs := sampleFS }
    { err := true, executed := ["/a/victim/notation-victim".toList], changed := [], listed := [], chmod := [] } = false := by decide

/-- ... or a hostile name merely accepted without an error -/
example : Holds { op := .get, root := "/a/p".toList, name := "good/../good".toList, src := [], overwrite := false, trusted := true, cwd := [], path := [], peers := [], history := [], fs := sampleFS }
    { err := false, executed := [], changed := [], listed := [], chmod := [] } = false := by decide

/-- a directory source whose only candidate lacks the execute permission -/
def nonexecFS : List Node :=
  [ ⟨"/a".toList, .dir, 0, []⟩, ⟨"/a/p".toList, .dir, 0, []⟩,
    ⟨"/srcdir".toList, .dir, 0, []⟩, ⟨"/srcdir/notation-..".toList, .file, 2, []⟩,
    ⟨"/srcx".toList, .dir, 0, []⟩, ⟨"/srcx/notation-x".toList, .file, 2, []⟩ ]

/-- an accepted name: the candidate is made executable (and then cannot be run: it is a data file) -/
example : run { op := .install, root := "/a/p".toList, name := "x".toList, src := "/srcx".toList, overwrite := false, trusted := true, cwd := [], path := [], peers := [], history := [], fs := nonexecFS } =
    { err := true, executed := [], changed := [], listed := [], chmod := ["/srcx/notation-x".toList] } := by decide

/-- a refused name: not even a permission changes -/
example : run { op := .install, root := "/a/p".toList, name := "..".toList, src := "/srcdir".toList, overwrite := false, trusted := true, cwd := [], path := [], peers := [], history := [], fs := nonexecFS } =
    errObs := by decide

/-- `Holds` is false of an Install that made `notation-..` executable before refusing the name -/
example : Holds { op := .install, root := "/a/p".toList, name := "..".toList, src := "/srcdir".toList, overwrite := false, trusted := true, cwd := [], path := [], peers := [], history := [], fs := nonexecFS }
    { err := true, executed := [], changed := [], listed := [], chmod := ["/srcdir/notation-..".toList] } = false := by decide

/-- and of a listing that reports a symbolic link -/
example : Holds { op := .list, root := "/a/p".toList, name := [], src := [], overwrite := false, trusted := true, cwd := [], path := [], peers := [], history := [], fs := sampleFS }
    { err := false, executed := [], changed := [], listed := ["good".toList, "lnk".toList], chmod := [] } = false := by decide

/-! ### tie to the translated source -/

namespace Tie
open NotationModel.Src

/-- the rule of `validatePluginName` written out by hand (no extracted fact involved) -/
def acceptsName (n : Text) : Bool :=
  n != [] && n != dot && n != dotdot && !(n.any fun c => c == '/' || c == '\\' || c == '\x00')

/-- the extracted rule is exactly that rule (whatever the order of its disjuncts / characters) -/
theorem facts_rule_exact :
    Facts.c16SpecialNames.all (fun s => s == [] || s == dot || s == dotdot) = true ∧
    Facts.c16ForbiddenChars.all (fun c => c == '/' || c == '\\' || c == '\x00') = true := by decide

theorem validName_eq_acceptsName (n : Text) : validName n = acceptsName n := by
  obtain ⟨f1, f2, f3, f4, f5, f6⟩ := facts_rule
  obtain ⟨e1, e2⟩ := facts_rule_exact
  simp only [List.all_eq_true] at e1 e2
  rw [Bool.eq_iff_iff]
  simp only [validName, acceptsName, Bool.and_eq_true, Bool.not_eq_true', List.contains_eq_mem, List.any_eq_false,
    decide_eq_false_iff_not, decide_eq_true_eq, bne_iff_ne, ne_eq, Bool.or_eq_true, beq_iff_eq]
  constructor
  · rintro ⟨h1, h2⟩
    refine ⟨⟨⟨?_, ?_⟩, ?_⟩, ?_⟩
    · intro e; exact h1 (e ▸ f1)
    · intro e; exact h1 (e ▸ f2)
    · intro e; exact h1 (e ▸ f3)
    · intro c hc hh
      rcases hh with (hh | hh) | hh <;> subst hh
      · exact h2 _ hc f4
      · exact h2 _ hc f6
      · exact h2 _ hc f5
  · rintro ⟨⟨⟨h1, h2⟩, h3⟩, h4⟩
    constructor
    · intro hm
      have := e1 n hm
      simp at this
      rcases this with (e | e) | e
      · exact h1 e
      · exact h2 e
      · exact h3 e
    · intro c hc hm
      have := e2 c hm
      simp at this
      exact h4 c hc this

theorem str_beq (s t : String) : (s == t) = (s.toList == t.toList) := by
  rw [Bool.eq_iff_iff]; simp [String.toList_inj]

/-- TIE (translated source): the Lean translation of `plugin.validatePluginName`, regenerated from
plugin/manager.go on every run (`Generated/SrcC16.lean`), accepts - for EVERY string - exactly the
names the model's `validName` accepts. -/
theorem source_validatePluginName_refines_model (s : String) :
    (plugin.validatePluginName s).isNone = validName s.toList := by
  rw [validName_eq_acceptsName]
  unfold plugin.validatePluginName acceptsName
  simp only [Id.run, GoLite.containsAny, str_beq]
  simp
  have e : (s = "") = (s.toList = []) := by simp
  (repeat' split) <;> (try simp [pure, dot, dotdot]) <;> (try simp only [e] at *) <;> (try grind)

/-- the error it returns is a plain `fmt.Errorf` error -/
theorem source_validatePluginName_error (s : String) (h : validName s.toList = false) :
    plugin.validatePluginName s = some ⟨"error"⟩ := by
  have := source_validatePluginName_refines_model s
  rw [h] at this
  revert this
  unfold plugin.validatePluginName
  simp only [Id.run]
  (repeat' split) <;> simp [pure, GoLite.errorf]

/-- TIE: the translated `binName` is the model's `binName` -/
theorem source_binName_refines_model (s : String) :
    (plugin.binName s).toList = binName s.toList := by
  unfold plugin.binName
  simp [Id.run, GoLite.add_toList, plugin.BinaryPrefix, binName, pure]

/-- TIE: the translated `parsePluginName` is the model's `parsePluginName` -/
theorem source_parsePluginName_refines_model (f : String) :
    plugin.parsePluginName f =
      match parsePluginName f.toList with
      | some r => (String.ofList r, none)
      | none => ("", some ⟨"error"⟩) := by
  unfold plugin.parsePluginName parsePluginName
  simp only [Id.run, GoLite.cutPrefix, GoLite.trimPrefix, GoLite.hasPrefix, plugin.BinaryPrefix, str_beq]
  by_cases hp : Facts.c16BinaryPrefix.isPrefixOf f.toList = true
  · by_cases hr : (List.drop Facts.c16BinaryPrefix.length f.toList) = []
    · first
        | (simp [hp, hr, pure, GoLite.errorf]; done)
        | (simp only [hp, hr]; (repeat' split) <;> simp_all [pure, GoLite.errorf])
    · first
        | (simp [hp, hr, pure, GoLite.errorf]; done)
        | (simp only [hp, hr]; (repeat' split) <;> simp_all [pure, GoLite.errorf])
  · first
      | (simp [hp, pure, GoLite.errorf]; done)
      | (simp only [hp]; (repeat' split) <;> simp_all [pure, GoLite.errorf])

/-- TIE: the translated `CLIManager.Get` - for EVERY manager value, every behaviour of the oracles
(`SysPath`, `path.Join`, `NewCLIPlugin` = stat + regular-file test) and every name: a name the
model refuses is answered with an error before any oracle is consulted (the result does not depend
on them); an accepted name is joined with `binName(name)`, handed to `SysPath`, and the resulting
path is what `NewCLIPlugin` gets. -/
theorem source_Get_refines_model (m : plugin.CLIManager) (w : plugin.World) (name : String) :
    plugin.CLIManager.Get m w () name =
      if validName name.toList then
        let p := m.pluginFS.SysPath (w.pathJoin name (plugin.binName name))
        if p.2.isSome then (none, p.2) else w.NewCLIPlugin () name p.1
      else (none, some ⟨"error"⟩) := by
  unfold plugin.CLIManager.Get
  simp only [Id.run]
  cases hv : validName name.toList with
  | false => simp [source_validatePluginName_error name hv, pure]
  | true =>
    have hn : plugin.validatePluginName name = none := by
      have := source_validatePluginName_refines_model name
      rw [hv] at this
      simpa using this
    simp only [hn]
    (repeat' split) <;> simp_all [pure]

/-- TIE: the translated `CLIManager.Uninstall`: refused names first, then `SysPath(name)`, then
`os.Stat` of that path, then `os.RemoveAll` of that same path - for every behaviour of the oracles. -/
theorem source_Uninstall_refines_model (m : plugin.CLIManager) (w : plugin.World) (name : String) :
    plugin.CLIManager.Uninstall m w () name =
      if validName name.toList then
        let p := m.pluginFS.SysPath name
        if p.2.isSome then p.2
        else if (w.Stat p.1).2.isSome then (w.Stat p.1).2
        else w.RemoveAll p.1
      else some ⟨"error"⟩ := by
  unfold plugin.CLIManager.Uninstall
  simp only [Id.run]
  cases hv : validName name.toList with
  | false => simp [source_validatePluginName_error name hv, pure]
  | true =>
    have hn : plugin.validatePluginName name = none := by
      have := source_validatePluginName_refines_model name
      rw [hv] at this
      simpa using this
    simp only [hn]
    (repeat' split) <;> simp_all [pure]

/-- the oracles as the model has them: `SysPath` and `path.Join` are the lexical functions of
`Model/C16.lean`, `NewCLIPlugin` / `os.Stat` look the path up in the abstract world -/
def modelMgr (root : Text) : plugin.CLIManager :=
  { pluginFS := { SysPath := fun p => (String.ofList (sysPath root [p.toList]), none) } }

def modelWorld (fs : List Node) : plugin.World :=
  { pathJoin := fun a b => String.ofList (join [a.toList, b.toList]),
    NewCLIPlugin := fun _ nm p =>
      match lookup fs p.toList with
      | none => (none, some ⟨"error"⟩)
      | some n =>
        if n.kind = .symnone then (none, some ⟨"error"⟩)
        else if n.kind.statRegular then (some ⟨nm, p⟩, none) else (none, some ⟨"ErrNotRegularFile"⟩),
    Stat := fun p =>
      match lookup fs p.toList with
      | none => ((), some ⟨"error"⟩)
      | some n => if n.kind = .symnone then ((), some ⟨"error"⟩) else ((), none),
    RemoveAll := fun _ => none }

/-- TIE, instantiated: with the model's lexical oracles the translated `Get` succeeds exactly when
the model's `mgrGet` does, and the plugin it returns has the model's executable path
`exePath root name` (= `<root>/<name>/notation-<name>` by `comps_exePath`). -/
theorem source_Get_same_path_as_model (root : Text) (fs : List Node) (name : String) :
    (plugin.CLIManager.Get (modelMgr root) (modelWorld fs) () name).1.map (fun p => p.path.toList) =
      match mgrGet fs root name.toList with
      | .ok _ => some (exePath root name.toList)
      | .error _ => none := by
  rw [source_Get_refines_model]
  cases hv : validName name.toList with
  | false => simp [mgrGet_invalid hv]
  | true =>
    rw [mgrGet_valid hv]
    simp only [modelMgr, modelWorld, exePath, source_binName_refines_model, String.toList_ofList, if_true,
      Option.isSome_none, Bool.false_eq_true, if_false]
    cases hl : lookup fs (sysPath root [join [name.toList, binName name.toList]]) with
    | none => simp
    | some n => (repeat' split) <;> simp_all

/-- TIE, instantiated: the translated `Uninstall` fails exactly when the model's does, and what it
stats and removes is the model's `dirPath root name` (= `<root>/<name>` by `comps_dirPath`). -/
theorem source_Uninstall_same_decision_as_model (i : Input) (name : String) (h : i.name = name.toList) :
    (plugin.CLIManager.Uninstall (modelMgr i.root) (modelWorld i.fs) () name).isSome = (runUninstall i).err := by
  obtain ⟨_, g2, _⟩ := facts_guards
  rw [source_Uninstall_refines_model]
  unfold runUninstall
  rw [g2, h]
  cases hv : validName name.toList with
  | false => simp [errObs]
  | true =>
    simp only [modelMgr, modelWorld, dirPath, String.toList_ofList, if_true, Option.isSome_none, Bool.false_eq_true,
      if_false, Bool.not_true, Bool.and_false]
    cases hl : lookup i.fs (sysPath i.root [name.toList]) with
    | none => simp [errObs]
    | some n => (repeat' split) <;> simp_all [errObs]

/-- (marker: a failure reported under this name is a failure of one of the `example`s below) -/
theorem nonvacuity_examples_follow : True := trivial

/-- non-vacuity: the translated functions run -/
example : plugin.validatePluginName "../victim" = some ⟨"error"⟩ ∧ plugin.validatePluginName "my.plugin" = none ∧
    plugin.validatePluginName ".." = some ⟨"error"⟩ ∧ plugin.validatePluginName "a\\b" = some ⟨"error"⟩ := by decide
example : plugin.parsePluginName "notation-.." = ("..", none) ∧ (plugin.parsePluginName "notation-").2.isSome = true ∧
    plugin.binName "x" = "notation-x" := by decide
example : (plugin.CLIManager.Get (modelMgr "/a/p".toList) (modelWorld sampleFS) () "good").1 =
    some ⟨"good", "/a/p/good/notation-good"⟩ := by decide
example : plugin.CLIManager.Get (modelMgr "/a/p".toList) (modelWorld sampleFS) () "../victim" = (none, some ⟨"error"⟩) := by decide
example : plugin.CLIManager.Uninstall (modelMgr "/a/p".toList) (modelWorld sampleFS) () "../victim" = some ⟨"error"⟩ ∧
    plugin.CLIManager.Uninstall (modelMgr "/a/p".toList) (modelWorld sampleFS) () "good" = none := by decide

end Tie
end NotationModel.C16

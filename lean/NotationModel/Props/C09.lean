/- C09 - property theorems (stub: not built yet) -/
import NotationModel.Model.C09

namespace NotationModel.C09

end NotationModel.C09

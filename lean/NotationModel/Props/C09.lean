/-
C09 - Only well-formed trust policy documents are accepted.
Property theorems only; the model is in `Model/C09.lean`.

Main results
* `validate_iff_wellformed`  : Validate() accepts a document (OCI or blob) iff `WellFormed` - the
  property's rule list as a conjunction of quantified rules, no order of checks.
* `accepted_enforces_integrity` : every statement of an accepted document yields a level; unless
  the statement is skip the level says integrity = enforce (and nothing else about integrity).
* `scopes_unique_of_valid`   : (for C08) valid OCI document: no scope twice, one wildcard statement
  at most, the wildcard alone in its statement.
* `newVerifier_iff`          : the constructor route (NewVerifierWithOptions and the deprecated New /
  NewWithOptions, which call it): a verifier is built iff there is a trust store, at least one
  document, and EVERY document given - OCI and blob - is well-formed.
* `model_holds`              : the clauses of `Holds` are true of the model's observation, all inputs.
* pins: `constants_pinned`, `domainRx_pinned`, `repositoryRx_pinned`, `fileNameRx_pinned`, table facts.
* readable meaning of the leaf predicates: `storeOk_iff`, `isValidFileName_iff`, `isSubsetDN_iff`,
  `identities_no_subset`, `equal_names_overlap`, `dot_names_refused`.

Rules that `WellFormed` contains because the code enforces them although the statement's list
does not spell them out: an identity is the wildcard or reads `prefix:value`; every statement of
an OCI document has at least one scope. Mandatory attributes must have a non-empty value.
-/
import NotationModel.Model.C09
import NotationModel.Generated.SrcLevels
import NotationModel.Generated.SrcC09
set_option linter.unusedSimpArgs false
set_option linter.unusedVariables false

namespace NotationModel.C09
open NotationModel

/-! ### facts about the regenerated tables (re-checked whenever the source changes) -/

/-- the syntax trees the matcher runs on print exactly the expression texts of the source -/
theorem domainRx_pinned : domainRx.anchored = Facts.domainRegex ∧ domainRx.wf = true := by decide
theorem repositoryRx_pinned : repositoryRx.anchored = Facts.repositoryRegex ∧ repositoryRx.wf = true := by decide
theorem fileNameRx_pinned : fileNameRx.anchored = Facts.fileNameRegex ∧ fileNameRx.wf = true := by decide

/-- the literals of `Spec` are the constants of the source -/
theorem constants_pinned :
    Facts.wildcard = Spec.wildcard ∧ Facts.x509Subject = Spec.x509Subject ∧
    Facts.mandatoryDNFields = Spec.mandatoryDNFields ∧ Facts.fileNameRefused = Spec.fileNameRefused := by
  decide

/-- the fact extractor found the three regular expressions (wherever the source defines them) -/
theorem regex_readers_ok : Facts.regexReaderProblems = [] := by decide

theorem level_names_nodup : (Facts.levels.map (·.1)).Nodup := by decide
theorem empty_not_level : "" ∉ Facts.levels.map (·.1) := by decide
theorem skip_is_level : Facts.levelSkipName ∈ Facts.levels.map (·.1) := by decide
theorem empty_not_type : "" ∉ Facts.validationTypes := by decide
theorem empty_not_action : "" ∉ Facts.validationActions := by decide
theorem skip_literal : Facts.policyCoreSkipLiteral = Facts.levelSkipName := by decide
theorem custom_not_skip : Facts.customLevelName ≠ Facts.levelSkipName := by decide
theorem wildcard_no_colon : cut ':' Spec.wildcard = none := by decide
theorem wildcard_nonempty : Spec.wildcard ≠ [] := by decide
theorem empty_not_version (k : Kind) : "" ∉ supportedVersions k := by cases k <;> decide

/-- integrity = enforce is in the map and is the only thing the map says about integrity -/
def EnfIntegrity (e : Enf) : Prop :=
  (Facts.typeIntegrity, Facts.actionEnforce) ∈ e ∧ ∀ p ∈ e, p.1 = Facts.typeIntegrity → p.2 = Facts.actionEnforce

instance (e : Enf) : Decidable (EnfIntegrity e) := by unfold EnfIntegrity; infer_instance

/-- every level of the table except skip enforces integrity; skip does not -/
theorem table_enforces_integrity : ∀ l ∈ Facts.levels, l.1 ≠ Facts.levelSkipName → EnfIntegrity l.2 := by decide
theorem table_skip_skips_integrity : ∀ l ∈ Facts.levels, l.1 = Facts.levelSkipName → ¬ EnfIntegrity l.2 := by decide

/-! ### GetVerificationLevel -/

theorem foldl_level (lvl : String) : ∀ (L : List (String × Enf)) (acc : Option (String × Enf)),
    (L.foldl (fun acc l => if l.1 == lvl then some l else acc) acc = none ↔ acc = none ∧ ∀ l ∈ L, l.1 ≠ lvl) ∧
    (∀ b, L.foldl (fun acc l => if l.1 == lvl then some l else acc) acc = some b → (b ∈ L ∧ b.1 = lvl) ∨ acc = some b) := by
  intro L
  induction L with
  | nil => intro acc; simp
  | cons h t ih =>
    intro acc
    simp only [List.foldl_cons]
    obtain ⟨ih1, ih2⟩ := ih (if h.1 == lvl then some h else acc)
    constructor
    · rw [ih1]
      by_cases hh : h.1 = lvl
      · simp [hh]
      · simp [hh]
    · intro b hb
      rcases ih2 b hb with ⟨hm, hl⟩ | hacc
      · exact Or.inl ⟨List.mem_cons_of_mem _ hm, hl⟩
      · by_cases hh : h.1 = lvl
        · simp [hh] at hacc
          subst hacc
          exact Or.inl ⟨List.mem_cons_self, hh⟩
        · simp [hh] at hacc
          exact Or.inr hacc

theorem baseLevel_none (lvl : String) : baseLevel lvl = none ↔ lvl ∉ Facts.levels.map (·.1) := by
  unfold baseLevel
  rw [(foldl_level lvl Facts.levels none).1]
  simp only [true_and, List.mem_map, not_exists, not_and]

theorem baseLevel_some (lvl : String) (b : String × Enf) (h : baseLevel lvl = some b) :
    b ∈ Facts.levels ∧ b.1 = lvl := by
  unfold baseLevel at h
  rcases (foldl_level lvl Facts.levels none).2 b h with h | h
  · exact h
  · cases h

theorem find_getD (L : List String) (k : String) (h : "" ∉ L) :
    ((L.find? (· == k)).getD "" == "") = true ↔ k ∉ L := by
  cases hf : L.find? (· == k) with
  | none =>
    simp only [Option.getD_none, beq_self_eq_true, true_iff]
    intro hk
    have := List.find?_eq_none.1 hf k hk
    simp at this
  | some a =>
    have hp := List.find?_some hf
    have hm := List.mem_of_find?_eq_some hf
    simp only [beq_iff_eq] at hp
    subst hp
    simp only [Option.getD_some, beq_iff_eq]
    constructor
    · intro h'; subst h'; exact absurd hm h
    · intro h'; exact absurd hm h'

theorem applyOverride_ok (kv : KV) (e e' : Enf) :
    applyOverride kv e = .ok e' ↔ OverrideOk kv ∧ e' = setKey kv.key kv.val e := by
  unfold applyOverride OverrideOk
  have h1 := find_getD Facts.validationTypes kv.key empty_not_type
  have h2 := find_getD Facts.validationActions kv.val empty_not_action
  by_cases c1 : kv.key ∈ Facts.validationTypes
  · by_cases c2 : kv.val ∈ Facts.validationActions
    · have h1' : ((Facts.validationTypes.find? (· == kv.key)).getD "" == "") = false := by
        cases hb : ((Facts.validationTypes.find? (· == kv.key)).getD "" == "") with
        | false => rfl
        | true => exact absurd c1 (h1.1 hb)
      have h2' : ((Facts.validationActions.find? (· == kv.val)).getD "" == "") = false := by
        cases hb : ((Facts.validationActions.find? (· == kv.val)).getD "" == "") with
        | false => rfl
        | true => exact absurd c2 (h2.1 hb)
      simp only [h1', h2', Bool.false_eq_true, if_false]
      by_cases c3 : kv.key = Facts.typeIntegrity
      · have hb : (kv.key == Facts.typeIntegrity) = true := by simp [c3]
        simp only [hb, if_true]
        constructor
        · intro h; cases h
        · rintro ⟨⟨_, _, h3, _⟩, _⟩; exact absurd c3 h3
      · have hb : (kv.key == Facts.typeIntegrity) = false := by simp [c3]
        simp only [hb, Bool.false_eq_true, if_false]
        cases c45 : (kv.key != Facts.typeRevocation && kv.val == Facts.actionSkip) with
        | true =>
          simp only [if_true]
          simp only [Bool.and_eq_true, bne_iff_ne, ne_eq, beq_iff_eq] at c45
          constructor
          · intro h; cases h
          · rintro ⟨⟨_, _, _, h4⟩, _⟩; exact absurd (h4 c45.2) c45.1
        | false =>
          simp only [Bool.false_eq_true, if_false]
          have c45' : kv.val = Facts.actionSkip → kv.key = Facts.typeRevocation := by
            intro hv
            cases hk : (kv.key != Facts.typeRevocation) with
            | false => simpa using hk
            | true => simp [hk, hv] at c45
          constructor
          · intro h
            injection h with h
            exact ⟨⟨c1, c2, c3, c45'⟩, h.symm⟩
          · rintro ⟨_, h⟩; rw [h]
    · have h2' := h2.2 c2
      have h1' : ((Facts.validationTypes.find? (· == kv.key)).getD "" == "") = false := by
        cases hb : ((Facts.validationTypes.find? (· == kv.key)).getD "" == "") with
        | false => rfl
        | true => exact absurd c1 (h1.1 hb)
      simp [h1', h2', c2]
  · have h1' := h1.2 c1
    simp [h1', c1]

theorem applyOverrides_ok : ∀ (ov : List KV) (e : Enf),
    (∃ e', applyOverrides ov e = .ok e') ↔ ∀ kv ∈ ov, OverrideOk kv := by
  intro ov
  induction ov with
  | nil => intro e; simp [applyOverrides]
  | cons kv r ih =>
    intro e
    simp only [applyOverrides, List.mem_cons, forall_eq_or_imp]
    cases h : applyOverride kv e with
    | error m =>
      simp only [reduceCtorEq, exists_false, false_iff, not_and]
      intro hk
      have := (applyOverride_ok kv e (setKey kv.key kv.val e)).2 ⟨hk, rfl⟩
      rw [h] at this; cases this
    | ok e1 =>
      simp only []
      rw [ih e1]
      have := ((applyOverride_ok kv e e1).1 h).1
      simp [this]

theorem setKey_mem_of_ne (k v : String) (p : String × String) (hk : p.1 ≠ k) :
    ∀ e : Enf, p ∈ e → p ∈ setKey k v e := by
  intro e hp
  unfold setKey
  split
  · refine List.mem_map.2 ⟨p, hp, ?_⟩
    have : (p.1 == k) = false := by simpa using hk
    simp [this]
  · exact List.mem_append_left _ hp

theorem setKey_mem (k v : String) (p : String × String) :
    ∀ e : Enf, p ∈ setKey k v e → p ∈ e ∨ p = (k, v) := by
  intro e hp
  unfold setKey at hp
  split at hp
  · obtain ⟨q, hq, rfl⟩ := List.mem_map.1 hp
    by_cases hqk : (q.1 == k) = true
    · right; simp [hqk]
    · left
      have : (q.1 == k) = false := by simpa using hqk
      simpa [this] using hq
  · rcases List.mem_append.1 hp with h | h
    · exact Or.inl h
    · right; simpa using h

theorem setKey_integrity (k v : String) (e : Enf) (hk : k ≠ Facts.typeIntegrity) (h : EnfIntegrity e) :
    EnfIntegrity (setKey k v e) := by
  obtain ⟨h1, h2⟩ := h
  refine ⟨setKey_mem_of_ne k v _ (fun h => hk h.symm) e h1, ?_⟩
  intro p hp hpi
  rcases setKey_mem k v p e hp with h | h
  · exact h2 p h hpi
  · subst h; exact absurd hpi hk

theorem applyOverrides_integrity : ∀ (ov : List KV) (e e' : Enf),
    applyOverrides ov e = .ok e' → EnfIntegrity e → EnfIntegrity e' := by
  intro ov
  induction ov with
  | nil => intro e e' h hi; simp [applyOverrides] at h; subst h; exact hi
  | cons kv r ih =>
    intro e e' h hi
    simp only [applyOverrides] at h
    cases h1 : applyOverride kv e with
    | error m => rw [h1] at h; cases h
    | ok e1 =>
      rw [h1] at h
      obtain ⟨hok, he1⟩ := (applyOverride_ok kv e e1).1 h1
      subst he1
      exact ih _ _ h (setKey_integrity _ _ _ hok.2.2.1 hi)

/-- `GetVerificationLevel` succeeds exactly for a known level with admissible overrides
(none at all on skip) -/
theorem effective_ok_iff (lvl : String) (ov : List KV) :
    (∃ lv, effective lvl ov = .ok lv) ↔
      lvl ∈ Facts.levels.map (·.1) ∧ (lvl = Facts.levelSkipName → ov = []) ∧ ∀ kv ∈ ov, OverrideOk kv := by
  unfold effective
  by_cases h0 : lvl = ""
  · subst h0
    simp only [beq_self_eq_true, if_true, reduceCtorEq, exists_false, false_iff]
    intro h; exact empty_not_level h.1
  · have hb : (lvl == "") = false := by simp [h0]
    simp only [hb, Bool.false_eq_true, if_false]
    cases hbl : baseLevel lvl with
    | none =>
      simp only [reduceCtorEq, exists_false, false_iff]
      intro h; exact (baseLevel_none lvl).1 hbl h.1
    | some b =>
      have hmem : lvl ∈ Facts.levels.map (·.1) := by
        cases hd : decide (lvl ∈ Facts.levels.map (·.1)) with
        | true => exact of_decide_eq_true hd
        | false =>
          have := (baseLevel_none lvl).2 (of_decide_eq_false hd)
          rw [hbl] at this; cases this
      obtain ⟨_, hb1⟩ := baseLevel_some lvl b hbl
      simp only []
      cases ov with
      | nil => simp [hmem]
      | cons kv r =>
        simp only [List.isEmpty_cons, Bool.false_eq_true, if_false, hb1]
        by_cases hs : lvl = Facts.levelSkipName
        · simp [hs]
        · have hsb : (lvl == Facts.levelSkipName) = false := by simp [hs]
          simp only [hsb, Bool.false_eq_true, if_false]
          have := applyOverrides_ok (kv :: r) b.2
          cases ha : applyOverrides (kv :: r) b.2 with
          | error m =>
            rw [ha] at this
            simp only [reduceCtorEq, exists_false, false_iff] at this ⊢
            intro h; exact this h.2.2
          | ok e =>
            rw [ha] at this
            have h3 := this.1 ⟨e, rfl⟩
            simp only [Except.ok.injEq, exists_eq', true_iff]
            exact ⟨hmem, fun h => absurd h hs, h3⟩

/-- the name of the effective level is "skip" exactly when the statement's level is skip -/
theorem effective_name (lvl : String) (ov : List KV) (lv : String × Enf)
    (h : effective lvl ov = .ok lv) : lv.1 = Facts.policyCoreSkipLiteral ↔ lvl = Facts.levelSkipName := by
  rw [skip_literal]
  unfold effective at h
  by_cases h0 : lvl = ""
  · simp [h0] at h
  · have hb : (lvl == "") = false := by simp [h0]
    simp only [hb, Bool.false_eq_true, if_false] at h
    cases hbl : baseLevel lvl with
    | none => rw [hbl] at h; cases h
    | some b =>
      rw [hbl] at h
      obtain ⟨_, hb1⟩ := baseLevel_some lvl b hbl
      simp only [] at h
      cases ov with
      | nil =>
        simp only [List.isEmpty_nil, if_true] at h
        injection h with h; subst h; rw [hb1]
      | cons kv r =>
        simp only [List.isEmpty_cons, Bool.false_eq_true, if_false, hb1] at h
        by_cases hs : lvl = Facts.levelSkipName
        · simp [hs] at h
        · have hsb : (lvl == Facts.levelSkipName) = false := by simp [hs]
          simp only [hsb, Bool.false_eq_true, if_false] at h
          cases ha : applyOverrides (kv :: r) b.2 with
          | error m => rw [ha] at h; cases h
          | ok e =>
            rw [ha] at h
            injection h with h; subst h
            simp only []
            constructor
            · intro h; exact absurd h custom_not_skip
            · intro h; exact absurd h hs

/-- a level that is not skip enforces integrity, whatever the overrides -/
theorem effective_integrity (lvl : String) (ov : List KV) (lv : String × Enf)
    (h : effective lvl ov = .ok lv) (hs : lvl ≠ Facts.levelSkipName) : EnfIntegrity lv.2 := by
  unfold effective at h
  by_cases h0 : lvl = ""
  · simp [h0] at h
  · have hb : (lvl == "") = false := by simp [h0]
    simp only [hb, Bool.false_eq_true, if_false] at h
    cases hbl : baseLevel lvl with
    | none => rw [hbl] at h; cases h
    | some b =>
      rw [hbl] at h
      obtain ⟨hbm, hb1⟩ := baseLevel_some lvl b hbl
      have hbi : EnfIntegrity b.2 := table_enforces_integrity b hbm (by rw [hb1]; exact hs)
      simp only [] at h
      cases ov with
      | nil =>
        simp only [List.isEmpty_nil, if_true] at h
        injection h with h; subst h; exact hbi
      | cons kv r =>
        simp only [List.isEmpty_cons, Bool.false_eq_true, if_false, hb1] at h
        have hsb : (lvl == Facts.levelSkipName) = false := by simp [hs]
        simp only [hsb, Bool.false_eq_true, if_false] at h
        cases ha : applyOverrides (kv :: r) b.2 with
        | error m => rw [ha] at h; cases h
        | ok e =>
          rw [ha] at h
          injection h with h; subst h
          exact applyOverrides_integrity _ _ _ ha hbi

/-! ### validateTrustStore -/

theorem validateTrustStore_ok : ∀ ts : List Text,
    validateTrustStore ts = .ok () ↔ ∀ t ∈ ts, storeOk t = true := by
  intro ts
  induction ts with
  | nil => simp [validateTrustStore]
  | cons t r ih =>
    simp only [validateTrustStore, List.mem_cons, forall_eq_or_imp]
    rw [← ih]
    unfold storeOk
    cases hc : cut ':' t with
    | none => simp
    | some p =>
      obtain ⟨ty, nm⟩ := p
      simp only []
      cases h1 : Facts.trustStoreTypes.contains ty with
      | false => simp
      | true =>
        cases h2 : isValidFileName nm with
        | false => simp
        | true => simp

/-! ### pkix.ParseDistinguishedName -/

def attrPair (a : Attr) : String × String := (aliasType a.typ, a.val)

theorem lookup_isSome (k : String) : ∀ m : DNMap, (m.lookup k).isSome = true ↔ k ∈ m.map (·.1) := by
  intro m
  induction m with
  | nil => simp
  | cons h t ih =>
    obtain ⟨k', v'⟩ := h
    simp only [List.lookup_cons, List.map_cons, List.mem_cons]
    by_cases hk : k = k'
    · subst hk; simp
    · have : (k == k') = false := by simp [hk]
      simp only [this, ih, hk, false_or]

theorem lookup_eq_some (k v : String) : ∀ m : DNMap, (m.map (·.1)).Nodup →
    (m.lookup k = some v ↔ (k, v) ∈ m) := by
  intro m
  induction m with
  | nil => simp
  | cons h t ih =>
    obtain ⟨k', v'⟩ := h
    intro hn
    simp only [List.map_cons, List.nodup_cons] at hn
    simp only [List.lookup_cons, List.mem_cons, Prod.mk.injEq]
    by_cases hk : k = k'
    · subst hk
      simp only [beq_self_eq_true, Option.some.injEq, true_and]
      constructor
      · intro h; exact Or.inl h.symm
      · rintro (h | h)
        · exact h.symm
        · exact absurd (List.mem_map.2 ⟨(k, v), h, rfl⟩) hn.1
    · have : (k == k') = false := by simp [hk]
      simp only [this, ih hn.2, hk, false_and, false_or]

theorem dnAttrs_ok : ∀ (as : List Attr) (m m' : DNMap),
    dnAttrs as m = .ok m' ↔
      m' = m ++ as.map attrPair ∧ (∀ k ∈ (as.map attrPair).map (·.1), k ∉ m.map (·.1)) ∧
        ((as.map attrPair).map (·.1)).Nodup := by
  intro as
  induction as with
  | nil => intro m m'; simp [dnAttrs, eq_comm]
  | cons a r ih =>
    intro m m'
    simp only [dnAttrs, dnAttr]
    cases hl : (m.lookup (aliasType a.typ)).isSome with
    | true =>
      have hmem := (lookup_isSome _ m).1 hl
      simp only [if_true, reduceCtorEq, false_iff, not_and]
      intro _ hd
      exact absurd hmem (hd _ (by simp [attrPair]))
    | false =>
      have hnm : aliasType a.typ ∉ m.map (·.1) := by
        intro hm
        have := (lookup_isSome _ m).2 hm
        rw [hl] at this; cases this
      simp only [Bool.false_eq_true, if_false]
      rw [ih]
      simp only [List.map_cons, List.mem_cons, forall_eq_or_imp, List.nodup_cons, List.map_append,
        List.mem_append, List.map_nil, List.mem_singleton, List.append_assoc, List.cons_append,
        List.nil_append, attrPair, not_or, List.not_mem_nil, not_false_eq_true, and_true]
      constructor
      · rintro ⟨h1, h2, h3⟩
        refine ⟨h1, ⟨hnm, fun k hk => (h2 k hk).1⟩, ?_, h3⟩
        intro hm
        exact (h2 _ hm).2 rfl
      · rintro ⟨h1, ⟨_, h2⟩, h3, h4⟩
        refine ⟨h1, fun k hk => ⟨h2 k hk, ?_⟩, h4⟩
        intro hk'
        subst hk'
        exact h3 hk

theorem dnAttrs_append : ∀ (a b : List Attr) (m m' : DNMap),
    dnAttrs (a ++ b) m = .ok m' ↔ ∃ m1, dnAttrs a m = .ok m1 ∧ dnAttrs b m1 = .ok m' := by
  intro a
  induction a with
  | nil => intro b m m'; simp [dnAttrs]
  | cons x r ih =>
    intro b m m'
    simp only [List.cons_append, dnAttrs]
    cases hx : dnAttr m x with
    | error e => simp
    | ok m1 => simp only []; exact ih b m1 m'

theorem dnRdns_ok : ∀ (rdns : List (List Attr)) (m m' : DNMap),
    dnRdns rdns m = .ok m' ↔ (∀ r ∈ rdns, r.length ≤ 1) ∧ dnAttrs rdns.flatten m = .ok m' := by
  intro rdns
  induction rdns with
  | nil => intro m m'; simp [dnRdns, dnAttrs]
  | cons rdn r ih =>
    intro m m'
    simp only [dnRdns, List.mem_cons, forall_eq_or_imp, List.flatten_cons]
    by_cases hl : rdn.length > 1
    · simp only [hl, if_true, reduceCtorEq, false_iff, not_and]
      intro h; omega
    · simp only [hl, if_false]
      have hle : rdn.length ≤ 1 := by omega
      rw [dnAttrs_append]
      cases hx : dnAttrs rdn m with
      | error e => simp
      | ok m1 =>
        simp only [Except.ok.injEq, exists_eq_left', hle, true_and]
        exact ih m1 m'

theorem hasMandatory_iff (m : DNMap) (hn : (m.map (·.1)).Nodup) :
    hasMandatory m = true ↔ ∀ f ∈ Spec.mandatoryDNFields, ∃ v ∈ m.map (·.2), (f, v) ∈ m ∧ v ≠ "" := by
  unfold hasMandatory
  rw [List.all_eq_true]
  constructor
  · intro h f hf
    have := h f hf
    cases hl : m.lookup f with
    | none => simp [hl] at this
    | some v =>
      simp only [hl, Option.getD_some, bne_iff_ne, ne_eq] at this
      have hm := (lookup_eq_some f v m hn).1 hl
      exact ⟨v, List.mem_map.2 ⟨(f, v), hm, rfl⟩, hm, this⟩
  · intro h f hf
    obtain ⟨v, _, hm, hv⟩ := h f hf
    have hl := (lookup_eq_some f v m hn).2 hm
    simp [hl, hv]

theorem parseDN_ok (value : Text) (ldap : Option (List (List Attr))) (m : DNMap) :
    parseDN value ldap = .ok m ↔
      hasInfix Facts.dnRefusedInfix value = false ∧ ldap.isSome = true ∧
      (∀ r ∈ ldap.getD [], r.length ≤ 1) ∧ m = dnPairs (ldap.getD []) ∧
      ((dnPairs (ldap.getD [])).map (·.1)).Nodup ∧
      (∀ f ∈ Spec.mandatoryDNFields, ∃ v ∈ (dnPairs (ldap.getD [])).map (·.2),
          (f, v) ∈ dnPairs (ldap.getD []) ∧ v ≠ "") := by
  unfold parseDN
  cases hi : hasInfix Facts.dnRefusedInfix value with
  | true => simp
  | false =>
    simp only [Bool.false_eq_true, if_false, true_and]
    cases ldap with
    | none => simp
    | some rdns =>
      simp only [Option.isSome_some, Option.getD_some, true_and]
      have hp : dnPairs rdns = rdns.flatten.map attrPair := rfl
      cases hr : dnRdns rdns [] with
      | error e =>
        simp only [reduceCtorEq, false_iff]
        rintro ⟨h1, h2, h3, _⟩
        have := (dnRdns_ok rdns [] (dnPairs rdns)).2
          ⟨h1, (dnAttrs_ok _ _ _).2 ⟨by simp [hp], by simp, by rw [← hp]; exact h3⟩⟩
        rw [hr] at this; cases this
      | ok m1 =>
        obtain ⟨h1, h2⟩ := (dnRdns_ok rdns [] m1).1 hr
        obtain ⟨h3, _, h5⟩ := (dnAttrs_ok _ _ _).1 h2
        simp only [List.nil_append] at h3
        rw [← hp] at h3 h5
        subst h3
        simp only []
        cases hm : hasMandatory (dnPairs rdns) with
        | true =>
          have := (hasMandatory_iff _ h5).1 hm
          simp only [if_true, Except.ok.injEq]
          constructor
          · intro h; exact ⟨h1, h.symm, h5, this⟩
          · intro h; exact h.2.1.symm
        | false =>
          simp only [Bool.false_eq_true, if_false, reduceCtorEq, false_iff]
          rintro ⟨_, _, _, h4⟩
          have := (hasMandatory_iff _ h5).2 h4
          rw [hm] at this; cases this

/-! ### validateTrustedIdentities -/

/-- what the code demands of a single identity -/
def IdOk (id : Identity) : Prop :=
  id.raw ≠ [] ∧ (id.raw ≠ Spec.wildcard → (cut ':' id.raw).isSome = true) ∧ (isX509 id = true → DNOk id)

theorem parseDN_DNOk (id : Identity) (hv : idValue id ≠ []) :
    (∀ m, parseDN (idValue id) id.dn = .ok m → m = dnMapOf id ∧ DNOk id) ∧
    (DNOk id → parseDN (idValue id) id.dn = .ok (dnMapOf id)) := by
  constructor
  · intro m hm
    obtain ⟨h1, h2, h3, h4, h5, h6⟩ := (parseDN_ok _ _ _).1 hm
    exact ⟨h4, hv, h1, h2, h3, h5, h6⟩
  · rintro ⟨_, h1, h2, h3, h5, h6⟩
    exact (parseDN_ok _ _ _).2 ⟨h1, h2, h3, rfl, h5, h6⟩

theorem collectDNs_ok : ∀ (ids : List Identity) (acc ms : List DNMap),
    collectDNs ids acc = .ok ms ↔
      (∀ id ∈ ids, IdOk id) ∧ ms = acc ++ (ids.filter isX509).map dnMapOf := by
  intro ids
  induction ids with
  | nil => intro acc ms; simp [collectDNs, eq_comm]
  | cons id r ih =>
    intro acc ms
    simp only [collectDNs, List.mem_cons, forall_eq_or_imp]
    by_cases he : id.raw = []
    · simp [he, IdOk]
    · have hne : id.raw.isEmpty = false := by
        cases h : id.raw with
        | nil => exact absurd h he
        | cons _ _ => rfl
      simp only [hne, Bool.false_eq_true, if_false]
      by_cases hw : id.raw = Spec.wildcard
      · have hx : isX509 id = false := by
          simp [isX509, idPrefix, hw, wildcard_no_colon]
        have hok : IdOk id := ⟨he, fun h => absurd hw h, by simp [hx]⟩
        have hb : (id.raw == Spec.wildcard) = true := by simp [hw]
        simp only [hb, if_true, ih, hok, true_and, List.filter_cons, hx, Bool.false_eq_true, if_false]
      · have hb : (id.raw == Spec.wildcard) = false := by simp [hw]
        simp only [hb, Bool.false_eq_true, if_false]
        cases hc : cut ':' id.raw with
        | none =>
          simp only [reduceCtorEq, false_iff, not_and]
          intro hid
          have := hid.1.2.1 hw
          rw [hc] at this; cases this
        | some p =>
          obtain ⟨pre, value⟩ := p
          simp only []
          have hval : idValue id = value := by simp [idValue, hc]
          by_cases hp : pre = Spec.x509Subject
          · have hx : isX509 id = true := by simp [isX509, idPrefix, hc, hp]
            have hpb : (pre == Spec.x509Subject) = true := by simp [hp]
            simp only [hpb, if_true]
            by_cases hv : value = []
            · simp only [hv, List.isEmpty_nil, if_true, reduceCtorEq, false_iff, not_and]
              intro hid
              have := (hid.1.2.2 hx).1
              rw [hval] at this; exact absurd hv this
            · have hvb : value.isEmpty = false := by
                cases h : value with
                | nil => exact absurd h hv
                | cons _ _ => rfl
              simp only [hvb, Bool.false_eq_true, if_false]
              have hv' : idValue id ≠ [] := by rw [hval]; exact hv
              obtain ⟨hp1, hp2⟩ := parseDN_DNOk id hv'
              rw [hval] at hp1 hp2
              cases hpd : parseDN value id.dn with
              | error e =>
                simp only [reduceCtorEq, false_iff, not_and]
                intro hid
                have := hp2 (hid.1.2.2 hx)
                rw [hpd] at this; cases this
              | ok m =>
                obtain ⟨hm, hdn⟩ := hp1 m hpd
                subst hm
                have hok : IdOk id := ⟨he, fun _ => by simp [hc], fun _ => hdn⟩
                simp only [ih, hok, true_and, List.filter_cons, hx, if_true, List.map_cons,
                  List.append_assoc, List.cons_append, List.nil_append]
          · have hx : isX509 id = false := by simp [isX509, idPrefix, hc, hp]
            have hpb : (pre == Spec.x509Subject) = false := by simp [hp]
            have hok : IdOk id := ⟨he, fun _ => by simp [hc], by simp [hx]⟩
            simp only [hpb, Bool.false_eq_true, if_false, ih, hok, true_and, List.filter_cons, hx]

theorem overlapping_false (ms : List DNMap) : overlapping ms = false ↔ NoOverlap ms := by
  unfold overlapping NoOverlap
  simp only [List.any_eq_false, List.mem_range, Bool.and_eq_true, bne_iff_ne, ne_eq, not_and,
    Bool.not_eq_true]

theorem validateTrustedIdentities_ok (ids : List Identity) :
    validateTrustedIdentities ids = .ok () ↔ IdentitiesOk ids := by
  unfold validateTrustedIdentities IdentitiesOk
  by_cases hw : Spec.wildcard ∈ ids.map (·.raw)
  · by_cases hl : ids.length > 1
    · have : (decide (ids.length > 1) && (ids.map (·.raw)).contains Spec.wildcard) = true := by
        simp [hl, hw]
      simp only [this, if_true, reduceCtorEq, false_iff, not_and]
      intro h; have := h hw; omega
    · have : (decide (ids.length > 1) && (ids.map (·.raw)).contains Spec.wildcard) = false := by
        simp [hl]
      have hle : ids.length ≤ 1 := by omega
      simp only [this, Bool.false_eq_true, if_false, hle, implies_true, true_and]
      cases hc : collectDNs ids [] with
      | error e =>
        simp only [reduceCtorEq, false_iff, not_and]
        intro hall
        have := (collectDNs_ok ids [] _).2 ⟨hall, rfl⟩
        rw [hc] at this; cases this
      | ok ms =>
        obtain ⟨hall, hms⟩ := (collectDNs_ok ids [] ms).1 hc
        simp only [List.nil_append] at hms
        subst hms
        simp only []
        have hall' : ∀ id ∈ ids, IdOk id := hall
        cases ho : overlapping ((ids.filter isX509).map dnMapOf) with
        | true =>
          simp only [if_true, reduceCtorEq, false_iff, not_and]
          intro _ hno
          have := (overlapping_false _).2 hno
          rw [ho] at this; cases this
        | false =>
          simp only [Bool.false_eq_true, if_false, true_iff]
          exact ⟨hall', (overlapping_false _).1 ho⟩
  · have : (decide (ids.length > 1) && (ids.map (·.raw)).contains Spec.wildcard) = false := by
      simp [hw]
    simp only [this, Bool.false_eq_true, if_false, hw, false_implies, true_and]
    cases hc : collectDNs ids [] with
    | error e =>
      simp only [reduceCtorEq, false_iff, not_and]
      intro hall
      have := (collectDNs_ok ids [] _).2 ⟨hall, rfl⟩
      rw [hc] at this; cases this
    | ok ms =>
      obtain ⟨hall, hms⟩ := (collectDNs_ok ids [] ms).1 hc
      simp only [List.nil_append] at hms
      subst hms
      simp only []
      have hall' : ∀ id ∈ ids, IdOk id := hall
      cases ho : overlapping ((ids.filter isX509).map dnMapOf) with
      | true =>
        simp only [if_true, reduceCtorEq, false_iff, not_and]
        intro _ hno
        have := (overlapping_false _).2 hno
        rw [ho] at this; cases this
      | false =>
        simp only [Bool.false_eq_true, if_false, true_iff]
        exact ⟨hall', (overlapping_false _).1 ho⟩

/-! ### validatePolicyCore -/

theorem length_pos_false {α : Type} (l : List α) : decide (l.length > 0) = false ↔ l = [] := by
  cases l <;> simp

theorem validatePolicyCore_ok (s : Statement) : validatePolicyCore s = .ok () ↔ StatementOk s := by
  unfold validatePolicyCore StatementOk
  by_cases hn : s.name = ""
  · simp [hn]
  · have hnb : (s.name == "") = false := by simp [hn]
    simp only [hnb, Bool.false_eq_true, if_false, ne_eq, hn, not_false_eq_true, true_and]
    have heff := effective_ok_iff s.level s.override
    cases he : effective s.level s.override with
    | error e =>
      rw [he] at heff
      simp only [reduceCtorEq, exists_false, false_iff] at heff
      simp only [reduceCtorEq, false_iff]
      rintro ⟨h1, h2, h3, _⟩
      exact heff ⟨h1, h2, h3⟩
    | ok lv =>
      rw [he] at heff
      obtain ⟨h1, h2, h3⟩ := heff.1 ⟨lv, rfl⟩
      have hname := effective_name s.level s.override lv he
      have h2' : IsSkip s → s.override = [] := h2
      have hpre : ∀ P : Prop, (s.level ∈ Facts.levels.map (·.1) ∧ (IsSkip s → s.override = []) ∧
          (∀ kv ∈ s.override, OverrideOk kv) ∧ P) ↔ P :=
        fun P => ⟨fun h => h.2.2.2, fun h => ⟨h1, h2', h3, h⟩⟩
      rw [hpre]
      by_cases hts : s.verifyTimestamp = "" ∨ s.verifyTimestamp = Facts.optionAlways ∨
          s.verifyTimestamp = Facts.optionAfterCertExpiry
      · have htb : (s.verifyTimestamp != "" && s.verifyTimestamp != Facts.optionAlways &&
            s.verifyTimestamp != Facts.optionAfterCertExpiry) = false := by
          rcases hts with h | h | h <;> simp [h]
        simp only [htb, Bool.false_eq_true, if_false, hts, true_and]
        by_cases hs : s.level = Facts.levelSkipName
        · have hlb : (lv.1 == Facts.policyCoreSkipLiteral) = true := by
            simp [hname.2 hs]
          have hsk : IsSkip s := hs
          simp only [hlb, if_true, hsk, not_true_eq_false, false_implies, and_true, true_implies]
          cases hst : s.trustStores with
          | nil =>
            cases hid : s.identities with
            | nil => simp
            | cons _ _ => simp
          | cons _ _ => simp
        · have hlb : (lv.1 == Facts.policyCoreSkipLiteral) = false := by
            cases hb : (lv.1 == Facts.policyCoreSkipLiteral) with
            | false => rfl
            | true => exact absurd (hname.1 (by simpa using hb)) hs
          have hsk : ¬ IsSkip s := hs
          simp only [hlb, Bool.false_eq_true, if_false, hsk, false_implies, not_false_eq_true,
            true_implies, true_and]
          cases hst : s.trustStores with
          | nil => simp
          | cons t ts =>
            cases hid : s.identities with
            | nil => simp
            | cons i is =>
              have : (((t :: ts).length == 0) || ((i :: is).length == 0)) = false := by simp
              simp only [this, Bool.false_eq_true, if_false, ne_eq, reduceCtorEq, not_false_eq_true,
                true_and]
              rw [← validateTrustStore_ok, ← validateTrustedIdentities_ok]
              cases hv : validateTrustStore (t :: ts) with
              | error e => simp
              | ok u => simp
      · have htb : (s.verifyTimestamp != "" && s.verifyTimestamp != Facts.optionAlways &&
            s.verifyTimestamp != Facts.optionAfterCertExpiry) = true := by
          simp only [not_or] at hts
          simp [hts.1, hts.2.1, hts.2.2]
        simp [htb, hts]

/-! ### the statement loops and the scope rules -/

theorem validateStatementsOCI_ok : ∀ (ss : List Statement) (seen : List String),
    validateStatementsOCI ss seen = .ok () ↔
      (∀ s ∈ ss, StatementOk s) ∧ (∀ s ∈ ss, s.name ∉ seen) ∧ (ss.map (·.name)).Nodup := by
  intro ss
  induction ss with
  | nil => intro seen; simp [validateStatementsOCI]
  | cons s r ih =>
    intro seen
    simp only [validateStatementsOCI, List.mem_cons, forall_eq_or_imp, List.map_cons, List.nodup_cons]
    by_cases hs : s.name ∈ seen
    · simp [hs]
    · have hb : seen.contains s.name = false := by simp [hs]
      simp only [hb, Bool.false_eq_true, if_false]
      cases hc : validatePolicyCore s with
      | error e =>
        have : ¬ StatementOk s := by
          intro h; have := (validatePolicyCore_ok s).2 h; rw [hc] at this; cases this
        simp [this]
      | ok u =>
        have hok : StatementOk s := (validatePolicyCore_ok s).1 (by rw [hc])
        simp only [ih, List.mem_cons, not_or, hok, true_and, hs, not_false_eq_true, List.mem_map,
          not_exists, not_and]
        constructor
        · rintro ⟨h1, h2, h3⟩
          exact ⟨h1, fun a ha => (h2 a ha).2, fun x hx heq => (h2 x hx).1 heq, h3⟩
        · rintro ⟨h1, h2, h3, h4⟩
          exact ⟨h1, fun a ha => ⟨fun heq => h3 a ha heq, h2 a ha⟩, h4⟩

theorem checkScopes_ok : ∀ l : List Text,
    checkScopes l = .ok () ↔ ∀ sc ∈ l, sc = Spec.wildcard ∨ validScopeFormat sc = true := by
  intro l
  induction l with
  | nil => simp [checkScopes]
  | cons sc r ih =>
    simp only [checkScopes, List.mem_cons, forall_eq_or_imp]
    by_cases hw : sc = Spec.wildcard
    · subst hw
      have : (Spec.wildcard != Spec.wildcard && !validScopeFormat Spec.wildcard) = false := by simp
      simp only [this, Bool.false_eq_true, if_false, ih, true_or, true_and]
    · cases hv : validScopeFormat sc with
      | true =>
        have : (sc != Spec.wildcard && !true) = false := by simp
        simp only [this, Bool.false_eq_true, if_false, ih, or_true, true_and]
      | false =>
        have : (sc != Spec.wildcard && !false) = true := by simp [hw]
        simp [this, hw]

/-- what the code demands of the scope list of one statement -/
def StmtScopesOk (s : Statement) : Prop :=
  s.scopes ≠ [] ∧ (Spec.wildcard ∈ s.scopes → s.scopes.length ≤ 1) ∧
    ∀ sc ∈ s.scopes, sc = Spec.wildcard ∨ validScopeFormat sc = true

theorem stmtScopes_iff (s : Statement) :
    StmtScopesOk s ↔ (s.scopes.length == 0) = false ∧
      (decide (s.scopes.length > 1) && s.scopes.contains Spec.wildcard) = false ∧
      checkScopes s.scopes = .ok () := by
  unfold StmtScopesOk
  rw [checkScopes_ok]
  have e1 : s.scopes ≠ [] ↔ (s.scopes.length == 0) = false := by
    cases s.scopes <;> simp
  have e2 : (Spec.wildcard ∈ s.scopes → s.scopes.length ≤ 1) ↔
      (decide (s.scopes.length > 1) && s.scopes.contains Spec.wildcard) = false := by
    by_cases hw : Spec.wildcard ∈ s.scopes
    · have hc : s.scopes.contains Spec.wildcard = true := by simpa using hw
      simp only [hw, true_implies, hc, Bool.and_true, decide_eq_false_iff_not]
      omega
    · have hc : s.scopes.contains Spec.wildcard = false := by
        cases hb : s.scopes.contains Spec.wildcard with
        | false => rfl
        | true => exact absurd (by simpa using hb) hw
      simp [hw, hc]
  rw [e1, e2]

theorem scanScopes_ok : ∀ (ss : List Statement) (acc all : List Text),
    scanScopes ss acc = .ok all ↔
      (∀ s ∈ ss, StmtScopesOk s) ∧ all = acc ++ ss.flatMap (·.scopes) := by
  intro ss
  induction ss with
  | nil => intro acc all; simp [scanScopes, eq_comm]
  | cons s r ih =>
    intro acc all
    simp only [scanScopes, List.mem_cons, forall_eq_or_imp, List.flatMap_cons]
    have hst := stmtScopes_iff s
    cases c1 : (s.scopes.length == 0) with
    | true =>
      simp only [if_true, reduceCtorEq, false_iff]
      rintro ⟨⟨h, _⟩, _⟩
      have := (hst.1 h).1; rw [c1] at this; cases this
    | false =>
      simp only [Bool.false_eq_true, if_false]
      cases c2 : (decide (s.scopes.length > 1) && s.scopes.contains Spec.wildcard) with
      | true =>
        simp only [if_true, reduceCtorEq, false_iff]
        rintro ⟨⟨h, _⟩, _⟩
        have := (hst.1 h).2.1; rw [c2] at this; cases this
      | false =>
        simp only [Bool.false_eq_true, if_false]
        cases c3 : checkScopes s.scopes with
        | error e =>
          simp only [reduceCtorEq, false_iff]
          rintro ⟨⟨h, _⟩, _⟩
          have := (hst.1 h).2.2; rw [c3] at this; cases this
        | ok u =>
          have hok : StmtScopesOk s := hst.2 ⟨c1, c2, c3⟩
          simp only [ih, List.append_assoc, hok, true_and]

theorem count_check (l : List Text) : l.any (fun k => l.count k > 1) = false ↔ l.Nodup := by
  rw [List.nodup_iff_count]
  simp only [List.any_eq_false, gt_iff_lt, decide_eq_true_eq, Nat.not_lt]
  constructor
  · intro h a
    by_cases ha : a ∈ l
    · exact h a ha
    · rw [List.count_eq_zero.2 ha]; omega
  · intro h a _; exact h a

theorem validateRegistryScopes_ok (ss : List Statement) :
    validateRegistryScopes ss = .ok () ↔
      (∀ s ∈ ss, StmtScopesOk s) ∧ (ss.flatMap (·.scopes)).Nodup := by
  unfold validateRegistryScopes
  cases hs : scanScopes ss [] with
  | error e =>
    simp only [reduceCtorEq, false_iff, not_and]
    intro h
    have := (scanScopes_ok ss [] _).2 ⟨h, rfl⟩
    rw [hs] at this; cases this
  | ok all =>
    obtain ⟨h1, h2⟩ := (scanScopes_ok ss [] all).1 hs
    simp only [List.nil_append] at h2
    subst h2
    simp only []
    cases hc : (ss.flatMap (·.scopes)).any (fun k => (ss.flatMap (·.scopes)).count k > 1) with
    | true =>
      simp only [if_true, reduceCtorEq, false_iff, not_and]
      intro _ hn
      have := (count_check _).2 hn
      rw [hc] at this; cases this
    | false =>
      simp only [Bool.false_eq_true, if_false, true_iff]
      exact ⟨h1, (count_check _).1 hc⟩

theorem validateStatementsBlob_ok : ∀ (ss : List Statement) (seen : List String) (found : Bool),
    validateStatementsBlob ss seen found = .ok () ↔
      (∀ s ∈ ss, StatementOk s) ∧ (∀ s ∈ ss, s.name ∉ seen) ∧ (ss.map (·.name)).Nodup ∧
      (ss.filter (·.isGlobal)).length + (if found then 1 else 0) ≤ 1 ∧
      (∀ s ∈ ss, s.isGlobal = true → ¬ IsSkip s) := by
  intro ss
  induction ss with
  | nil => intro seen found; cases found <;> simp [validateStatementsBlob]
  | cons s r ih =>
    intro seen found
    simp only [validateStatementsBlob, List.mem_cons, forall_eq_or_imp, List.map_cons, List.nodup_cons]
    by_cases hs : s.name ∈ seen
    · simp [hs]
    · have hb : seen.contains s.name = false := by simp [hs]
      simp only [hb, Bool.false_eq_true, if_false]
      cases hc : validatePolicyCore s with
      | error e =>
        have : ¬ StatementOk s := by
          intro h; have := (validatePolicyCore_ok s).2 h; rw [hc] at this; cases this
        simp [this]
      | ok u =>
        have hok : StatementOk s := (validatePolicyCore_ok s).1 (by rw [hc])
        have hnames : ∀ P0 P Q : Prop,
            ((P0 ∧ (∀ a ∈ r, a.name ∉ s.name :: seen) ∧ (r.map (·.name)).Nodup ∧ P ∧ Q) ↔
             (P0 ∧ (s.name ∉ seen ∧ ∀ a ∈ r, a.name ∉ seen) ∧ (s.name ∉ r.map (·.name) ∧ (r.map (·.name)).Nodup) ∧ P ∧ Q)) := by
          intro P0 P Q
          simp only [List.mem_cons, not_or, List.mem_map, not_exists, not_and]
          constructor
          · rintro ⟨h1, h2, h3, h4⟩
            exact ⟨h1, ⟨hs, fun a ha => (h2 a ha).2⟩, ⟨fun x hx heq => (h2 x hx).1 heq, h3⟩, h4⟩
          · rintro ⟨h1, ⟨_, h2⟩, ⟨h3, h4⟩, h5⟩
            exact ⟨h1, fun a ha => ⟨fun heq => h3 a ha heq, h2 a ha⟩, h4, h5⟩
        simp only []
        cases hg : s.isGlobal with
        | false =>
          simp only [Bool.false_eq_true, if_false, ih, hok, true_and, List.filter_cons, hg,
            false_implies]
          exact hnames _ _ _
        | true =>
          simp only [if_true, List.filter_cons, hg, List.length_cons, true_implies, hok, true_and]
          cases found with
          | true =>
            simp only [if_true, reduceCtorEq, false_iff]
            rintro ⟨_, _, _, h, _⟩; omega
          | false =>
            simp only [Bool.false_eq_true, if_false]
            by_cases hsk : s.level = Facts.levelSkipName
            · have : (s.level == Facts.levelSkipName) = true := by simp [hsk]
              simp only [this, if_true, reduceCtorEq, false_iff]
              rintro ⟨_, _, _, _, h, _⟩; exact h hsk
            · have : (s.level == Facts.levelSkipName) = false := by simp [hsk]
              have hsk' : ¬ IsSkip s := hsk
              simp only [this, Bool.false_eq_true, if_false, ih, if_true, hsk', not_false_eq_true,
                true_and, Nat.add_zero]
              exact hnames _ _ _

/-! ### the property theorems -/

theorem isOk_iff (x : Except String Unit) : isOk x = true ↔ x = .ok () := by
  cases x with
  | error e => simp [isOk]
  | ok u => simp [isOk]

theorem version_ok (k : Kind) (v : String) :
    ((v == "") = false ∧ (!(supportedVersions k).contains v) = false) ↔ v ∈ supportedVersions k := by
  constructor
  · rintro ⟨_, h⟩; simpa using h
  · intro h
    refine ⟨?_, by simpa using h⟩
    cases hb : (v == "") with
    | false => rfl
    | true =>
      have : v = "" := by simpa using hb
      subst this
      exact absurd h (empty_not_version k)

theorem validateOCI_iff (d : Doc) : validateOCI d = .ok () ↔ WellFormed .oci d := by
  unfold validateOCI WellFormed
  have hv := version_ok .oci d.version
  simp only [supportedVersions] at hv
  simp only [supportedVersions, reduceCtorEq, false_implies, and_true, true_implies]
  cases c1 : (d.version == "") with
  | true =>
    simp only [if_true, reduceCtorEq, false_iff]
    intro h; have := (hv.2 h.1).1; rw [c1] at this; cases this
  | false =>
    simp only [Bool.false_eq_true, if_false]
    cases c2 : (!Facts.supportedOCIPolicyVersions.contains d.version) with
    | true =>
      simp only [if_true, reduceCtorEq, false_iff]
      intro h; have := (hv.2 h.1).2; rw [c2] at this; cases this
    | false =>
      have hver := hv.1 ⟨c1, c2⟩
      simp only [Bool.false_eq_true, if_false, hver, true_and]
      cases hst : d.statements with
      | nil => simp
      | cons s r =>
        have : ((s :: r).length == 0) = false := by simp
        simp only [this, Bool.false_eq_true, if_false, ne_eq, reduceCtorEq, not_false_eq_true, true_and]
        cases hl : validateStatementsOCI (s :: r) [] with
        | error e =>
          simp only [reduceCtorEq, false_iff]
          rintro ⟨h1, h2, _⟩
          have := (validateStatementsOCI_ok (s :: r) []).2 ⟨h2, by simp, h1⟩
          rw [hl] at this; cases this
        | ok u =>
          obtain ⟨h1, _, h3⟩ := (validateStatementsOCI_ok (s :: r) []).1 (by rw [hl])
          simp only []
          rw [validateRegistryScopes_ok]
          unfold ScopesOk
          rw [hst]
          constructor
          · rintro ⟨h4, h5⟩; exact ⟨h3, h1, h4, h5⟩
          · rintro ⟨_, _, h4, h5⟩; exact ⟨h4, h5⟩

theorem validateBlob_iff (d : Doc) : validateBlob d = .ok () ↔ WellFormed .blob d := by
  unfold validateBlob WellFormed
  have hv := version_ok .blob d.version
  simp only [supportedVersions] at hv
  simp only [supportedVersions, reduceCtorEq, false_implies, true_and, true_implies]
  cases c1 : (d.version == "") with
  | true =>
    simp only [if_true, reduceCtorEq, false_iff]
    intro h; have := (hv.2 h.1).1; rw [c1] at this; cases this
  | false =>
    simp only [Bool.false_eq_true, if_false]
    cases c2 : (!Facts.supportedBlobPolicyVersions.contains d.version) with
    | true =>
      simp only [if_true, reduceCtorEq, false_iff]
      intro h; have := (hv.2 h.1).2; rw [c2] at this; cases this
    | false =>
      have hver := hv.1 ⟨c1, c2⟩
      simp only [Bool.false_eq_true, if_false, hver, true_and]
      cases hst : d.statements with
      | nil => simp
      | cons s r =>
        have : ((s :: r).length == 0) = false := by simp
        simp only [this, Bool.false_eq_true, if_false, ne_eq, reduceCtorEq, not_false_eq_true, true_and]
        rw [validateStatementsBlob_ok]
        unfold GlobalOk
        rw [hst]
        simp only [Bool.false_eq_true, if_false, Nat.add_zero, List.not_mem_nil, not_false_eq_true,
          implies_true, true_and]
        constructor
        · rintro ⟨h1, h2, h3, h4⟩; exact ⟨h2, h1, h3, h4⟩
        · rintro ⟨h2, h1, h3, h4⟩; exact ⟨h1, h2, h3, h4⟩

/-- **C09, first sentence.** A policy document is accepted iff it obeys every structural rule. -/
theorem validate_iff_wellformed (k : Kind) (d : Doc) : validate k d = .ok () ↔ WellFormed k d := by
  cases k with
  | oci => exact validateOCI_iff d
  | blob => exact validateBlob_iff d

theorem isOk_validate (k : Kind) (d : Doc) : isOk (validate k d) = decide (WellFormed k d) := by
  cases h : isOk (validate k d) with
  | true =>
    have := (validate_iff_wellformed k d).1 ((isOk_iff _).1 h)
    simp [this]
  | false =>
    have : ¬ WellFormed k d := by
      intro hw
      have := (isOk_iff _).2 ((validate_iff_wellformed k d).2 hw)
      rw [h] at this; cases this
    simp [this]

/-- **C09, second sentence.** Every statement of an accepted document yields a level, and the level
enforces integrity unless the statement is skip. -/
theorem accepted_enforces_integrity (k : Kind) (d : Doc) (h : validate k d = .ok ()) :
    ∀ s ∈ d.statements, ∃ lv, effective s.level s.override = .ok lv ∧ (¬ IsSkip s → EnfIntegrity lv.2) := by
  intro s hs
  obtain ⟨_, _, _, hall, _⟩ := (validate_iff_wellformed k d).1 h
  obtain ⟨_, h2, h3, h4, _⟩ := hall s hs
  obtain ⟨lv, hlv⟩ := (effective_ok_iff s.level s.override).2 ⟨h2, h3, h4⟩
  exact ⟨lv, hlv, fun hsk => effective_integrity _ _ _ hlv hsk⟩

theorem wildcard_at_most_once (w : Text) : ∀ ss : List Statement, (ss.flatMap (·.scopes)).Nodup →
    (ss.filter (fun s => decide (w ∈ s.scopes))).length ≤ 1 := by
  intro ss
  induction ss with
  | nil => intro _; simp
  | cons s r ih =>
    intro hn
    simp only [List.flatMap_cons] at hn
    obtain ⟨_, h2, h3⟩ := List.nodup_append.1 hn
    simp only [List.filter_cons]
    by_cases hw : w ∈ s.scopes
    · simp only [hw, decide_true, if_true, List.length_cons]
      have : r.filter (fun s => decide (w ∈ s.scopes)) = [] := by
        rw [List.filter_eq_nil_iff]
        intro s' hs'
        simp only [decide_eq_true_eq]
        intro hw'
        exact h3 w hw w (List.mem_flatMap.2 ⟨s', hs', hw'⟩) rfl
      simp [this]
    · simp only [hw, decide_false, Bool.false_eq_true, if_false]
      exact ih h2

/-- **exported to C08.** In a valid OCI document no scope occurs twice (anywhere), and at most one
statement carries the wildcard scope. -/
theorem scopes_unique_of_valid (d : Doc) (h : validate .oci d = .ok ()) :
    (d.statements.flatMap (·.scopes)).Nodup ∧
    (d.statements.filter (fun s => decide (Spec.wildcard ∈ s.scopes))).length ≤ 1 ∧
    ∀ s ∈ d.statements, s.scopes ≠ [] ∧ (Spec.wildcard ∈ s.scopes → s.scopes = [Spec.wildcard]) := by
  obtain ⟨_, _, _, _, hsc, _⟩ := (validate_iff_wellformed .oci d).1 h
  obtain ⟨h1, h2⟩ := hsc rfl
  refine ⟨h2, wildcard_at_most_once _ _ h2, ?_⟩
  intro s hs
  obtain ⟨hne, hw, _⟩ := h1 s hs
  refine ⟨hne, fun hmem => ?_⟩
  have hl := hw hmem
  cases hsc : s.scopes with
  | nil => exact absurd hsc hne
  | cons x xs =>
    rw [hsc] at hl hmem
    cases xs with
    | nil => simp at hmem; rw [hmem]
    | cons y ys => simp at hl

/-! ### the verifier constructors -/

theorem optWF_iff (k : Kind) (o : Option Doc) : optWF k o = true ↔ ∀ d, o = some d → WellFormed k d := by
  cases o with
  | none => simp [optWF]
  | some d => simp [optWF]

@[simp] theorem optWF_none (k : Kind) : optWF k none = true := rfl
@[simp] theorem optWF_some (k : Kind) (d : Doc) : optWF k (some d) = decide (WellFormed k d) := rfl

theorem isOk_validateOpt (k : Kind) (o : Option Doc) : isOk (validateOpt k o) = optWF k o := by
  cases o with
  | none => rfl
  | some d => exact isOk_validate k d

theorem isOk_newVerifier (storeNil : Bool) (oci blob : Option Doc) :
    isOk (newVerifier storeNil oci blob) =
      (!storeNil && (oci.isSome || blob.isSome) && optWF .oci oci && optWF .blob blob) := by
  unfold newVerifier
  cases storeNil with
  | true => simp [isOk]
  | false =>
    simp only [Bool.false_eq_true, if_false, Bool.not_false, Bool.true_and]
    rw [← isOk_validateOpt, ← isOk_validateOpt]
    cases oci with
    | none =>
      cases blob with
      | none => simp [isOk, validateOpt]
      | some b => simp [isOk, validateOpt]
    | some a =>
      simp only [Option.isNone_some, Bool.false_and, Bool.false_eq_true, if_false, Option.isSome_some,
        Bool.true_or, Bool.true_and]
      cases validateOpt .oci (some a) with
      | error e => simp [isOk]
      | ok u => simp [isOk]

/-- **the constructor route.** `verifier.NewVerifierWithOptions` (and the deprecated constructors
that call it) yields a verifier iff there is a trust store, at least one document, and every
document that is given - the OCI one and the blob one - is well-formed. -/
theorem newVerifier_iff (storeNil : Bool) (oci blob : Option Doc) :
    newVerifier storeNil oci blob = .ok () ↔
      storeNil = false ∧ (oci.isSome = true ∨ blob.isSome = true) ∧
      (∀ d, oci = some d → WellFormed .oci d) ∧ (∀ d, blob = some d → WellFormed .blob d) := by
  rw [← isOk_iff, isOk_newVerifier, ← optWF_iff, ← optWF_iff]
  cases storeNil <;> simp [and_assoc]

/-- without any document no verifier is constructed -/
theorem ctorGuard_refuses : isOk ctorGuard = false := by
  simp [ctorGuard, isOk_newVerifier]

/-! ### the observation: sorting does not change what the map says about integrity -/

theorem any_insertKV (p : KV → Bool) (a : KV) : ∀ l : List KV, (insertKV a l).any p = (p a || l.any p) := by
  intro l
  induction l with
  | nil => simp [insertKV]
  | cons h t ih =>
    simp only [insertKV]
    split
    · simp
    · simp only [List.any_cons, ih]
      cases p a <;> cases p h <;> simp

theorem any_sortKV (p : KV → Bool) : ∀ l : List KV, (sortKV l).any p = l.any p := by
  intro l
  induction l with
  | nil => rfl
  | cons h t ih => simp [sortKV, any_insertKV, ih]

theorem all_insertKV (p : KV → Bool) (a : KV) : ∀ l : List KV, (insertKV a l).all p = (p a && l.all p) := by
  intro l
  induction l with
  | nil => simp [insertKV]
  | cons h t ih =>
    simp only [insertKV]
    split
    · simp
    · simp only [List.all_cons, ih]
      cases p a <;> cases p h <;> simp

theorem all_sortKV (p : KV → Bool) : ∀ l : List KV, (sortKV l).all p = l.all p := by
  intro l
  induction l with
  | nil => rfl
  | cons h t ih => simp [sortKV, all_insertKV, ih]

theorem enforcesIntegrity_enfObs (e : Enf) : enforcesIntegrity (enfObs e) = true ↔ EnfIntegrity e := by
  unfold enforcesIntegrity enfObs EnfIntegrity
  rw [any_sortKV, all_sortKV]
  simp only [Bool.and_eq_true, List.any_eq_true, List.mem_map, List.all_eq_true, Bool.or_eq_true,
    bne_iff_ne, ne_eq, beq_iff_eq]
  constructor
  · rintro ⟨⟨kv, ⟨p, hp, rfl⟩, h1, h2⟩, h3⟩
    refine ⟨?_, ?_⟩
    · have : p = (Facts.typeIntegrity, Facts.actionEnforce) := by
        obtain ⟨a, b⟩ := p; simp only at h1 h2; rw [h1, h2]
      rw [← this]; exact hp
    · intro q hq hq1
      rcases h3 _ ⟨q, hq, rfl⟩ with h | h
      · exact absurd hq1 h
      · exact h
  · rintro ⟨h1, h2⟩
    refine ⟨⟨_, ⟨_, h1, rfl⟩, rfl, rfl⟩, ?_⟩
    rintro kv ⟨q, hq, rfl⟩
    by_cases hq1 : q.1 = Facts.typeIntegrity
    · exact Or.inr (h2 q hq hq1)
    · exact Or.inl hq1

theorem zip_map_all {α β : Type} (f : α → β) (g : α × β → Bool) : ∀ l : List α,
    (l.zip (l.map f)).all g = l.all (fun a => g (a, f a)) := by
  intro l
  induction l with
  | nil => rfl
  | cons h t ih => simp [ih]

theorem ctor_alone (k : Kind) (d : Doc) :
    isOk (newVerifier false (ctorArgs k d none).1 (ctorArgs k d none).2) = decide (WellFormed k d) := by
  cases k <;> simp [ctorArgs, isOk_newVerifier]

theorem ctor_pair (k : Kind) (d : Doc) (other : Option Doc) :
    isOk (newVerifier false (ctorArgs k d other).1 (ctorArgs k d other).2) =
      (decide (WellFormed k d) && optWF k.other other) := by
  cases k with
  | oci => simp [ctorArgs, isOk_newVerifier, Kind.other]
  | blob =>
    simp only [ctorArgs, isOk_newVerifier, optWF_some, Kind.other, Bool.not_false, Option.isSome_some,
      Bool.or_true, Bool.and_self, Bool.true_and]
    exact Bool.and_comm _ _

/-- **the model satisfies the property**, for every input -/
theorem model_holds (i : Input) : Holds i (run i) = true := by
  unfold Holds clauses run
  cases hk : kindOf i.kind with
  | none =>
    by_cases hc : i.kind = "ctor"
    · simp [Clauses.holds, hc, ctorGuard_refuses]
    · simp [Clauses.holds, hc]
  | some k =>
    simp only [Clauses.holds_cons, Clauses.holds_nil, Bool.and_true, isOk_validate, beq_self_eq_true,
      Bool.true_and, ctor_pair, optWF_none]
    by_cases hw : WellFormed k i.doc
    · have hv := (validate_iff_wellformed k i.doc).2 hw
      simp only [hw, decide_true, Bool.not_true, Bool.false_or, if_true, levelsOf, List.length_map,
        beq_self_eq_true, Bool.true_and, zip_map_all, List.all_eq_true, Bool.or_eq_true, beq_iff_eq]
      intro s hs
      obtain ⟨lv, hlv, hint⟩ := accepted_enforces_integrity k i.doc hv s hs
      by_cases hsk : s.level = Facts.levelSkipName
      · exact Or.inl hsk
      · right
        simp only [hlv]
        exact (enforcesIntegrity_enfObs _).2 (hint hsk)
    · simp [hw]

/-! ### what the leaf predicates of `WellFormed` mean -/

theorem cut_eq_some (sep : Char) : ∀ (t a b : Text),
    cut sep t = some (a, b) ↔ t = a ++ sep :: b ∧ sep ∉ a := by
  intro t
  induction t with
  | nil => intro a b; simp [cut]
  | cons c cs ih =>
    intro a b
    simp only [cut]
    by_cases hc : c = sep
    · subst hc
      simp only [beq_self_eq_true, if_true, Option.some.injEq, Prod.mk.injEq]
      constructor
      · rintro ⟨rfl, rfl⟩; simp
      · rintro ⟨h1, h2⟩
        cases a with
        | nil => simp at h1; exact ⟨rfl, h1⟩
        | cons x xs =>
          simp only [List.cons_append, List.cons.injEq] at h1
          exact absurd (by rw [h1.1]; exact List.mem_cons_self) h2
    · have hb : (c == sep) = false := by simp [hc]
      simp only [hb, Bool.false_eq_true, if_false, Option.map_eq_some_iff, Prod.mk.injEq, Prod.exists]
      constructor
      · rintro ⟨a', b', h, rfl, rfl⟩
        obtain ⟨h1, h2⟩ := (ih a' b').1 h
        refine ⟨by rw [h1]; rfl, ?_⟩
        simp only [List.mem_cons, not_or]
        exact ⟨fun h => hc h.symm, h2⟩
      · rintro ⟨h1, h2⟩
        cases a with
        | nil => simp at h1; exact absurd h1.1 hc
        | cons x xs =>
          simp only [List.cons_append, List.cons.injEq] at h1
          simp only [List.mem_cons, not_or] at h2
          exact ⟨xs, b, (ih xs b).2 ⟨h1.2, h2.2⟩, by rw [h1.1], rfl⟩

/-- a trust store value is acceptable iff it reads `type:name` (split at the first colon) with a
supported store type and a file-name-safe name -/
theorem storeOk_iff (t : Text) :
    storeOk t = true ↔ ∃ ty nm, t = ty ++ ':' :: nm ∧ ':' ∉ ty ∧ ty ∈ Facts.trustStoreTypes ∧
      isValidFileName nm = true := by
  unfold storeOk
  cases hc : cut ':' t with
  | none =>
    simp only [Bool.false_eq_true, false_iff, not_exists, not_and]
    intro ty nm h1 h2
    have := (cut_eq_some ':' t ty nm).2 ⟨h1, h2⟩
    rw [hc] at this; cases this
  | some p =>
    obtain ⟨ty, nm⟩ := p
    obtain ⟨h1, h2⟩ := (cut_eq_some ':' t ty nm).1 hc
    simp only [Bool.and_eq_true, List.contains_iff_mem]
    constructor
    · rintro ⟨h3, h4⟩; exact ⟨ty, nm, h1, h2, h3, h4⟩
    · rintro ⟨ty', nm', h1', h2', h3, h4⟩
      have := (cut_eq_some ':' t ty' nm').2 ⟨h1', h2'⟩
      rw [hc] at this
      simp only [Option.some.injEq, Prod.mk.injEq] at this
      rw [this.1, this.2]; exact ⟨h3, h4⟩

/-- `pkix.IsSubsetDN` on maps with distinct keys: every attribute of the first name occurs, with
the same value, in the second -/
theorem isSubsetDN_iff (m1 m2 : DNMap) (h : (m2.map (·.1)).Nodup) :
    isSubsetDN m1 m2 = true ↔ ∀ kv ∈ m1, kv ∈ m2 := by
  unfold isSubsetDN
  simp only [List.all_eq_true, beq_iff_eq]
  constructor
  · intro hs kv hkv
    exact (lookup_eq_some kv.1 kv.2 m2 h).1 (hs kv hkv)
  · intro hs kv hkv
    exact (lookup_eq_some kv.1 kv.2 m2 h).2 (hs kv hkv)

/-- two x509.subject identities with the same attribute set (in particular the same identity
twice) overlap: such a statement is never well-formed -/
theorem equal_names_overlap (ms : List DNMap) (i j : Nat) (hi : i < ms.length) (hj : j < ms.length)
    (hij : i ≠ j) (hn : ((ms[j]?.getD []).map (·.1)).Nodup)
    (heq : ∀ kv ∈ ms[i]?.getD [], kv ∈ ms[j]?.getD []) : ¬ NoOverlap ms := by
  intro h
  have := h i hi j hj hij
  rw [(isSubsetDN_iff _ _ hn).2 heq] at this
  cases this

theorem matches_fail : ∀ l : List Char, Rx.matches .fail l = false := by
  intro l
  induction l with
  | nil => rfl
  | cons c cs ih => simpa [Rx.matches, Rx.deriv] using ih

theorem matches_star_cls (items : List Item) : ∀ l : List Char,
    Rx.matches (.star (.cls items)) l = l.all (fun c => items.any (·.has c)) := by
  intro l
  induction l with
  | nil => rfl
  | cons c cs ih =>
    simp only [Rx.matches, Rx.deriv, List.all_cons]
    cases h : items.any (·.has c) with
    | true => simpa [mkSeq] using ih
    | false => simp [mkSeq, matches_fail]

theorem matches_plus_cls (items : List Item) (l : List Char) :
    Rx.matches (.plus (.cls items)) l = (!l.isEmpty && l.all (fun c => items.any (·.has c))) := by
  cases l with
  | nil => rfl
  | cons c cs =>
    simp only [Rx.matches, Rx.deriv, List.all_cons, List.isEmpty_cons, Bool.not_false, Bool.true_and]
    cases h : items.any (·.has c) with
    | true => simpa [mkSeq] using matches_star_cls items cs
    | false => simp [mkSeq, matches_fail]

/-- the characters of a file-name-safe name -/
def FileNameChar (c : Char) : Prop :=
  ('a' ≤ c ∧ c ≤ 'z') ∨ ('A' ≤ c ∧ c ≤ 'Z') ∨ ('0' ≤ c ∧ c ≤ '9') ∨ c = '_' ∨ c = '.' ∨ c = '-'

/-- a name is file-name-safe iff it is a non-empty text over letters, digits, '_', '.', '-' other
than "." and ".." -/
theorem isValidFileName_iff (n : Text) :
    isValidFileName n = true ↔ n ≠ [] ∧ n ∉ Spec.fileNameRefused ∧ ∀ c ∈ n, FileNameChar c := by
  unfold isValidFileName fileNameRx
  rw [matches_plus_cls]
  by_cases hr : n ∈ Spec.fileNameRefused
  · simp [hr]
  · have : Spec.fileNameRefused.contains n = false := by
      cases hb : Spec.fileNameRefused.contains n with
      | false => rfl
      | true => exact absurd (by simpa using hb) hr
    simp only [this, Bool.false_eq_true, if_false, Bool.and_eq_true, Bool.not_eq_true', hr,
      not_false_eq_true, true_and, List.all_eq_true]
    constructor
    · rintro ⟨h1, h2⟩
      refine ⟨(by intro h; rw [h] at h1; cases h1), fun c hc => ?_⟩
      have := h2 c hc
      simp only [List.any_cons, List.any_nil, Item.has, Bool.or_false, Bool.or_eq_true, Bool.and_eq_true,
        decide_eq_true_eq, beq_iff_eq] at this
      exact this
    · rintro ⟨h1, h2⟩
      have hne : n.isEmpty = false := by
        cases hn : n with
        | nil => exact absurd hn h1
        | cons _ _ => rfl
      refine ⟨hne, fun c hc => ?_⟩
      have := h2 c hc
      simp only [List.any_cons, List.any_nil, Item.has, Bool.or_false, Bool.or_eq_true, Bool.and_eq_true,
        decide_eq_true_eq, beq_iff_eq]
      exact this

/-- in a well-formed identity list no x509.subject name's attribute set is contained in that of
the name at another position (the declarative reading of "do not overlap") -/
theorem identities_no_subset (ids : List Identity) (h : IdentitiesOk ids)
    (i j : Nat) (a b : DNMap)
    (ha : ((ids.filter isX509).map dnMapOf)[i]? = some a)
    (hb : ((ids.filter isX509).map dnMapOf)[j]? = some b) (hij : i ≠ j) :
    ¬ ∀ kv ∈ a, kv ∈ b := by
  obtain ⟨_, hall, hno⟩ := h
  intro hsub
  have hi : i < ((ids.filter isX509).map dnMapOf).length := (List.getElem?_eq_some_iff.1 ha).1
  have hj : j < ((ids.filter isX509).map dnMapOf).length := (List.getElem?_eq_some_iff.1 hb).1
  have := hno i hi j hj hij
  rw [ha, hb] at this
  simp only [Option.getD_some] at this
  have hbm : b ∈ (ids.filter isX509).map dnMapOf := List.mem_of_getElem? hb
  obtain ⟨id, hid, rfl⟩ := List.mem_map.1 hbm
  obtain ⟨hid1, hid2⟩ := List.mem_filter.1 hid
  have hn := ((hall id hid1).2.2 hid2).2.2.2.2.1
  rw [(isSubsetDN_iff a _ hn).2 hsub] at this
  cases this
/-- `file.IsValidFileName` refuses "." and ".." (repaired defect) -/
theorem dot_names_refused : isValidFileName ['.'] = false ∧ isValidFileName ['.', '.'] = false := by
  decide

/-! ### non-vacuity -/

def sampleStmt : Statement :=
  { name := "wabbit", level := "strict", override := [⟨"revocation", "skip"⟩], verifyTimestamp := "always",
    trustStores := ["ca:acme-rockets".toList, "ca:acme-rockets".toList],
    identities := [⟨"x509.subject:C=US, ST=WA, O=acme".toList,
      some [[⟨"C", "US"⟩], [⟨"ST", "WA"⟩], [⟨"O", "acme"⟩]]⟩],
    scopes := ["registry.acme-rockets.io/software/net-monitor".toList], isGlobal := false }

def sampleSkip : Statement :=
  { name := "unsigned", level := "skip", override := [], verifyTimestamp := "",
    trustStores := [], identities := [], scopes := [['*']], isGlobal := false }

def sampleDoc : Doc := { version := "1.0", statements := [sampleStmt, sampleSkip] }

/-- a well-formed OCI document is accepted, with duplicate trust stores and a revocation override -/
example : isOk (validate .oci sampleDoc) = true := by decide
example : WellFormed .oci sampleDoc := (validate_iff_wellformed _ _).1 ((isOk_iff _).1 (by decide))
/-- the same statements as a blob document, the non-skip one global -/
example : isOk (validate .blob { sampleDoc with statements := [{ sampleStmt with isGlobal := true }, sampleSkip] }) = true := by
  decide
/-- a global skip statement is refused (repaired defect) -/
example : isOk (validate .blob { sampleDoc with statements := [sampleStmt, { sampleSkip with isGlobal := true }] }) = false := by
  decide
/-- the same scope twice in one statement is refused -/
example : isOk (validate .oci { sampleDoc with statements :=
    [{ sampleStmt with scopes := sampleStmt.scopes ++ sampleStmt.scopes }] }) = false := by decide
/-- store name ".." is refused -/
example : isOk (validate .oci { sampleDoc with statements :=
    [{ sampleStmt with trustStores := ["ca:..".toList] }] }) = false := by decide
/-- the same identity twice is an overlap -/
example : isOk (validate .oci { sampleDoc with statements :=
    [{ sampleStmt with identities := sampleStmt.identities ++ sampleStmt.identities }] }) = false := by decide

def badBlob : Doc := { sampleDoc with statements := [sampleStmt, { sampleSkip with isGlobal := true }] }
/-- a blank (whitespace-only) statement name is a non-empty name: such a document is accepted -/
example : isOk (validate .oci { sampleDoc with statements := [{ sampleStmt with name := " " }, { sampleSkip with name := "\t" }] }) = true := by
  decide
/-- host labels must be joined by dots -/
example : isOk (validate .oci { sampleDoc with statements :=
    [{ sampleStmt with scopes := ["my_registry/app".toList] }] }) = false := by decide

def sampleInput : Input := { kind := "oci", doc := sampleDoc, other := some badBlob, before := none, beforeBad := none, rx := "", text := [] }

example : Holds sampleInput (run sampleInput) = true := model_holds _
example : (run sampleInput).okStruct = true := by decide
/-- `Holds` is false of an implementation that rejects the well-formed document … -/
example : Holds sampleInput
    { okStruct := false, okRepeat := List.replicate historyCount false, okJson := false, okVerifier := false,
      okPair := false, okNew := false, okNewWithOptions := false, levels := [] } = false := by
  decide
/-- the well-formed OCI document is refused next to an ill-formed blob document (global skip) … -/
example : (run sampleInput).okVerifier = true ∧ (run sampleInput).okPair = false := by decide
/-- … and `Holds` is false of a constructor that looks at the first document only -/
example : Holds sampleInput { (run sampleInput) with okPair := true } = false := by decide
/-- … or of a Validate() that remembers an earlier answer for the same object -/
example : Holds sampleInput { (run sampleInput) with okRepeat := (List.replicate (historyCount - 1) true) ++ [false] } = false := by decide
/-- no document: no verifier -/
example : Holds { sampleInput with kind := "ctor", rx := "no-documents" }
    { (run sampleInput) with okVerifier := true } = false := by decide
/-- … and of one that accepts it but lets the strict statement log integrity failures -/
example : Holds sampleInput { (run sampleInput) with
    levels := [[⟨"authenticTimestamp", "enforce"⟩, ⟨"authenticity", "enforce"⟩, ⟨"expiry", "enforce"⟩,
      ⟨"integrity", "log"⟩, ⟨"revocation", "skip"⟩], (run sampleInput).levels.getD 1 []] } = false := by
  decide
/-- … and of one that accepts a document with an unsupported version -/
example : Holds { sampleInput with doc := { sampleDoc with version := "2.0" } }
    (run sampleInput) = false := by decide


/-! ## tie to the translated source

`extract/go2lean.go` translates the Go functions below into Lean on every run
(`Generated/SrcLevels.lean`: GetVerificationLevel with the level tables; `Generated/SrcC09.lean`:
verifier/trustpolicy; `SrcC09b`: internal/file; `SrcC09c`: internal/pkix). The theorems
`source_<GoFunction>_refines_model` state, for ALL inputs, that the translated function decides as
the hand-written model does. Oracles (library code that is not translated): Go's regexp
(`Src/TypesC09.lean`: the derivative matcher on the pinned expression trees),
`pkix.ParseDistinguishedName` / go-ldap (a parameter `pd`). Functions that call other translated
functions whose tie is not proved here take that callee's verdict as a hypothesis
(`validateTrustedIdentities` in `validatePolicyCore`, `validateRegistryScopes` in
`OCIDocument.Validate`); translated but not yet tied: validateTrustedIdentities,
validateOverlappingDNs, validateRegistryScopes. -/

set_option maxRecDepth 100000

namespace Tie
open NotationModel.Src NotationModel.Src.trustpolicy

/-! #### GetVerificationLevel -/

/-- the fact tables and the translated declarations say the same -/
theorem levels_agree : Facts.levels = VerificationLevels.map (fun l => (l.Name, l.Enforcement)) := by decide
theorem types_agree : Facts.validationTypes = ValidationTypes := by decide
theorem actions_agree : Facts.validationActions = ValidationActions := by decide

def toKV (p : String × String) : KV := ⟨p.1, p.2⟩

/-- result shape: the level (if any) and whether an error is returned -/
def shape (r : Option VerificationLevel × Option GoLite.Err) : Option (String × Enf) × Bool :=
  (r.1.map (fun l => (l.Name, l.Enforcement)), r.2.isSome)

def ofModel : Except String (String × Enf) → Option (String × Enf) × Bool
  | .ok p => (some p, false)
  | .error _ => (none, true)

theorem foldl_lastMatch {α : Type} (p : α → Bool) : ∀ (L : List α) (acc : Option α),
    L.foldl (fun acc l => if p l then some l else acc) acc =
      (match (L.filter p).getLast? with | some x => some x | none => acc) := by
  intro L
  induction L with
  | nil => intro acc; rfl
  | cons h t ih =>
    intro acc
    simp only [List.foldl_cons, ih]
    by_cases hp : p h = true
    · simp only [hp, if_true, List.filter_cons_of_pos]
      cases hl : (t.filter p).getLast? with
      | none =>
        have : t.filter p = [] := by simpa using hl
        simp [this]
      | some y =>
        have hne : t.filter p ≠ [] := by intro e; simp [e] at hl
        simp [List.getLast?_cons_of_ne_nil hne, hl]
    · have hp' : p h = false := by simpa using hp
      simp [hp', List.filter_cons]

theorem baseLevel_src (lvl : String) :
    baseLevel lvl = ((VerificationLevels.filter (fun l => l.Name == lvl)).getLast?).map (fun l => (l.Name, l.Enforcement)) := by
  unfold baseLevel
  rw [foldl_lastMatch (fun l : String × Enf => l.1 == lvl), levels_agree, List.filter_map, List.getLast?_map]
  have : ((fun l : String × Enf => l.1 == lvl) ∘ fun l : VerificationLevel => (l.Name, l.Enforcement)) =
      (fun l => l.Name == lvl) := rfl
  rw [this]
  cases (VerificationLevels.filter (fun l => l.Name == lvl)).getLast? <;> rfl

theorem foldE_applyOverrides (l : List (String × String)) (t : Enf) :
    (match GoLite.foldE (fun t kv => applyOverride (toKV kv) t) l t with
      | .ok t' => Except.ok t'
      | .error (_, e) => Except.error e) = applyOverrides (l.map toKV) t := by
  induction l generalizing t with
  | nil => simp [GoLite.foldE, applyOverrides]
  | cons a l ih =>
    simp only [GoLite.foldE, List.map_cons, applyOverrides]
    cases h : applyOverride (toKV a) t with
    | ok t' => simpa using ih t'
    | error e => simp

theorem find_getD_eq (L : List String) (k : String) (h : "" ∉ L) :
    ((L.find? (· == k)).getD "" == "") = !L.contains k := by
  have := find_getD L k h
  cases hb : ((L.find? (· == k)).getD "" == "") with
  | true => have := this.1 hb; simp [this]
  | false =>
    have : k ∈ L := by
      cases hd : decide (k ∈ L) with
      | true => exact of_decide_eq_true hd
      | false => have h2 := this.2 (of_decide_eq_false hd); rw [hb] at h2; cases h2
    simp [this]

/-- the override step with the two searches read as membership tests -/
theorem applyOverride_eq (kv : KV) (e : Enf) : applyOverride kv e =
    (if !Facts.validationTypes.contains kv.key then .error "verification type is not supported"
     else if !Facts.validationActions.contains kv.val then .error "verification action is not supported"
     else if kv.key == Facts.typeIntegrity then .error "integrity verification can not be overridden"
     else if kv.key != Facts.typeRevocation && kv.val == Facts.actionSkip then .error "verification can not be skipped"
     else .ok (setKey kv.key kv.val e)) := by
  unfold applyOverride
  rw [find_getD_eq _ _ empty_not_type, find_getD_eq _ _ empty_not_action]

/-- the loop state of the override loop, seen from the model: the enforcement map built so far -/
abbrev absSt (t : Enf) : Option (Option VerificationLevel × Option GoLite.Err) × VerificationLevel :=
  (none, { Name := Facts.customLevelName, Enforcement := t })
abbrev stopSt (t : Enf) (_e : String) : Option (Option VerificationLevel × Option GoLite.Err) × VerificationLevel :=
  (some (none, some (GoLite.errorf "")), { Name := Facts.customLevelName, Enforcement := t })

theorem source_GetVerificationLevel_refines_model (sv : SignatureVerification) :
    shape (GetVerificationLevel sv) = ofModel (effective sv.VerificationLevel (sv.Override.map toKV)) := by
  unfold GetVerificationLevel
  simp only [Id.run]
  simp only [GoLite.forIn_lastMatch, GoLite.forIn_firstEq, pure_bind]
  unfold effective
  rw [baseLevel_src]
  by_cases h0 : sv.VerificationLevel = ""
  · simp [h0, shape, ofModel, GoLite.idPure]
  · have hne : (sv.VerificationLevel == "") = false := by simpa using h0
    simp only [hne, Bool.false_eq_true, if_false]
    cases hb : (VerificationLevels.filter (fun l => l.Name == sv.VerificationLevel)).getLast? with
    | none => simp [shape, ofModel, GoLite.idPure]
    | some b =>
      have hmem : b ∈ VerificationLevels.filter (fun l => l.Name == sv.VerificationLevel) := List.mem_of_getLast? hb
      simp only [Option.isNone_some, Bool.false_eq_true, if_false, Option.map_some]
      by_cases hov : sv.Override = []
      · simp [hov, shape, ofModel, GoLite.idPure]
      · have hlen : (GoLite.len sv.Override == 0) = false := by
          cases h : sv.Override with
          | nil => exact absurd h hov
          | cons a l => simp [GoLite.len]; omega
        have hemp : (sv.Override.map toKV).isEmpty = false := by simp [hov]
        simp only [hlen, hemp, Bool.false_eq_true, if_false]
        have hb4 : b = LevelStrict ∨ b = LevelPermissive ∨ b = LevelAudit ∨ b = LevelSkip := by
          have := (List.mem_filter.1 hmem).1
          simpa [VerificationLevels] using this
        have hcopy : (forIn (GoLite.deref (some b)).Enforcement ({ Name := "custom", Enforcement := [] } : VerificationLevel)
              (fun x __s => (pure (ForInStep.yield { Name := __s.Name, Enforcement := __s.Enforcement.set x.fst x.snd }) : Id _))) =
            pure ({ Name := "custom", Enforcement := b.Enforcement } : VerificationLevel) := by
          rcases hb4 with rfl | rfl | rfl | rfl <;> rfl
        rw [hcopy]
        simp only [pure_bind]
        rw [GoLite.forIn_eq_foldE' _ (fun t kv => applyOverride (toKV kv) t) absSt stopSt ?h _ _ b.Enforcement ?hs]
        case hs => rfl
        case h =>
          intro x t
          have hT : ValidationTypes = Facts.validationTypes := types_agree.symm
          have hA : ValidationActions = Facts.validationActions := actions_agree.symm
          have hI : TypeIntegrity = Facts.typeIntegrity := by decide
          have hR : TypeRevocation = Facts.typeRevocation := by decide
          have hS : ActionSkip = Facts.actionSkip := by decide
          rcases x with ⟨k, v⟩
          simp only [hT, hA, hI, hR, hS, applyOverride_eq, setKey, GoLite.Map.set, toKV]
          by_cases c1 : k ∈ Facts.validationTypes
          · by_cases c2 : v ∈ Facts.validationActions
            · simp [Facts.validationTypes] at c1
              simp [Facts.validationActions] at c2
              rcases c1 with rfl | rfl | rfl | rfl | rfl <;> rcases c2 with rfl | rfl | rfl <;>
                simp [Facts.validationTypes, Facts.validationActions, Facts.typeIntegrity, Facts.typeRevocation,
                  Facts.actionSkip, GoLite.errorf, absSt, stopSt] <;> (try rfl)
            · have c2' := c2
              simp [Facts.validationActions] at c2'
              simp [Facts.validationTypes] at c1
              rcases c1 with rfl | rfl | rfl | rfl | rfl <;>
                simp [Facts.validationTypes, Facts.validationActions, Facts.typeIntegrity, Facts.typeRevocation,
                  Facts.actionSkip, GoLite.errorf, absSt, stopSt, c2, c2'] <;> (try rfl)
          · have c1' := c1
            simp [Facts.validationTypes] at c1'
            simp [Facts.validationTypes, Facts.validationActions, Facts.typeIntegrity, Facts.typeRevocation,
                  Facts.actionSkip, GoLite.errorf, absSt, stopSt, c1, c1'] <;> (try rfl)
        have hskip : (some b == some LevelSkip) = (b.Name == Facts.levelSkipName) := by
          rcases hb4 with rfl | rfl | rfl | rfl <;> decide
        rw [hskip, ← foldE_applyOverrides]
        by_cases hs : (b.Name == Facts.levelSkipName) = true
        · simp [hs, shape, ofModel, GoLite.idPure]
        · simp only [hs, Bool.false_eq_true, if_false, pure_bind]
          cases hf : GoLite.foldE (fun t kv => applyOverride (toKV kv) t) sv.Override b.Enforcement with
          | ok t' => simp [shape, ofModel, GoLite.idPure, absSt]
          | error p => obtain ⟨t', e⟩ := p; simp [shape, ofModel, GoLite.idPure, stopSt]



/-! #### generic: a loop without mutable state that returns from its body -/

/-- `for _, a := range l { if .. { return r } }`: the first element whose body returns decides -/
theorem forIn_findReturn {α ρ : Type} (f : α → Option ρ)
    (body : α → Option ρ × Unit → Id (ForInStep (Option ρ × Unit)))
    (h : ∀ a s, body a s = pure (match f a with
      | some r => ForInStep.done (some r, ())
      | none => ForInStep.yield (none, ()))) (l : List α) :
    forIn l (none, ()) body = pure (l.findSome? f, ()) := by
  induction l with
  | nil => rfl
  | cons a l ih =>
    rw [List.forIn_cons, h]
    cases hf : f a with
    | some r => simp [List.findSome?_cons, hf]
    | none => simp [List.findSome?_cons, hf, ih]

theorem findSome?_if_none {α ρ : Type} (p : α → Bool) (r : ρ) (l : List α) :
    (l.findSome? (fun a => if p a then none else some r)) = if l.all p then none else some r := by
  induction l with
  | nil => rfl
  | cons a l ih =>
    cases hp : p a <;> simp [List.findSome?_cons, hp, ih]

theorem findSome?_if_some {α ρ : Type} (p : α → Bool) (r : ρ) (l : List α) :
    (l.findSome? (fun a => if p a then some r else none)) = if l.any p then some r else none := by
  induction l with
  | nil => rfl
  | cons a l ih =>
    cases hp : p a <;> simp [List.findSome?_cons, hp, ih]

/-! #### strings and character lists -/

theorem beq_ofList (s : String) (l : List Char) : (s == String.ofList l) = (s.toList == l) := by
  by_cases h : s.toList = l
  · have : s = String.ofList l := by rw [← h, String.ofList_toList]
    simp [h, this]
  · have : s ≠ String.ofList l := by intro e; apply h; rw [e, String.toList_ofList]
    have a : (s == String.ofList l) = false := beq_false_of_ne this
    have b : (s.toList == l) = false := beq_false_of_ne h
    rw [a, b]

theorem bne_ofList (s : String) (l : List Char) : (s != String.ofList l) = (s.toList != l) := by
  simp only [bne, beq_ofList]

theorem beq_empty (s : String) : (s == "") = s.toList.isEmpty := by
  rw [← String.ofList_nil, beq_ofList]
  cases s.toList <;> rfl

theorem contains_ofList (ss : List String) (l : List Char) :
    GoLite.contains ss (String.ofList l) = (ss.map String.toList).contains l := by
  unfold GoLite.contains
  induction ss with
  | nil => rfl
  | cons a r ih =>
    simp only [List.contains_cons, List.map_cons, ih]
    have h1 := beq_ofList a l
    have : (String.ofList l == a) = (l == a.toList) := by
      rw [Bool.eq_iff_iff] at h1 ⊢
      simp only [beq_iff_eq] at h1 ⊢
      constructor
      · intro e; exact (h1.1 e.symm).symm
      · intro e; exact (h1.2 e.symm).symm
    rw [this]

theorem cut_list (sep : Char) : ∀ l : List Char,
    cut sep l = if l.contains sep then some (l.takeWhile (· != sep), (l.dropWhile (· != sep)).drop 1) else none := by
  intro l
  induction l with
  | nil => rfl
  | cons c cs ih =>
    simp only [cut, ih]
    by_cases hc : c = sep
    · subst hc; simp
    · have h1 : (c == sep) = false := by simpa using hc
      have hc' : ¬ sep = c := fun e => hc e.symm
      by_cases hm : sep ∈ cs
      · simp [h1, hc, hc', hm, List.takeWhile_cons, List.dropWhile_cons]
      · simp [h1, hc, hc', hm, List.takeWhile_cons, List.dropWhile_cons]

/-- `strings.Cut` of the translation and `cut` of the model -/
theorem cut_src (s : String) (sep : Char) :
    GoLite.cut s sep = (match cut sep s.toList with
      | some (a, b) => (String.ofList a, String.ofList b, true)
      | none => (s, "", false)) := by
  unfold GoLite.cut
  rw [cut_list]
  by_cases hm : sep ∈ s.toList <;> simp [hm]

/-! #### the leaf predicates -/

theorem specMatch_fileName (r t : List Char) (h : r = fileNameRx.anchored) :
    regexp.specMatch r t = fileNameRx.matches t := by
  subst h
  unfold regexp.specMatch
  rw [if_neg (by decide), if_neg (by decide), if_pos rfl]

theorem specMatch_domain (r t : List Char) (h : r = domainRx.anchored) :
    regexp.specMatch r t = domainRx.matches t := by
  subst h
  unfold regexp.specMatch
  rw [if_pos rfl]

theorem specMatch_repository (r t : List Char) (h : r = repositoryRx.anchored) :
    regexp.specMatch r t = repositoryRx.matches t := by
  subst h
  unfold regexp.specMatch
  rw [if_neg (by decide), if_pos rfl]

/-- TIE: `file.IsValidFileName` (internal/file/file.go), with Go's regexp as the oracle of
`Src/TypesC09.lean`, is the model's `isValidFileName` -/
theorem source_IsValidFileName_refines_model (s : String) :
    file.IsValidFileName s = isValidFileName s.toList := by
  unfold file.IsValidFileName isValidFileName
  simp only [Id.run, regexp.MustCompile, regexp.Regexp.MatchString]
  rw [specMatch_fileName _ _ (by decide)]
  by_cases h1 : s = "."
  · subst h1; simp [Spec.fileNameRefused, GoLite.idPure]
  · by_cases h2 : s = ".."
    · subst h2; simp [Spec.fileNameRefused, GoLite.idPure]
    · have l1 : s.toList ≠ ['.'] := fun e => h1 (String.toList_inj.1 (by rw [e]; decide))
      have l2 : s.toList ≠ ['.', '.'] := fun e => h2 (String.toList_inj.1 (by rw [e]; decide))
      have l1' : ['.'] ≠ s.toList := fun e => l1 e.symm
      have l2' : ['.', '.'] ≠ s.toList := fun e => l2 e.symm
      simp [h1, h2, Ne.symm h1, Ne.symm h2, l1, l2, l1', l2', Spec.fileNameRefused, GoLite.idPure,
        show ((fun a : String => a) s = s) from rfl]

/-- TIE: `isValidTrustStoreType` -/
theorem source_isValidTrustStoreType_refines_model (s : String) :
    isValidTrustStoreType s = Facts.trustStoreTypes.contains s.toList := by
  unfold isValidTrustStoreType
  simp only [Id.run]
  rw [forIn_findReturn (fun p => if s == p then some true else none) _ (by
    intro a st; simp only [id]; split <;> simp_all)]
  simp only [pure_bind, findSome?_if_some, GoLite.idPure]
  have : ((Facts.trustStoreTypes.map String.ofList).any fun p => s == p) = Facts.trustStoreTypes.contains s.toList := by
    generalize Facts.trustStoreTypes = L
    induction L with
    | nil => rfl
    | cons a r ih =>
      simp only [List.map_cons, List.any_cons, List.contains_cons, ih, beq_ofList]
  rw [this]
  cases Facts.trustStoreTypes.contains s.toList <;> rfl

/-- what the model asks of one trust store value, said with the translated helpers -/
theorem storeOk_src (t : String) :
    storeOk t.toList = ((GoLite.cut t ':').2.2 && isValidTrustStoreType (GoLite.cut t ':').1 &&
      file.IsValidFileName (GoLite.cut t ':').2.1) := by
  rw [cut_src]
  unfold storeOk
  cases h : cut ':' t.toList with
  | none => simp
  | some p =>
    obtain ⟨a, b⟩ := p
    simp [source_isValidTrustStoreType_refines_model, source_IsValidFileName_refines_model, String.toList_ofList]

theorem isOk_validateTrustStore (ts : List Text) : isOk (C09.validateTrustStore ts) = ts.all storeOk := by
  have := validateTrustStore_ok ts
  cases h : C09.validateTrustStore ts with
  | ok u => 
    have h2 := this.1 (by rw [h])
    simp only [isOk]
    symm; rw [List.all_eq_true]; exact h2
  | error e =>
    simp only [isOk]
    cases ha : ts.all storeOk with
    | false => rfl
    | true =>
      rw [List.all_eq_true] at ha
      have := this.2 ha
      rw [h] at this; cases this

/-- TIE: `validateTrustStore` (verifier/trustpolicy/trustpolicy.go) returns an error exactly when
the model's `validateTrustStore` does, for every list of trust store values -/
theorem source_validateTrustStore_refines_model (name : String) (ts : List String) :
    trustpolicy.validateTrustStore name ts =
      if isOk (C09.validateTrustStore (ts.map String.toList)) then none else some (GoLite.errorf "") := by
  unfold trustpolicy.validateTrustStore
  simp only [Id.run]
  rw [forIn_findReturn (fun t => if storeOk t.toList then none else some (some (GoLite.errorf ""))) _ (by
    intro a st
    rw [storeOk_src]
    have hc : (Char.ofNat 58) = ':' := rfl
    simp only [hc]
    cases (GoLite.cut a ':').2.2 <;> cases isValidTrustStoreType (GoLite.cut a ':').1 <;>
      cases file.IsValidFileName (GoLite.cut a ':').2.1 <;> simp [GoLite.errorf])]
  simp only [pure_bind, findSome?_if_none, isOk_validateTrustStore, List.all_map, GoLite.idPure]
  have : (ts.all (storeOk ∘ String.toList)) = ts.all (fun t => storeOk t.toList) := rfl
  rw [this]
  cases ts.all (fun t => storeOk t.toList) <;> rfl

example : trustpolicy.validateTrustStore "p" ["ca:acme-rockets", "tsa:.."] = some ⟨"error"⟩ := by decide
example : trustpolicy.validateTrustStore "p" ["ca:acme-rockets", "signingAuthority:a.b"] = none := by decide

/-! #### registry scopes -/

theorem hasInfix_singleton (c : Char) : ∀ l : List Char, hasInfix [c] l = l.contains c := by
  intro l
  induction l with
  | nil => rfl
  | cons a r ih =>
    simp only [hasInfix, ih, List.contains_cons]
    have : [c].isPrefixOf (a :: r) = (c == a) := by simp [List.isPrefixOf]
    rw [this]

/-- TIE: `validateRegistryScopeFormat` (verifier/trustpolicy/oci.go), with Go's regexp as the
oracle of `Src/TypesC09.lean`, refuses exactly the scopes the model's `validScopeFormat` refuses -/
theorem source_validateRegistryScopeFormat_refines_model (scope : String) :
    validateRegistryScopeFormat scope =
      if validScopeFormat scope.toList then none else some (GoLite.errorf "") := by
  unfold validateRegistryScopeFormat validScopeFormat
  simp only [Id.run, regexp.MustCompile, regexp.Regexp.MatchString]
  simp (disch := decide) only [specMatch_domain, specMatch_repository]
  have hstar : strings.Contains scope "*" = scope.toList.contains '*' := by
    unfold strings.Contains
    rw [show "*".toList = ['*'] by decide, hasInfix_singleton]
  have hlen : decide (strings.Len scope > (1 : Int)) = decide (scope.toList.length > 1) := by
    unfold strings.Len
    by_cases h : scope.toList.length > 1
    · have : ((scope.toList.length : Nat) : Int) > 1 := by omega
      simp [h, this]
    · have : ¬ ((scope.toList.length : Nat) : Int) > 1 := by omega
      simp [h, this]
  have hc : (Char.ofNat 47) = '/' := rfl
  rw [hstar, hlen, hc, cut_src]
  cases h1 : (decide (scope.toList.length > 1) && scope.toList.contains '*') with
  | true => simp [GoLite.errorf, GoLite.idPure]
  | false =>
    simp only [Bool.false_eq_true, if_false]
    cases hcut : cut '/' scope.toList with
    | none => simp [GoLite.errorf, GoLite.idPure]
    | some p =>
      obtain ⟨d, r⟩ := p
      simp only [Bool.not_true, Bool.false_eq_true, if_false, beq_empty, String.toList_ofList]
      by_cases a1 : d.isEmpty = true <;> by_cases a2 : r.isEmpty = true <;>
        by_cases a3 : domainRx.matches d = true <;> by_cases a4 : repositoryRx.matches r = true <;>
        simp [a1, a2, a3, a4, GoLite.errorf, GoLite.idPure] <;> (try rfl)

example : validateRegistryScopeFormat "registry.acme-rockets.io:5000/software/net-monitor" = none := by decide
example : validateRegistryScopeFormat "registry.acme-rockets.io/Software" = some ⟨"error"⟩ := by decide

/-! #### pkix.IsSubsetDN -/

theorem get?_eq_lookup (m : DNMap) (k : String) : GoLite.Map.get? m k = m.lookup k := by
  unfold GoLite.Map.get?
  induction m with
  | nil => rfl
  | cons a r ih =>
    obtain ⟨k', v'⟩ := a
    simp only [List.find?_cons, List.lookup_cons]
    by_cases h : k' = k
    · subst h; simp
    · have h1 : (k' == k) = false := beq_false_of_ne h
      have h2 : (k == k') = false := beq_false_of_ne (fun e => h e.symm)
      simp only [h1, h2, ih]

/-- TIE: `pkix.IsSubsetDN` (internal/pkix/pkix.go) is the model's `isSubsetDN`, for all maps (as
association lists, i.e. for every iteration order) -/
theorem source_IsSubsetDN_refines_model (dn1 dn2 : DNMap) : pkix.IsSubsetDN dn1 dn2 = isSubsetDN dn1 dn2 := by
  unfold pkix.IsSubsetDN isSubsetDN
  simp only [Id.run]
  rw [forIn_findReturn (fun kv : String × String => if dn2.lookup kv.1 == some kv.2 then none else some false) _ (by
    intro a st
    obtain ⟨k, v⟩ := a
    simp only [GoLite.Map.lookup, get?_eq_lookup]
    cases h : List.lookup k dn2 with
    | none => simp
    | some w =>
      by_cases hw : w = v
      · subst hw; simp
      · have hw' : ¬ v = w := fun e => hw e.symm
        simp [hw, hw'])]
  simp only [pure_bind, findSome?_if_none, GoLite.idPure]
  cases dn1.all (fun kv => dn2.lookup kv.1 == some kv.2) <;> rfl

example : pkix.IsSubsetDN [("C", "US"), ("O", "x")] [("O", "x"), ("C", "US"), ("CN", "")] = true := by decide
example : pkix.IsSubsetDN [("C", "US"), ("CN", "")] [("C", "US")] = false := by decide

/-! #### validatePolicyCore -/

/-- the model's statement for the arguments of the translated `validatePolicyCore` -/
def mkStatement (name : String) (sv : SignatureVerificationFull) (ts : List String) (ids : List Identity) : Statement :=
  { name := name, level := sv.VerificationLevel, override := sv.Override.map toKV,
    verifyTimestamp := sv.VerifyTimestamp, trustStores := ts.map String.toList, identities := ids,
    scopes := [], isGlobal := false }

theorem len_pos {α : Type} (l : List α) : decide (GoLite.len l > 0) = decide (l.length > 0) := by
  unfold GoLite.len
  by_cases h : l.length > 0
  · have : ((l.length : Nat) : Int) > 0 := by omega
    simp [h, this]
  · have : ¬ ((l.length : Nat) : Int) > 0 := by omega
    simp [h, this]

theorem len_zero {α : Type} (l : List α) : (GoLite.len l == 0) = (l.length == 0) := by
  cases l with
  | nil => rfl
  | cons a r =>
    have h1 : (GoLite.len (a :: r) == 0) = false := by simp [GoLite.len]; omega
    have h2 : ((a :: r).length == 0) = false := by simp
    rw [h1, h2]

/-- TIE: `validatePolicyCore` (verifier/trustpolicy/trustpolicy.go) refuses a statement exactly
when the model's `validatePolicyCore` does - for every name, level, override map, timestamp
option and trust store list; the identity list enters through the verdict of the translated
`validateTrustedIdentities` (hypothesis `hid`: it agrees with the model's on these identities). -/
theorem source_validatePolicyCore_refines_model
    (pd : String → GoLite.Map String String × Option GoLite.Err) (name : String)
    (sv : SignatureVerificationFull) (ts tis : List String) (ids : List Identity)
    (hlen : ids.length = tis.length)
    (hid : (trustpolicy.validateTrustedIdentities pd name tis).isSome = !isOk (C09.validateTrustedIdentities ids)) :
    (trustpolicy.validatePolicyCore pd name sv ts tis).isSome =
      !isOk (C09.validatePolicyCore (mkStatement name sv ts ids)) := by
  unfold trustpolicy.validatePolicyCore C09.validatePolicyCore
  simp only [Id.run, mkStatement]
  have htie := source_GetVerificationLevel_refines_model sv.toSignatureVerification
  rw [source_validateTrustStore_refines_model]
  simp only [len_pos, len_zero, List.length_map, ← hlen, OptionAlways, OptionAfterCertExpiry]
  generalize GetVerificationLevel sv.toSignatureVerification = g at htie ⊢
  obtain ⟨gl, ge⟩ := g
  cases heff : effective sv.VerificationLevel (sv.Override.map toKV) with
  | error e =>
    rw [heff] at htie
    simp only [shape, ofModel, Prod.mk.injEq] at htie
    simp only [htie.2]
    by_cases hn : name = "" <;>
    by_cases t0 : sv.VerifyTimestamp = "" <;>
    by_cases t1 : sv.VerifyTimestamp = Facts.optionAlways <;>
    by_cases t2 : sv.VerifyTimestamp = Facts.optionAfterCertExpiry <;>
    simp [hn, t0, t1, t2, isOk, GoLite.idPure]
  | ok lv =>
    rw [heff] at htie
    simp only [shape, ofModel, Prod.mk.injEq] at htie
    obtain ⟨h1, h2⟩ := htie
    have hname : (GoLite.deref gl).Name = lv.1 := by
      cases gl with
      | none => simp at h1
      | some l => simp only [Option.map_some, Option.some.injEq] at h1; rw [← h1]; rfl
    simp only [h2, hname, Bool.false_eq_true, if_false, Facts.policyCoreSkipLiteral]
    cases hv : C09.validateTrustStore (ts.map String.toList) <;>
    cases hi : C09.validateTrustedIdentities ids <;>
    (try simp only [hi, isOk, Bool.not_true, Bool.not_false] at hid) <;>
    by_cases hn : name = "" <;>
    by_cases t0 : sv.VerifyTimestamp = "" <;>
    by_cases t1 : sv.VerifyTimestamp = Facts.optionAlways <;>
    by_cases t2 : sv.VerifyTimestamp = Facts.optionAfterCertExpiry <;>
    by_cases hs : lv.1 = "skip" <;>
    by_cases ha : ts.length = 0 <;>
    by_cases hb : ids.length = 0 <;>
    simp [hn, t0, t1, t2, hs, ha, hb, hid, isOk, GoLite.idPure, GoLite.errorf, Nat.pos_iff_ne_zero]

example : (trustpolicy.validatePolicyCore (fun _ => ([], none)) "p"
    { VerificationLevel := "audit", Override := [("expiry", "skip")], VerifyTimestamp := "" } ["ca:x"] ["*"]).isSome = true := by decide
example : (trustpolicy.validatePolicyCore (fun _ => ([], none)) "p"
    { VerificationLevel := "audit", Override := [("revocation", "skip")], VerifyTimestamp := "always" } ["ca:x"] ["*"]) = none := by decide

/-! #### the statement loops of BlobDocument.Validate and OCIDocument.Validate -/

/-- two lists related element by element -/
inductive All2 {α β : Type} (R : α → β → Prop) : List α → List β → Prop
  | nil : All2 R [] []
  | cons {a : α} {b : β} {as : List α} {bs : List β} : R a b → All2 R as bs → All2 R (a :: as) (b :: bs)

theorem All2.length_eq {α β : Type} {R : α → β → Prop} {as : List α} {bs : List β} (h : All2 R as bs) :
    as.length = bs.length := by
  induction h with
  | nil => rfl
  | cons _ _ ih => simp [ih]

theorem contains_versions (vs : List String) (v : String) : GoLite.contains vs v = vs.contains v := rfl

/-- one iteration of the blob statement loop, on the model's loop state (names seen, global found) -/
def blobStep (pd : String → GoLite.Map String String × Option GoLite.Err) (t : List String × Bool)
    (p : BlobTrustPolicy) : Except Unit (List String × Bool) :=
  if t.1.contains p.Name then .error ()
  else if (trustpolicy.validatePolicyCore pd p.Name p.SignatureVerification p.TrustStores p.TrustedIdentities).isSome then .error ()
  else if p.GlobalPolicy then
    if t.2 then .error ()
    else if p.SignatureVerification.VerificationLevel == Facts.levelSkipName then .error ()
    else .ok (p.Name :: t.1, true)
  else .ok (p.Name :: t.1, t.2)

/-- a Go statement and the model's statement describe the same thing, and the translated
`validatePolicyCore` gives the model's verdict on it (see `source_validatePolicyCore_refines_model`) -/
def BlobRel (pd : String → GoLite.Map String String × Option GoLite.Err) (p : BlobTrustPolicy) (s : Statement) : Prop :=
  s.name = p.Name ∧ s.level = p.SignatureVerification.VerificationLevel ∧ s.isGlobal = p.GlobalPolicy ∧
  (trustpolicy.validatePolicyCore pd p.Name p.SignatureVerification p.TrustStores p.TrustedIdentities).isSome =
    !isOk (C09.validatePolicyCore s)

def okE {ε α : Type} : Except ε α → Bool
  | .ok _ => true
  | .error _ => false

theorem foldE_blob (pd : String → GoLite.Map String String × Option GoLite.Err) :
    ∀ (ps : List BlobTrustPolicy) (ss : List Statement), All2 (BlobRel pd) ps ss →
      ∀ seen found, okE (GoLite.foldE (blobStep pd) ps (seen, found)) = isOk (validateStatementsBlob ss seen found) := by
  intro ps ss h
  induction h with
  | nil => intro seen found; rfl
  | @cons p s ps ss hr _ ih =>
    intro seen found
    obtain ⟨h1, h2, h3, h4⟩ := hr
    simp only [GoLite.foldE, blobStep, validateStatementsBlob, h1, h2, h3]
    cases hc : seen.contains p.Name with
    | true => simp [okE, isOk]
    | false =>
      simp only [Bool.false_eq_true, if_false, h4]
      cases hv : C09.validatePolicyCore s with
      | error e => simp [okE, isOk]
      | ok u =>
        simp only [isOk, Bool.not_true, Bool.false_eq_true, if_false]
        cases hg : p.GlobalPolicy with
        | false => simp only [Bool.false_eq_true, if_false]; exact ih _ _
        | true =>
          simp only [if_true]
          cases found with
          | true => simp [okE, isOk]
          | false =>
            simp only [Bool.false_eq_true, if_false]
            cases hk : (p.SignatureVerification.VerificationLevel == Facts.levelSkipName) with
            | true => simp [okE, isOk]
            | false => simp only [Bool.false_eq_true, if_false]; exact ih _ _

/-- TIE: `BlobDocument.Validate` (verifier/trustpolicy/blob.go): version, at least one statement,
and the statement loop with its name set and global flag refuse exactly the documents the model's
`validateBlob` refuses; the statements enter through the verdicts of the translated
`validatePolicyCore` (relation `BlobRel`). A nil document is refused. -/
theorem source_BlobDocument_Validate_refines_model
    (pd : String → GoLite.Map String String × Option GoLite.Err) (d : BlobDocument) (ss : List Statement)
    (hrel : All2 (BlobRel pd) d.TrustPolicies ss) :
    (BlobDocument.Validate pd (some d)).isSome = !isOk (validateBlob { version := d.Version, statements := ss }) ∧
    (BlobDocument.Validate pd none).isSome = true := by
  constructor
  · unfold BlobDocument.Validate validateBlob
    simp only [Id.run, Option.isNone_some, GoLite.deref, Option.getD_some, Bool.false_eq_true, if_false,
      contains_versions, len_zero]
    have hl : ss.length = d.TrustPolicies.length := hrel.length_eq.symm
    have hv : supportedBlobPolicyVersions = Facts.supportedBlobPolicyVersions := by decide
    rw [hv, hl]
    by_cases h0 : d.Version = ""
    · simp [h0, isOk, GoLite.idPure]
    · have h1 : (d.Version == "") = false := beq_false_of_ne h0
      have h1' : ("" == d.Version) = false := beq_false_of_ne (fun e => h0 e.symm)
      simp only [h1, h1', Bool.false_eq_true, if_false]
      cases h2 : (!Facts.supportedBlobPolicyVersions.contains d.Version) with
      | true => simp [isOk, GoLite.idPure]
      | false =>
        simp only [Bool.false_eq_true, if_false]
        cases h3 : (d.TrustPolicies.length == 0) with
        | true => simp [isOk, GoLite.idPure]
        | false =>
          simp only [Bool.false_eq_true, if_false]
          rw [GoLite.forIn_eq_foldE' _ (blobStep pd)
            (fun t => (none, (⟨t.1⟩ : set.Set), t.2))
            (fun t _ => (some (some (GoLite.errorf "")), (⟨t.1⟩ : set.Set), t.2)) ?h _ _ ([], false) ?hs]
          case hs => rfl
          case h =>
            intro a t
            obtain ⟨seen, found⟩ := t
            have hk : LevelSkip.Name = Facts.levelSkipName := by decide
            simp only [blobStep, set.Set.Contains, set.Set.Add, hk]
            (repeat' split) <;> simp_all [GoLite.errorf] <;> (try (subst_vars; rfl))
          have := foldE_blob pd _ _ hrel [] false
          rw [← this]
          cases GoLite.foldE (blobStep pd) d.TrustPolicies ([], false) with
          | ok t => simp only [okE, Bool.not_true]; rfl
          | error p => obtain ⟨t, e⟩ := p; simp only [okE, Bool.not_false]; rfl
  · unfold BlobDocument.Validate
    simp [Id.run, GoLite.idPure]

def ociStep (pd : String → GoLite.Map String String × Option GoLite.Err) (seen : List String)
    (p : OCITrustPolicy) : Except Unit (List String) :=
  if seen.contains p.Name then .error ()
  else if (trustpolicy.validatePolicyCore pd p.Name p.SignatureVerification p.TrustStores p.TrustedIdentities).isSome then .error ()
  else .ok (p.Name :: seen)

def OCIRel (pd : String → GoLite.Map String String × Option GoLite.Err) (p : OCITrustPolicy) (s : Statement) : Prop :=
  s.name = p.Name ∧
  (trustpolicy.validatePolicyCore pd p.Name p.SignatureVerification p.TrustStores p.TrustedIdentities).isSome =
    !isOk (C09.validatePolicyCore s)

theorem foldE_oci (pd : String → GoLite.Map String String × Option GoLite.Err) :
    ∀ (ps : List OCITrustPolicy) (ss : List Statement), All2 (OCIRel pd) ps ss →
      ∀ seen, okE (GoLite.foldE (ociStep pd) ps seen) = isOk (validateStatementsOCI ss seen) := by
  intro ps ss h
  induction h with
  | nil => intro seen; rfl
  | @cons p s ps ss hr _ ih =>
    intro seen
    obtain ⟨h1, h4⟩ := hr
    simp only [GoLite.foldE, ociStep, validateStatementsOCI, h1]
    cases hc : seen.contains p.Name with
    | true => simp [okE, isOk]
    | false =>
      simp only [Bool.false_eq_true, if_false, h4]
      cases hv : C09.validatePolicyCore s with
      | error e => simp [okE, isOk]
      | ok u => simp only [isOk, Bool.not_true, Bool.false_eq_true, if_false]; exact ih _

/-- TIE: `OCIDocument.Validate` (verifier/trustpolicy/oci.go): version, at least one statement, the
statement loop with its name set, then the registry scopes - refuses exactly the documents the
model's `validateOCI` refuses; statements enter through the verdicts of the translated
`validatePolicyCore` (relation `OCIRel`), scopes through the verdict of the translated
`validateRegistryScopes` (hypothesis `hsc`). A nil document is refused. -/
theorem source_OCIDocument_Validate_refines_model
    (pd : String → GoLite.Map String String × Option GoLite.Err) (d : OCIDocument) (ss : List Statement)
    (hrel : All2 (OCIRel pd) d.TrustPolicies ss)
    (hsc : (trustpolicy.validateRegistryScopes (some d)).isSome = !isOk (C09.validateRegistryScopes ss)) :
    (OCIDocument.Validate pd (some d)).isSome = !isOk (validateOCI { version := d.Version, statements := ss }) ∧
    (OCIDocument.Validate pd none).isSome = true := by
  constructor
  · unfold OCIDocument.Validate validateOCI
    simp only [Id.run, Option.isNone_some, GoLite.deref, Option.getD_some, Bool.false_eq_true, if_false,
      contains_versions, len_zero]
    have hl : ss.length = d.TrustPolicies.length := hrel.length_eq.symm
    have hv : supportedOCIPolicyVersions = Facts.supportedOCIPolicyVersions := by decide
    rw [hv, hl]
    by_cases h0 : d.Version = ""
    · simp [h0, isOk, GoLite.idPure]
    · have h1 : (d.Version == "") = false := beq_false_of_ne h0
      have h1' : ("" == d.Version) = false := beq_false_of_ne (fun e => h0 e.symm)
      simp only [h1, h1', Bool.false_eq_true, if_false]
      cases h2 : (!Facts.supportedOCIPolicyVersions.contains d.Version) with
      | true => simp [isOk, GoLite.idPure]
      | false =>
        simp only [Bool.false_eq_true, if_false]
        cases h3 : (d.TrustPolicies.length == 0) with
        | true => simp [isOk, GoLite.idPure]
        | false =>
          simp only [Bool.false_eq_true, if_false]
          rw [GoLite.forIn_eq_foldE' _ (ociStep pd)
            (fun t => (none, (⟨t⟩ : set.Set)))
            (fun t _ => (some (some (GoLite.errorf "")), (⟨t⟩ : set.Set))) ?h _ _ [] ?hs]
          case hs => rfl
          case h =>
            intro a seen
            simp only [ociStep, set.Set.Contains, set.Set.Add]
            by_cases hc : a.Name ∈ seen
            · simp [hc, GoLite.errorf]
            · by_cases hvv : (trustpolicy.validatePolicyCore pd a.Name a.SignatureVerification a.TrustStores a.TrustedIdentities).isSome = true
              · simp [hc, hvv, GoLite.errorf]
              · simp [hc, hvv]
          have hfold := foldE_oci pd _ _ hrel []
          cases hf : GoLite.foldE (ociStep pd) d.TrustPolicies [] with
          | ok t =>
            rw [hf] at hfold
            simp only [okE] at hfold
            cases hm : validateStatementsOCI ss [] with
            | error e => rw [hm] at hfold; cases hfold
            | ok u =>
              simp only []
              cases hr : C09.validateRegistryScopes ss with
              | ok u =>
                simp only [hr, isOk, Bool.not_true] at hsc
                have : trustpolicy.validateRegistryScopes (some d) = none := by
                  cases h : trustpolicy.validateRegistryScopes (some d) with
                  | none => rfl
                  | some e => rw [h] at hsc; cases hsc
                simp only [isOk, Bool.not_true]
                simp only [this]; rfl
              | error e =>
                simp only [hr, isOk, Bool.not_false] at hsc
                simp only [isOk, Bool.not_false]
                simp only [hsc, if_true]; exact hsc
          | error p =>
            obtain ⟨t, e⟩ := p
            rw [hf] at hfold
            simp only [okE] at hfold
            cases hm : validateStatementsOCI ss [] with
            | ok u => rw [hm] at hfold; cases hfold
            | error e => simp only [isOk, Bool.not_false]; rfl
  · unfold OCIDocument.Validate
    simp [Id.run, GoLite.idPure]

end Tie

end NotationModel.C09

/-
C14 - A CRL cache entry is only ever absent or complete.
Property theorems; the model is in `Model/C14.lean`, the inductive invariant and its
preservation by every event in `Lemmas/C14Inv.lean` (space) and `Lemmas/C14Time.lean` (time).
All theorems quantify over arbitrary event lists = every interleaving of any number of writers
and readers over any keys, with crashes anywhere (ill-timed events are no-ops of `step`).
-/
import NotationModel.Lemmas.C14Time
import NotationModel.Generated.Skeletons
set_option linter.unusedSimpArgs false
set_option linter.unusedVariables false

namespace NotationModel.C14

/-! ### the code is the protocol the state machine models (re-checked when the source changes) -/

/- `file.WriteFile`: create a temp file, write, close, rename over the destination - in this order,
with the cleanup on every failure path - is proved from the TRANSLATED source for every oracle in
`Props/C14_WriteFile.lean` (`Tie.source_WriteFile_refines_protocol` and what follows from it). The
textual pin of the call skeleton that stood here broke under harmless rewrites (a renamed local)
and is gone; `Facts.writeFileSteps` is still generated, nothing depends on it. -/

/-- `FileCache.Set` makes exactly ONE file-system call, `file.WriteFile`, and `FileCache.Get` exactly one,
`os.ReadFile` (callees only: WHICH arguments they get - the cache root as temp directory, so that the
rename never crosses a file system, and `root/hex(sha256(url))` as destination / path read - is proved
from the translated source: `Tie.source_Set_runs_protocol` in `Props/C14_WriteFile.lean`,
`C15.Tie.source_Get_refines_model`. The textual pins of the argument lists that stood here broke under
a renamed receiver.) -/
theorem fact_set_and_get_make_one_call_each :
    Facts.crlSetCalls.map (fun s => s.toList.takeWhile (· != '(')) = ["file.WriteFile".toList] ∧
    Facts.crlGetCalls.map (fun s => s.toList.takeWhile (· != '(')) = ["os.ReadFile".toList] := by decide

theorem fact_temp_prefix : Facts.tempFileNamePrefix.toList = tempPrefix ++ ['*'] := by decide

theorem fact_key_name_is_hex_sha256 : Facts.crlFileNameCalls = ["sha256.Sum256", "hex.EncodeToString"] := by decide

/-! ### the invariant holds in every reachable state -/

theorem inv_runFrom (p : Prog) (evs : List Event) : ∀ s, Inv p s → InvT p s →
    Inv p (runFrom p s evs) ∧ InvT p (runFrom p s evs) := by
  induction evs with
  | nil => intro s h1 h2; exact ⟨h1, h2⟩
  | cons e es ih =>
    intro s h1 h2
    simp only [runFrom, List.foldl_cons]
    exact ih _ (inv_step p s e h1) (invT_step p s e h1 h2)

/-- **every schedule**: the invariant holds after any event list -/
theorem inv_reachable (p : Prog) (evs : List Event) : Inv p (exec p evs) ∧ InvT p (exec p evs) :=
  inv_runFrom p evs init (inv_init p) (invT_init p)

/-! ### readable property theorems -/

/-- **C14, absent or complete.** Under any schedule, a finished read returned a miss (`none`) or
exactly the complete data of some writer of the key it read - never a truncated or mixed entry. -/
theorem read_absent_or_complete (p : Prog) (evs : List Event) (r : Nat) (res : Option Bytes) (snap : Option Nat)
    (h : (exec p evs).rst r = .finished res snap) :
    res = none ∨ ∃ w, p.wkey w = p.rkey r ∧ res = some (p.wdata w) := by
  cases res with
  | none => exact Or.inl rfl
  | some b =>
    obtain ⟨w, _, h2, h3⟩ := (inv_reachable p evs).1.finished_ok r b snap h
    exact Or.inr ⟨w, h2, by rw [h3]⟩

/-- a read in progress has so far seen a prefix of one single complete entry of its key -/
theorem read_in_progress_is_prefix (p : Prog) (evs : List Event) (r i : Nat) (buf : Bytes) (snap : Option Nat)
    (h : (exec p evs).rst r = .reading i buf snap) :
    ∃ w, p.wkey w = p.rkey r ∧ buf = (p.wdata w).take buf.length := by
  obtain ⟨_, _, w, _, h2, _, h4⟩ := (inv_reachable p evs).1.reading_ok r i buf snap h
  exact ⟨w, h2, h4⟩

/-- **C14, key names are sealed.** Whatever inode a key name points to holds the complete bytes of a
writer of that key whose rename has happened, and no writer in progress can write to it. -/
theorem inv_key_sealed (p : Prog) (evs : List Event) (k i : Nat)
    (h : (exec p evs).dir (.key k) = some i) :
    ∃ w, p.wkey w = k ∧ (exec p evs).ino i = p.wdata w ∧ (exec p evs).wst w = .done ∧
      ∀ w', ¬ Owns (exec p evs) w' i := by
  obtain ⟨w, _, h2, h3, h4, h5, _⟩ := (inv_reachable p evs).1.key_sealed k i h
  exact ⟨w, h2, h3, h4, h5⟩

/-- an inode nobody owns stays unowned and keeps its bytes, whatever happens next -/
theorem sealed_step (p : Prog) (s : Sys) (e : Event) (i : Nat) (h : Inv p s)
    (hlt : i < s.next) (hno : ∀ w, ¬ Owns s w i) :
    (step p s e).ino i = s.ino i ∧ i < (step p s e).next ∧ ∀ w, ¬ Owns (step p s e) w i := by
  cases e with
  | create w t =>
    simp only [step]
    split
    · rename_i hw ht
      refine ⟨by simp [upd]; omega, by simp; omega, ?_⟩
      intro w' ho
      simp only [Owns] at ho
      by_cases hww : w' = w
      · subst hww; simp at ho; omega
      · exact hno w' (by simpa [Owns, upd, hww] using ho)
    · exact ⟨rfl, hlt, hno⟩
  | write w n =>
    simp only [step]
    split
    · rename_i t j off hw
      have hji : i ≠ j := fun e => hno w (e ▸ Or.inl ⟨t, off, hw⟩)
      refine ⟨by simp [upd, hji], hlt, ?_⟩
      intro w' ho
      simp only [Owns] at ho
      by_cases hww : w' = w
      · subst hww; simp at ho; exact hji ho.symm
      · exact hno w' (by simpa [Owns, upd, hww] using ho)
    · exact ⟨rfl, hlt, hno⟩
  | wfail w n =>
    simp only [step]
    split
    · rename_i t j off hw
      have hji : i ≠ j := fun e => hno w (e ▸ Or.inl ⟨t, off, hw⟩)
      refine ⟨by simp [upd, hji], hlt, ?_⟩
      intro w' ho
      simp only [Owns] at ho
      by_cases hww : w' = w
      · subst hww; simp at ho
      · exact hno w' (by simpa [Owns, upd, hww] using ho)
    · exact ⟨rfl, hlt, hno⟩
  | close w =>
    simp only [step]
    split
    · rename_i t j off hw
      split
      · refine ⟨rfl, hlt, ?_⟩
        intro w' ho
        simp only [Owns] at ho
        by_cases hww : w' = w
        · subst hww; simp at ho; exact hno w' (Or.inl ⟨t, off, by rw [← ho]; exact hw⟩)
        · exact hno w' (by simpa [Owns, upd, hww] using ho)
      · exact ⟨rfl, hlt, hno⟩
    · exact ⟨rfl, hlt, hno⟩
  | rename w =>
    simp only [step]
    split
    · refine ⟨rfl, hlt, ?_⟩
      intro w' ho
      simp only [Owns] at ho
      by_cases hww : w' = w
      · subst hww; simp at ho
      · exact hno w' (by simpa [Owns, upd, hww] using ho)
    · exact ⟨rfl, hlt, hno⟩
  | giveup w =>
    simp only [step]
    split
    · refine ⟨rfl, hlt, ?_⟩
      intro w' ho
      simp only [Owns] at ho
      by_cases hww : w' = w
      · subst hww; simp at ho
      · exact hno w' (by simpa [Owns, upd, hww] using ho)
    · refine ⟨rfl, hlt, ?_⟩
      intro w' ho
      simp only [Owns] at ho
      by_cases hww : w' = w
      · subst hww; simp at ho
      · exact hno w' (by simpa [Owns, upd, hww] using ho)
    · exact ⟨rfl, hlt, hno⟩
  | crash w =>
    simp only [step]
    split
    · exact ⟨rfl, hlt, hno⟩
    · refine ⟨rfl, hlt, ?_⟩
      intro w' ho
      simp only [Owns] at ho
      by_cases hww : w' = w
      · subst hww; simp at ho
      · exact hno w' (by simpa [Owns, upd, hww] using ho)
  | ropen r =>
    simp only [step]
    split
    · split <;> exact ⟨rfl, hlt, hno⟩
    · exact ⟨rfl, hlt, hno⟩
  | rread r n =>
    simp only [step]
    split
    · split <;> exact ⟨rfl, hlt, hno⟩
    · exact ⟨rfl, hlt, hno⟩

theorem sealed_runFrom (p : Prog) (evs : List Event) (i : Nat) : ∀ s, Inv p s → i < s.next →
    (∀ w, ¬ Owns s w i) → (runFrom p s evs).ino i = s.ino i := by
  induction evs with
  | nil => intro s _ _ _; rfl
  | cons e es ih =>
    intro s h hlt hno
    obtain ⟨a, b, c⟩ := sealed_step p s e i h hlt hno
    simp only [runFrom, List.foldl_cons]
    have := ih (step p s e) (inv_step p s e h) b c
    simp only [runFrom] at this
    rw [this, a]

/-- **C14, sealed for ever.** Once a key name points to inode `i`, the bytes of `i` never change
again under any continuation of the schedule (a reader that opened it keeps reading the same
complete entry, even after later renames replaced the name). -/
theorem key_inode_never_written_again (p : Prog) (evs more : List Event) (k i : Nat)
    (h : (exec p evs).dir (.key k) = some i) :
    (exec p (evs ++ more)).ino i = (exec p evs).ino i := by
  obtain ⟨w, _, _, _, _, h5, h6⟩ := (inv_reachable p evs).1.key_sealed k i h
  have : exec p (evs ++ more) = runFrom p (exec p evs) more := by
    simp [exec, runFrom, List.foldl_append]
  rw [this]
  exact sealed_runFrom p more i _ (inv_reachable p evs).1 h6 h5

/-- **C14, freshness (atomic-register order).** `stamp w < openAt r` says writer `w`'s rename
happened before reader `r` opened the entry. A finished read then returned the complete data of a
writer `w'` of the same key whose rename is not before `w`'s - and in particular not a miss. -/
theorem read_not_older (p : Prog) (evs : List Event) (r : Nat) (res : Option Bytes) (snap : Option Nat)
    (h : (exec p evs).rst r = .finished res snap)
    (w : Nat) (hw : (exec p evs).wst w = .done) (hk : p.wkey w = p.rkey r)
    (hbefore : (exec p evs).stamp w < (exec p evs).openAt r) :
    ∃ w', res = some (p.wdata w') ∧ p.wkey w' = p.rkey r ∧ (exec p evs).wst w' = .done ∧
      (exec p evs).stamp w ≤ (exec p evs).stamp w' := by
  obtain ⟨hi, ht⟩ := inv_reachable p evs
  cases res with
  | none =>
    have := (ht.miss_time r snap h).2 w hw hk
    omega
  | some b =>
    obtain ⟨w', h1, h2, h3⟩ := hi.finished_ok r b snap h
    obtain ⟨f1, f2⟩ := (ht.fin_time r b snap h).2 w' h1
    exact ⟨w', by rw [h3], h2, f1, f2 w hw hk hbefore⟩

/-- **C14, crashes.** After any schedule, followed by killing any writers at whatever point they
are, every key name is absent or holds the complete data of a writer of that key. -/
theorem crash_leaves_absent_or_complete (p : Prog) (evs : List Event) (killed : List Nat) (k : Nat) :
    let s := exec p (evs ++ killed.map Event.crash)
    s.dir (.key k) = none ∨ ∃ i w, s.dir (.key k) = some i ∧ p.wkey w = k ∧ s.ino i = p.wdata w := by
  intro s
  cases hd : s.dir (.key k) with
  | none => exact Or.inl rfl
  | some i =>
    obtain ⟨w, h2, h3, _⟩ := inv_key_sealed p _ k i hd
    exact Or.inr ⟨i, w, rfl, h2, h3⟩

/-- a crash never changes the directory or any file content: what was complete stays complete,
the half-written temp file simply stays behind under its temp name -/
theorem crash_touches_no_file (p : Prog) (s : Sys) (w : Nat) :
    (step p s (.crash w)).dir = s.dir ∧ (step p s (.crash w)).ino = s.ino := by
  simp only [step]
  split <;> exact ⟨rfl, rfl⟩

/-! ### temp names are never key names (concrete encoding) -/

theorem hexDigit_ne_n : ∀ m, m < 16 → hexDigit m ≠ 'n' := by decide

theorem hexName_length (d : List Nat) : (hexName d).length = 2 * d.length := by
  induction d with
  | nil => simp [hexName]
  | cons b r ih =>
    have : hexName (b :: r) = hexByte b ++ hexName r := by simp [hexName, List.flatMap_cons]
    rw [this, List.length_append, ih]
    simp [hexByte]; omega

/-- **C14, temp files are never mistaken for entries.** For every suffix `s` (whatever
`os.CreateTemp` substitutes for `*`) and every digest `d` (any length, in particular 32 bytes),
the temp name "notation-"++s differs from the key name `hex(d)`: `n` is not a hex digit. -/
theorem temp_never_key (s : List Char) (d : List Nat) : tempPrefix ++ s ≠ hexName d := by
  cases d with
  | nil => simp [hexName, tempPrefix]
  | cons b r =>
    intro h
    have h0 : (tempPrefix ++ s).head? = (hexName (b :: r)).head? := by rw [h]
    simp [tempPrefix, hexName, hexByte, List.flatMap_cons] at h0
    exact hexDigit_ne_n (b / 16 % 16) (Nat.mod_lt _ (by decide)) h0.symm

/-- key names are 64 characters for 32-byte digests -/
theorem key_name_length (d : List Nat) (h : d.length = 32) : (hexName d).length = 64 := by
  rw [hexName_length, h]


/-! ### the executable replay and `Holds` -/

theorem decode_mkData (b d l : Nat) : decode (mkData b d l) = ⟨.complete, b, d⟩ := by
  simp [decode, mkData]

/-- what an uninterrupted `Get` observes in a state satisfying the invariant: a miss when the key
name is absent, otherwise the complete content of the key's current writer -/
theorem getObs_spec (i : Input) (s : Sys) (k : Nat) (h : Inv (prog i) s) :
    (s.dir (.key k) = none ∧ getObs s k = ⟨.miss, 0, 0⟩) ∨
    (∃ j w0, s.dir (.key k) = some j ∧ s.cur k = some w0 ∧ (specOf i w0).key = k ∧ s.wst w0 = .done ∧
      getObs s k = ⟨.complete, (specOf i w0).base, (specOf i w0).delta⟩) := by
  cases hd : s.dir (.key k) with
  | none => left; simp [getObs, hd]
  | some j =>
    right
    obtain ⟨w0, h1, h2, h3, h4, _, _⟩ := h.key_sealed k j hd
    refine ⟨j, w0, rfl, h1, h2, h4, ?_⟩
    simp only [getObs, hd, h3]
    exact decode_mkData _ _ _

/-- every writer that has ever done anything has an index below `B` -/
def Bnd (B : Nat) (s : Sys) : Prop := ∀ w, s.wst w ≠ .idle → w < B

theorem bnd_init (B : Nat) : Bnd B init := by
  intro w h; simp [init] at h

theorem stepEv_wst_other (p : Prog) (s : Sys) (e : Ev) (w : Nat) (h : w ≠ e.a) :
    (stepEv p s e).wst w = s.wst w := by
  simp only [stepEv, Ev.toEvent]
  cases e.kind <;> simp only [step]
  all_goals (repeat' split) <;> simp [upd, h]

theorem stepEv_bnd (p : Prog) (s : Sys) (e : Ev) (B : Nat) (hb : Bnd B s) (he : e.a < B) :
    Bnd B (stepEv p s e) := by
  intro w hw
  by_cases hwe : w = e.a
  · rw [hwe]; exact he
  · rw [stepEv_wst_other p s e w hwe] at hw
    exact hb w hw

theorem le_maxA (evs : List Ev) (e : Ev) (h : e ∈ evs) : e.a ≤ maxA evs := by
  induction evs with
  | nil => simp at h
  | cons x xs ih =>
    simp only [maxA]
    rcases List.mem_cons.1 h with e1 | e1
    · subst e1; omega
    · have := ih e1; omega

theorem lt_bound (i : Input) (e : Ev) (h : e ∈ i.events) : e.a < bound i := by
  have := le_maxA i.events e h
  simp only [bound]; omega

theorem okRead_get (i : Input) (s : Sys) (k : Nat) (h : Inv (prog i) s) (hb : Bnd (bound i) s) :
    okRead i k (getObs s k) = true := by
  rcases getObs_spec i s k h with ⟨_, e⟩ | ⟨j, w0, _, _, h2, h4, e⟩
  · simp [okRead, e]
  · have hlt : w0 < bound i := hb w0 (by rw [h4]; simp)
    simp only [okRead, e, Bool.or_eq_true, Bool.and_eq_true, List.any_eq_true]
    right
    refine ⟨by decide, w0, by simpa using hlt, ?_⟩
    simp [sameContent, h2]

theorem freshOK_get (i : Input) (s : Sys) (k : Nat) (h : Inv (prog i) s) (ht : InvT (prog i) s)
    (hb : Bnd (bound i) s) : freshOK i s k (getObs s k) = true := by
  simp only [freshOK, List.all_eq_true]
  intro w _
  have hkey : ∀ w, (prog i).wkey w = (specOf i w).key := fun _ => rfl
  rcases getObs_spec i s k h with ⟨hn, e⟩ | ⟨j, w0, _, hc, h2, h4, e⟩
  · by_cases hd : s.wst w = .done
    · by_cases hk : (specOf i w).key = k
      · have := (ht.done_stamp w hd).2
        rw [hkey, hk] at this
        exact absurd hn this
      · simp [hk]
    · simp [isDone, hd]
  · by_cases hd : s.wst w = .done
    · by_cases hk : (specOf i w).key = k
      · have hst := ht.cur_latest k w0 hc w hd (by rw [hkey]; exact hk)
        have hlt : w0 < bound i := hb w0 (by rw [h4]; simp)
        simp only [e, Bool.or_eq_true, Bool.and_eq_true, List.any_eq_true]
        right
        refine ⟨by decide, w0, by simpa using hlt, ?_⟩
        simp [isDone, h4, h2, sameContent, hst]
      · simp [hk]
    · simp [isDone, hd]

theorem all2_map_right {α β} (f : α → β → Bool) (g : α → β) : ∀ l : List α,
    all2 f l (l.map g) = l.all (fun a => f a (g a)) := by
  intro l
  induction l with
  | nil => rfl
  | cons a r ih => simp [all2, ih]

theorem all2_map_both {α β γ} (f : β → γ → Bool) (g : α → β) (h : α → γ) : ∀ l : List α,
    all2 f (l.map g) (l.map h) = l.all (fun a => f (g a) (h a)) := by
  intro l
  induction l with
  | nil => rfl
  | cons a r ih => simp [all2, ih]

theorem stepEv_inv (p : Prog) (s : Sys) (e : Ev) (h : Inv p s) (ht : InvT p s) :
    Inv p (stepEv p s e) ∧ InvT p (stepEv p s e) := by
  simp only [stepEv]
  split
  · exact ⟨inv_step p s _ h, invT_step p s _ h ht⟩
  · exact ⟨h, ht⟩

theorem getStates_inv (p : Prog) (B : Nat) (evs : List Ev) : ∀ s, Inv p s → InvT p s → Bnd B s →
    (∀ e ∈ evs, e.a < B) → ∀ ks ∈ getStates p evs s, Inv p ks.2 ∧ InvT p ks.2 ∧ Bnd B ks.2 := by
  induction evs with
  | nil => intro s _ _ _ _ ks hks; simp [getStates] at hks
  | cons e es ih =>
    intro s h ht hb hall ks hks
    have hall' : ∀ e ∈ es, e.a < B := fun x hx => hall x (List.mem_cons_of_mem _ hx)
    simp only [getStates] at hks
    split at hks
    · rcases List.mem_cons.1 hks with e1 | e1
      · subst e1; exact ⟨h, ht, hb⟩
      · exact ih s h ht hb hall' ks e1
    · obtain ⟨a, b⟩ := stepEv_inv p s e h ht
      exact ih _ a b (stepEv_bnd p s e B hb (hall e (List.mem_cons_self ..))) hall' ks hks

theorem probeStates_inv (p : Prog) (B : Nat) (evs : List Ev) : ∀ s, Inv p s → InvT p s → Bnd B s →
    (∀ e ∈ evs, e.a < B) → ∀ x ∈ probeStates p evs s, Inv p x ∧ InvT p x ∧ Bnd B x := by
  induction evs with
  | nil => intro s _ _ _ _ x hx; simp [probeStates] at hx
  | cons e es ih =>
    intro s h ht hb hall x hx
    have hall' : ∀ e ∈ es, e.a < B := fun y hy => hall y (List.mem_cons_of_mem _ hy)
    simp only [probeStates] at hx
    split at hx
    · rcases List.mem_cons.1 hx with e1 | e1
      · subst e1; exact ⟨h, ht, hb⟩
      · exact ih s h ht hb hall' x e1
    · obtain ⟨a, b⟩ := stepEv_inv p s e h ht
      exact ih _ a b (stepEv_bnd p s e B hb (hall e (List.mem_cons_self ..))) hall' x hx

theorem probeOK_dirObs (i : Input) (nw : Nat) (s : Sys) (h : Inv (prog i) s) (ht : InvT (prog i) s)
    (hb : Bnd (bound i) s) : probeOK i s (dirObs i.nkeys nw s) = true := by
  simp only [probeOK, dirObs, List.length_map, List.length_range, beq_self_eq_true, Bool.true_and,
    all2_map_right, all2_map_both, Bool.and_true, Bool.and_eq_true, List.all_eq_true]
  refine ⟨⟨?_, ?_⟩, ?_⟩
  · intro k _; exact okRead_get i s k h hb
  · intro k _; exact freshOK_get i s k h ht hb
  · intro k _
    rcases getObs_spec i s k h with ⟨hn, e⟩ | ⟨j, w0, hj, _, _, _, e⟩
    · simp [hn, e]
    · simp [hj, e]

/-- **C14, the whole property of the model**: for every trace (any events - including failed
writes and kills -, any Set calls with any shared or repeated contents, any keys) all clauses of
`Holds` are true of the observations the model predicts. No well-formedness hypothesis is needed. -/
theorem model_holds (i : Input) : Holds i (run i) = true := by
  unfold Holds clauses run
  by_cases hf : i.free
  · simp [hf, Clauses.holds, all2]
  · simp only [hf, Bool.false_eq_true, if_false, Clauses.holds_cons, Clauses.holds_nil, Bool.and_true,
      all2_map_right, List.all_nil, Bool.and_eq_true, List.all_eq_true, Bool.false_or, beq_self_eq_true]
    refine ⟨?_, ?_, ?_⟩
    · intro ks hks
      obtain ⟨a, _, c⟩ := getStates_inv _ (bound i) _ _ (inv_init _) (invT_init _) (bnd_init _) (lt_bound i) ks hks
      exact okRead_get i ks.2 ks.1 a c
    · intro ks hks
      obtain ⟨a, b, c⟩ := getStates_inv _ (bound i) _ _ (inv_init _) (invT_init _) (bnd_init _) (lt_bound i) ks hks
      exact freshOK_get i ks.2 ks.1 a b c
    · intro x hx
      obtain ⟨a, b, c⟩ := probeStates_inv _ (bound i) _ _ (inv_init _) (invT_init _) (bnd_init _) (lt_bound i) x hx
      exact probeOK_dirObs i _ x a b c

/-- **C14, a failed write leaves no trace.** When a write fails and the writer carries on with its
error path, no key name changes and no inode other than the private temp inode is touched: the
key is what it was (absent or the earlier complete entry). -/
theorem wfail_touches_no_key (p : Prog) (s : Sys) (w n k : Nat) :
    (step p s (.wfail w n)).dir (.key k) = s.dir (.key k) := by
  simp only [step]
  split <;> simp [upd]

/-! ### failed Set calls (creation, rename), later calls, and the FileCache value issuing a call -/

/-- **a Set whose `os.CreateTemp` failed is no step at all**: nothing in the directory, no inode,
no writer state changes (the call is only listed among the failed ones) -/
theorem cfail_changes_nothing (p : Prog) (s : Sys) (a b : Nat) : stepEv p s ⟨.cfail, a, b⟩ = s := rfl

/-- **a failed rename (with its cleanup) changes no key name** -/
theorem rnfail_touches_no_key (p : Prog) (s : Sys) (w b k : Nat) :
    (stepEv p s ⟨.rnfail, w, b⟩).dir (.key k) = s.dir (.key k) := by
  simp only [stepEv, Ev.toEvent, step]
  split <;> simp [upd]

/-- ... removes the temp file of the call, and the call is over -/
theorem rnfail_removes_temp (p : Prog) (s : Sys) (w b t i : Nat) (h : s.wst w = .closed t i) :
    (stepEv p s ⟨.rnfail, w, b⟩).dir (.tmp t) = none ∧ (stepEv p s ⟨.rnfail, w, b⟩).wst w = .dead := by
  simp [stepEv, Ev.toEvent, step, h, upd]

/-- a failed call is reported exactly where it fails: creation before the call did anything,
write while writing, rename after the close -/
theorem failsAt_cfail (s : Sys) (a b : Nat) : failsAt s ⟨.cfail, a, b⟩ = isIdle s a := rfl
theorem failsAt_wfail (s : Sys) (a b : Nat) : failsAt s ⟨.wfail, a, b⟩ = isOpened s a := rfl
theorem failsAt_rnfail (s : Sys) (a b : Nat) : failsAt s ⟨.rnfail, a, b⟩ = isClosed s a := rfl

/-- **a completed Set is visible whatever happened before.** In ANY state - after any history of
completed, failed and killed calls, through whichever FileCache values - a call that has not begun
(and whose temp name is free), once its four steps have happened, has its own bundle under its key:
no earlier failure can make a later store a no-op. -/
theorem completed_set_is_visible (i : Input) (s : Sys) (w : Nat) (hw : s.wst w = .idle)
    (ht : s.dir (.tmp w) = none) :
    getObs (runFrom (prog i) s [.create w w, .write w ((prog i).wdata w).length, .close w, .rename w])
        (specOf i w).key = ⟨.complete, (specOf i w).base, (specOf i w).delta⟩ := by
  simp [runFrom, step, hw, ht, upd, getObs, prog, decode_mkData]

/-- two inputs that describe the same calls and the same trace and differ at most in WHICH
FileCache value issues each call (`obj`) -/
def SameCalls (i j : Input) : Prop :=
  i.free = j.free ∧ i.nkeys = j.nkeys ∧ i.events = j.events ∧ i.writers.length = j.writers.length ∧
  ∀ w, (specOf i w).key = (specOf j w).key ∧ (specOf i w).base = (specOf j w).base ∧
    (specOf i w).delta = (specOf j w).delta ∧ (specOf i w).len = (specOf j w).len

theorem sameCalls_prog (i j : Input) (h : SameCalls i j) : prog i = prog j := by
  obtain ⟨_, _, _, _, hw⟩ := h
  unfold prog
  have h1 : (fun w => (specOf i w).key) = fun w => (specOf j w).key := funext fun w => (hw w).1
  have h2 : (fun w => mkData (specOf i w).base (specOf i w).delta (specOf i w).len) =
      fun w => mkData (specOf j w).base (specOf j w).delta (specOf j w).len :=
    funext fun w => by rw [(hw w).2.1, (hw w).2.2.1, (hw w).2.2.2]
  rw [h1, h2]

theorem sameCalls_bound (i j : Input) (h : SameCalls i j) : bound i = bound j := by
  obtain ⟨_, _, he, hl, _⟩ := h
  simp [bound, he, hl]

theorem sameCalls_okRead (i j : Input) (h : SameCalls i j) (k : Nat) (o : ReadObs) :
    okRead i k o = okRead j k o := by
  have hb := sameCalls_bound i j h
  obtain ⟨_, _, _, _, hw⟩ := h
  have h1 : ∀ w, (specOf i w).key = (specOf j w).key := fun w => (hw w).1
  have h2 : ∀ w, (specOf i w).base = (specOf j w).base := fun w => (hw w).2.1
  have h3 : ∀ w, (specOf i w).delta = (specOf j w).delta := fun w => (hw w).2.2.1
  simp only [okRead, sameContent, hb, h1, h2, h3]

theorem sameCalls_freshOK (i j : Input) (h : SameCalls i j) (s : Sys) (k : Nat) (o : ReadObs) :
    freshOK i s k o = freshOK j s k o := by
  have hb := sameCalls_bound i j h
  obtain ⟨_, _, _, _, hw⟩ := h
  have h1 : ∀ w, (specOf i w).key = (specOf j w).key := fun w => (hw w).1
  have h2 : ∀ w, (specOf i w).base = (specOf j w).base := fun w => (hw w).2.1
  have h3 : ∀ w, (specOf i w).delta = (specOf j w).delta := fun w => (hw w).2.2.1
  simp only [freshOK, sameContent, hb, h1, h2, h3]

theorem sameCalls_probeOK (i j : Input) (h : SameCalls i j) (s : Sys) (d : DirObs) :
    probeOK i s d = probeOK j s d := by
  have h1 : (fun k o => okRead i k o) = fun k o => okRead j k o :=
    funext fun k => funext fun o => sameCalls_okRead i j h k o
  have h2 : (fun k o => freshOK i s k o) = fun k o => freshOK j s k o :=
    funext fun k => funext fun o => sameCalls_freshOK i j h s k o
  simp only [probeOK, h1, h2, h.2.1]

/-- **which FileCache value issues a call is irrelevant** (the cache is the directory): inputs
that differ only in the `obj` fields of their calls have the same predicted observations and the
same clauses - so a store through a value on which an earlier store failed is judged exactly like a
store through a fresh value or another process. -/
theorem obj_irrelevant (i j : Input) (h : SameCalls i j) :
    run i = run j ∧ ∀ o, clauses i o = clauses j o := by
  have hp := sameCalls_prog i j h
  have hb := sameCalls_bound i j h
  have h1 : (fun (ks : Nat × Sys) r => okRead i ks.1 r) = fun (ks : Nat × Sys) r => okRead j ks.1 r :=
    funext fun ks => funext fun o => sameCalls_okRead i j h ks.1 o
  have h2 : (fun (ks : Nat × Sys) r => freshOK i ks.2 ks.1 r) = fun (ks : Nat × Sys) r => freshOK j ks.2 ks.1 r :=
    funext fun ks => funext fun o => sameCalls_freshOK i j h ks.2 ks.1 o
  have h3 : (fun s d => probeOK i s d) = fun s d => probeOK j s d :=
    funext fun s => funext fun d => sameCalls_probeOK i j h s d
  have h4 : ∀ x : SeenObs, okRead i x.key ⟨x.kind, x.base, x.delta⟩ = okRead j x.key ⟨x.kind, x.base, x.delta⟩ :=
    fun x => sameCalls_okRead i j h _ _
  obtain ⟨hf, hn, he, _, _⟩ := h
  constructor
  · simp only [run, hp, hb, hf, hn, he]
  · intro o
    simp only [clauses, hp, hf, he, h1, h2, h3, h4]

/-- the instance used by the harness: renumbering the FileCache values changes nothing -/
def withObj (f : WSpec → Nat) (i : Input) : Input :=
  { i with writers := i.writers.map (fun s => { s with obj := f s }) }

theorem sameCalls_withObj (f : WSpec → Nat) (i : Input) : SameCalls (withObj f i) i := by
  refine ⟨rfl, rfl, rfl, by simp [withObj], ?_⟩
  intro w
  simp only [specOf, withObj, List.getElem?_map]
  cases i.writers[w]? <;> simp

theorem run_withObj (f : WSpec → Nat) (i : Input) : run (withObj f i) = run i :=
  (obj_irrelevant _ _ (sameCalls_withObj f i)).1

theorem holds_withObj (f : WSpec → Nat) (i : Input) (o : Obs) : Holds (withObj f i) o = Holds i o := by
  simp only [Holds, (obj_irrelevant _ _ (sameCalls_withObj f i)).2 o]


/-- the `get` of the trace replay is what a reader of the state machine finishes with when it
opens and reads to EOF without other events in between (one `os.ReadFile`): a miss when the key
name is absent, otherwise the whole inode -/
theorem get_atomic (p : Prog) (s : Sys) (r n : Nat) (hr : s.rst r = .idle)
    (hn : ∀ i, s.dir (.key (p.rkey r)) = some i → (s.ino i).length ≤ n + 1) :
    ∃ snap, (runFrom p s [.ropen r, .rread r n, .rread r n]).rst r =
      .finished ((s.dir (.key (p.rkey r))).map s.ino) snap := by
  cases hd : s.dir (.key (p.rkey r)) with
  | none =>
    refine ⟨s.cur (p.rkey r), ?_⟩
    simp [runFrom, step, hr, hd, upd]
  | some i =>
    have hlen := hn i hd
    refine ⟨s.cur (p.rkey r), ?_⟩
    by_cases he : s.ino i = []
    · simp [runFrom, step, hr, hd, upd, he]
    · have h1 : List.take (n + 1) (s.ino i) = s.ino i := List.take_of_length_le hlen
      simp [runFrom, step, hr, hd, upd, he, h1]

/-! ### non-vacuity -/

def exTrace : Input :=
  { free := false, writers := [⟨0, 1, 0, 1, 0⟩, ⟨0, 2, 0, 1, 0⟩], nkeys := 1, urls := [],
    events := [⟨.get, 0, 0⟩, ⟨.create, 0, 0⟩, ⟨.write, 0, 4⟩, ⟨.create, 1, 0⟩, ⟨.write, 1, 1⟩, ⟨.close, 0, 0⟩,
               ⟨.rename, 0, 0⟩, ⟨.get, 0, 0⟩, ⟨.crash, 1, 0⟩, ⟨.probe, 0, 0⟩] }

/-- a miss before the first rename, writer 0's bundle after it; writer 1 killed mid-write leaves
one temp file and does not disturb the entry -/
example : run exTrace =
    { gets := [⟨.miss, 0, 0⟩, ⟨.complete, 1, 0⟩],
      probes := [{ present := [true], keys := [⟨.complete, 1, 0⟩], temps := 1, others := 0 }],
      seen := [], failed := [] } := by
  decide

/-- a truncated / undecodable entry observed by a reader violates the property -/
example : Holds exTrace
    { gets := [⟨.miss, 0, 0⟩, ⟨.corrupt, 0, 0⟩],
      probes := [{ present := [true], keys := [⟨.complete, 1, 0⟩], temps := 1, others := 0 }],
      seen := [], failed := [] } = false := by
  decide

/-- a miss after the Set returned violates freshness -/
example : Holds exTrace
    { gets := [⟨.miss, 0, 0⟩, ⟨.miss, 0, 0⟩],
      probes := [{ present := [true], keys := [⟨.complete, 1, 0⟩], temps := 1, others := 0 }],
      seen := [], failed := [] } = false := by
  decide

/-- the bundle of the killed writer showing up under the key violates the property -/
example : Holds exTrace
    { gets := [⟨.miss, 0, 0⟩, ⟨.complete, 1, 0⟩],
      probes := [{ present := [true], keys := [⟨.complete, 2, 0⟩], temps := 1, others := 0 }],
      seen := [], failed := [] } = false := by
  decide

/-- a bundle stored for another URL is not acceptable in a free run either -/
example : Holds { free := true, writers := [⟨0, 1, 0, 1, 0⟩, ⟨1, 2, 0, 1, 0⟩], nkeys := 2, urls := [], events := [] }
    { gets := [], probes := [], seen := [⟨0, .complete, 2, 0, true⟩], failed := [] } = false := by decide

/-- in a free run, a miss after a Set for the URL returned is a violation -/
example : Holds { free := true, writers := [⟨0, 1, 0, 1, 0⟩, ⟨1, 2, 0, 1, 0⟩], nkeys := 2, urls := [], events := [] }
    { gets := [], probes := [], seen := [⟨0, .miss, 0, 0, true⟩], failed := [] } = false := by decide

example : Holds { free := true, writers := [⟨0, 1, 0, 1, 0⟩, ⟨1, 2, 0, 1, 0⟩], nkeys := 2, urls := [], events := [] }
    { gets := [], probes := [],
      seen := [⟨0, .miss, 0, 0, false⟩, ⟨0, .complete, 1, 0, true⟩, ⟨1, .complete, 2, 0, true⟩], failed := [] } = true := by
  decide

/-- Set({B,D}) then Set({B,nil}) on one URL, both complete; then a Get -/
def exSharedBase : Input :=
  { free := false, writers := [⟨0, 1, 5, 1, 0⟩, ⟨0, 1, 0, 1, 0⟩], nkeys := 1, urls := [],
    events := [⟨.create, 0, 0⟩, ⟨.write, 0, 4⟩, ⟨.close, 0, 0⟩, ⟨.rename, 0, 0⟩, ⟨.create, 1, 0⟩,
               ⟨.write, 1, 4⟩, ⟨.close, 1, 0⟩, ⟨.rename, 1, 0⟩, ⟨.get, 0, 0⟩] }

example : run exSharedBase = { gets := [⟨.complete, 1, 0⟩], probes := [], seen := [], failed := [] } := by decide

/-- the stale delta CRL surviving the second, completed write violates freshness -/
example : Holds exSharedBase { gets := [⟨.complete, 1, 5⟩], probes := [], seen := [], failed := [] } = false := by
  decide

/-- A ; B ; A: after the third write only A is acceptable, and A is accepted although the first
write stored the same content -/
def exABA : Input :=
  { free := false, writers := [⟨0, 1, 0, 1, 0⟩, ⟨0, 2, 0, 1, 0⟩, ⟨0, 1, 0, 1, 0⟩], nkeys := 1, urls := [],
    events := [⟨.create, 0, 0⟩, ⟨.write, 0, 4⟩, ⟨.close, 0, 0⟩, ⟨.rename, 0, 0⟩,
               ⟨.create, 1, 0⟩, ⟨.write, 1, 4⟩, ⟨.close, 1, 0⟩, ⟨.rename, 1, 0⟩,
               ⟨.create, 2, 0⟩, ⟨.write, 2, 4⟩, ⟨.close, 2, 0⟩, ⟨.rename, 2, 0⟩, ⟨.get, 0, 0⟩] }

example : Holds exABA { gets := [⟨.complete, 1, 0⟩], probes := [], seen := [], failed := [] } = true := by decide
example : Holds exABA { gets := [⟨.complete, 2, 0⟩], probes := [], seen := [], failed := [] } = false := by decide

/-- an existing entry, then a Set whose write fails after 2 of 4 cells: the writer reports the
error, the temp file is gone, the old entry is still what readers get -/
def exFault : Input :=
  { free := false, writers := [⟨0, 1, 0, 1, 0⟩, ⟨0, 2, 0, 1, 0⟩], nkeys := 1, urls := [],
    events := [⟨.create, 0, 0⟩, ⟨.write, 0, 4⟩, ⟨.close, 0, 0⟩, ⟨.rename, 0, 0⟩,
               ⟨.create, 1, 0⟩, ⟨.wfail, 1, 2⟩, ⟨.close, 1, 0⟩, ⟨.rename, 1, 0⟩, ⟨.probe, 0, 0⟩] }

example : run exFault =
    { gets := [], probes := [{ present := [true], keys := [⟨.complete, 1, 0⟩], temps := 0, others := 0 }],
      seen := [], failed := [1] } := by decide

/-- the truncated new entry renamed over the key, and a Set that swallowed the write error -/
example : Holds exFault
    { gets := [], probes := [{ present := [true], keys := [⟨.corrupt, 0, 0⟩], temps := 0, others := 0 }],
      seen := [], failed := [1] } = false := by decide

example : Holds exFault
    { gets := [], probes := [{ present := [true], keys := [⟨.complete, 1, 0⟩], temps := 0, others := 0 }],
      seen := [], failed := [] } = false := by decide

/-- ONE long-lived FileCache value: Set(B1) completes; a Set fails before its first step (the cache
directory was briefly away); Set(B2) completes; a Set of another URL fails in its rename -/
def exHistory : Input :=
  { free := false, writers := [⟨0, 1, 0, 1, 0⟩, ⟨0, 3, 0, 1, 0⟩, ⟨0, 2, 0, 1, 0⟩, ⟨1, 4, 0, 1, 0⟩], nkeys := 2, urls := [],
    events := [⟨.create, 0, 0⟩, ⟨.write, 0, 4⟩, ⟨.close, 0, 0⟩, ⟨.rename, 0, 0⟩, ⟨.cfail, 1, 0⟩, ⟨.get, 0, 0⟩,
               ⟨.create, 2, 0⟩, ⟨.write, 2, 4⟩, ⟨.close, 2, 0⟩, ⟨.rename, 2, 0⟩, ⟨.get, 0, 0⟩,
               ⟨.create, 3, 0⟩, ⟨.write, 3, 4⟩, ⟨.close, 3, 0⟩, ⟨.rnfail, 3, 0⟩, ⟨.probe, 0, 0⟩] }

example : run exHistory =
    { gets := [⟨.complete, 1, 0⟩, ⟨.complete, 2, 0⟩],
      probes := [{ present := [true, false], keys := [⟨.complete, 2, 0⟩, ⟨.miss, 0, 0⟩], temps := 0, others := 0 }],
      seen := [], failed := [1, 3] } := by decide

/-- the store after the failed one was skipped (it returned nil, the old bundle is still served):
a read after a completed write yields an older bundle -/
example : Holds exHistory
    { gets := [⟨.complete, 1, 0⟩, ⟨.complete, 1, 0⟩],
      probes := [{ present := [true, false], keys := [⟨.complete, 1, 0⟩, ⟨.miss, 0, 0⟩], temps := 0, others := 0 }],
      seen := [], failed := [1, 3] } = false := by decide

/-- the failed store dropped the existing entry -/
example : Holds exHistory
    { gets := [⟨.miss, 0, 0⟩, ⟨.complete, 2, 0⟩],
      probes := [{ present := [true, false], keys := [⟨.complete, 2, 0⟩, ⟨.miss, 0, 0⟩], temps := 0, others := 0 }],
      seen := [], failed := [1, 3] } = false := by decide

/-- a failed rename reported as success -/
example : Holds exHistory
    { gets := [⟨.complete, 1, 0⟩, ⟨.complete, 2, 0⟩],
      probes := [{ present := [true, false], keys := [⟨.complete, 2, 0⟩, ⟨.miss, 0, 0⟩], temps := 0, others := 0 }],
      seen := [], failed := [1] } = false := by decide

/-- the reader machine is not vacuous: an open before a rename and reads after it return the old
complete entry (the pinned inode), a later open returns the new one -/
example :
    let p : Prog := { wkey := (fun _ => 0), wdata := (fun w => [w, 7, 7]), rkey := (fun _ => 0) }
    let s := exec p [.create 0 0, .write 0 3, .close 0, .rename 0, .ropen 0, .rread 0 0,
                     .create 1 1, .write 1 2, .rename 1, .write 1 5, .close 1, .rename 1,
                     .rread 0 5, .rread 0 5, .ropen 1, .rread 1 9, .rread 1 9]
    s.rst 0 = .finished (some [0, 7, 7]) (some 0) ∧ s.rst 1 = .finished (some [1, 7, 7]) (some 1) := by
  decide

end NotationModel.C14

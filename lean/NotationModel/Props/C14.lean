/- C14 - property theorems (stub: not built yet) -/
import NotationModel.Model.C14

namespace NotationModel.C14

end NotationModel.C14

/- C20 - property theorems (stub: not built yet) -/
import NotationModel.Model.C20

namespace NotationModel.C20

end NotationModel.C20

/-
C20 - Plugin installation follows the version rules and never half-replaces a plugin.
Property theorems; the model is in `Model/C20.lean`, helper lemmas in `Lemmas/C20*.lean`.
-/
import NotationModel.Lemmas.C20Install
import NotationModel.Generated.SrcC20
import NotationModel.Generated.SrcC20b
set_option linter.unusedSimpArgs false
set_option linter.unusedVariables false

namespace NotationModel.C20

/-! ## 0. facts read from the Go source this run (a changed fact breaks these proofs) -/

/-- the model's grammar (`parseVersion`) was written against exactly this pattern -/
theorem semver_regex_pinned : Facts.semverRegex =
    "^(0|[1-9]\\d*)\\.(0|[1-9]\\d*)\\.(0|[1-9]\\d*)(?:-((?:0|[1-9]\\d*|\\d*[a-zA-Z-][0-9a-zA-Z-]*)(?:\\.(?:0|[1-9]\\d*|\\d*[a-zA-Z-][0-9a-zA-Z-]*))*))?(?:\\+([0-9a-zA-Z-]+(?:\\.[0-9a-zA-Z-]+)*))?$" := rfl

/-- `IsValid` is the regex (what `ComparePluginVersion` does with it is no longer pinned as text:
the translated function is tied to the model in section 5, `Tie`) -/
theorem semver_calls_pinned :
    Facts.semverIsValidCalls = ["semVerRegEx.MatchString(version)"] := by
  decide

/-- both directory walks skip every sub-directory (and only the root is not skipped) -/
theorem skip_tests_pinned :
    Facts.copyDirSkipTest = "d.IsDir()&&path!=src" ∧ Facts.parseDirSkipTest = "d.IsDir()&&p!=path" := by
  decide

theorem file_mode_facts_pinned :
    Facts.isExecutableTest = "mode.Perm()&0100!=0" ∧
    Facts.copyToDirChmod = "sourceFileInfo.Mode()&os.FileMode(0755)" := by
  decide

theorem name_facts_pinned :
    Facts.binaryPrefix = "notation-" ∧ Facts.binNameExpr = "plugin.BinaryPrefix+name" ∧
    Facts.parsePluginNameCalls = ["strings.CutPrefix(fileName,plugin.BinaryPrefix)"] ∧
    Facts.validatePluginNameTest = "name==\"\"||name==\".\"||name==\"..\"||strings.ContainsAny(name,\"/\\\\\\x00\")" := by
  decide

/-- in `Install`: locating the plugin only reads (`parsePluginFromDir` modifies nothing); the
name check and the guard "the source is not inside the plugin's own directory" come before
the first write (`setExecutable` on the candidate of a source directory); every check (new
metadata, existing plugin, versions) comes before the removal of the old directory, and only
the copy follows it -/
theorem removal_after_all_checks :
    Facts.installCalls.take 13 = ["parsePluginFromDir", "parsePluginName", "isExecutableFile", "validatePluginName",
      "isPathWithin", "isExecutableFile", "setExecutable", "NewCLIPlugin", "newPlugin.GetMetadata", "m.Get",
      "existingPlugin.GetMetadata", "semver.ComparePluginVersion", "m.Uninstall"] ∧
    -- after the clean-up only the two copies, in whatever order the branches are written
    (Facts.installCalls.drop 13).length = 2 ∧
    (Facts.installCalls.drop 13).all (fun c => c == "file.CopyToDir" || c == "file.CopyDirToDir") = true ∧
    Facts.parseDirWrites = [] ∧
    Facts.installWithinGuard = "isPathWithin(installOpts.PluginPath,pluginDirPath)" ∧
    Facts.isPathWithinCalls = ["filepath.Rel(resolve(dir),resolve(path))",
      "strings.HasPrefix(rel,\"..\"+string(filepath.Separator))"] ∧
    Facts.uninstallCalls = ["validatePluginName", "m.pluginFS.SysPath", "os.Stat", "os.RemoveAll"] := by
  decide

/-! ## 1. the model satisfies every clause, for all inputs -/

theorem versionCheck_cases (ex : Option Text) (ow : Bool) (vn : Text) :
    (ow = true ∧ versionCheck ex ow vn = .ok ex) ∨
    (ow = false ∧ ex = none ∧ versionCheck ex ow vn = .error .other) ∨
    (ow = false ∧ ∃ vo, ex = some vo ∧
      ((compareVersions vn vo = none ∧ versionCheck ex ow vn = .error .other) ∨
       (compareVersions vn vo = some .lt ∧ versionCheck ex ow vn = .error .downgrade) ∨
       (compareVersions vn vo = some .eq ∧ versionCheck ex ow vn = .error .equalVersion) ∨
       (compareVersions vn vo = some .gt ∧ versionCheck ex ow vn = .ok (some vo)))) := by
  cases ow
  · cases ex with
    | none => simp [versionCheck]
    | some vo =>
      simp only [versionCheck]
      cases hc : compareVersions vn vo with
      | none => simp [hc]
      | some o => cases o <;> simp [hc]
  · simp [versionCheck]

/-- case analysis shared by the clause proofs -/
macro "install_cases" R:ident op:ident c:ident : tactic => `(tactic| (
  unfold specStep1 $c
  cases hk : Op.kind $op with
  | uninstall => simp [isInstall, hk, mkStep]
  | plant => simp [isInstall, hk, mkStep]
  | rmexe => simp [isInstall, hk, mkStep]
  | rminterp => simp [isInstall, hk, mkStep]
  | install =>
    cases hn : specNew $op with
    | none => simp [isInstall, hk, mkStep, hn]
    | some nw =>
      simp only [ruleR]
      cases hl : existingR $R nw.name with
      | none => simp [isInstall, hk, mkStep, hn, hl]
      | some p =>
        obtain ⟨pn, pf, pv⟩ := p
        rcases versionCheck_cases pv (Op.overwrite $op) nw.version with
          ⟨ho, h⟩ | ⟨ho, hv, h⟩ | ⟨ho, vo, hv, h | h | h | h⟩
        all_goals (try subst hv)
        all_goals (rw [ho] at h)
        all_goals simp [isInstall, hk, mkStep, h, hn, hl, ho, higher, relTo]))

/-- the root of the observable-level step is `R`, `R` minus a name, or that plus one entry -/
macro "step_shapes" R:ident op:ident c:ident : tactic => `(tactic| (
  unfold specStep1 $c
  cases hk : Op.kind $op with
  | uninstall =>
    simp only []
    by_cases hv : validName (Op.name $op) = true
    · cases hl : lookupR $R (Op.name $op) <;> simp [hv, hl, mkStep, isInstall, hk]
    · simp [hv, mkStep, isInstall, hk]
  | plant =>
    simp only []
    by_cases hv : validName (Op.name $op) = true <;> simp [hv, mkStep, isInstall, hk]
  | rmexe => simp [mkStep, isInstall, hk]
  | rminterp => simp [mkStep, isInstall, hk]
  | install =>
    cases hn : specNew $op with
    | none => simp [mkStep, isInstall, hk]
    | some nw =>
      simp only []
      cases hr : ruleR (existingR $R nw.name) (Op.overwrite $op) nw <;> simp [mkStep, isInstall, hk]))

theorem spec_refusedNoop (R : List PluginObs) (op : Op) : cRefusedNoop (R, op, specStep1 R op) = true := by
  step_shapes R op cRefusedNoop

theorem spec_installExact (R : List PluginObs) (op : Op) : cInstallExact (R, op, specStep1 R op) = true := by
  install_cases R op cInstallExact

theorem spec_replaceOnlyIf (R : List PluginObs) (op : Op) : cReplaceOnlyIf (R, op, specStep1 R op) = true := by
  install_cases R op cReplaceOnlyIf

theorem spec_installWhenAllowed (R : List PluginObs) (op : Op) :
    cInstallWhenAllowed (R, op, specStep1 R op) = true := by
  install_cases R op cInstallWhenAllowed

theorem spec_listed (R : List PluginObs) (op : Op) : cListed (R, op, specStep1 R op) = true := by
  step_shapes R op cListed

theorem spec_uninstall (R : List PluginObs) (op : Op) : cUninstall (R, op, specStep1 R op) = true := by
  step_shapes R op cUninstall

/-- where the entries of the root after a step come from -/
theorem specStep1_root_mem (R : List PluginObs) (op : Op) (p : PluginObs) (hp : p ∈ (specStep1 R op).root) :
    p.version.isSome = true ∨ p ∈ R ∨ touches op p.name = true := by
  unfold specStep1 at hp
  cases hk : op.kind with
  | install =>
    simp only [hk] at hp
    cases hn : specNew op with
    | none => simp only [hn, mkStep] at hp; exact Or.inr (Or.inl hp)
    | some nw =>
      simp only [hn] at hp
      cases hr : ruleR (existingR R nw.name) op.overwrite nw with
      | error e => simp only [hr, mkStep] at hp; exact Or.inr (Or.inl hp)
      | ok ex =>
        simp only [hr, mkStep] at hp
        rcases mem_putBy PluginObs.name hp with rfl | hp
        · exact Or.inl rfl
        · exact Or.inr (Or.inl (List.mem_filter.1 hp).1)
  | uninstall =>
    simp only [hk] at hp
    by_cases hv : validName op.name = true
    · cases hl : lookupR R op.name with
      | none => simp [hv, hl, mkStep] at hp; exact Or.inr (Or.inl hp)
      | some q =>
        simp only [hv, hl, mkStep, Bool.not_true, Bool.false_eq_true, if_false, Option.isSome_some, if_true] at hp
        exact Or.inr (Or.inl (List.mem_filter.1 hp).1)
    · simp [hv, mkStep] at hp; exact Or.inr (Or.inl hp)
  | plant =>
    simp only [hk] at hp
    by_cases hv : validName op.name = true
    · simp only [hv, mkStep, Bool.not_true, Bool.false_eq_true, if_false] at hp
      rcases mem_putBy PluginObs.name hp with rfl | hp
      · exact Or.inr (Or.inr (by simp [touches, hk, pobs]))
      · exact Or.inr (Or.inl (List.mem_filter.1 hp).1)
    · simp [hv, mkStep] at hp; exact Or.inr (Or.inl hp)
  | rmexe =>
    simp only [hk, mkStep, List.mem_map] at hp
    obtain ⟨q, hq, rfl⟩ := hp
    unfold rmexeObs
    by_cases hn : (q.name == op.name) = true
    · have : q.name = op.name := by simpa using hn
      exact Or.inr (Or.inr (by simp [touches, hk, hn, this]))
    · simp only [hn]; exact Or.inr (Or.inl hq)
  | rminterp =>
    simp only [hk, mkStep, List.mem_map] at hp
    obtain ⟨q, hq, rfl⟩ := hp
    unfold rminterpObs
    by_cases hn : (q.name == op.name) = true
    · have : q.name = op.name := by simpa using hn
      exact Or.inr (Or.inr (by simp [touches, hk, hn, this]))
    · simp only [hn]; exact Or.inr (Or.inl hq)

theorem spec_answers (R : List PluginObs) (op : Op) : cAnswers (R, op, specStep1 R op) = true := by
  unfold cAnswers
  simp only [List.all_eq_true, Bool.or_eq_true]
  intro p hp
  rcases specStep1_root_mem R op p hp with h | h | h
  · exact Or.inl (Or.inl h)
  · exact Or.inl (Or.inr (List.contains_iff_mem.2 h))
  · exact Or.inr h

theorem spec_refusalClass (R : List PluginObs) (op : Op) : cRefusalClass (R, op, specStep1 R op) = true := by
  unfold specStep1 cRefusalClass
  cases hk : op.kind with
  | uninstall =>
    simp only []
    by_cases hv : validName op.name = true
    · cases hl : lookupR R op.name <;> simp [hv, hl, mkStep]
    · simp [hv, mkStep]
  | plant =>
    simp only []
    by_cases hv : validName op.name = true <;> simp [hv, mkStep]
  | rmexe => simp [mkStep]
  | rminterp => simp [mkStep]
  | install =>
    cases hn : specNew op with
    | none => simp [isInstall, hk, mkStep, hn]
    | some nw =>
      simp only [ruleR]
      cases hl : existingR R nw.name with
      | none => simp [isInstall, hk, mkStep, hn, hl]
      | some p =>
        obtain ⟨pn, pf, pv⟩ := p
        rcases versionCheck_cases pv op.overwrite nw.version with
          ⟨ho, h⟩ | ⟨ho, hv, h⟩ | ⟨ho, vo, hv, h | h | h | h⟩
        all_goals (try subst hv)
        all_goals (rw [ho] at h)
        all_goals simp [isInstall, hk, mkStep, h, hn, hl, ho, higher, relTo]

theorem specRun_length : ∀ (ops : List Op) (R : List PluginObs), (specRun R ops).length = ops.length := by
  intro ops; induction ops with
  | nil => intro R; rfl
  | cons op ops ih => intro R; simp [specRun, ih]

/-- a clause that every observable-level step satisfies holds along every run -/
theorem triples_specRun (P : Triple → Bool)
    (hP : ∀ R op, P (R, op, specStep1 R op) = true) :
    ∀ (ops : List Op) (R : List PluginObs), (triples ops (specRun R ops) R).all P = true := by
  intro ops
  induction ops with
  | nil => intro R; rfl
  | cons op ops ih =>
    intro R
    have h1 : P (touchR R op, op, specStep R op) = true := hP (touchR R op) op
    simp only [specRun, triples, List.all_cons, h1, Bool.true_and]
    exact ih _

/-- `ComparePluginVersion` fails exactly when one of the two strings is not a version -/
theorem compare_defined_iff (v w : Text) :
    (compareVersions v w).isSome = (isValid v && isValid w) := by
  unfold compareVersions isValid
  cases parseVersion v <;> cases parseVersion w <;> rfl

/-- **the model satisfies the property for every input** (any sequence of install / uninstall /
plant / rmexe operations of any length over any sources, any pair of version strings; no
well-formedness hypothesis, no invariant needed) -/
theorem model_holds (i : Input) : Holds i (run i) = true := by
  unfold Holds clauses run
  by_cases hk : (i.kind == "semver") = true
  · simp [hk, Clauses.holds, compare_defined_iff]
  · simp only [hk, if_false, Bool.false_eq_true]
    rw [runOps_eq_spec i.ops []]
    simp only [Clauses.holds, List.all_cons, List.all_nil, Bool.and_true, Bool.and_eq_true]
    refine ⟨by simp [specRun_length], ?_, ?_, ?_, ?_, ?_, ?_, ?_, ?_⟩
    · exact triples_specRun _ spec_refusedNoop _ _
    · exact triples_specRun _ spec_installExact _ _
    · exact triples_specRun _ spec_replaceOnlyIf _ _
    · exact triples_specRun _ spec_installWhenAllowed _ _
    · exact triples_specRun _ spec_refusalClass _ _
    · exact triples_specRun _ spec_listed _ _
    · exact triples_specRun _ spec_answers _ _
    · exact triples_specRun _ spec_uninstall _ _

/-! ## 2. semantic-version precedence (semver.org item 11), declaratively -/

/-- lexicographic order: a proper prefix is smaller; else the first difference decides -/
inductive LexLt {α : Type} (r : α → α → Prop) : List α → List α → Prop
  | nil {b : α} {bs : List α} : LexLt r [] (b :: bs)
  | head {a b : α} {as bs : List α} : r a b → LexLt r (a :: as) (b :: bs)
  | tail {a : α} {as bs : List α} : LexLt r as bs → LexLt r (a :: as) (a :: bs)

theorem LexLt.imp {α : Type} {r r' : α → α → Prop} (h : ∀ a b, r a b → r' a b) :
    ∀ {l m : List α}, LexLt r l m → LexLt r' l m := by
  intro l m hl
  induction hl with
  | nil => exact .nil
  | head hr => exact .head (h _ _ hr)
  | tail _ ih => exact .tail ih

theorem andThen_lt (o p : Ordering) : andThen o p = .lt ↔ o = .lt ∨ (o = .eq ∧ p = .lt) := by
  cases o <;> simp [andThen]

theorem lex_lt_iff {α : Type} {c : α → α → Ordering} (g : Good c) :
    ∀ (as bs : List α), lex c as bs = .lt ↔ LexLt (fun a b => c a b = .lt) as bs := by
  intro as
  induction as with
  | nil =>
    intro bs
    cases bs with
    | nil => exact ⟨fun h => by simp [lex] at h, fun h => by cases h⟩
    | cons b bs => exact ⟨fun _ => .nil, fun _ => rfl⟩
  | cons a as ih =>
    intro bs
    cases bs with
    | nil => exact ⟨fun h => by simp [lex] at h, fun h => by cases h⟩
    | cons b bs =>
      rw [lex_cons_cons, andThen_lt]
      constructor
      · rintro (h | ⟨h1, h2⟩)
        · exact .head h
        · have := g.eq_imp a b h1; subst this
          exact .tail ((ih bs).1 h2)
      · intro h
        cases h with
        | head hr => exact Or.inl hr
        | tail ht => exact Or.inr ⟨g.refl a, (ih bs).2 ht⟩

/-- ASCII (code point) lexical order -/
def TextLt : Text → Text → Prop := LexLt (fun a b => a.toNat < b.toNat)

/-- precedence of two pre-release identifiers -/
inductive IdentLt : Ident → Ident → Prop
  | num {a b : Nat} : a < b → IdentLt (.num a) (.num b)             -- numeric: numerically
  | numAlnum {a : Nat} {s : Text} : IdentLt (.num a) (.alnum s)      -- numeric below alphanumeric
  | alnum {s t : Text} : TextLt s t → IdentLt (.alnum s) (.alnum t)  -- alphanumeric: ASCII lexical

/-- a pre-release is below the release; two pre-releases compare identifier by identifier,
a larger set of fields is higher when all preceding ones are equal -/
def PreLt (p q : List Ident) : Prop := (p ≠ [] ∧ q = []) ∨ (p ≠ [] ∧ q ≠ [] ∧ LexLt IdentLt p q)

/-- `v` has lower precedence than `w` (build metadata is not part of a `Version`) -/
def Prec (v w : Version) : Prop :=
  v.major < w.major ∨ (v.major = w.major ∧ (v.minor < w.minor ∨ (v.minor = w.minor ∧
    (v.patch < w.patch ∨ (v.patch = w.patch ∧ PreLt v.pre w.pre)))))

theorem cmpText_lt_iff (s t : Text) : cmpText s t = .lt ↔ TextLt s t := by
  unfold cmpText TextLt
  rw [lex_lt_iff good_cmpChar]
  constructor
  · exact LexLt.imp (fun a b h => (cmpNat_lt _ _).1 h)
  · exact LexLt.imp (fun a b h => (cmpNat_lt _ _).2 h)

theorem cmpIdent_lt_iff (a b : Ident) : cmpIdent a b = .lt ↔ IdentLt a b := by
  cases a with
  | num a =>
    cases b with
    | num b =>
      exact ⟨fun h => .num ((cmpNat_lt _ _).1 h), fun h => by cases h with | num h => exact (cmpNat_lt _ _).2 h⟩
    | alnum t => exact ⟨fun _ => .numAlnum, fun _ => rfl⟩
  | alnum s =>
    cases b with
    | num b => exact ⟨fun h => by simp [cmpIdent] at h, fun h => by cases h⟩
    | alnum t =>
      exact ⟨fun h => .alnum ((cmpText_lt_iff _ _).1 h), fun h => by cases h with | alnum h => exact (cmpText_lt_iff _ _).2 h⟩

theorem cmpPre_lt_iff (p q : List Ident) : cmpPre p q = .lt ↔ PreLt p q := by
  unfold PreLt
  cases p with
  | nil => cases q <;> simp [cmpPre]
  | cons a as =>
    cases q with
    | nil => simp [cmpPre]
    | cons b bs =>
      simp only [cmpPre, ne_eq, reduceCtorEq, not_false_eq_true, true_and, and_false, false_or]
      rw [lex_lt_iff good_cmpIdent]
      constructor
      · exact LexLt.imp (fun a b h => (cmpIdent_lt_iff a b).1 h)
      · exact LexLt.imp (fun a b h => (cmpIdent_lt_iff a b).2 h)

/-- **`compare` is the declarative precedence** -/
theorem cmpVersion_lt_iff_prec (v w : Version) : cmpVersion v w = .lt ↔ Prec v w := by
  unfold cmpVersion Prec
  simp only [andThen_lt, cmpNat_lt, cmpNat_eq, cmpPre_lt_iff]

theorem cmpVersion_gt_iff_prec (v w : Version) : cmpVersion v w = .gt ↔ Prec w v := by
  rw [good_cmpVersion.gt_iff, cmpVersion_lt_iff_prec]

/-- equal precedence = equal up to build metadata -/
theorem cmpVersion_eq_iff (v w : Version) : cmpVersion v w = .eq ↔ v = w := good_cmpVersion.eq_iff v w

theorem prec_irrefl (v : Version) : ¬ Prec v v := by
  rw [← cmpVersion_lt_iff_prec, good_cmpVersion.refl]; simp

theorem prec_trans {u v w : Version} (h1 : Prec u v) (h2 : Prec v w) : Prec u w := by
  rw [← cmpVersion_lt_iff_prec] at *
  exact good_cmpVersion.trans _ _ _ h1 h2

theorem prec_asymm {v w : Version} (h : Prec v w) : ¬ Prec w v := fun h' => prec_irrefl v (prec_trans h h')

/-- any two versions are comparable: lower, equal up to build metadata, or higher -/
theorem prec_trichotomy (v w : Version) : Prec v w ∨ v = w ∨ Prec w v := by
  rw [← cmpVersion_lt_iff_prec, ← cmpVersion_eq_iff, ← cmpVersion_gt_iff_prec]
  cases cmpVersion v w <;> simp

/-- what "strictly higher" means for the version strings Install compares -/
theorem compareVersions_gt_iff (vn vo : Text) :
    compareVersions vn vo = some .gt ↔
      ∃ a b, parseVersion vn = some a ∧ parseVersion vo = some b ∧ Prec b a := by
  unfold compareVersions
  cases parseVersion vn <;> cases parseVersion vo <;> simp [cmpVersion_gt_iff_prec]

theorem compareVersions_swap (v w : Text) :
    compareVersions w v = (compareVersions v w).map Ordering.swap := by
  unfold compareVersions
  cases parseVersion v with
  | none => cases parseVersion w <;> rfl
  | some a =>
    cases parseVersion w with
    | none => rfl
    | some b =>
      show some (cmpVersion b a) = some ((cmpVersion a b).swap)
      rw [good_cmpVersion.swap a b]

theorem splitFirst_not_mem (sep : Char) : ∀ (s : List Char), sep ∉ s → splitFirst sep s = (s, none) := by
  intro s; induction s with
  | nil => intro _; rfl
  | cons c r ih =>
    intro h
    have hc : (c == sep) = false := by
      apply beq_eq_false_iff_ne.2; intro e; exact h (by simp [e])
    have hr : sep ∉ r := fun hm => h (List.mem_cons_of_mem _ hm)
    simp [splitFirst, hc, ih hr]

theorem splitFirst_append (sep : Char) : ∀ (s b : List Char), sep ∉ s →
    splitFirst sep (s ++ sep :: b) = (s, some b) := by
  intro s; induction s with
  | nil => intro b _; simp [splitFirst]
  | cons c r ih =>
    intro b h
    have hc : (c == sep) = false := by
      apply beq_eq_false_iff_ne.2; intro e; exact h (by simp [e])
    have hr : sep ∉ r := fun hm => h (List.mem_cons_of_mem _ hm)
    simp [splitFirst, hc, ih b hr]

/-- **build metadata is ignored**: appending well-formed build metadata to a version string
without one gives the same parsed version (hence the same precedence) -/
theorem build_metadata_ignored (s b : Text) (hs : '+' ∉ s)
    (hb : (splitOn '.' b).all validBuildIdent = true) (hv : isValid s = true) :
    parseVersion (s ++ '+' :: b) = parseVersion s := by
  unfold parseVersion
  rw [splitFirst_append '+' s b hs, splitFirst_not_mem '+' s hs]
  simp [hb]

/-! ## 3. installation: the readable theorems on the stateful model -/

theorem versionCheck_err_ne_ok {ex : Option Text} {ow : Bool} {vn : Text} {e : Err}
    (h : versionCheck ex ow vn = .error e) : e ≠ .ok := by
  rcases versionCheck_cases ex ow vn with
    ⟨_, h'⟩ | ⟨_, _, h'⟩ | ⟨_, _, _, ⟨_, h'⟩ | ⟨_, h'⟩ | ⟨_, h'⟩ | ⟨_, h'⟩⟩
  all_goals (rw [h'] at h; cases h)
  all_goals (intro hh; cases hh)

theorem versionRule_err_ne_ok {st : State} {ow : Bool} {nw : New} {e : Err}
    (h : versionRule st ow nw = .error e) : e ≠ .ok := by
  unfold versionRule at h
  cases hg : getExe st nw.name with
  | none => simp [hg] at h
  | some f => simp only [hg] at h; exact versionCheck_err_ne_ok h

/-! `install st op = install1 (touchSt st op) op`: `touchSt` is the source chmod (only visible
when the source directory lies in the plugin root, see `srcChmod`), `install1` everything
else. The theorems about `install1` hold for every root `st`. -/

theorem install_eq (st : State) (op : Op) : install st op = install1 (touchSt st op) op := rfl

/-- a source outside the plugin root: the root is not touched before the checks -/
theorem touchSt_outside (st : State) (op : Op) (h : op.srcIn = []) : touchSt st op = st := by
  unfold touchSt srcChmod
  cases locate op with
  | none => rfl
  | some l => simp [h]

/-- the source chmod never changes which plugins exist nor what they answer -/
theorem touchR_versions (R : List PluginObs) (op : Op) :
    (touchR R op).map (fun p => (p.name, p.version)) = R.map (fun p => (p.name, p.version)) := by
  unfold touchR
  cases srcChmod op (specLocate op) with
  | none => rfl
  | some xf =>
    obtain ⟨X, fn⟩ := xf
    simp only [chmodInR, List.map_map]
    apply List.map_congr_left
    intro p _
    simp only [Function.comp]
    split <;> rfl

/-- ... and it only happens once the name is accepted and the source is not inside the
plugin's own directory (the guard comes first) -/
theorem srcChmod_some {op : Op} {loc : Located} {X fn : Text} (h : srcChmod op (some loc) = some (X, fn)) :
    validName loc.name = true ∧ insideOwn op loc.name = false ∧ loc.chmod = true ∧
      X = op.srcIn ∧ fn = loc.exe.name := by
  unfold srcChmod at h
  simp only at h
  split at h
  · rename_i hc
    cases h
    simp only [Bool.and_eq_true, Bool.not_eq_true'] at hc
    exact ⟨hc.1.1.1.2, hc.1.1.2, hc.1.2, rfl, rfl⟩
  · cases h

theorem install1_refused_noop (st : State) (op : Op) (h : (install1 st op).1.err ≠ .ok) :
    (install1 st op).2 = st := by
  unfold install1 at h ⊢
  cases hn : newOf op (locate op) with
  | none => rfl
  | some nw =>
    simp only [hn] at h ⊢
    cases hr : versionRule st op.overwrite nw with
    | error e => rfl
    | ok ex => simp [hr] at h

/-- **refused_is_noop**: whatever the refusal (unusable source, invalid name, source inside
the plugin's own directory, invalid or misnamed metadata, lower / equal / invalid version,
missing plugin on uninstall), the plugin root is what it was - up to the source chmod
(`touchSt`), which is the identity unless the source directory itself lies in the root -/
theorem refused_is_noop (st : State) (op : Op) (h : (step st op).1.err ≠ .ok) :
    (step st op).2 = touchSt st op := by
  cases hk : op.kind with
  | install =>
    simp only [step, hk, install] at h ⊢
    exact install1_refused_noop _ op h
  | uninstall =>
    rw [touchSt_noninstall st op (by rw [hk]; exact fun e => by cases e)]
    simp only [step, hk, uninstall] at h ⊢
    by_cases hv : validName op.name = true
    · cases hf : findBy Plugin.name op.name st <;> simp [hv, hf] at h ⊢
    · simp [hv]
  | plant => simp [step, hk] at h
  | rmexe => simp [step, hk] at h
  | rminterp => simp [step, hk] at h

/-- the usual case - the source lies outside the plugin root: exactly unchanged -/
theorem refused_is_noop_outside (st : State) (op : Op) (ho : op.srcIn = [])
    (h : (step st op).1.err ≠ .ok) : (step st op).2 = st := by
  rw [refused_is_noop st op h, touchSt_outside st op ho]

/-- with a usable source the outcome of Install is the outcome of the existence / version checks -/
theorem install_err (st : State) (op : Op) (nw : New) (hn : specNew op = some nw) :
    (install1 st op).1.err = (match versionRule st op.overwrite nw with | .error e => e | .ok _ => .ok) := by
  unfold install1
  rw [locate_eq_spec]
  have hn' : newOf op (specLocate op) = some nw := hn
  simp only [hn']
  cases versionRule st op.overwrite nw <;> rfl

/-- **a source inside the plugin's own installation directory** (the directory itself, its
executable, reached directly or through a symbolic link) **is refused, with or without
overwrite, before anything is touched** - not even the executable bit of a candidate -/
theorem own_directory_source_refused (st : State) (op : Op) (loc : Located)
    (hl : specLocate op = some loc) (ho : insideOwn op loc.name = true) :
    (install st op).1.err = .other ∧ (install st op).2 = st := by
  have hn : newOf op (locate op) = none := by
    rw [locate_eq_spec, hl]
    unfold newOf
    by_cases hv : validName loc.name = true <;> simp [hv, ho, blocked]
  have ht : touchSt st op = st := by
    unfold touchSt
    rw [locate_eq_spec, hl]
    simp [srcChmod, ho]
  simp [install, ht, install1, hn]

/-- a context that is already done when Install is called: no plugin is executed, the
installation is refused, the root is what it was (up to the source chmod, which comes
before the first execution) -/
theorem cancelled_context_refused (st : State) (op : Op) (hc : op.ctx = "cancelled") :
    (install st op).1.err = .other ∧ (install st op).2 = touchSt st op := by
  have hn : newOf op (locate op) = none := by
    unfold newOf
    cases locate op with
    | none => rfl
    | some l => by_cases hv : validName l.name = true <;> simp [hv, blocked, hc]
  simp [install, install1, hn]

/-- **replace_iff**: an existing, answering plugin (its executable is there and reports
version `vo`) is replaced by a usable source of the same name iff overwrite is requested or
the new version is strictly higher -/
theorem replace_iff (st : State) (op : Op) (nw : New) (hn : specNew op = some nw)
    (f : File) (hf : getExe st nw.name = some f) (vo : Text) (ha : metadata nw.name f = some vo) :
    (install1 st op).1.err = .ok ↔ (op.overwrite = true ∨ compareVersions nw.version vo = some .gt) := by
  rw [install_err st op nw hn]
  simp only [versionRule, hf, ha]
  rcases versionCheck_cases (some vo) op.overwrite nw.version with
    ⟨ho, h⟩ | ⟨ho, hv', h⟩ | ⟨ho, vo', hv', ⟨h1, h⟩ | ⟨h1, h⟩ | ⟨h1, h⟩ | ⟨h1, h⟩⟩
  all_goals (try cases hv')
  all_goals (rw [ho] at h)
  all_goals simp [h, ho]
  all_goals simp [h1]

/-- an existing plugin whose executable is there but does not answer (malfunctioning) is
replaced iff overwrite is requested -/
theorem malfunctioning_replaced_iff_overwrite (st : State) (op : Op) (nw : New) (hn : specNew op = some nw)
    (f : File) (hf : getExe st nw.name = some f) (ha : metadata nw.name f = none) :
    (install1 st op).1.err = .ok ↔ op.overwrite = true := by
  rw [install_err st op nw hn]
  simp only [versionRule, hf, ha]
  cases op.overwrite <;> simp [versionCheck]

/-- no plugin of that name, or only a stale directory without its executable (interrupted
installation, deleted binary): a usable source installs, with or without overwrite -/
theorem absent_or_stale_installs (st : State) (op : Op) (nw : New)
    (hn : specNew op = some nw) (hp : getExe st nw.name = none) :
    (install1 st op).1.err = .ok := by
  rw [install_err st op nw hn]
  simp [versionRule, hp]

/-- a successful Install installed the plugin the source declares; the source was not inside
the plugin's own directory -/
theorem install_ok_inv (st : State) (op : Op) (h : (install1 st op).1.err = .ok) :
    ∃ nw, specNew op = some nw ∧ (install1 st op).2 = replace st nw ∧
      (install1 st op).1.new = some nw.version ∧ insideOwn op nw.name = false := by
  unfold install1 at h ⊢
  rw [locate_eq_spec] at h ⊢
  cases hn : newOf op (specLocate op) with
  | none => simp [hn] at h
  | some nw =>
    simp only [hn] at h ⊢
    cases hr : versionRule st op.overwrite nw with
    | error e =>
      simp only [hr] at h
      exact absurd h (versionRule_err_ne_ok hr)
    | ok ex => exact ⟨nw, hn, rfl, rfl, newOf_not_inside hn⟩

theorem topFiles_sorted (es : List Entry) : Sorted File.name (topFiles es) := sorted_sortBy File.name _

/-- the names in the listing of the regular top-level files are exactly the names of the
source's regular top-level entries: nothing from sub-directories, no symlinks -/
theorem topFiles_names (es : List Entry) (n : Text) :
    n ∈ (topFiles es).map File.name ↔ ∃ e ∈ es, e.kind = .file ∧ e.name = n := by
  unfold topFiles
  rw [mem_sortBy_keys]
  simp only [List.mem_map, List.mem_filter]
  constructor
  · rintro ⟨f, ⟨e, ⟨he, hk⟩, rfl⟩, rfl⟩
    exact ⟨e, he, by simpa using hk, rfl⟩
  · rintro ⟨e, he, hk, rfl⟩
    exact ⟨e.toFile, ⟨e, ⟨he, by simp [hk]⟩, rfl⟩, rfl⟩

theorem copied_dir_obs (op : Op) (loc : Located) (hd : op.srcIsDir = true) :
    (copied op loc).map (fun f => (f.name, f.cid, f.script)) =
      (topFiles op.entries).map (fun f => (f.name, f.cid, f.script)) := by
  simp only [copied, hd, if_true, List.map_map]
  apply List.map_congr_left
  intro f _
  simp only [Function.comp]
  split <;> rfl

/-- **installed_exactly_toplevel**: after a successful Install the plugin's directory holds
exactly the regular top-level files of the source directory (same names, same contents),
resp. exactly the source file; every other plugin is untouched -/
theorem installed_exactly_toplevel (st : State) (op : Op) (h : (install1 st op).1.err = .ok) :
    ∃ nw, specNew op = some nw ∧
      findBy Plugin.name nw.name (install1 st op).2 = some ⟨nw.name, nw.files⟩ ∧
      (op.srcIsDir = true →
        nw.files.map (fun f => (f.name, f.cid, f.script)) =
          (topFiles op.entries).map (fun f => (f.name, f.cid, f.script))) ∧
      (op.srcIsDir = false → ∃ e, op.entries = [e] ∧ nw.files = [e.toFile]) ∧
      (∀ k, k ≠ nw.name → findBy Plugin.name k (install1 st op).2 = findBy Plugin.name k st) := by
  obtain ⟨nw, hn, hst, _, _⟩ := install_ok_inv st op h
  obtain ⟨loc, hl, hv, hm, hname, hfiles⟩ := newOf_some hn
  refine ⟨nw, hn, ?_, ?_, ?_, ?_⟩
  · rw [hst]; unfold replace; exact findBy_putBy_self Plugin.name ⟨nw.name, nw.files⟩ _
  · intro hd; rw [hfiles]; exact copied_dir_obs op loc hd
  · intro hd
    unfold specLocate at hl
    simp only [hd] at hl
    obtain ⟨e, he, _, hx, hmk⟩ := locateFile_some hl
    obtain ⟨hexe, _, _⟩ := mkLocated_some hmk
    refine ⟨e, he, ?_⟩
    rw [hfiles]
    simp only [copied, hd, hexe]
    simp [Entry.toFile, hx]
  · intro k hk
    rw [hst]
    unfold replace
    rw [findBy_putBy_ne Plugin.name _ _ (fun e => hk e.symm), findBy_delBy_ne Plugin.name _ hk]

/-- **then_listable_fetchable_uninstallable**: after a successful Install the plugin is
listed, `Get` + `GetMetadata` answer with the new version, and `Uninstall` by its name
succeeds and removes it (and nothing else) -/
theorem then_listable_fetchable_uninstallable (st : State) (op : Op) (h : (install1 st op).1.err = .ok) :
    ∃ nw, specNew op = some nw ∧
      nw.name ∈ ((observe (install1 st op).2).map (·.name)) ∧
      (getExe (install1 st op).2 nw.name).bind (metadata nw.name) = some nw.version ∧
      (uninstall (install1 st op).2 nw.name).1.err = .ok ∧
      findBy Plugin.name nw.name (uninstall (install1 st op).2 nw.name).2 = none ∧
      (∀ k, k ≠ nw.name →
        findBy Plugin.name k (uninstall (install1 st op).2 nw.name).2 = findBy Plugin.name k st) := by
  obtain ⟨nw, hn, hfind, _, _, hother⟩ := installed_exactly_toplevel st op h
  have hv := newOf_valid hn
  have hans := answer_new hn
  refine ⟨nw, hn, ?_, ?_, ?_, ?_, ?_⟩
  · have hmem := (findBy_some Plugin.name hfind).1
    simp only [observe, List.map_map, List.mem_map]
    exact ⟨_, hmem, rfl⟩
  · simp only [getExe, hv, hfind, Bool.not_true, Bool.false_eq_true, if_false]
    simpa [answer, hv] using hans
  · simp [uninstall, hv, hfind]
  · simp only [uninstall, hv, hfind, Bool.not_true, Bool.false_eq_true, if_false, Option.isSome_some, if_true]
    exact findBy_delBy_self Plugin.name _ _
  · intro k hk
    simp only [uninstall, hv, hfind, Bool.not_true, Bool.false_eq_true, if_false, Option.isSome_some, if_true]
    rw [findBy_delBy_ne Plugin.name _ hk, hother k hk]

/-- **dir_equals_file_source**: a directory whose only executable `notation-*` file is `f`
locates the same executable, name and (hence) metadata as the file `f` alone, whatever else
the directory contains (extra files, non-executable candidates, sub-directories, symlinks) -/
theorem dir_locates_its_executable (es : List Entry) (f : File) (h : execs (topFiles es) = [f])
    (e : Entry) (he : e.kind = .file) (hf : e.toFile = f) :
    specLocateDir es = locateFile [e] := by
  have hmem : f ∈ execs (topFiles es) := by rw [h]; simp
  have hx : f.exec = true := by simpa using (List.mem_filter.1 hmem).2
  unfold specLocateDir locateFile
  show (match execs (topFiles es) with
    | [f] => mkLocated f false
    | [] => (match cands (topFiles es) with
      | [f] => mkLocated f true
      | _ => none)
    | _ => none) = _
  rw [h]
  have : e.exec = true := by rw [← hf] at hx; exact hx
  simp [he, this, hf]

/-- as coded: a source directory given as a symbolic link is not walked, so it is refused
(and, like every refusal, changes nothing) -/
theorem linked_directory_source_unusable (st : State) (op : Op) (hk : op.srcIsDir = true)
    (hl : op.viaLink = true) : (install1 st op).1.err = .other ∧ (install1 st op).2 = st := by
  simp [install1, locate, hk, hl, newOf]

/-- name and version of what a source would install depend on the operation only through the
located executable and on where the source lies -/
theorem newOf_name_version (op op' : Op) (l : Option Located) (h : op.srcIn = op'.srcIn) (hc : op.ctx = op'.ctx) :
    (newOf op l).map (fun n => (n.name, n.version)) = (newOf op' l).map (fun n => (n.name, n.version)) := by
  unfold newOf
  cases l with
  | none => rfl
  | some l =>
    simp only
    have hio : blocked op' l.name = blocked op l.name := by simp [blocked, insideOwn, h, hc]
    rw [hio]
    by_cases hv : validName l.name = true
    · by_cases hi : blocked op l.name = true
      · simp [hv, hi]
      · cases hm : metadata l.name l.exe <;> simp [hv, hi, hm]
    · simp [hv]

theorem dir_equals_file_source (st : State) (ow : Bool) (base inn : Text) (lnk : Bool) (cx : String) (es : List Entry)
    (f : File) (h : execs (topFiles es) = [f]) (e : Entry) (he : e.kind = .file) (hf : e.toFile = f) :
    let opD : Op := ⟨.install, [], ow, true, base, inn, false, es, cx⟩   -- not through a link: see `linked_directory_source_unusable`
    let opF : Op := ⟨.install, [], ow, false, f.name, inn, lnk, [e], cx⟩
    (install1 st opD).1 = (install1 st opF).1 ∧
    (∀ nw, specNew opD = some nw →
        ∃ nw', specNew opF = some nw' ∧ nw'.name = nw.name ∧ nw'.version = nw.version ∧
          nw'.files = [f] ∧ nw.files = topFiles es ∧
          findBy File.name (binName nw.name) nw.files = some f) := by
  intro opD opF
  have hloc : specLocate opD = specLocate opF := by
    have := dir_locates_its_executable es f h e he hf
    simp [specLocate, opD, opF, this]
  have hmem : f ∈ execs (topFiles es) := by rw [h]; simp
  have hx : f.exec = true := by simpa using (List.mem_filter.1 hmem).2
  have hmk : specLocate opF = mkLocated f false := by
    have : e.exec = true := by rw [← hf] at hx; exact hx
    simp [specLocate, opF, locateFile, he, this, hf]
  have key : ∀ nw, specNew opD = some nw →
      ∃ nw', specNew opF = some nw' ∧ nw'.name = nw.name ∧ nw'.version = nw.version ∧
        nw'.files = [f] ∧ nw.files = topFiles es ∧
        findBy File.name (binName nw.name) nw.files = some f := by
    intro nw hn
    obtain ⟨loc, hl, hv, hm, hname, hfiles⟩ := newOf_some hn
    have hl' : specLocate opF = some loc := by rw [← hloc]; exact hl
    rw [hmk] at hl'
    obtain ⟨hexe, hpn, hch⟩ := mkLocated_some hl'
    have hexe' : loc.exe = f := by rw [hexe]; cases f; simp
    have hfc := find_copied hl
    have hio : blocked opF loc.name = false := by
      have hb : blocked opD loc.name = false := by
        have h0 := hn
        unfold specNew newOf at h0
        rw [hl] at h0
        simp only [hv, Bool.not_true, Bool.false_eq_true, if_false] at h0
        by_cases hb : blocked opD loc.name = true
        · simp [hb] at h0
        · simpa using hb
      simpa [blocked, insideOwn, opD, opF] using hb
    refine ⟨⟨loc.name, nw.version, [loc.exe]⟩, ?_, hname.symm, rfl, by simp [hexe'], ?_, ?_⟩
    · simp [specNew, newOf, hmk, hl', hv, hm, copied, opF, hio]
    · rw [hfiles]; simp [copied, opD, hch]
    · rw [hname, hfiles, hfc, hexe']
  refine ⟨?_, key⟩
  -- the outcome depends on the source only through the located name and version
  simp only [install1, locate_eq_spec]
  cases hnD : newOf opD (specLocate opD) with
  | none =>
    have h2 := newOf_name_version opD opF (specLocate opD) rfl rfl
    rw [hnD, hloc] at h2
    have : newOf opF (specLocate opF) = none := by
      cases hx : newOf opF (specLocate opF) with
      | none => rfl
      | some x => rw [hx] at h2; cases h2
    simp [this]
  | some nw =>
    obtain ⟨nw', hn', hname, hver, _⟩ := key nw hnD
    have hn'' : newOf opF (specLocate opF) = some nw' := hn'
    simp only [hn'']
    have : versionRule st opD.overwrite nw = versionRule st opF.overwrite nw' := by
      simp [versionRule, hname, hver, opD, opF]
    rw [this]
    cases versionRule st opF.overwrite nw' <;> simp [hver]

/-! ### invariants over arbitrary operation sequences -/

/-- a well-formed plugin root: one directory per name (sorted listing), every name a single
path element, every directory a sorted set of files -/
def WFState (st : State) : Prop :=
  Sorted Plugin.name st ∧ ∀ p ∈ st, validName p.name = true ∧ Sorted File.name p.files

def finalState (st : State) (ops : List Op) : State := ops.foldl (fun s op => (step s op).2) st

theorem sorted_copied (op : Op) (loc : Located) : Sorted File.name (copied op loc) := by
  unfold copied
  split
  · unfold Sorted
    rw [List.pairwise_map]
    refine List.Pairwise.imp ?_ (topFiles_sorted op.entries)
    intro a b hab
    have ha : ∀ g : File, (if (loc.chmod && g.name == loc.exe.name) = true then { g with exec := true } else g).name = g.name := by
      intro g; split <;> rfl
    rw [ha, ha]; exact hab
  · simp [Sorted]

/-- the state after a step: the (source-chmod-touched) state, that minus one name, that plus
one directory, or `rmexe` -/
theorem step_state_cases (st : State) (op : Op) :
    (step st op).2 = touchSt st op ∨ (∃ n, (step st op).2 = delBy Plugin.name n st) ∨
    (∃ nw, specNew op = some nw ∧ op.kind = .install ∧ (step st op).2 = replace (touchSt st op) nw) ∨
    (op.kind = .plant ∧ validName op.name = true ∧
      (step st op).2 = putBy Plugin.name ⟨op.name, topFiles op.entries⟩ (delBy Plugin.name op.name st)) ∨
    (op.kind = .rmexe ∧ (step st op).2 = rmexe st op.name) ∨
    (op.kind = .rminterp ∧ (step st op).2 = rminterp st op.name) := by
  cases hk : op.kind with
  | install =>
    simp only [step, hk, install, install1, locate_eq_spec]
    cases hn : newOf op (specLocate op) with
    | none => exact Or.inl rfl
    | some nw =>
      simp only []
      cases versionRule (touchSt st op) op.overwrite nw with
      | error e => exact Or.inl rfl
      | ok ex => exact Or.inr (Or.inr (Or.inl ⟨nw, hn, trivial, rfl⟩))
  | uninstall =>
    rw [touchSt_noninstall st op (by rw [hk]; exact fun e => by cases e)]
    simp only [step, hk, uninstall]
    by_cases hv : validName op.name = true
    · cases hf : findBy Plugin.name op.name st
      · simp [hv, hf]
      · simp only [hv, hf, Bool.not_true, Bool.false_eq_true, if_false, Option.isSome_some, if_true]
        exact Or.inr (Or.inl ⟨_, rfl⟩)
    · simp [hv]
  | plant =>
    rw [touchSt_noninstall st op (by rw [hk]; exact fun e => by cases e)]
    simp only [step, hk, plant]
    by_cases hv : validName op.name = true
    · simp only [hv, Bool.not_true, Bool.false_eq_true, if_false]
      refine Or.inr (Or.inr (Or.inr (Or.inl ?_))); simp
    · simp [hv]
  | rmexe => exact Or.inr (Or.inr (Or.inr (Or.inr (Or.inl ⟨rfl, by simp [step, hk]⟩))))
  | rminterp => exact Or.inr (Or.inr (Or.inr (Or.inr (Or.inr ⟨rfl, by simp [step, hk]⟩))))

/-- members of the touched state: the same directory, possibly with one more executable bit,
answering exactly what it answered -/
theorem mem_touchSt {st : State} {op : Op} {p : Plugin} (hp : p ∈ touchSt st op) :
    ∃ q ∈ st, q.name = p.name ∧ answer q = answer p ∧
      (Sorted File.name q.files → Sorted File.name p.files) := by
  unfold touchSt at hp
  rw [locate_eq_spec] at hp
  cases hl : specLocate op with
  | none => simp only [hl, srcChmod] at hp; exact ⟨p, hp, rfl, rfl, id⟩
  | some loc =>
    simp only [hl] at hp
    cases hc : srcChmod op (some loc) with
    | none => simp only [hc] at hp; exact ⟨p, hp, rfl, rfl, id⟩
    | some xf =>
      obtain ⟨X, fn⟩ := xf
      simp only [hc, chmodIn, List.mem_map] at hp
      obtain ⟨q, hq, rfl⟩ := hp
      by_cases hX : (q.name == X) = true
      · have hXe : q.name = X := by simpa using hX
        simp only [hX, if_true]
        refine ⟨q, hq, rfl, ?_, ?_⟩
        · exact (answer_chmod q fn (by rw [hXe]; exact srcChmod_ne hl hc)).symm
        · intro hs
          unfold Sorted
          rw [List.pairwise_map]
          refine List.Pairwise.imp ?_ hs
          intro a b hab
          have hn : ∀ g : File, (if (g.name == fn) = true then { g with exec := true } else g).name = g.name := by
            intro g; split <;> rfl
          rw [hn, hn]; exact hab
      · simp only [hX]; exact ⟨q, hq, rfl, rfl, id⟩

theorem wf_touchSt {st : State} (h : WFState st) (op : Op) : WFState (touchSt st op) := by
  obtain ⟨hs, hp⟩ := h
  constructor
  · unfold touchSt
    cases srcChmod op (locate op) with
    | none => exact hs
    | some xf =>
      obtain ⟨X, fn⟩ := xf
      simp only [chmodIn]
      unfold Sorted
      rw [List.pairwise_map]
      refine List.Pairwise.imp ?_ hs
      intro a b hab
      have hn : ∀ q : Plugin, (if (q.name == X) = true then
          { q with files := q.files.map fun f => if f.name == fn then { f with exec := true } else f } else q).name = q.name := by
        intro q; split <;> rfl
      rw [hn, hn]; exact hab
  · intro p hmem
    obtain ⟨q, hq, hname, _, hsf⟩ := mem_touchSt hmem
    obtain ⟨h1, h2⟩ := hp q hq
    exact ⟨by rw [← hname]; exact h1, hsf h2⟩

theorem wf_step {st : State} (h : WFState st) (op : Op) : WFState (step st op).2 := by
  have ht := wf_touchSt h op
  obtain ⟨hs, hp⟩ := h
  have hdel : ∀ (s : State) (n : Text), WFState s → WFState (delBy Plugin.name n s) := fun s n hw =>
    ⟨sorted_delBy Plugin.name _ hw.1, fun p hm => hw.2 p (List.mem_filter.1 hm).1⟩
  rcases step_state_cases st op with h | ⟨n, h⟩ | ⟨nw, hn, _, h⟩ | ⟨_, hv, h⟩ | ⟨_, h⟩ | ⟨_, h⟩
  · rw [h]; exact ht
  · rw [h]; exact hdel st n ⟨hs, hp⟩
  · rw [h]
    have hd := hdel (touchSt st op) nw.name ht
    refine ⟨sorted_putBy Plugin.name _ hd.1, ?_⟩
    intro p hmem
    rcases mem_putBy Plugin.name hmem with rfl | hmem
    · obtain ⟨loc, _, _, _, _, hfiles⟩ := newOf_some hn
      exact ⟨newOf_valid hn, by simp only [hfiles]; exact sorted_copied op loc⟩
    · exact hd.2 p hmem
  · rw [h]
    have hd := hdel st op.name ⟨hs, hp⟩
    refine ⟨sorted_putBy Plugin.name _ hd.1, ?_⟩
    intro p hmem
    rcases mem_putBy Plugin.name hmem with rfl | hmem
    · exact ⟨hv, topFiles_sorted op.entries⟩
    · exact hd.2 p hmem
  · rw [h]
    unfold rmexe
    constructor
    · unfold Sorted
      rw [List.pairwise_map]
      refine List.Pairwise.imp ?_ hs
      intro a b hab
      have hn : ∀ q : Plugin, (if (q.name == op.name) = true then
          { q with files := delBy File.name (binName op.name) q.files } else q).name = q.name := by
        intro q; split <;> rfl
      rw [hn, hn]; exact hab
    · intro p hmem
      obtain ⟨q, hq, rfl⟩ := List.mem_map.1 hmem
      obtain ⟨h1, h2⟩ := hp q hq
      split
      · exact ⟨h1, sorted_delBy File.name _ h2⟩
      · exact ⟨h1, h2⟩
  · rw [h]
    unfold rminterp
    have hbn : ∀ g : File, (breakInterp g).name = g.name := by
      intro g; unfold breakInterp
      cases g.script with
      | none => rfl
      | some sc => by_cases hi : sc.interp = true <;> simp [hi]
    constructor
    · unfold Sorted
      rw [List.pairwise_map]
      refine List.Pairwise.imp ?_ hs
      intro a b hab
      have hn : ∀ q : Plugin, (if (q.name == op.name) = true then
          { q with files := q.files.map breakInterp } else q).name = q.name := by
        intro q; split <;> rfl
      rw [hn, hn]; exact hab
    · intro p hmem
      obtain ⟨q, hq, rfl⟩ := List.mem_map.1 hmem
      obtain ⟨h1, h2⟩ := hp q hq
      split
      · refine ⟨h1, ?_⟩
        unfold Sorted
        rw [List.pairwise_map]
        refine List.Pairwise.imp ?_ h2
        intro a b hab
        rw [hbn, hbn]; exact hab
      · exact ⟨h1, h2⟩

/-- **invariant over operation sequences** (induction on the sequence, any length) -/
theorem wf_finalState : ∀ (ops : List Op) {st : State}, WFState st → WFState (finalState st ops) := by
  intro ops
  induction ops with
  | nil => intro st h; exact h
  | cons op ops ih => intro st h; exact ih (wf_step h op)

theorem wf_from_empty (ops : List Op) : WFState (finalState [] ops) :=
  wf_finalState ops ⟨List.Pairwise.nil, fun _ h => by cases h⟩

/-- **no operation of the manager creates a directory that does not answer**: after a step,
a directory either answers (fetchable by its name, reports metadata), or a directory of that
name was there before the step and answered exactly the same, or the step was the world
planting / damaging that very directory -/
theorem healthy_step (st : State) (op : Op) (p : Plugin) (hp : p ∈ (step st op).2) :
    (answer p).isSome = true ∨ (∃ q ∈ st, q.name = p.name ∧ answer q = answer p) ∨
      touches op p.name = true := by
  have same : ∀ {q : Plugin}, q ∈ st → ∃ q' ∈ st, q'.name = q.name ∧ answer q' = answer q :=
    fun {q} hq => ⟨q, hq, rfl, rfl⟩
  have touched : p ∈ touchSt st op → ∃ q ∈ st, q.name = p.name ∧ answer q = answer p := by
    intro h; obtain ⟨q, hq, h1, h2, _⟩ := mem_touchSt h; exact ⟨q, hq, h1, h2⟩
  rcases step_state_cases st op with h | ⟨n, h⟩ | ⟨nw, hn, _, h⟩ | ⟨hk, hv, h⟩ | ⟨hk, h⟩ | ⟨hk, h⟩
  · rw [h] at hp; exact Or.inr (Or.inl (touched hp))
  · rw [h] at hp; exact Or.inr (Or.inl (same (List.mem_filter.1 hp).1))
  · rw [h] at hp
    rcases mem_putBy Plugin.name hp with rfl | hp
    · exact Or.inl (by rw [answer_new hn]; rfl)
    · exact Or.inr (Or.inl (touched (List.mem_filter.1 hp).1))
  · rw [h] at hp
    rcases mem_putBy Plugin.name hp with rfl | hp
    · exact Or.inr (Or.inr (by simp [touches, hk]))
    · exact Or.inr (Or.inl (same (List.mem_filter.1 hp).1))
  · rw [h] at hp
    obtain ⟨q, hq, rfl⟩ := List.mem_map.1 hp
    by_cases hn : (q.name == op.name) = true
    · have : q.name = op.name := by simpa using hn
      exact Or.inr (Or.inr (by simp [touches, hk, hn, this]))
    · simp only [hn]; exact Or.inr (Or.inl (same hq))
  · rw [h] at hp
    obtain ⟨q, hq, rfl⟩ := List.mem_map.1 hp
    by_cases hn : (q.name == op.name) = true
    · have : q.name = op.name := by simpa using hn
      exact Or.inr (Or.inr (by simp [touches, hk, hn, this]))
    · simp only [hn]; exact Or.inr (Or.inl (same hq))

/-- **never half-replaced, over whole histories**: after any sequence of operations, a
directory that does not answer bears a name the world planted or damaged at some point (or
was there from the start, answering the same) - install / uninstall alone never leave one -/
theorem never_half_replaced : ∀ (ops : List Op) (st : State) (p : Plugin), p ∈ finalState st ops →
    (answer p).isSome = true ∨ (∃ q ∈ st, q.name = p.name ∧ answer q = answer p) ∨
      ∃ op ∈ ops, touches op p.name = true := by
  intro ops
  induction ops with
  | nil => intro st p hp; exact Or.inr (Or.inl ⟨p, hp, rfl, rfl⟩)
  | cons op ops ih =>
    intro st p hp
    rcases ih (step st op).2 p hp with h | ⟨q, hq, hname, hans⟩ | ⟨o, ho, h⟩
    · exact Or.inl h
    · rcases healthy_step st op q hq with h | ⟨q', hq', h1, h2⟩ | h
      · exact Or.inl (by rw [← hans]; exact h)
      · exact Or.inr (Or.inl ⟨q', hq', h1.trans hname, h2.trans hans⟩)
      · exact Or.inr (Or.inr ⟨op, List.mem_cons_self, by rw [← hname]; exact h⟩)
    · exact Or.inr (Or.inr ⟨o, List.mem_cons_of_mem _ ho, h⟩)

/-- with install / uninstall only, from the empty root, every directory answers -/
theorem manager_only_histories_all_answer (ops : List Op)
    (h : ∀ op ∈ ops, op.kind = .install ∨ op.kind = .uninstall) :
    ∀ p ∈ finalState [] ops, (answer p).isSome = true := by
  intro p hp
  rcases never_half_replaced ops [] p hp with h1 | ⟨q, hq, _⟩ | ⟨o, ho, h1⟩
  · exact h1
  · cases hq
  · rcases h o ho with hk | hk <;> simp [touches, hk] at h1

/-! ## 3b. plugin names: any single path element, whatever characters it is made of

`Install`, `Get`, `List` and `Uninstall` accept the same names (`validatePluginName`): not empty,
not `.` / `..`, no separator, no NUL. Nothing else about the characters of a name matters to
any of the four - a name one of them filtered or normalised (`file.IsValidFileName` in `List`:
seeded C20-21) would install and answer but not be listed / fetched / removed. -/

/-- the characters `validatePluginName` (and, through `.` and `..`, the dot) looks at -/
def plainChar (c : Char) : Bool := !(c == '/' || c == '\\' || c == '\x00' || c == '.')

/-- `validatePluginName`, spelled out -/
theorem validName_iff (n : Text) :
    validName n = true ↔
      n ≠ [] ∧ n ≠ ['.'] ∧ n ≠ ['.', '.'] ∧ ∀ c ∈ n, c ≠ '/' ∧ c ≠ '\\' ∧ c ≠ '\x00' := by
  unfold validName
  simp only [Bool.not_eq_true', Bool.or_eq_false_iff, List.isEmpty_eq_false_iff, beq_eq_false_iff_ne, ne_eq,
    List.any_eq_false, Bool.or_eq_true, beq_iff_eq, not_or]
  constructor
  · rintro ⟨⟨⟨h1, h2⟩, h3⟩, h4⟩
    exact ⟨h1, h2, h3, fun c hc => ⟨(h4 c hc).1.1, (h4 c hc).1.2, (h4 c hc).2⟩⟩
  · rintro ⟨h1, h2, h3, h4⟩
    exact ⟨⟨⟨h1, h2⟩, h3⟩, fun c hc => ⟨⟨(h4 c hc).1, (h4 c hc).2.1⟩, (h4 c hc).2.2⟩⟩

/-- every non-empty name without separator, NUL and dot is a plugin name: `azure+kv`,
`my plugin`, `kms@eu-west-1`, `schlüssel`, `hsm(v2)`, `x~1`, `Foo`, `-rf`, `notation-foo`, ... -/
theorem plain_name_valid (n : Text) (hne : n ≠ []) (hc : ∀ c ∈ n, plainChar c = true) : validName n = true := by
  have hc' : ∀ c ∈ n, c ≠ '/' ∧ c ≠ '\\' ∧ c ≠ '\x00' ∧ c ≠ '.' := by
    intro c hm
    have := hc c hm
    simp only [plainChar, Bool.not_eq_true', Bool.or_eq_false_iff, beq_eq_false_iff_ne, ne_eq] at this
    exact ⟨this.1.1.1, this.1.1.2, this.1.2, this.2⟩
  rw [validName_iff]
  refine ⟨hne, ?_, ?_, fun c hm => ⟨(hc' c hm).1, (hc' c hm).2.1, (hc' c hm).2.2.1⟩⟩
  · intro h; subst h; exact (hc' '.' (by simp)).2.2.2 rfl
  · intro h; subst h; exact (hc' '.' (by simp)).2.2.2 rfl

/-- **name_alphabet_irrelevant**: whether a name is accepted does not depend on which plain
characters it is made of - replace every character that is not a separator, NUL or a dot by
any other such character (letters by `+`, ` `, `@`, `ü`, upper case by lower case, ...): the
verdict of `validatePluginName` is the same -/
theorem name_alphabet_irrelevant (σ : Char → Char)
    (hplain : ∀ c, plainChar c = true → plainChar (σ c) = true)
    (hfix : ∀ c, plainChar c = false → σ c = c) (n : Text) :
    validName (n.map σ) = validName n := by
  have hp : ∀ c, plainChar (σ c) = plainChar c := by
    intro c
    cases h : plainChar c with
    | true => exact hplain c h
    | false => rw [hfix c h]; exact h
  have key : ∀ (c d : Char), plainChar d = false → (σ c = d ↔ c = d) := by
    intro c d hd
    constructor
    · intro h
      have h1 : plainChar c = false := by rw [← hp c, h]; exact hd
      rw [hfix c h1] at h; exact h
    · intro h; subst h; exact hfix c hd
  have hdot := fun c => key c '.' (by decide)
  have hsl := fun c => key c '/' (by decide)
  have hbs := fun c => key c '\\' (by decide)
  have hnul := fun c => key c '\x00' (by decide)
  have hany : (n.map σ).any (fun c => c == '/' || c == '\\' || c == '\x00') =
      n.any (fun c => c == '/' || c == '\\' || c == '\x00') := by
    rw [List.any_map]
    apply List.any_congr rfl
    intro c
    simp only [Function.comp]
    rw [Bool.eq_iff_iff]
    simp only [Bool.or_eq_true, beq_iff_eq, hsl, hbs, hnul]
  have h1 : (n.map σ == ['.']) = (n == ['.']) := by
    rw [Bool.eq_iff_iff]
    simp only [beq_iff_eq]
    match n with
    | [] => simp
    | [c] => simp [hdot]
    | _ :: _ :: _ => simp
  have h2 : (n.map σ == ['.', '.']) = (n == ['.', '.']) := by
    rw [Bool.eq_iff_iff]
    simp only [beq_iff_eq]
    match n with
    | [] => simp
    | [c] => simp
    | [c, d] => simp [hdot]
    | _ :: _ :: _ :: _ => simp
  unfold validName
  rw [hany, h1, h2]
  simp

/-- `List` reports every directory of the plugin root by its name, whatever the name looks like -/
theorem listed_is_every_directory (st : State) (op : Op) :
    (stepObs st op).listed = (step st op).2.map Plugin.name := by
  simp [stepObs, observe, pobs, List.map_map, Function.comp_def]

theorem findBy_isSome_iff_name_mem (st : State) (n : Text) :
    (findBy Plugin.name n st).isSome = true ↔ n ∈ st.map Plugin.name := by
  unfold findBy
  rw [List.find?_isSome]
  simp only [beq_iff_eq, List.mem_map]

/-- **list_get_uninstall_agree_on_every_name**: for EVERY single-path-element name (no other
condition on its characters) the sites agree: `Uninstall(n)` succeeds iff `List` reports `n`,
fails with `os.ErrNotExist` otherwise, and what `Get(n)` finds is in a directory `List` reports -/
theorem list_get_uninstall_agree_on_every_name (st : State) (n : Text) (hv : validName n = true) :
    ((uninstall st n).1.err = .ok ↔ n ∈ (observe st).map (·.name)) ∧
    ((uninstall st n).1.err ≠ .ok → (uninstall st n).1.err = .notExist) ∧
    ((getExe st n).isSome = true → n ∈ (observe st).map (·.name)) := by
  have hobs : (observe st).map (·.name) = st.map Plugin.name := by
    simp [observe, pobs, List.map_map, Function.comp_def]
  rw [hobs, ← findBy_isSome_iff_name_mem]
  refine ⟨?_, ?_, ?_⟩
  · cases h : (findBy Plugin.name n st).isSome <;> simp [uninstall, hv, h]
  · cases h : (findBy Plugin.name n st).isSome <;> simp [uninstall, hv, h]
  · unfold getExe
    simp only [hv, Bool.not_true, Bool.false_eq_true, if_false]
    cases h : findBy Plugin.name n st <;> simp

/-- **odd_name_lifecycle**: a usable source whose executable is `notation-<n>` for a name `n`
made of plain characters only - ANY of them - installs on a root without that plugin, is then
listed, answers with the new version when fetched, and is removed by `Uninstall(n)` -/
theorem odd_name_lifecycle (st : State) (op : Op) (loc : Located) (v : Text)
    (hl : specLocate op = some loc) (hne : loc.name ≠ []) (hc : ∀ c ∈ loc.name, plainChar c = true)
    (hb : blocked op loc.name = false) (hm : metadata loc.name loc.exe = some v)
    (hp : getExe st loc.name = none) :
    (install1 st op).1.err = .ok ∧
    loc.name ∈ (observe (install1 st op).2).map (·.name) ∧
    (getExe (install1 st op).2 loc.name).bind (metadata loc.name) = some v ∧
    (uninstall (install1 st op).2 loc.name).1.err = .ok ∧
    findBy Plugin.name loc.name (uninstall (install1 st op).2 loc.name).2 = none := by
  have hv := plain_name_valid loc.name hne hc
  have hn : specNew op = some ⟨loc.name, v, copied op loc⟩ := by
    simp [specNew, newOf, hl, hv, hb, hm]
  have hok := absent_or_stale_installs st op _ hn hp
  obtain ⟨nw, hn', h1, h2, h3, h4, _⟩ := then_listable_fetchable_uninstallable st op hok
  rw [hn] at hn'
  cases hn'
  exact ⟨hok, h1, h2, h3, h4⟩

/-! ## 4. non-vacuity -/

section examples

private def t (s : String) : Text := s.toList

/-- the chain of semver.org item 11 -/
example : (["1.0.0-alpha", "1.0.0-alpha.1", "1.0.0-alpha.beta", "1.0.0-beta", "1.0.0-beta.2", "1.0.0-beta.11",
    "1.0.0-rc.1", "1.0.0"].zip ["1.0.0-alpha.1", "1.0.0-alpha.beta", "1.0.0-beta", "1.0.0-beta.2",
    "1.0.0-beta.11", "1.0.0-rc.1", "1.0.0", "1.0.1"]).all
    (fun p => compareVersions (t p.1) (t p.2) == some .lt) = true := by decide
example : compareVersions (t "1.1.0+build5") (t "1.1.0") = some .eq := by decide
example : compareVersions (t "10.0.0") (t "9.0.0") = some .gt := by decide
example : compareVersions (t "1.0.0-2") (t "1.0.0-11") = some .lt := by decide
example : compareVersions (t "1.0.0-11") (t "1.0.0-2a") = some .lt := by decide
example : (["1.0", "v1.0.0", "01.0.0", "", "1.0.0-01", "1.0.0+", "1.0.0-a..b", "1.0.0+a+b", "1.0.0 "].map
    (fun s => isValid (t s))) = [false, false, false, false, false, false, false, false, false] := by decide
example : (["0.0.0", "1.0.0-0a", "1.0.0--", "1.0.0-a.-.b+001", "1.2.3-rc.1+b.7"].map
    (fun s => isValid (t s))) = [true, true, true, true, true] := by decide

private def sFoo (v : String) : Script := ⟨t "foo", t v, true, false, 0⟩
private def exeFoo (v : String) (cid : Nat) (exe : Bool := true) : Entry :=
  ⟨.file, t "notation-foo", exe, false, cid, some (sFoo v), []⟩
private def extra (n : String) (cid : Nat) : Entry := ⟨.file, t n, false, false, cid, none, []⟩
private def instFile (v : String) (cid : Nat) (ow : Bool := false) : Op :=
  ⟨.install, [], ow, false, t "notation-foo", [], false, [exeFoo v cid], "background"⟩
private def instDir (es : List Entry) (ow : Bool := false) : Op := ⟨.install, [], ow, true, t "pkg", [], false, es, "background"⟩
private def seq (ops : List Op) : Input := ⟨"seq", false, "none", "canonical", false, ops, [], []⟩
private def errs (i : Input) : List Err := (run i).steps.map (·.err)
private def versions (i : Input) : List (List (Option Text)) := (run i).steps.map (fun s => s.root.map (·.version))

-- upgrade replaces, equal and lower are refused with their classes, overwrite replaces
example : errs (seq [instFile "1.0.0" 1, instFile "1.1.0-alpha" 2, instFile "1.1.0-alpha" 3, instFile "1.0.1" 4,
    instFile "1.0.1" 5 true, instFile "1.0" 6, ⟨.uninstall, t "foo", false, false, [], [], false, [], "background"⟩,
    ⟨.uninstall, t "foo", false, false, [], [], false, [], "background"⟩]) =
    [.ok, .ok, .equalVersion, .downgrade, .ok, .other, .ok, .notExist] := by decide
example : versions (seq [instFile "1.0.0" 1, instFile "1.1.0-alpha" 2, instFile "1.0.1" 4, instFile "1.0.1" 5 true]) =
    [[some (t "1.0.0")], [some (t "1.1.0-alpha")], [some (t "1.1.0-alpha")], [some (t "1.0.1")]] := by decide
private def fo (n : String) (cid : Nat) (exe : Bool) (gox : Bool := false) (ip : Bool := false) : FileObs := ⟨t n, cid, exe, gox, ip⟩
private def nf (n : String) (exe : Bool) (cid : Nat) (sc : Option Script) : File := ⟨t n, exe, false, cid, sc⟩
private def sub (n : String) (cid : Nat) (fs : List File) : Entry := ⟨.dir, t n, false, false, cid, none, fs⟩
private def exeBar (exe : Bool) (cid : Nat) : Entry :=
  ⟨.file, t "notation-bar", exe, false, cid, some ⟨t "bar", t "1.0.0", true, false, 0⟩, []⟩

-- a directory: exactly the regular top-level files, in listing order; the single
-- non-executable candidate is made executable although `zlib.so` sorts after it
example : (run (seq [instDir [extra "zlib.so" 3, exeFoo "2.0.0" 2 false, extra "LICENSE" 1,
      sub "sub" 4 [nf "notation-foo" true 5 none, nf "deep.txt" false 6 none],
      ⟨.symlink, t "link", true, false, 7, none, []⟩]])).steps.map (·.root) =
    [[⟨t "foo", [fo "LICENSE" 1 false, fo "notation-foo" 2 true, fo "zlib.so" 3 false], some (t "2.0.0")⟩]] := by
  decide
-- two executable candidates, two non-executable candidates, no candidate: refused
example : errs (seq [instDir [exeFoo "1.0.0" 1, exeBar true 2], instDir [exeFoo "1.0.0" 1 false, exeBar false 2],
    instDir [extra "LICENSE" 1]]) = [.other, .other, .other] := by decide

/-- "executable" is the OWNER execute bit: a `notation-foo` with mode 0654 (`exec = false`,
`gox = true`) is refused as a single file, is made owner-executable as the only candidate of
a directory, and does not count as a second executable next to a real one -/
private def foo654 (v : String) (cid : Nat) : Entry := ⟨.file, t "notation-foo", false, true, cid, some (sFoo v), []⟩
example : errs (seq [⟨.install, [], false, false, t "notation-foo", [], false, [foo654 "1.0.0" 1], "background"⟩]) = [.other] := by decide
example : (run (seq [instDir [foo654 "1.0.0" 1]])).steps.map (·.root) =
    [[⟨t "foo", [fo "notation-foo" 1 true true], some (t "1.0.0")⟩]] := by decide
example : (run (seq [instDir [exeBar true 1, foo654 "1.0.0" 2]])).steps.map (·.root) =
    [[⟨t "bar", [fo "notation-bar" 1 true, fo "notation-foo" 2 false true], some (t "1.0.0")⟩]] := by decide

/-- the witness of the defect repaired in ee0c8a6: the only candidate sits in a sub-directory
named like the source directory -/
private def halfReplace : Input :=
  seq [instFile "1.0.0" 1, instDir [extra "LICENSE" 2, sub "pkg" 3 [nf "notation-foo" true 4 (some (sFoo "2.0.0"))]]]

/-- the repaired code refuses it and keeps the installed plugin -/
example : errs halfReplace = [.ok, .other] ∧ versions halfReplace = [[some (t "1.0.0")], [some (t "1.0.0")]] := by decide
example : Holds halfReplace (run halfReplace) = true := by decide

/-- what the defective code did (observed before the repair): "success", the old executable
gone, the new one never copied. `Holds` is **false** of that observation. -/
private def halfReplaceObs : Obs :=
  ⟨[⟨.ok, none, some (t "1.0.0"), [⟨t "foo", [fo "notation-foo" 1 true], some (t "1.0.0")⟩], [t "foo"]⟩,
    ⟨.ok, some (t "1.0.0"), some (t "2.0.0"), [⟨t "foo", [fo "LICENSE" 2 false], none⟩], [t "foo"]⟩],
   false, false, none⟩
example : Holds halfReplace halfReplaceObs = false := by decide
example : (clauses halfReplace halfReplaceObs).failed =
    ["installed_exactly_toplevel_files_and_new_metadata", "replaced_only_if_higher_or_overwrite",
     "installs_when_the_rules_allow", "no_operation_leaves_a_plugin_that_does_not_answer"] := by decide

/-- a stale directory (interrupted installation: `libfoo-1.so` landed, `notation-foo` did not):
it is listed, cannot be fetched, counts as absent for Install - which succeeds without
overwrite and ends with EXACTLY the source's files -, and Uninstall removes it -/
private def plantFoo (es : List Entry) : Op := ⟨.plant, t "foo", false, false, [], [], false, es, "background"⟩
private def stale : Input :=
  seq [plantFoo [extra "libfoo-1.so" 1, extra "LICENSE" 2], instDir [extra "libfoo-2.so" 3, exeFoo "1.0.0" 4],
       plantFoo [extra "libfoo-1.so" 5], ⟨.uninstall, t "foo", false, false, [], [], false, [], "background"⟩]
example : (run stale).steps.map (fun s => (s.err, s.root, s.listed)) =
    [(.ok, [⟨t "foo", [fo "LICENSE" 2 false, fo "libfoo-1.so" 1 false], none⟩], [t "foo"]),
     (.ok, [⟨t "foo", [fo "libfoo-2.so" 3 false, fo "notation-foo" 4 true], some (t "1.0.0")⟩], [t "foo"]),
     (.ok, [⟨t "foo", [fo "libfoo-1.so" 5 false], none⟩], [t "foo"]),
     (.ok, [], [])] := by decide
/-- an installation that leaves the stale file next to the new ones violates exactness -/
example : Holds (seq [plantFoo [extra "libfoo-1.so" 1], instDir [exeFoo "1.0.0" 4]])
    ⟨[⟨.ok, none, none, [⟨t "foo", [fo "libfoo-1.so" 1 false], none⟩], [t "foo"]⟩,
      ⟨.ok, none, some (t "1.0.0"), [⟨t "foo", [fo "libfoo-1.so" 1 false, fo "notation-foo" 4 true], some (t "1.0.0")⟩], [t "foo"]⟩],
     false, false, none⟩ = false := by decide
/-- a malfunctioning existing plugin (its executable is there but does not answer) is kept
without overwrite and replaced with overwrite; deleting only the binary makes it "absent" -/
example : errs (seq [plantFoo [⟨.file, t "notation-foo", true, false, 1, some ⟨t "foo", t "1.0.0", false, false, 7⟩, []⟩],
    instFile "2.0.0" 2, instFile "2.0.0" 3 true, ⟨.rmexe, t "foo", false, false, [], [], false, [], "background"⟩, instFile "1.0.0" 4]) =
    [.ok, .other, .ok, .ok, .ok] := by decide

/-- the source is the installed plugin's own directory / its own executable (also through a
symbolic link): refused by the guard, with and without overwrite, nothing changes; from
ANOTHER plugin's directory it installs -/
private def fromRoot (dirName : String) (isDir : Bool) (es : List Entry) (ow : Bool) (lnk : Bool := false) : Op :=
  ⟨.install, [], ow, isDir, if isDir then t dirName else t "notation-foo", t dirName, lnk, es, "background"⟩
private def selfSrc : Input :=
  seq [instFile "1.0.0" 1, fromRoot "foo" true [exeFoo "1.0.0" 1] false, fromRoot "foo" true [exeFoo "1.0.0" 1] true,
       fromRoot "foo" false [exeFoo "1.0.0" 1] true true,
       ⟨.plant, t "bar", false, false, [], [], false, [exeFoo "2.0.0" 2, extra "LICENSE" 3], "background"⟩,
       fromRoot "bar" true [exeFoo "2.0.0" 2, extra "LICENSE" 3] false]
example : errs selfSrc = [.ok, .other, .other, .other, .ok, .ok] := by decide
example : ((run selfSrc).steps.map (·.root)).getLast? =
    some [⟨t "bar", [fo "LICENSE" 3 false, fo "notation-foo" 2 true], none⟩,
          ⟨t "foo", [fo "LICENSE" 3 false, fo "notation-foo" 2 true], some (t "2.0.0")⟩] := by decide
/-- what the code did before 3106bc6: an error AND the plugin gone. `Holds` is false of it. -/
example : Holds (seq [instFile "1.0.0" 1, fromRoot "foo" true [exeFoo "1.0.0" 1] true])
    ⟨[⟨.ok, none, some (t "1.0.0"), [⟨t "foo", [fo "notation-foo" 1 true], some (t "1.0.0")⟩], [t "foo"]⟩,
      ⟨.other, none, none, [], []⟩], false, false, none⟩ = false := by decide

/-- the plugin's own directory holds its binary WITHOUT the executable bit (a hand-copied,
not answering plugin) and is given as the source: refused before anything is touched - the
binary stays non-executable, the plugin keeps not answering -/
private def foo644 (v : String) (cid : Nat) : Entry := ⟨.file, t "notation-foo", false, false, cid, some (sFoo v), []⟩
private def ownNonExec : Input := seq [plantFoo [foo644 "1.0.0" 1], fromRoot "foo" true [foo644 "1.0.0" 1] false]
example : (run ownNonExec).steps.map (fun s => (s.err, s.root)) =
    [(.ok, [⟨t "foo", [fo "notation-foo" 1 false], none⟩]), (.other, [⟨t "foo", [fo "notation-foo" 1 false], none⟩])] := by
  decide
/-- what the code did before the repair (chmod inside `parsePluginFromDir`, before every
check): the installation is refused (`equalVersion`: it now compares the plugin with itself)
but the binary got the executable bit and the plugin answers. `Holds` is false of it. -/
example : Holds ownNonExec
    ⟨[⟨.ok, none, none, [⟨t "foo", [fo "notation-foo" 1 false], none⟩], [t "foo"]⟩,
      ⟨.equalVersion, none, none, [⟨t "foo", [fo "notation-foo" 1 true], some (t "1.0.0")⟩], [t "foo"]⟩],
     false, false, none⟩ = false := by decide
/-- the source is ANOTHER plugin's directory with a non-executable candidate: accepted name and
location, so the candidate gets the bit (the one write outside the plugin's own directory),
then the version check refuses: only that bit of `<root>/bar/notation-foo` differs, `bar`
and `foo` answer what they answered -/
example : (run (seq [instFile "2.0.0" 1, ⟨.plant, t "bar", false, false, [], [], false, [foo644 "1.0.0" 2], "background"⟩,
      fromRoot "bar" true [foo644 "1.0.0" 2] false])).steps.map (fun s => (s.err, s.root)) =
    [(.ok, [⟨t "foo", [fo "notation-foo" 1 true], some (t "2.0.0")⟩]),
     (.ok, [⟨t "bar", [fo "notation-foo" 2 false], none⟩, ⟨t "foo", [fo "notation-foo" 1 true], some (t "2.0.0")⟩]),
     (.downgrade, [⟨t "bar", [fo "notation-foo" 2 true], none⟩, ⟨t "foo", [fo "notation-foo" 1 true], some (t "2.0.0")⟩])] := by
  decide

/-- the installed plugin's files are intact but the private interpreter its `#!` line names has
disappeared: it stops answering, keeps its files; without overwrite NO version replaces it
(lower, equal, higher), with overwrite it is replaced -/
private def exeFooI (v : String) (cid : Nat) : Entry :=
  ⟨.file, t "notation-foo", true, false, cid, some ⟨t "foo", t v, true, true, 0⟩, []⟩
private def noInterp : Input :=
  seq [⟨.install, [], false, false, t "notation-foo", [], false, [exeFooI "2.0.0" 1], "background"⟩,
       ⟨.rminterp, t "foo", false, false, [], [], false, [], "background"⟩,
       instFile "1.0.0" 2, instFile "2.0.0" 3, instFile "3.0.0" 4, instFile "1.0.0" 5 true]
example : (run noInterp).steps.map (fun s => (s.err, s.root.map (fun p => (p.files.map (·.cid), p.version)))) =
    [(.ok, [([1], some (t "2.0.0"))]), (.ok, [([1], none)]), (.other, [([1], none)]), (.other, [([1], none)]),
     (.other, [([1], none)]), (.ok, [([5], some (t "1.0.0"))])] := by decide
/-- replacing it without overwrite (what seeded change C20-12 does) violates the rule -/
example : Holds (seq [⟨.install, [], false, false, t "notation-foo", [], false, [exeFooI "2.0.0" 1], "background"⟩,
      ⟨.rminterp, t "foo", false, false, [], [], false, [], "background"⟩, instFile "1.0.0" 2])
    ⟨[⟨.ok, none, some (t "2.0.0"), [⟨t "foo", [fo "notation-foo" 1 true false true], some (t "2.0.0")⟩], [t "foo"]⟩,
      ⟨.ok, none, none, [⟨t "foo", [fo "notation-foo" 1 true false true], none⟩], [t "foo"]⟩,
      ⟨.ok, none, some (t "1.0.0"), [⟨t "foo", [fo "notation-foo" 2 true], some (t "1.0.0")⟩], [t "foo"]⟩],
     false, false, none⟩ = false := by decide

/-- a downgrade that "succeeds" violates the version rule clause -/
example : Holds (seq [instFile "1.1.0" 1, instFile "1.0.0" 2])
    ⟨[⟨.ok, none, some (t "1.1.0"), [⟨t "foo", [fo "notation-foo" 1 true], some (t "1.1.0")⟩], [t "foo"]⟩,
      ⟨.ok, some (t "1.1.0"), some (t "1.0.0"), [⟨t "foo", [fo "notation-foo" 2 true], some (t "1.0.0")⟩], [t "foo"]⟩],
     false, false, none⟩ = false := by decide

/-- a refusal that nevertheless changed the root violates the no-op clause -/
example : Holds (seq [instFile "1.1.0" 1, instFile "1.0.0" 2])
    ⟨[⟨.ok, none, some (t "1.1.0"), [⟨t "foo", [fo "notation-foo" 1 true], some (t "1.1.0")⟩], [t "foo"]⟩,
      ⟨.downgrade, none, none, [], []⟩], false, false, none⟩ = false := by decide

/-- plugin names outside `[a-zA-Z0-9_.-]` (seeded C20-21: `List` filtered them with
`file.IsValidFileName`): the model installs, lists, refuses the downgrade, uninstalls -/
private def instNamed (n v : String) (cid : Nat) (ow : Bool := false) : Op :=
  ⟨.install, [], ow, false, t ("notation-" ++ n), [], false,
    [⟨.file, t ("notation-" ++ n), true, false, cid, some ⟨t n, t v, true, false, 0⟩, []⟩], "background"⟩
private def oddName : Input :=
  seq [instNamed "azure+kv" "2.0.0" 1, instNamed "azure+kv" "1.0.0" 2, instNamed "my plugin" "1.0.0" 3,
       ⟨.uninstall, t "azure+kv", false, false, [], [], false, [], "background"⟩]
example : (run oddName).steps.map (fun s => (s.err, s.listed)) =
    [(.ok, [t "azure+kv"]), (.downgrade, [t "azure+kv"]), (.ok, [t "azure+kv", t "my plugin"]), (.ok, [t "my plugin"])] := by
  decide
example : Holds oddName (run oddName) = true := by decide
example : (["azure+kv", "my plugin", "kms@eu-west-1", "schlüssel", "hsm(v2)", "x~1", "Foo", "-rf", "notation-foo", ".hidden", "...",
    ".", "..", "", "a/b", "a\\b"].map (fun s => validName (t s))) =
    [true, true, true, true, true, true, true, true, true, true, true, false, false, false, false, false] := by decide
/-- what the seeded change did: everything as the model says, but `List` does not report the
plugin. `Holds` is **false** of that observation, by the listing clause alone. -/
private def oddNameUnlisted : Obs :=
  let o := run oddName
  { o with steps := o.steps.map fun s => { s with listed := s.listed.filter (fun n => n.all (fun c => c.isAlphanum || c == '.' || c == '_' || c == '-')) } }
example : Holds oddName oddNameUnlisted = false := by decide
example : (clauses oddName oddNameUnlisted).failed = ["listed_is_the_root_listing"] := by decide

end examples

/-! ## 5. tie to the translated source (`Generated/SrcC20.lean`, rewritten from the Go code on every run) -/

namespace Tie
open NotationModel.Src

/-- what the two library oracles have to do for the tie: the regular expression engine on
`semVerRegEx` decides the model's grammar (the pattern text is pinned by
`semver_regex_pinned`, the agreement is what the semver stream of the harness samples), and
`x/mod/semver.Compare` on two "v"-prefixed valid versions is the model's precedence -/
structure EnvOk (env : semver.Env) : Prop where
  regex : ∀ s : String, env.MatchString s = isValid s.toList
  compare : ∀ (v w : String) (a b : Version), parseVersion v.toList = some a → parseVersion w.toList = some b →
    env.Compare ("v" ++ v) ("v" ++ w) = ordInt (cmpVersion a b)

/-- what a caller sees: the comparison result, or "error" -/
def shape (r : Int × Option GoLite.Err) : Option Int :=
  match r.2 with
  | some _ => none
  | none => some r.1

theorem source_IsValid_refines_model (env : semver.Env) (h : EnvOk env) (s : String) :
    semver.IsValid env s = isValid s.toList := by
  unfold semver.IsValid
  simp [Id.run, GoLite.idPure, h.regex]

/-- **`semver.ComparePluginVersion` as written in Go computes the model's `compareVersions`**,
for all strings: an error exactly when one of the two is not a version, else the precedence -/
theorem source_ComparePluginVersion_refines_model (env : semver.Env) (h : EnvOk env) (v w : String) :
    shape (semver.ComparePluginVersion env v w) = (compareVersions v.toList w.toList).map ordInt := by
  unfold semver.ComparePluginVersion
  simp only [source_IsValid_refines_model env h, isValid, semver.add_eq_append]
  unfold compareVersions
  -- both parse results first: the order in which the Go code checks them does not matter
  cases hv : parseVersion v.toList with
  | none =>
    cases hw : parseVersion w.toList <;>
      simp [Id.run, GoLite.idPure, shape] <;> (try (repeat' split)) <;> first | rfl | simp_all
  | some a =>
    cases hw : parseVersion w.toList with
    | none => simp [Id.run, GoLite.idPure, shape] <;> (try (repeat' split)) <;> first | rfl | simp_all
    | some b => simp [Id.run, GoLite.idPure, shape, h.compare v w a b hv hw]

/-- non-vacuity: the translated function runs (with a toy oracle that knows two versions) -/
example : (semver.ComparePluginVersion
    ⟨fun s => s == "1.0.0" || s == "1.1.0", fun a b => if a == b then 0 else if a == "v1.0.0" then -1 else 1⟩
    "1.0.0" "1.1.0").1 = -1 := by decide
example : shape (semver.ComparePluginVersion ⟨fun s => s == "1.0.0", fun _ _ => 0⟩ "1.0" "1.0.0") = none := by decide

/-! ### the tail of `CLIManager.Install`: existence, version decision, clean-up, copy -/

/-- the class of an error of Install as the harness observes it (typed errors by their type) -/
def classOf (e : GoLite.Err) : Err :=
  if e.kind = "PluginDowngradeError" then .downgrade
  else if e.kind = "InstallEqualVersionError" then .equalVersion else .other

/-- what a caller sees: the class of the error, or success and the existing plugin's version -/
def outcomeOf (r : Option plugin.GetMetadataResponse × Option plugin.GetMetadataResponse × Option GoLite.Err) :
    Err × Option Text :=
  match r.2.2 with
  | some e => (classOf e, none)
  | none => (.ok, r.1.map (·.Version.toList))

/-- the existing plugin as the oracles show it: `none` = `Get` fails (no such executable);
`some ex` = it is there and `ex` is what it answers (`none`: `GetMetadata` fails) -/
def existingOf (env : plugin.Env) (name : String) : Option (Option Text) :=
  match env.Get name with
  | (_, some _) => none
  | (p, none) =>
    match env.GetMetadata p default with
    | (some m, none) => some (some m.Version.toList)
    | _ => some none

/-- the model's decision: `versionRule` with the state lookup replaced by its result -/
def decision (ex : Option (Option Text)) (ow : Bool) (vn : Text) : Err × Option Text :=
  match ex with
  | none => (.ok, none)
  | some ex =>
    match versionCheck ex ow vn with
    | .error e => (e, none)
    | .ok r => (.ok, r)

/-- the world the model assumes: `Get` fails only with "no such file", `GetMetadata` returns a
response or an error, the comparison is `compareVersions` (see
`source_ComparePluginVersion_refines_model`), clean-up and copy do not fail (I/O errors are
outside the model); the errors of the oracles are not of Install's two typed classes
(`fmt.Errorf("..%w..")` would let `errors.As` see through the wrapping) -/
structure WorldOk (env : plugin.Env) (name exe dir path : String) : Prop where
  get : ∀ e, (env.Get name).2 = some e → e = os.ErrNotExist
  md : ∀ p, (∃ m, env.GetMetadata p default = (some m, none)) ∨
    (∃ e, env.GetMetadata p default = (none, some e) ∧ classOf e = .other)
  cmpErr : ∀ (a b : String) (c : Int) (e : GoLite.Err), env.ComparePluginVersion a b = (c, some e) → classOf e = .other
  cmp : ∀ a b : String, shape (env.ComparePluginVersion a b) = (compareVersions a.toList b.toList).map ordInt
  uninstall : env.Uninstall name = none ∨ env.Uninstall name = some os.ErrNotExist
  copyFile : env.CopyToDir exe dir = none
  copyDir : env.CopyDirToDir path dir = none

/-- **the existence / version decision of `CLIManager.Install` as written in Go is the model's
`versionCheck`** (refusal classes, the overwrite rule, which existing metadata is returned),
and nothing after it can refuse -/
theorem source_installTail_refines_model (env : plugin.Env) (ow : Bool) (name : String)
    (nm : plugin.GetMetadataResponse) (nonDir : Bool) (exe dir : String) (opts : plugin.CLIInstallOptions)
    (h : WorldOk env name exe dir opts.PluginPath) :
    outcomeOf (plugin.installTail env ow name (some nm) nonDir exe dir opts none) =
      decision (existingOf env name) ow nm.Version.toList := by
  have hcp1 := h.copyFile
  have hcp2 := h.copyDir
  unfold plugin.installTail existingOf
  rcases hG : env.Get name with ⟨p, eg⟩
  cases eg with
  | some e =>
    have he : e = os.ErrNotExist := h.get e (by rw [hG])
    subst he
    rcases h.uninstall with hu | hu <;> cases nonDir <;>
      simp [Id.run, GoLite.idPure, GoLite.errIs, hu, hcp1, hcp2, outcomeOf, decision]
  | none =>
    rcases h.md p with ⟨m, hm⟩ | ⟨e, hm, hce⟩
    · cases ow
      · -- no overwrite: compare
        rcases hC : env.ComparePluginVersion nm.Version m.Version with ⟨c, ec⟩
        have hc := h.cmp nm.Version m.Version
        rw [hC] at hc
        cases hcv : compareVersions nm.Version.toList m.Version.toList with
        | none =>
          rw [hcv] at hc
          cases ec with
          | none => simp [shape] at hc
          | some e3 =>
            have hce := h.cmpErr _ _ _ _ hC
            simp [Id.run, GoLite.idPure, GoLite.deref, hm, hC, outcomeOf, decision, versionCheck, hcv, GoLite.wrapf, hce]
        | some o =>
          rw [hcv] at hc
          cases ec with
          | some e3 => simp [shape] at hc
          | none =>
            have hco : c = ordInt o := by simpa [shape] using hc
            subst hco
            rcases h.uninstall with hu | hu <;> cases nonDir <;> cases o <;>
              simp [Id.run, GoLite.idPure, GoLite.errIs, GoLite.deref, hm, hC, hu, hcp1, hcp2, outcomeOf, decision,
                versionCheck, hcv, classOf, GoLite.errT, ordInt]
      · rcases h.uninstall with hu | hu <;> cases nonDir <;>
          simp [Id.run, GoLite.idPure, GoLite.errIs, hm, hu, hcp1, hcp2, outcomeOf, decision, versionCheck]
    · cases ow
      · simp [Id.run, GoLite.idPure, hm, outcomeOf, decision, versionCheck, GoLite.wrapf, hce]
      · rcases h.uninstall with hu | hu <;> cases nonDir <;>
          simp [Id.run, GoLite.idPure, GoLite.errIs, hm, hu, hcp1, hcp2, outcomeOf, decision, versionCheck]

/-- the comparison oracle of the tail can be the translated `semver.ComparePluginVersion`: the
two ties compose -/
theorem worldOk_cmp_of_semver (senv : semver.Env) (h : EnvOk senv) (a b : String) :
    shape (semver.ComparePluginVersion senv a b) = (compareVersions a.toList b.toList).map ordInt ∧
    (∀ c e, semver.ComparePluginVersion senv a b = (c, some e) → classOf e = .other) := by
  refine ⟨source_ComparePluginVersion_refines_model senv h a b, ?_⟩
  intro c e hce
  unfold semver.ComparePluginVersion at hce
  by_cases h1 : semver.IsValid senv a = true <;> by_cases h2 : semver.IsValid senv b = true <;>
    simp [Id.run, GoLite.idPure, h1, h2, GoLite.errorf] at hce <;>
    (obtain ⟨_, rfl⟩ := hce; decide)

/-- non-vacuity: the translated tail runs - an existing 1.0.0, a lower new version, no overwrite -/
private def toyEnv (c : Int) : plugin.Env :=
  ⟨fun _ => (some ⟨1⟩, none), fun _ _ => (some ⟨"1.0.0"⟩, none), fun _ _ => (c, none),
   fun _ => none, fun _ _ => none, fun _ _ => none⟩
example : (plugin.installTail (toyEnv (-1)) false "foo" (some ⟨"0.9.0"⟩) true "exe" "dir" ⟨"path", false⟩ none).2.2 =
    some (GoLite.errT "PluginDowngradeError" "") := by decide
example : outcomeOf (plugin.installTail (toyEnv 1) false "foo" (some ⟨"1.1.0"⟩) false "exe" "dir" ⟨"path", false⟩ none) =
    (.ok, some "1.0.0".toList) := by decide
example : outcomeOf (plugin.installTail (toyEnv (-1)) true "foo" (some ⟨"0.9.0"⟩) true "exe" "dir" ⟨"path", true⟩ none) =
    (.ok, some "1.0.0".toList) := by decide

end Tie

end NotationModel.C20

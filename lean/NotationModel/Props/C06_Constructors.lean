/-
C06 / C05 - how the constructors wire the caller's revocation checkers: `(*verifier).setRevocation`
and the deprecated `NewWithOptions` (verifier/verifier.go), translated on every run
(Generated/SrcC06c.lean) and tied for every option value and every behaviour of notation-core-go's
`revocation.NewWithOptions`:

* a TIMESTAMPING validator the caller supplies is the one the verifier keeps - never replaced,
  never dropped; without one the stock checker for the timestamping purpose is built;
* a CODE-SIGNING validator the caller supplies is kept (and then no client); else a deprecated
  client the caller supplies is kept (and then no validator is built behind its back); else the
  stock checker for the code-signing purpose;
* the only error is an error of the stock constructor; everything else of the verifier is untouched;
* the deprecated `NewWithOptions` hands EVERY option on (it overwrites the two it takes as
  arguments and nothing else).
Together with `Props/C05_Revocation.lean` (the configured checker is the one consulted, with the
whole chain) this closes the path from the caller's option to the call. Seeded C05-4 and C06-16
(constructors dropping a supplied validator) break these theorems.
-/
import NotationModel.Generated.SrcC06c
set_option linter.unusedSimpArgs false
set_option linter.unusedVariables false

namespace NotationModel.C06.TieC
open NotationModel.Src NotationModel.Src.c06c

def stock (env : Env) (p : purpose.Purpose) : Option Validator × Option GoLite.Err :=
  env.NewWithOptions { OCSPHTTPClient := { Timeout := 2 * c06c.time.Second }, CertChainPurpose := p }

/-- the specification -/
def spec (env : Env) (v : verifier) (o : VerifierOptions) : Option GoLite.Err × verifier :=
  let ts : Option Validator × Option GoLite.Err :=
    match o.RevocationTimestampingValidator with
    | some t => (some t, none)
    | none => stock env .Timestamping
  match ts with
  | (_, some e) => (some e, v)
  | (t, none) =>
    let v1 := { v with revocationTimestampingValidator := t }
    match o.RevocationCodeSigningValidator, o.RevocationClient with
    | some c, _ => (none, { v1 with revocationCodeSigningValidator := some c })
    | none, some cl => (none, { v1 with revocationClient := some cl })
    | none, none =>
      match stock env .CodeSigning with
      | (_, some e) => (some e, v1)
      | (c, none) => (none, { v1 with revocationCodeSigningValidator := c })

/-- **Tie.** -/
theorem source_setRevocation_refines_spec (env : Env) (v : verifier) (o : VerifierOptions) :
    setRevocation env v o = spec env v o := by
  unfold setRevocation spec stock
  cases ht : o.RevocationTimestampingValidator with
  | some t =>
    cases hc : o.RevocationCodeSigningValidator with
    | some c => simp [Id.run, GoLite.idPure, ht, hc]
    | none =>
      cases hcl : o.RevocationClient with
      | some cl => simp [Id.run, GoLite.idPure, ht, hc, hcl]
      | none =>
        cases hs : env.NewWithOptions { OCSPHTTPClient := { Timeout := 2 * c06c.time.Second }, CertChainPurpose := .CodeSigning } with
        | mk c e => cases e <;> simp [Id.run, GoLite.idPure, ht, hc, hcl, hs]
  | none =>
    cases hst : env.NewWithOptions { OCSPHTTPClient := { Timeout := 2 * c06c.time.Second }, CertChainPurpose := .Timestamping } with
    | mk t e =>
      cases e with
      | some e => simp [Id.run, GoLite.idPure, ht, hst]
      | none =>
        cases hc : o.RevocationCodeSigningValidator with
        | some c => simp [Id.run, GoLite.idPure, ht, hst, hc]
        | none =>
          cases hcl : o.RevocationClient with
          | some cl => simp [Id.run, GoLite.idPure, ht, hst, hc, hcl]
          | none =>
            cases hs : env.NewWithOptions { OCSPHTTPClient := { Timeout := 2 * c06c.time.Second }, CertChainPurpose := .CodeSigning } with
            | mk c e2 => cases e2 <;> simp [Id.run, GoLite.idPure, ht, hst, hc, hcl, hs]

/-- **A supplied timestamping validator is kept.** -/
theorem source_setRevocation_keeps_timestamping (env : Env) (v : verifier) (o : VerifierOptions) (t : Validator)
    (h : o.RevocationTimestampingValidator = some t) (hok : (setRevocation env v o).1 = none) :
    (setRevocation env v o).2.revocationTimestampingValidator = some t := by
  rw [source_setRevocation_refines_spec] at *
  unfold spec at *
  simp only [h] at *
  repeat' split
  all_goals simp_all

/-- **A supplied code-signing validator is kept**, and it alone decides: no client is installed. -/
theorem source_setRevocation_keeps_codesigning (env : Env) (v : verifier) (o : VerifierOptions) (c : Validator)
    (h : o.RevocationCodeSigningValidator = some c) (hok : (setRevocation env v o).1 = none) :
    (setRevocation env v o).2.revocationCodeSigningValidator = some c ∧
      (setRevocation env v o).2.revocationClient = v.revocationClient := by
  rw [source_setRevocation_refines_spec] at *
  unfold spec at *
  simp only [h] at *
  repeat' split
  all_goals simp_all

/-- **A supplied deprecated client is kept when no validator is supplied**, and no validator is
built behind its back. -/
theorem source_setRevocation_keeps_client (env : Env) (v : verifier) (o : VerifierOptions) (cl : Client)
    (hc : o.RevocationCodeSigningValidator = none) (h : o.RevocationClient = some cl)
    (hok : (setRevocation env v o).1 = none) :
    (setRevocation env v o).2.revocationClient = some cl ∧
      (setRevocation env v o).2.revocationCodeSigningValidator = v.revocationCodeSigningValidator := by
  rw [source_setRevocation_refines_spec] at *
  unfold spec at *
  simp only [h, hc] at *
  repeat' split
  all_goals simp_all

/-- everything else of the verifier is untouched -/
theorem source_setRevocation_frame (env : Env) (v : verifier) (o : VerifierOptions) :
    (setRevocation env v o).2.ociTrustPolicyDoc = v.ociTrustPolicyDoc ∧
    (setRevocation env v o).2.blobTrustPolicyDoc = v.blobTrustPolicyDoc ∧
    (setRevocation env v o).2.trustStore = v.trustStore ∧
    (setRevocation env v o).2.pluginManager = v.pluginManager := by
  rw [source_setRevocation_refines_spec]
  unfold spec
  rcases h1 : stock env purpose.Timestamping with ⟨t, _ | e⟩ <;>
  rcases h2 : stock env purpose.CodeSigning with ⟨c, _ | e2⟩ <;>
  cases o.RevocationTimestampingValidator <;> cases o.RevocationCodeSigningValidator <;>
  cases o.RevocationClient <;> simp [h1, h2]

/-- **The deprecated constructor hands every option on**: it is `NewVerifierWithOptions` on the
caller's options with the policy document and the plugin manager it takes as arguments. -/
theorem source_NewWithOptions_passes_every_option (env : Env) (doc : Option OCIDocument) (ts : Option TrustStore)
    (pm : Option PluginManager) (o : VerifierOptions) :
    NewWithOptions env doc ts pm o =
      env.NewVerifierWithOptions ts { o with OCITrustPolicy := doc, PluginManager := pm } := by
  simp [NewWithOptions, Id.run, GoLite.idPure]

end NotationModel.C06.TieC

/-
C04 - which statement's identity list decides.

A trust policy document holds several statements, each pinning its own identities. `VerifyBlob`
applies the statement the caller NAMES (`BlobDocument.GetApplicableTrustPolicy`), or - for the
empty name - the one marked global. The theorems here say that the identity list that decides is
the list of exactly that statement: statements with any other name (a letter-case or white-space
variant included) are irrelevant, a name no statement carries selects nothing, and a pass under a
name is a pass on the strength of the identities of a statement carrying that very name.
-/
import NotationModel.Props.C04
set_option linter.unusedSimpArgs false
set_option linter.unusedVariables false

namespace NotationModel.C04

/-! ### the selection -/

theorem byName_eq_head_filter (n : Text) (ss : List Statement) :
    byName n ss = (ss.filter (fun s => s.name == n)).head? := by
  induction ss with
  | nil => rfl
  | cons s r ih =>
    by_cases h : s.name = n
    · simp [byName, h]
    · have hb : (s.name == n) = false := by simpa using h
      simp [byName, h, hb, ih]

theorem globalOf_eq_head_filter (ss : List Statement) :
    globalOf ss = (ss.filter (fun s => s.isGlobal)).head? := by
  induction ss with
  | nil => rfl
  | cons s r ih =>
    cases h : s.isGlobal with
    | true => simp [globalOf, h]
    | false => simp [globalOf, h, ih]

/-- the statement found under a name carries that name and is one of the document's -/
theorem byName_some {n : Text} {ss : List Statement} {s : Statement} (h : byName n ss = some s) :
    s.name = n ∧ s ∈ ss := by
  induction ss with
  | nil => cases h
  | cons t r ih =>
    by_cases ht : t.name = n
    · simp only [byName, ht, if_true, Option.some.injEq] at h
      subst h
      exact ⟨ht, List.mem_cons_self⟩
    · simp only [byName, ht, if_false] at h
      exact ⟨(ih h).1, List.mem_cons_of_mem _ (ih h).2⟩

theorem byName_none {n : Text} {ss : List Statement} (h : ∀ s ∈ ss, s.name ≠ n) : byName n ss = none := by
  induction ss with
  | nil => rfl
  | cons t r ih =>
    have ht : t.name ≠ n := h t List.mem_cons_self
    simp only [byName, ht, if_false]
    exact ih (fun s hs => h s (List.mem_cons_of_mem _ hs))

/-- the first statement carrying the name is found, whatever stands before it under other names
and whatever follows -/
theorem byName_mid (n : Text) (pre post : List Statement) (s : Statement) (hs : s.name = n)
    (hpre : ∀ t ∈ pre, t.name ≠ n) : byName n (pre ++ s :: post) = some s := by
  induction pre with
  | nil => simp [byName, hs]
  | cons t r ih =>
    have ht : t.name ≠ n := hpre t List.mem_cons_self
    simp only [List.cons_append, byName, ht, if_false]
    exact ih (fun u hu => hpre u (List.mem_cons_of_mem _ hu))

/-- a proper (non-blank) name -/
def Named (i : Input) (n : Text) : Prop := i.policyName = some n ∧ blank n = false

theorem not_empty_of_not_blank {n : Text} (h : blank n = false) : n.isEmpty = false := by
  cases n with
  | nil => simp [blank] at h
  | cons c r => rfl

theorem applicable_named (i : Input) (n : Text) (h : Named i n) : applicable i = byName n i.statements := by
  simp [applicable, h.1, h.2, not_empty_of_not_blank h.2]

/-! ### the identities of the named statement, and of no other, decide -/

/-- **the named statement decides**: the identity list the check runs under is the list of the
first statement whose name is exactly the name given -/
theorem named_statement_decides (i : Input) (n : Text) (h : Named i n)
    (pre post : List Statement) (s : Statement) (hss : i.statements = pre ++ s :: post)
    (hs : s.name = n) (hpre : ∀ t ∈ pre, t.name ≠ n) :
    i.identities = s.identities := by
  simp [Input.identities, applicable_named i n h, hss, byName_mid n pre post s hs hpre]

/-- `run` reads `statements`/`policyName` only through `applicable` -/
theorem run_congr (i i' : Input) (ha : applicable i = applicable i') (hc : i.chain = i'.chain)
    (hp : i.plugin = i'.plugin) : run i = run i' := by
  have hid : i.identities = i'.identities := by simp [Input.identities, ha]
  have hn : nativeCheck i = nativeCheck i' := by simp [nativeCheck, hp]
  have hv : pluginVerdict i = pluginVerdict i' := by simp [pluginVerdict, hp]
  simp only [run, process, ha, hid, hn, hv, hc]

/-- **statements under other names are irrelevant**: two documents whose statements named exactly
`n` are the same (in the same order) give the same result under the name `n`, whatever other
statements - named `N`, ` n`, `n ` or anything else that is not `n` - they hold, wherever. -/
theorem other_statements_irrelevant (i i' : Input) (n : Text) (h : Named i n) (h' : Named i' n)
    (hf : i.statements.filter (fun s => s.name == n) = i'.statements.filter (fun s => s.name == n))
    (hc : i.chain = i'.chain) (hp : i.plugin = i'.plugin) : run i = run i' := by
  apply run_congr i i' _ hc hp
  rw [applicable_named i n h, applicable_named i' n h', byName_eq_head_filter, byName_eq_head_filter, hf]

/-- ... in particular everything around the named statement can be dropped -/
theorem surrounding_statements_irrelevant (i : Input) (n : Text) (h : Named i n)
    (pre post : List Statement) (s : Statement) (hss : i.statements = pre ++ s :: post)
    (hs : s.name = n) (hpre : ∀ t ∈ pre, t.name ≠ n) :
    run i = run { i with statements := [s] } := by
  have h2 : Named { i with statements := [s] } n := h
  refine run_congr i { i with statements := [s] } ?_ rfl rfl
  rw [applicable_named i n h, applicable_named _ n h2, hss, byName_mid n pre post s hs hpre]
  simp [byName, hs]

/-- under the empty name only the statements marked global matter -/
theorem non_global_statements_irrelevant (i i' : Input) (h : i.policyName = some []) (h' : i'.policyName = some [])
    (hf : i.statements.filter (fun s => s.isGlobal) = i'.statements.filter (fun s => s.isGlobal))
    (hc : i.chain = i'.chain) (hp : i.plugin = i'.plugin) : run i = run i' := by
  apply run_congr i i' _ hc hp
  simp [applicable, h, h', globalOf_eq_head_filter, hf]

/-- the `globalPolicy` marks play no role when a name is given -/
theorem global_mark_irrelevant_when_named (i : Input) (n : Text) (h : Named i n) (f : Statement → Bool) :
    run { i with statements := i.statements.map (fun s => { s with isGlobal := f s }) } = run i := by
  have h2 : Named { i with statements := i.statements.map (fun s => { s with isGlobal := f s }) } n := h
  have key : ∀ ss : List Statement,
      (byName n (ss.map (fun s => { s with isGlobal := f s }))).map (·.identities) = (byName n ss).map (·.identities) ∧
      (byName n (ss.map (fun s => { s with isGlobal := f s }))).isSome = (byName n ss).isSome := by
    intro ss
    induction ss with
    | nil => exact ⟨rfl, rfl⟩
    | cons t r ih =>
      by_cases ht : t.name = n
      · simp [byName, ht]
      · simp only [List.map_cons, byName, ht, if_false]; exact ih
  have hk := key i.statements
  have hid : Input.identities { i with statements := i.statements.map (fun s => { s with isGlobal := f s }) } = i.identities := by
    simp only [Input.identities, applicable_named _ n h2, applicable_named i n h]
    have := hk.1
    revert this
    cases byName n (i.statements.map (fun s => { s with isGlobal := f s })) <;> cases byName n i.statements <;> simp
  have hsome := hk.2
  simp only [run, process, applicable_named _ n h2, applicable_named i n h, hid]
  have hn : nativeCheck { i with statements := i.statements.map (fun s => { s with isGlobal := f s }) } = nativeCheck i := rfl
  have hv : pluginVerdict { i with statements := i.statements.map (fun s => { s with isGlobal := f s }) } = pluginVerdict i := rfl
  rw [hn, hv]
  revert hsome
  cases byName n (i.statements.map (fun s => { s with isGlobal := f s })) <;> cases byName n i.statements <;> simp

/-- the ground truth handed to the judge is no input of the behaviour -/
theorem minted_irrelevant (i : Input) (m : List Attr) : run { i with minted := m } = run i := rfl

/-! ### fail closed -/

/-- **a name no statement carries selects nothing**: nothing passes - in particular under a
letter-case variant or a padded variant of a name that a statement does carry (those are
different lists of characters) -/
theorem unknown_name_selects_nothing (i : Input) (n : Text) (h : i.policyName = some n)
    (hne : n.isEmpty = false) (hno : ∀ s ∈ i.statements, s.name ≠ n) : (run i).pass = false := by
  have : applicable i = none := by
    simp only [applicable, h, hne]
    cases blank n with
    | true => rfl
    | false => exact byName_none hno
  simp [run, this]

/-- a name of white space only is refused -/
theorem blank_name_selects_nothing (i : Input) (n : Text) (h : i.policyName = some n)
    (hne : n.isEmpty = false) (hb : blank n = true) : (run i).pass = false := by
  simp [run, applicable, h, hne, hb]

/-- the empty name asks for the global statement; a document without one answers nothing -/
theorem no_global_statement_nothing_passes (i : Input) (h : i.policyName = some [])
    (hno : ∀ s ∈ i.statements, s.isGlobal = false) : (run i).pass = false := by
  have hg : ∀ ss : List Statement, (∀ s ∈ ss, s.isGlobal = false) → globalOf ss = none := by
    intro ss
    induction ss with
    | nil => intro _; rfl
    | cons t r ih =>
      intro hh
      simp only [globalOf, hh t List.mem_cons_self]
      exact ih (fun s hs => hh s (List.mem_cons_of_mem _ hs))
  simp [run, applicable, h, hg i.statements hno]

/-! ### soundness through the selection -/

/-- **a pass under a name is a pass under the identities of a statement of that very name**: with
the identity check native, `VerifyBlob` under the name `n` passes authenticity only if the
document holds a statement named exactly `n` whose own identity list accepts the chain -/
theorem pass_only_by_the_named_statement (i : Input) (n : Text) (h : Named i n) (hn : nativeCheck i = true)
    (hp : (run i).pass = true) :
    ∃ s ∈ i.statements, s.name = n ∧ verifyIdentities s.identities i.chain = true := by
  rw [run_native i hn] at hp
  cases ha : byName n i.statements with
  | none =>
    have : i.identities = [] := by simp [Input.identities, applicable_named i n h, ha]
    rw [this, verifyIdentities_nil] at hp
    cases hp
  | some s =>
    have : i.identities = s.identities := by simp [Input.identities, applicable_named i n h, ha]
    rw [this] at hp
    exact ⟨s, (byName_some ha).2, (byName_some ha).1, hp⟩

/-- ... and, without a wildcard in that statement, on the strength of the leaf's own subject -/
theorem pass_only_by_the_named_statement_leaf (i : Input) (n : Text) (h : Named i n) (hn : nativeCheck i = true)
    (hp : (run i).pass = true) :
    ∃ s ∈ i.statements, s.name = n ∧
      (NoWildcard s.identities → ∃ leaf rest, i.chain = leaf :: rest ∧ validDN leaf.text leaf.rdns = true ∧
        ∃ id ∈ s.identities, usable id = true ∧ ∀ a ∈ attrsOf id.rdns, a ∈ attrsOf leaf.rdns) := by
  obtain ⟨s, hs, hname, hv⟩ := pass_only_by_the_named_statement i n h hn hp
  exact ⟨s, hs, hname, fun hnw => identity_pass_sound s.identities i.chain hnw hv⟩

/-! ### non-vacuity: the seeded situation -/

section examples

/-- "Release" pins the leaf, "release" pins the root's subject, "RELEASE" pins nothing of kind x509 -/
def exDoc : List Statement :=
  [ { name := ['R','e','l','e','a','s','e'], isGlobal := false,
      identities := [exId ['a'] [[(CN, leafCN)], [(O, org)], [(ST, wa)], [(C, us)]]] },
    { name := ['r','e','l','e','a','s','e'], isGlobal := true,
      identities := [exId ['a'] [[(CN, rootCN)], [(O, org)], [(ST, wa)], [(C, us)]]] },
    { name := ['R','E','L','E','A','S','E'], isGlobal := false,
      identities := [{ raw := ['a', ':', 'b'], rdns := none }] } ]

def exBlob (n : Text) : Input :=
  { statements := exDoc, policyName := some n, chain := exChain, minted := minted, plugin := none }

example : run (exBlob ['R','e','l','e','a','s','e']) = { pass := true } := by decide
example : run (exBlob ['r','e','l','e','a','s','e']) = { pass := false } := by decide
example : run (exBlob ['R','E','L','E','A','S','E']) = { pass := false } := by decide
example : run (exBlob ['R','e','L','e','A','s','E']) = { pass := false } := by decide
example : run (exBlob ['r','e','l','e','a','s','e',' ']) = { pass := false } := by decide
example : run (exBlob [' ']) = { pass := false } := by decide
-- the empty name: the global statement ("release") decides
example : run (exBlob []) = { pass := false } := by decide
-- `Holds` convicts an implementation that answers for "release" with the identities of "Release" ...
example : Holds (exBlob ['r','e','l','e','a','s','e']) { pass := true } = false := by decide
-- ... for the statement without any x509 identity ...
example : Holds (exBlob ['R','E','L','E','A','S','E']) { pass := true } = false := by decide
-- ... for a name no statement carries ...
example : Holds (exBlob ['R','e','L','e','A','s','E']) { pass := true } = false := by decide
-- ... for the global statement with the first one, and one that refuses the signer "Release" pins
example : Holds (exBlob []) { pass := true } = false := by decide
example : Holds (exBlob ['R','e','l','e','a','s','e']) { pass := false } = false := by decide
example : Holds (exBlob ['R','e','l','e','a','s','e']) { pass := true } = true := by decide

end examples

end NotationModel.C04

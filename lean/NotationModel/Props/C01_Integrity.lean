/-
C01 - `verifyIntegrity` (verifier/verifier.go) translated on every run (Generated/SrcC01i.lean) and
tied for every behaviour of notation-core-go's envelope parser and of the envelope's own
verification:

* envelope content is handed on ONLY when the bytes parsed under the given media type, the
  envelope's own `Verify()` reported no error, and the payload's content type is the one the
  library signs (`application/vnd.cncf.notary.payload.v1+json`, the translated
  `ValidatePayloadContentType`); the content handed on is exactly what `Verify()` returned;
* in every other case there is NO content and the integrity result carries an error - whatever
  kind of error the library reported (the type switch only chooses how it is worded);
* the result carries type integrity and the action of the level.
-/
import NotationModel.Generated.SrcC01i
set_option linter.unusedSimpArgs false
set_option linter.unusedVariables false

namespace NotationModel.C01.TieI
open NotationModel.Src

/-- what the three checks amount to: the content, if all of them pass -/
def intact (env : c01i.Env) (sigBlob : signer.Bytes) (mediaType : String) : Option signature.EnvelopeContent :=
  match env.ParseEnvelope mediaType sigBlob with
  | (_, some _) => none
  | (sigEnv, none) =>
    match (GoLite.deref sigEnv).Verify with
    | (_, some _) => none
    | (content, none) =>
      if (GoLite.deref content).Payload.ContentType == envelope.MediaTypePayloadV1 then content else none

theorem default_error : (default : «notation».ValidationResult).Error = none := rfl

/-- **Tie.** The content handed on is `intact`; the integrity result passes exactly when the three
checks passed. (A `Verify()` that reports no error and hands back NO content would make Go
dereference nil; `GoLite.deref` totalises that case - absence of panics is C12's business.) -/
theorem source_verifyIntegrity_refines_spec (env : c01i.Env) (sigBlob : signer.Bytes) (mediaType : String)
    (outcome : c01i.VerificationOutcome) :
    (c01i.verifyIntegrity env sigBlob mediaType outcome).1 = intact env sigBlob mediaType ∧
    ((c01i.verifyIntegrity env sigBlob mediaType outcome).2.Error = none ↔
      ∃ sigEnv content, env.ParseEnvelope mediaType sigBlob = (sigEnv, none) ∧
        (GoLite.deref sigEnv).Verify = (content, none) ∧
        (GoLite.deref content).Payload.ContentType = envelope.MediaTypePayloadV1) := by
  unfold c01i.verifyIntegrity intact
  cases hp : env.ParseEnvelope mediaType sigBlob with
  | mk sigEnv e1 =>
    cases e1 with
    | some e => simp [Id.run, GoLite.idPure, hp]
    | none =>
      cases hv : (GoLite.deref sigEnv).Verify with
      | mk content e2 =>
        cases e2 with
        | some e =>
          cases h1 : c01i.isEnvelopeNotFound (some e) <;> cases h2 : c01i.isInvalidSignature (some e) <;>
            cases h3 : c01i.isIntegrityError (some e) <;>
            simp [Id.run, GoLite.idPure, hp, hv, h1, h2, h3]
        | none =>
          by_cases hc : (GoLite.deref content).Payload.ContentType = envelope.MediaTypePayloadV1 <;>
            simp [Id.run, GoLite.idPure, hp, hv, hc, envelope.ValidatePayloadContentType, default_error]

/-- **No content without integrity**: when the integrity result carries an error, nothing is handed on. -/
theorem source_verifyIntegrity_failure_hands_on_nothing (env : c01i.Env) (sigBlob : signer.Bytes)
    (mediaType : String) (outcome : c01i.VerificationOutcome)
    (h : (c01i.verifyIntegrity env sigBlob mediaType outcome).2.Error ≠ none) :
    (c01i.verifyIntegrity env sigBlob mediaType outcome).1 = none := by
  have ⟨h1, h2⟩ := source_verifyIntegrity_refines_spec env sigBlob mediaType outcome
  rw [h1]
  unfold intact
  cases hp : env.ParseEnvelope mediaType sigBlob with
  | mk sigEnv e1 =>
    cases e1 with
    | some e => simp
    | none =>
      cases hv : (GoLite.deref sigEnv).Verify with
      | mk content e2 =>
        cases e2 with
        | some e => simp [hv]
        | none =>
          by_cases hc : (GoLite.deref content).Payload.ContentType = envelope.MediaTypePayloadV1
          · exact absurd (h2.2 ⟨sigEnv, content, hp, hv, hc⟩) h
          · simp [hv, hc]

/-- the result carries type integrity and the action the level gives it -/
theorem source_verifyIntegrity_type_action (env : c01i.Env) (sigBlob : signer.Bytes) (mediaType : String)
    (outcome : c01i.VerificationOutcome) :
    (c01i.verifyIntegrity env sigBlob mediaType outcome).2.«Type» = trustpolicy.TypeIntegrity ∧
      (c01i.verifyIntegrity env sigBlob mediaType outcome).2.Action =
        GoLite.Map.get outcome.VerificationLevel.Enforcement trustpolicy.TypeIntegrity := by
  unfold c01i.verifyIntegrity
  simp only [Id.run, GoLite.idPure]
  repeat' split
  all_goals simp

end NotationModel.C01.TieI

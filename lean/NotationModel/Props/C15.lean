/- C15 - property theorems (stub: not built yet) -/
import NotationModel.Model.C15

namespace NotationModel.C15

end NotationModel.C15

/-
C15 - The CRL cache returns only fresh, byte-faithful bundles for the exact URL.
Property theorems only; the model is in `Model/C15.lean`.

Layout: (1) facts pinned to the Go source, (2) hex names and confinement, concretely,
(3) the directory map, (4) refinement of the file-level cache to `URL → Option content` for
arbitrary operation sequences, (5) the readable theorems, (6) `model_holds`.
-/
import NotationModel.Model.C15
import NotationModel.Generated.C15
import NotationModel.Generated.SrcC15
set_option linter.unusedSimpArgs false
set_option linter.unusedVariables false

namespace NotationModel.C15

/-! ### (1) facts read from the Go source this run - what the model assumes about the code -/

/-- `fileName` is hex of SHA-256 of the URL and nothing else -/
theorem fact_fileName_is_hex_of_sha256 :
    Facts.crlFileNameCalls = ["sha256.Sum256", "hex.EncodeToString"] := by decide

/-- callee of a rendered call: the text before the first parenthesis -/
def calleeOf (s : String) : List Char := s.toList.takeWhile (· != '(')

/-- `Get` makes exactly one file-system call, `os.ReadFile`; `Set` exactly one, `file.WriteFile`
(which arguments they get - root, `root/fileName(url)`, the marshalled entry - is proved from the
translated source in section (7): `source_Get_refines_model`, `source_Set_decision`) -/
theorem fact_get_single_read : Facts.crlGetCalls.map calleeOf = ["os.ReadFile".toList] := by decide

theorem fact_set_single_write : Facts.crlSetCalls.map calleeOf = ["file.WriteFile".toList] := by decide

/- `file.WriteFile(tempDir, path, content)`: the temp file is created in `tempDir`, `content` is
written to IT, and the only other path touched is `path` (rename target) - proved from the translated
source for every oracle in `Props/C14_WriteFile.lean`, restated for this property in
`Props/C15_WriteFile.lean` (the textual pin of the call skeleton that stood here is gone). -/

/-- (the decision structure of `Get`, `Set`, `checkExpiry` and `fileName` is tied semantically to
the translated source in section (7); only what the translation hides in oracles is pinned here)
the entry file is a JSON object with the base64 fields `baseCRL` and (optional) `deltaCRL`;
the harness labels planted bytes with a struct carrying exactly these tags -/
theorem fact_entry_fields :
    Facts.crlContentFields =
      [("BaseCRL", "[]byte", "baseCRL"), ("DeltaCRL", "[]byte", "deltaCRL,omitempty")] := by decide

theorem fact_tempPrefix : tempPrefix = ['n', 'o', 't', 'a', 't', 'i', 'o', 'n', '-'] := by decide

/-! ### (2) hex names -/

theorem isHexChar_hexDigit (n : Nat) : isHexChar (hexDigit n) = true := by
  have h : ∀ k, k < 16 → isHexChar (hexChars.getD k '0') = true := by decide
  exact h (n % 16) (Nat.mod_lt _ (by decide))

theorem hex_length (bs : List Nat) : (hex bs).length = 2 * bs.length := by
  induction bs with
  | nil => rfl
  | cons b bs ih => simp only [hex, List.length_cons, ih]; omega

theorem hex_all (bs : List Nat) : ∀ c ∈ hex bs, isHexChar c = true := by
  induction bs with
  | nil => intro c h; simp [hex] at h
  | cons b bs ih =>
    intro c h
    simp only [hex, List.mem_cons] at h
    rcases h with h | h | h
    · rw [h]; exact isHexChar_hexDigit _
    · rw [h]; exact isHexChar_hexDigit _
    · exact ih c h

theorem hexDigit_inj {a b : Nat} (ha : a < 16) (hb : b < 16) (h : hexDigit a = hexDigit b) : a = b := by
  have key : ∀ a, a < 16 → ∀ b, b < 16 → hexChars.getD a '0' = hexChars.getD b '0' → a = b := by decide
  have := key (a % 16) (Nat.mod_lt _ (by decide)) (b % 16) (Nat.mod_lt _ (by decide)) h
  omega

/-- hex encoding loses nothing: distinct digests give distinct file names -/
theorem hex_inj : ∀ (xs ys : List Nat), (∀ b ∈ xs, b < 256) → (∀ b ∈ ys, b < 256) →
    hex xs = hex ys → xs = ys := by
  intro xs
  induction xs with
  | nil =>
    intro ys _ _ h
    cases ys with
    | nil => rfl
    | cons y ys => simp [hex] at h
  | cons x xs ih =>
    intro ys hx hy h
    cases ys with
    | nil => simp [hex] at h
    | cons y ys =>
      simp only [hex, List.cons.injEq] at h
      obtain ⟨h1, h2, h3⟩ := h
      have hx0 : x < 256 := hx x (by simp)
      have hy0 : y < 256 := hy y (by simp)
      have e1 : x / 16 = y / 16 := hexDigit_inj (by omega) (by omega) h1
      have e2 : x % 16 = y % 16 := by
        have key : ∀ a, a < 16 → ∀ b, b < 16 → hexChars.getD a '0' = hexChars.getD b '0' → a = b := by decide
        exact key (x % 16) (Nat.mod_lt _ (by decide)) (y % 16) (Nat.mod_lt _ (by decide)) h2
      have : x = y := by omega
      rw [this, ih ys (fun b hb => hx b (by simp [hb])) (fun b hb => hy b (by simp [hb])) h3]

/-- a hex character is no path separator, no dot, and not the first letter of a temp-file name -/
theorem isHexChar_plain {c : Char} (h : isHexChar c = true) :
    c ≠ '/' ∧ c ≠ '\\' ∧ c ≠ '.' ∧ c ≠ 'n' := by
  simp only [isHexChar, hexChars, List.contains_eq_mem, List.mem_cons, List.not_mem_nil, or_false,
    decide_eq_true_eq] at h
  rcases h with h | h | h | h | h | h | h | h | h | h | h | h | h | h | h | h <;> subst h <;> decide

section Names
variable {U : Type}

/-- **C15 `confined`, the name.** For every URL whatsoever (traversal shaped, absolute, empty,
10k characters ...) the file name is exactly 64 characters of `[0-9a-f]`: it contains no
separator and no dot, and can never be the name of a `file.WriteFile` temp file. -/
theorem confined_name (dg : U → List Nat) (u : U) (h32 : (dg u).length = 32) :
    (fileName dg u).length = 64 ∧ (∀ c ∈ fileName dg u, isHexChar c = true) ∧
    '/' ∉ fileName dg u ∧ '\\' ∉ fileName dg u ∧ '.' ∉ fileName dg u ∧
    ¬ tempPrefix <+: fileName dg u := by
  have hall := hex_all (dg u)
  refine ⟨by simp [fileName, hex_length, h32], hall, ?_, ?_, ?_, ?_⟩
  · intro h; exact (isHexChar_plain (hall _ h)).1 rfl
  · intro h; exact (isHexChar_plain (hall _ h)).2.1 rfl
  · intro h; exact (isHexChar_plain (hall _ h)).2.2.1 rfl
  · rw [fact_tempPrefix]
    intro h
    obtain ⟨t, ht⟩ := h
    have hmem : 'n' ∈ fileName dg u := by rw [← ht]; simp
    exact (isHexChar_plain (hall _ hmem)).2.2.2 rfl

theorem isCachePath_iff (root p : Text) :
    isCachePath root p = true ↔
      ∃ h : Text, p = root ++ '/' :: h ∧ h.length = 64 ∧ ∀ c ∈ h, isHexChar c = true := by
  unfold isCachePath
  simp only [Bool.and_eq_true, List.isPrefixOf_iff_prefix, beq_iff_eq, List.all_eq_true]
  constructor
  · rintro ⟨⟨t, ht⟩, hl, ha⟩
    have hd : p.drop (root.length + 1) = t := by
      rw [← ht]
      have : root.length + 1 = (root ++ ['/']).length := by simp
      rw [this, List.drop_left]
    rw [hd] at hl ha
    exact ⟨t, by rw [← ht]; simp, hl, ha⟩
  · rintro ⟨h, rfl, hl, ha⟩
    have hd : (root ++ '/' :: h).drop (root.length + 1) = h := by
      have e : root ++ '/' :: h = (root ++ ['/']) ++ h := by simp
      have : root.length + 1 = (root ++ ['/']).length := by simp
      rw [e, this, List.drop_left]
    rw [hd]
    exact ⟨⟨h, by simp⟩, hl, ha⟩

/-- **C15 `confined`, the path.** The one path `Get` and `Set` touch for a URL is
`root ++ "/" ++ h`, `h` 64 hex characters. -/
theorem filePath_isCachePath (root : Text) (dg : U → List Nat) (u : U) (h32 : (dg u).length = 32) :
    isCachePath root (filePath root dg u) = true := by
  rw [isCachePath_iff]
  have := confined_name dg u h32
  exact ⟨fileName dg u, rfl, this.1, this.2.1⟩

theorem filePath_under_root (root : Text) (dg : U → List Nat) (u : U) :
    (root ++ ['/']).isPrefixOf (filePath root dg u) = true := by
  rw [List.isPrefixOf_iff_prefix]
  exact ⟨fileName dg u, by simp [filePath]⟩

/-- distinct digests (of bytes) give distinct paths -/
theorem filePath_inj (root : Text) (dg : U → List Nat) (u v : U)
    (hu : ∀ b ∈ dg u, b < 256) (hv : ∀ b ∈ dg v, b < 256)
    (h : filePath root dg u = filePath root dg v) : dg u = dg v := by
  unfold filePath fileName at h
  have := List.append_cancel_left h
  simp only [List.cons.injEq, true_and] at this
  exact hex_inj _ _ hu hv this

end Names

/-! ### (3) the directory map -/

section FSLemmas
variable {C : Type}

theorem read_filter_ne (fs : FS C) (p q : Text) (h : q ≠ p) :
    FS.read (fs.filter (fun e => e.1 != p)) q = FS.read fs q := by
  induction fs with
  | nil => rfl
  | cons e r ih =>
    obtain ⟨k, c⟩ := e
    by_cases hk : k = p
    · subst hk
      have hq : ¬ k = q := fun e => h e.symm
      simp [List.filter, FS.read, hq, ih]
    · have : (k != p) = true := by simp [hk]
      simp only [List.filter, this, FS.read]
      by_cases hkq : k = q <;> simp [hkq, ih]

theorem read_write_same (fs : FS C) (p : Text) (c : C) : (fs.write p c).read p = some c := by
  simp [FS.write, FS.read]

theorem read_write_other (fs : FS C) (p q : Text) (c : C) (h : q ≠ p) :
    (fs.write p c).read q = fs.read q := by
  have hp : ¬ p = q := fun e => h e.symm
  simp only [FS.write, FS.read, hp, if_false]
  exact read_filter_ne fs p q h

theorem mem_write {fs : FS C} {p : Text} {c : C} {e : Text × C} (h : e ∈ fs.write p c) :
    e = (p, c) ∨ e ∈ fs := by
  simp only [FS.write, List.mem_cons, List.mem_filter] at h
  rcases h with h | h
  · exact Or.inl h
  · exact Or.inr h.1

end FSLemmas

/-! ### (4) the file-level cache refines `URL → Option content`, for every operation sequence -/

section Refinement
variable {U D C : Type} [DecidableEq U] (cd : Codec D C) (root : Text) (dg : U → List Nat)

/-- the directory and the abstract store agree on the URLs in use -/
def Agrees (used : U → Prop) (fs : FS C) (st : U → Option C) : Prop :=
  ∀ u, used u → fs.read (filePath root dg u) = st u

/-- digest injectivity on the URLs in use, stated on the paths -/
def InjOn (used : U → Prop) : Prop :=
  ∀ u v, used u → used v → filePath root dg u = filePath root dg v → u = v

theorem agrees_write {used : U → Prop} (hinj : InjOn root dg used) {fs : FS C} {st : U → Option C}
    (hag : Agrees root dg used fs st) {u : U} (hu : used u) (c : C) :
    Agrees root dg used (fs.write (filePath root dg u) c) (update st u c) := by
  intro v hv
  unfold update
  by_cases hvu : v = u
  · subst hvu; simp [read_write_same]
  · have hne : filePath root dg v ≠ filePath root dg u := fun e => hvu (hinj v u hv hu e)
    rw [read_write_other _ _ _ _ hne]
    simp [hvu, hag v hv]

theorem step_refines {used : U → Prop} (hinj : InjOn root dg used) {fs : FS C} {st : U → Option C}
    (hag : Agrees root dg used fs st) (op : Op U D C) (hop : used op.url) :
    (step cd root dg fs op).2 = specOut cd st op ∧
      Agrees root dg used (step cd root dg fs op).1 (specStep cd st op) := by
  cases op with
  | setNil u => exact ⟨rfl, hag⟩
  | set u b d =>
    cases b with
    | none => exact ⟨rfl, hag⟩
    | some b => exact ⟨rfl, agrees_write root dg hinj hag hop _⟩
  | get u now =>
    refine ⟨?_, hag⟩
    simp only [step, specOut]
    rw [hag u hop]
  | plant u c => exact ⟨rfl, agrees_write root dg hinj hag hop _⟩

/-- **C15, refinement.** Under digest injectivity on the URLs in use, every sequence of
operations on the directory returns exactly what the same sequence returns on the map
`URL → Option content`, and the two stay in agreement. -/
theorem exec_refines {used : U → Prop} (hinj : InjOn root dg used) :
    ∀ (ops : List (Op U D C)) (fs : FS C) (st : U → Option C), Agrees root dg used fs st →
      (∀ op ∈ ops, used op.url) →
      (exec cd root dg fs ops).2 = specExec cd st ops ∧
        Agrees root dg used (exec cd root dg fs ops).1 (finalSpec cd st ops) := by
  intro ops
  induction ops with
  | nil => intro fs st hag _; exact ⟨rfl, hag⟩
  | cons op ops ih =>
    intro fs st hag hops
    have h1 := step_refines cd root dg hinj hag op (hops op (by simp))
    have h2 := ih _ _ h1.2 (fun o ho => hops o (by simp [ho]))
    simp only [exec, specExec, finalSpec]
    exact ⟨by rw [h1.1, h2.1], h2.2⟩

omit [DecidableEq U] in
theorem exec_length (ops : List (Op U D C)) : ∀ fs : FS C, (exec cd root dg fs ops).2.length = ops.length := by
  induction ops with
  | nil => intro fs; rfl
  | cons op ops ih => intro fs; simp [exec, ih]

omit [DecidableEq U] in
/-- every path an operation sequence creates belongs to one of its URLs -/
theorem exec_keys : ∀ (ops : List (Op U D C)) (fs : FS C) (e : Text × C),
    e ∈ (exec cd root dg fs ops).1 → e ∈ fs ∨ ∃ op ∈ ops, e.1 = filePath root dg op.url := by
  intro ops
  induction ops with
  | nil => intro fs e h; exact Or.inl h
  | cons op ops ih =>
    intro fs e h
    simp only [exec] at h
    rcases ih _ e h with h' | ⟨o, ho, he⟩
    · have : e ∈ fs ∨ e.1 = filePath root dg op.url := by
        cases op with
        | setNil u => exact Or.inl h'
        | get u now => exact Or.inl h'
        | set u b d =>
          cases b with
          | none => exact Or.inl h'
          | some b =>
            rcases mem_write h' with h'' | h''
            · exact Or.inr (by rw [h'']; rfl)
            · exact Or.inl h''
        | plant u c =>
          rcases mem_write h' with h'' | h''
          · exact Or.inr (by rw [h'']; rfl)
          · exact Or.inl h''
      rcases this with h'' | h''
      · exact Or.inl h''
      · exact Or.inr ⟨op, by simp, h''⟩
    · exact Or.inr ⟨o, by simp [ho], he⟩

omit [DecidableEq U] in
/-- **C15 `confined`, the frame.** Whatever the URLs are, an operation sequence leaves every
path that is not `root/<64 hex>` exactly as it was: nothing outside the root, no other name
inside it, is created, replaced or read as an entry. -/
theorem confined (h32 : ∀ u, (dg u).length = 32) :
    ∀ (ops : List (Op U D C)) (fs : FS C) (p : Text), isCachePath root p = false →
      (exec cd root dg fs ops).1.read p = fs.read p := by
  intro ops
  induction ops with
  | nil => intro fs p _; rfl
  | cons op ops ih =>
    intro fs p hp
    simp only [exec]
    rw [ih _ p hp]
    have hne : ∀ u, p ≠ filePath root dg u := by
      intro u e
      rw [e, filePath_isCachePath root dg u (h32 u)] at hp
      exact Bool.noConfusion hp
    cases op with
    | setNil u => rfl
    | get u now => rfl
    | set u b d =>
      cases b with
      | none => rfl
      | some b => exact read_write_other _ _ _ _ (hne u)
    | plant u c => exact read_write_other _ _ _ _ (hne u)

/-! #### the abstract store after a sequence -/

/-- the URL whose entry an operation replaces, if any -/
def writes : Op U D C → Option U
  | .set u (some _) _ => some u
  | .plant u _ => some u
  | _ => none

theorem specStep_other (st : U → Option C) (op : Op U D C) (u : U) (h : writes op ≠ some u) :
    specStep cd st op u = st u := by
  cases op with
  | setNil v => rfl
  | get v now => rfl
  | set v b d =>
    cases b with
    | none => rfl
    | some b =>
      have : u ≠ v := fun e => h (by simp [writes, e])
      simp [specStep, update, this]
  | plant v c =>
    have : u ≠ v := fun e => h (by simp [writes, e])
    simp [specStep, update, this]

theorem finalSpec_append (st : U → Option C) (a b : List (Op U D C)) :
    finalSpec cd st (a ++ b) = finalSpec cd (finalSpec cd st a) b := by
  induction a generalizing st with
  | nil => rfl
  | cons op a ih => simp only [List.cons_append, finalSpec, ih]

theorem finalSpec_untouched (u : U) : ∀ (ops : List (Op U D C)) (st : U → Option C),
    (∀ op ∈ ops, writes op ≠ some u) → finalSpec cd st ops u = st u := by
  intro ops
  induction ops with
  | nil => intro st _; rfl
  | cons op ops ih =>
    intro st h
    simp only [finalSpec]
    rw [ih _ (fun o ho => h o (by simp [ho])), specStep_other cd st op u (h op (by simp))]

/-- the store at `u` depends only on the operations on `u` -/
theorem finalSpec_filter (u : U) : ∀ (ops : List (Op U D C)) (st st' : U → Option C), st u = st' u →
    finalSpec cd st ops u = finalSpec cd st' (ops.filter (fun op => decide (op.url = u))) u := by
  intro ops
  induction ops with
  | nil => intro st st' h; exact h
  | cons op ops ih =>
    intro st st' h
    by_cases hop : op.url = u
    · simp only [List.filter, hop, decide_true, finalSpec]
      apply ih
      cases op with
      | setNil v => exact h
      | get v now => exact h
      | set v b d =>
        cases b with
        | none => exact h
        | some b =>
          have : v = u := hop
          subst this
          simp [specStep, update]
      | plant v c =>
        have : v = u := hop
        subst this
        simp [specStep, update]
    · simp only [List.filter, hop, decide_false, finalSpec]
      apply ih
      rw [specStep_other cd st op u ?_]
      · exact h
      · intro hw
        apply hop
        cases op with
        | setNil v => simp [writes] at hw
        | get v now => simp [writes] at hw
        | set v b d =>
          cases b with
          | none => simp [writes] at hw
          | some b => simpa [writes, Op.url] using hw
        | plant v c => simpa [writes, Op.url] using hw

end Refinement

/-! ### (5) what a read returns -/

section GetContent
variable {D C : Type} (cd : Codec D C)

theorem checkExpiry_fresh_iff (now : Int) (x : Option Int) :
    checkExpiry now x = .fresh ↔ ∃ t, x = some t ∧ now ≤ t := by
  cases x with
  | none => simp [checkExpiry]
  | some t =>
    by_cases h : now > t
    · simp [checkExpiry, h]
    · simp [checkExpiry, h]; omega

/-- the boundary: at `now = nextUpdate` the CRL is still fresh (`After` is strict) -/
theorem checkExpiry_boundary (t : Int) : checkExpiry t (some t) = .fresh := by
  simp [checkExpiry]

theorem checkExpiry_one_later (t : Int) : checkExpiry (t + 1) (some t) = .expired := by
  simp [checkExpiry]; omega

/-- the model's times are unbounded integers: a next-update ANY distance in the past is expired and
ANY distance ahead is fresh - there is no representation to overflow (centuries back, year 9999,
before the Unix epoch ...). The real code is held to this by the harness's family of extreme
NextUpdate values (T) and, for every clock reading, by `Tie.source_checkExpiry_refines_model`. -/
theorem checkExpiry_any_distance (now nu : Int) :
    (nu < now → checkExpiry now (some nu) = .expired) ∧ (now ≤ nu → checkExpiry now (some nu) = .fresh) := by
  constructor
  · intro h; simp [checkExpiry]; omega
  · intro h; simp [checkExpiry]; omega

example : checkExpiry 0 (some (-32377432752)) = .expired := by decide   -- year 1000 seen from 2026
example : checkExpiry 0 (some (-9223372037)) = .expired := by decide    -- one second past 2^63 ns back
example : checkExpiry 0 (some 251600000000) = .fresh := by decide       -- year 9999

/-- **C15 "only fresh, byte-faithful".** `Get` hands out a bundle only if the stored content is a
well-formed entry holding exactly those base / delta bytes, both parse, both carry a
`NextUpdate`, and neither has passed it. -/
theorem bundle_only_if_wellformed_and_fresh (now : Int) (c : C) (b : D) (d : Option D)
    (h : getContent cd now c = .bundle b d) :
    cd.decode c = some (b, d) ∧ (∃ tb, cd.parse b = some (some tb) ∧ now ≤ tb) ∧
      (∀ dd, d = some dd → ∃ td, cd.parse dd = some (some td) ∧ now ≤ td) := by
  unfold getContent getContentWith at h
  cases hdec : cd.decode c with
  | none => simp [hdec] at h
  | some bd =>
    obtain ⟨b0, d0⟩ := bd
    simp only [hdec] at h
    cases hpb : cd.parse b0 with
    | none => simp [hpb] at h
    | some nub =>
      simp only [hpb] at h
      cases d0 with
      | none =>
        simp only [] at h
        cases hcb : checkExpiry now nub <;> simp [hcb] at h
        obtain ⟨rfl, rfl⟩ := h
        obtain ⟨tb, rfl, htb⟩ := (checkExpiry_fresh_iff now nub).1 hcb
        exact ⟨rfl, ⟨tb, hpb, htb⟩, by intro dd hdd; cases hdd⟩
      | some dd0 =>
        simp only [] at h
        cases hpd : cd.parse dd0 with
        | none => simp [hpd] at h
        | some nud =>
          simp only [hpd] at h
          cases hcb : checkExpiry now nub <;> simp [hcb] at h
          cases hcd : checkExpiry now nud <;> simp [hcd] at h
          obtain ⟨rfl, rfl⟩ := h
          obtain ⟨tb, rfl, htb⟩ := (checkExpiry_fresh_iff now nub).1 hcb
          obtain ⟨td, rfl, htd⟩ := (checkExpiry_fresh_iff now nud).1 hcd
          refine ⟨rfl, ⟨tb, hpb, htb⟩, ?_⟩
          intro dd hdd
          cases hdd
          exact ⟨td, hpd, htd⟩

/-- the code's order of checks meets the order-free reading of the property -/
theorem getContent_meets (now : Int) (c : C) :
    match classify cd now c with
    | .bundle b d => getContent cd now c = .bundle b d
    | .mustMiss => getContent cd now c = .miss
    | .mustErr => getContent cd now c = .err
    | .refused => getContent cd now c = .miss ∨ getContent cd now c = .err := by
  cases hdec : cd.decode c with
  | none => simp [classify, getContent, getContentWith, hdec]
  | some bd =>
    obtain ⟨b, d⟩ := bd
    cases hpb : cd.parse b with
    | none =>
      cases d with
      | none => simp [classify, getContent, getContentWith, malformedCrl, expiredCrl, checkExpiry, *]
      | some dd =>
        cases hpd : cd.parse dd with
        | none => simp [classify, getContent, getContentWith, malformedCrl, expiredCrl, checkExpiry, *]
        | some nud =>
          cases nud with
          | none => simp [classify, getContent, getContentWith, malformedCrl, expiredCrl, checkExpiry, *]
          | some td =>
            by_cases h2 : now > td <;> simp [classify, getContent, getContentWith, malformedCrl, expiredCrl, checkExpiry, *]
    | some nub =>
      cases nub with
      | none =>
        cases d with
        | none => simp [classify, getContent, getContentWith, malformedCrl, expiredCrl, checkExpiry, *]
        | some dd =>
          cases hpd : cd.parse dd with
          | none => simp [classify, getContent, getContentWith, malformedCrl, expiredCrl, checkExpiry, *]
          | some nud =>
            cases nud with
            | none => simp [classify, getContent, getContentWith, malformedCrl, expiredCrl, checkExpiry, *]
            | some td =>
              by_cases h2 : now > td <;> simp [classify, getContent, getContentWith, malformedCrl, expiredCrl, checkExpiry, *]
      | some tb =>
        cases d with
        | none =>
          by_cases h1 : now > tb <;> simp [classify, getContent, getContentWith, malformedCrl, expiredCrl, checkExpiry, *]
        | some dd =>
          cases hpd : cd.parse dd with
          | none =>
            by_cases h1 : now > tb <;> simp [classify, getContent, getContentWith, malformedCrl, expiredCrl, checkExpiry, *]
          | some nud =>
            cases nud with
            | none =>
              by_cases h1 : now > tb <;> simp [classify, getContent, getContentWith, malformedCrl, expiredCrl, checkExpiry, *]
            | some td =>
              by_cases h1 : now > tb <;> by_cases h2 : now > td <;>
                simp [classify, getContent, getContentWith, malformedCrl, expiredCrl, checkExpiry, *]

/-- reading back what `Set` encoded, while fresh: exactly the bytes that were stored -/
theorem getContent_encode_fresh (now : Int) (b : D) (d : Option D) (tb : Int)
    (hb : cd.parse b = some (some tb)) (hfb : now ≤ tb)
    (hd : ∀ dd, d = some dd → ∃ td, cd.parse dd = some (some td) ∧ now ≤ td) :
    getContent cd now (cd.encode b d) = .bundle b d := by
  have h1 : ¬ now > tb := by omega
  unfold getContent getContentWith
  rw [cd.roundtrip]
  cases d with
  | none => simp [hb, checkExpiry, h1]
  | some dd =>
    obtain ⟨td, hpd, hfd⟩ := hd dd rfl
    have h2 : ¬ now > td := by omega
    simp [hb, hpd, checkExpiry, h1, h2]

/-- reading back what `Set` encoded once the base CRL has passed its next-update -/
theorem getContent_encode_base_expired (now : Int) (b : D) (d : Option D) (tb : Int)
    (hb : cd.parse b = some (some tb)) (hxb : now > tb)
    (hd : ∀ dd, d = some dd → (cd.parse dd).isSome) :
    getContent cd now (cd.encode b d) = .miss := by
  unfold getContent getContentWith
  rw [cd.roundtrip]
  cases d with
  | none => simp [hb, checkExpiry, hxb]
  | some dd =>
    have := hd dd rfl
    cases hpd : cd.parse dd with
    | none => simp [hpd] at this
    | some nud => simp [hb, hpd, checkExpiry, hxb]

/-- ... or the delta CRL has, the base still being fresh -/
theorem getContent_encode_delta_expired (now : Int) (b dd : D) (tb td : Int)
    (hb : cd.parse b = some (some tb)) (hfb : now ≤ tb)
    (hd : cd.parse dd = some (some td)) (hxd : now > td) :
    getContent cd now (cd.encode b (some dd)) = .miss := by
  have h1 : ¬ now > tb := by omega
  unfold getContent getContentWith
  rw [cd.roundtrip]
  simp [hb, hd, checkExpiry, h1, hxd]

/-- content that does not decode, or whose base / delta bytes are not a CRL, is an error at
every time - never a bundle, never a miss -/
theorem getContent_malformed (now : Int) (c : C)
    (h : cd.decode c = none ∨ (∃ b d, cd.decode c = some (b, d) ∧ cd.parse b = none) ∨
      (∃ b dd, cd.decode c = some (b, some dd) ∧ cd.parse dd = none)) :
    getContent cd now c = .err := by
  unfold getContent getContentWith
  rcases h with h | ⟨b, d, h, hb⟩ | ⟨b, dd, h, hd⟩
  · simp [h]
  · simp [h, hb]
  · simp only [h]
    cases hpb : cd.parse b with
    | none => rfl
    | some nub => simp [hd]

end GetContent

section Readable
variable {U D C : Type} [DecidableEq U] (cd : Codec D C) (root : Text) (dg : U → List Nat)

/-- the answer of `Get(u)` at time `now` after the operations `ops` on an empty cache -/
def getAfter (ops : List (Op U D C)) (u : U) (now : Int) : Out D :=
  (step cd root dg (exec cd root dg [] ops).1 (.get u now)).2

/-- the content last stored under `u` by `ops` -/
def lastStored (ops : List (Op U D C)) (u : U) : Option C := finalSpec cd (fun _ => none) ops u

/-- the content under `u` after `pre ++ [op that writes c to u] ++ post`, `post` not writing `u` -/
theorem lastStored_set (pre post : List (Op U D C)) (u : U) (b : D) (d : Option D)
    (hpost : ∀ op ∈ post, writes op ≠ some u) :
    lastStored cd (pre ++ .set u (some b) d :: post) u = some (cd.encode b d) := by
  unfold lastStored
  rw [finalSpec_append]
  simp only [finalSpec]
  rw [finalSpec_untouched cd u post _ hpost]
  simp [specStep, update]

theorem lastStored_plant (pre post : List (Op U D C)) (u : U) (c : C)
    (hpost : ∀ op ∈ post, writes op ≠ some u) :
    lastStored cd (pre ++ .plant u c :: post) u = some c := by
  unfold lastStored
  rw [finalSpec_append]
  simp only [finalSpec]
  rw [finalSpec_untouched cd u post _ hpost]
  simp [specStep, update]

variable {used : U → Prop} (hinj : InjOn root dg used)
include hinj

/-- **C15, refinement, as one equation**: the read returns what the content last written under
that very URL yields - a miss if there is none. -/
theorem get_eq_last_stored (ops : List (Op U D C)) (hops : ∀ op ∈ ops, used op.url) (u : U) (hu : used u)
    (now : Int) :
    getAfter cd root dg ops u now =
      match lastStored cd ops u with
      | none => .miss
      | some c => getContent cd now c := by
  have h := exec_refines cd root dg hinj ops [] (fun _ => none) (by intro v _; rfl) hops
  have h2 := step_refines cd root dg hinj h.2 (.get u now) hu
  unfold getAfter lastStored
  rw [h2.1]
  rfl

/-- **`never_stored_is_miss`** -/
theorem never_stored_is_miss (ops : List (Op U D C)) (hops : ∀ op ∈ ops, used op.url) (u : U) (hu : used u)
    (now : Int) (hnever : ∀ op ∈ ops, writes op ≠ some u) :
    getAfter cd root dg ops u now = .miss := by
  rw [get_eq_last_stored cd root dg hinj ops hops u hu]
  unfold lastStored
  rw [finalSpec_untouched cd u ops _ hnever]

/-- **`get_after_set`**: after `Set(u, {b, d})`, whatever happened before and whatever happens
afterwards to other URLs (including near-identical ones), `Get(u)` returns exactly `b` and `d`
as long as neither has passed its next-update (`now ≤ nextUpdate`, boundary included). -/
theorem get_after_set (pre post : List (Op U D C)) (u : U) (b : D) (d : Option D) (now tb : Int)
    (hops : ∀ op ∈ pre ++ .set u (some b) d :: post, used op.url) (hu : used u)
    (hpost : ∀ op ∈ post, writes op ≠ some u)
    (hb : cd.parse b = some (some tb)) (hfb : now ≤ tb)
    (hd : ∀ dd, d = some dd → ∃ td, cd.parse dd = some (some td) ∧ now ≤ td) :
    getAfter cd root dg (pre ++ .set u (some b) d :: post) u now = .bundle b d := by
  rw [get_eq_last_stored cd root dg hinj _ hops u hu, lastStored_set cd pre post u b d hpost]
  exact getContent_encode_fresh cd now b d tb hb hfb hd

/-- **`expired_is_miss`** (base): once `now` is after the base CRL's next-update -/
theorem expired_is_miss_base (pre post : List (Op U D C)) (u : U) (b : D) (d : Option D) (now tb : Int)
    (hops : ∀ op ∈ pre ++ .set u (some b) d :: post, used op.url) (hu : used u)
    (hpost : ∀ op ∈ post, writes op ≠ some u)
    (hb : cd.parse b = some (some tb)) (hxb : now > tb)
    (hd : ∀ dd, d = some dd → (cd.parse dd).isSome) :
    getAfter cd root dg (pre ++ .set u (some b) d :: post) u now = .miss := by
  rw [get_eq_last_stored cd root dg hinj _ hops u hu, lastStored_set cd pre post u b d hpost]
  exact getContent_encode_base_expired cd now b d tb hb hxb hd

/-- **`expired_is_miss`** (delta): the base still fresh, `now` after the delta CRL's next-update -/
theorem expired_is_miss_delta (pre post : List (Op U D C)) (u : U) (b dd : D) (now tb td : Int)
    (hops : ∀ op ∈ pre ++ .set u (some b) (some dd) :: post, used op.url) (hu : used u)
    (hpost : ∀ op ∈ post, writes op ≠ some u)
    (hb : cd.parse b = some (some tb)) (hfb : now ≤ tb)
    (hd : cd.parse dd = some (some td)) (hxd : now > td) :
    getAfter cd root dg (pre ++ .set u (some b) (some dd) :: post) u now = .miss := by
  rw [get_eq_last_stored cd root dg hinj _ hops u hu, lastStored_set cd pre post u b (some dd) hpost]
  exact getContent_encode_delta_expired cd now b dd tb td hb hfb hd hxd

/-- **`last_write_wins`**: of two stores under the same URL only the later one matters -
the read is the same as if the cache had only ever seen the later store. -/
theorem last_write_wins (pre mid post : List (Op U D C)) (u : U) (b₁ b₂ : D) (d₁ d₂ : Option D) (now : Int)
    (hops : ∀ op ∈ pre ++ .set u (some b₁) d₁ :: (mid ++ .set u (some b₂) d₂ :: post), used op.url)
    (hu : used u) (hpost : ∀ op ∈ post, writes op ≠ some u) :
    getAfter cd root dg (pre ++ .set u (some b₁) d₁ :: (mid ++ .set u (some b₂) d₂ :: post)) u now =
      getContent cd now (cd.encode b₂ d₂) := by
  rw [get_eq_last_stored cd root dg hinj _ hops u hu]
  have e : pre ++ .set u (some b₁) d₁ :: (mid ++ .set u (some b₂) d₂ :: post) =
      (pre ++ .set u (some b₁) d₁ :: mid) ++ .set u (some b₂) d₂ :: post := by simp
  rw [e, lastStored_set cd _ post u b₂ d₂ hpost]

/-- **`distinct_urls_isolated`**: under digest injectivity on the URLs in use, the answer for `u`
is the answer of the cache that only ever saw the operations on `u` itself: no operation on
any other URL string - however similar - shares or overwrites its entry. -/
theorem distinct_urls_isolated (ops : List (Op U D C)) (hops : ∀ op ∈ ops, used op.url) (u : U) (hu : used u)
    (now : Int) :
    getAfter cd root dg ops u now =
      getAfter cd root dg (ops.filter (fun op => decide (op.url = u))) u now := by
  rw [get_eq_last_stored cd root dg hinj ops hops u hu,
    get_eq_last_stored cd root dg hinj _ (fun op h => hops op (List.mem_filter.1 h).1) u hu]
  unfold lastStored
  rw [finalSpec_filter cd u ops _ (fun _ => none) rfl]

/-- **`malformed_is_error`**: a stored file that does not decode (or whose base / delta bytes
are not a CRL) yields an error at every time, never a bundle -/
theorem malformed_is_error (pre post : List (Op U D C)) (u : U) (c : C) (now : Int)
    (hops : ∀ op ∈ pre ++ .plant u c :: post, used op.url) (hu : used u)
    (hpost : ∀ op ∈ post, writes op ≠ some u)
    (hbad : cd.decode c = none ∨ (∃ b d, cd.decode c = some (b, d) ∧ cd.parse b = none) ∨
      (∃ b dd, cd.decode c = some (b, some dd) ∧ cd.parse dd = none)) :
    getAfter cd root dg (pre ++ .plant u c :: post) u now = .err := by
  rw [get_eq_last_stored cd root dg hinj _ hops u hu, lastStored_plant cd pre post u c hpost]
  exact getContent_malformed cd now c hbad

/-- any bundle any read ever returns is byte-for-byte the well-formed, fresh content last
stored under that URL -/
theorem bundle_is_last_stored (ops : List (Op U D C)) (hops : ∀ op ∈ ops, used op.url) (u : U) (hu : used u)
    (now : Int) (b : D) (d : Option D) (h : getAfter cd root dg ops u now = .bundle b d) :
    ∃ c, lastStored cd ops u = some c ∧ cd.decode c = some (b, d) ∧
      (∃ tb, cd.parse b = some (some tb) ∧ now ≤ tb) ∧
      (∀ dd, d = some dd → ∃ td, cd.parse dd = some (some td) ∧ now ≤ td) := by
  rw [get_eq_last_stored cd root dg hinj ops hops u hu] at h
  cases hl : lastStored cd ops u with
  | none => simp [hl] at h
  | some c =>
    simp only [hl] at h
    exact ⟨c, rfl, bundle_only_if_wellformed_and_fresh cd now c b d h⟩

end Readable

/-! ### (6) the executable instance: every clause of `Holds` is true of the model -/

theorem toOp_url (o : OpJ) : (toOp o).url = o.url := by
  unfold toOp
  cases o.kind <;> rfl

theorem digestOf_lt (i : Input) (u : Nat) (h : u < i.urls.length) : digestOf i u = (i.urls[u]).digest := by
  simp [digestOf, List.getElem?_eq_getElem h]

/-- what the decidable check `wf` gives -/
theorem wf_spec (i : Input) (h : wf i = true) :
    (∀ u, u < i.urls.length → (digestOf i u).length = 32 ∧ ∀ b ∈ digestOf i u, b < 256) ∧
    (∀ u v, u < i.urls.length → v < i.urls.length → digestOf i u = digestOf i v → u = v) ∧
    (∀ o ∈ i.ops, o.url < i.urls.length) := by
  simp only [wf, Bool.and_eq_true, List.all_eq_true, beq_iff_eq, decide_eq_true_eq] at h
  obtain ⟨⟨h1, h2⟩, h3⟩ := h
  refine ⟨?_, ?_, h3⟩
  · intro u hu
    rw [digestOf_lt i u hu]
    exact h1 _ (List.getElem_mem hu)
  · intro u v hu hv he
    rw [digestOf_lt i u hu, digestOf_lt i v hv] at he
    rw [List.nodup_iff_pairwise_ne, List.pairwise_iff_getElem] at h2
    have hlen : (i.urls.map (·.digest)).length = i.urls.length := by simp
    by_cases huv : u = v
    · exact huv
    · exfalso
      rcases Nat.lt_or_gt_of_ne huv with hlt | hgt
      · have := h2 u v (by omega) (by omega) hlt
        simp only [List.getElem_map] at this
        exact this he
      · have := h2 v u (by omega) (by omega) hgt
        simp only [List.getElem_map] at this
        exact this he.symm

/-- **`distinct_urls_isolated`, hypothesis discharged for a well-formed case**: distinct URLs of the
table have distinct entry paths -/
theorem wf_injOn (i : Input) (h : wf i = true) :
    InjOn absRoot (digestOf i) (fun u => u < i.urls.length) := by
  obtain ⟨h1, h2, _⟩ := wf_spec i h
  intro u v hu hv he
  exact h2 u v hu hv (filePath_inj absRoot (digestOf i) u v (h1 u hu).2 (h1 v hv).2 he)

theorem opCheck_spec (st : Nat → Option Content) (op : Op Nat CrlRef Content) :
    (opCheck st op (toOutJ (specOut absCodec st op))).2 = true := by
  cases op with
  | setNil u => simp [opCheck, specOut, toOutJ]
  | set u b d => cases b <;> simp [opCheck, specOut, toOutJ]
  | plant u c => simp [opCheck, specOut, toOutJ]
  | get u now =>
    simp only [opCheck, specOut]
    cases hst : st u with
    | none => simp [toOutJ, getOf]
    | some c =>
      have hm := getContent_meets absCodec now c
      simp only [getOf]
      rw [show getContentWith absCodec.decode absCodec.parse now c = getContent absCodec now c from rfl]
      cases hcl : classify absCodec now c with
      | bundle b d => simp only [hcl] at hm; simp [hm, toOutJ]
      | mustMiss => simp only [hcl] at hm; simp [hm, toOutJ]
      | mustErr => simp only [hcl] at hm; simp [hm, toOutJ]
      | refused =>
        simp only [hcl] at hm
        rcases hm with hm | hm <;> simp [hm, toOutJ]

theorem checks_spec : ∀ (ops : List (Op Nat CrlRef Content)) (st : Nat → Option Content),
    ∀ p ∈ checks st ops ((specExec absCodec st ops).map toOutJ), p.2 = true := by
  intro ops
  induction ops with
  | nil => intro st p hp; simp [checks] at hp
  | cons op ops ih =>
    intro st p hp
    simp only [specExec, List.map_cons, checks, List.mem_cons] at hp
    rcases hp with hp | hp
    · rw [hp]; exact opCheck_spec st op
    · exact ih _ p hp

theorem sel_true (cs : List (Cat × Bool)) (h : ∀ p ∈ cs, p.2 = true) (c : Cat) :
    cs.all (fun p => p.1 != c || p.2) = true := by
  rw [List.all_eq_true]
  intro p hp
  simp [h p hp]

/-- **C15, the whole property**: for every well-formed case (digests of 32 bytes, pairwise
distinct on the URL table, operations naming table URLs - `wf` is decidable and is itself the
first clause, so every generated case is checked to satisfy it) every clause of `Holds` is true
of the model's behaviour, for operation sequences of any length. -/
theorem model_holds (i : Input) (h : wf i = true) : Holds i (run i) = true := by
  obtain ⟨hdig, _, hopsJ⟩ := wf_spec i h
  have hinj := wf_injOn i h
  have hused : ∀ op ∈ i.ops.map toOp, op.url < i.urls.length := by
    intro op hop
    obtain ⟨o, ho, rfl⟩ := List.mem_map.1 hop
    rw [toOp_url]; exact hopsJ o ho
  have href := exec_refines absCodec absRoot (digestOf i) hinj (i.ops.map toOp) [] emptyStore
    (by intro u _; rfl) hused
  have hkeys : ∀ e ∈ (exec absCodec absRoot (digestOf i) [] (i.ops.map toOp)).1,
      ∃ u, u < i.urls.length ∧ e.1 = filePath absRoot (digestOf i) u := by
    intro e he
    rcases exec_keys absCodec absRoot (digestOf i) _ [] e he with h' | ⟨op, hop, he'⟩
    · simp at h'
    · exact ⟨op.url, hused op hop, he'⟩
  have hchecks := checks_spec (i.ops.map toOp) emptyStore
  rw [← href.1] at hchecks
  unfold Holds clauses
  simp only [Clauses.holds_cons, Clauses.holds_nil, Bool.and_true, Bool.and_eq_true]
  refine ⟨h, ?_, ⟨sel_true _ hchecks _, sel_true _ hchecks _⟩, sel_true _ hchecks _, sel_true _ hchecks _,
    sel_true _ hchecks _, sel_true _ hchecks _, sel_true _ hchecks _, sel_true _ hchecks _, ⟨?_, ?_⟩, ?_, ?_⟩
  · simp [run, exec_length]
  · -- which entry files exist = which URLs have something stored
    simp only [run, tablePaths, List.map_map, beq_iff_eq]
    apply List.map_congr_left
    intro u hu
    have hu' : u < i.urls.length := List.mem_range.1 hu
    simp only [Function.comp]
    rw [href.2 u hu']
  · -- nothing else lives in the root
    simp only [run, beq_iff_eq, List.countP_eq_zero]
    intro e he
    obtain ⟨u, hu, heq⟩ := hkeys e he
    have hmem : e.1 ∈ tablePaths i := by
      simp only [tablePaths, List.mem_map, List.mem_range]
      exact ⟨u, hu, heq.symm⟩
    simp [hmem]
  · simp only [run, List.all_eq_true]
    intro e he
    obtain ⟨u, hu, heq⟩ := hkeys e he
    rw [heq]
    exact filePath_isCachePath absRoot (digestOf i) u (hdig u hu).1
  · simp only [run, Bool.not_eq_true', List.any_eq_false]
    intro e he
    obtain ⟨u, hu, heq⟩ := hkeys e he
    rw [heq, filePath_under_root]
    simp

/-! #### readable consequences for the executable instance -/

/-- the model's results are exactly those of the map `URL index → Option content` -/
theorem run_results_refine (i : Input) (h : wf i = true) :
    (run i).results = (specExec absCodec emptyStore (i.ops.map toOp)).map toOutJ := by
  have hused : ∀ op ∈ i.ops.map toOp, op.url < i.urls.length := by
    intro op hop
    obtain ⟨o, ho, rfl⟩ := List.mem_map.1 hop
    rw [toOp_url]; exact (wf_spec i h).2.2 o ho
  have href := exec_refines absCodec absRoot (digestOf i) (wf_injOn i h) (i.ops.map toOp) [] emptyStore
    (by intro u _; rfl) hused
  simp only [run]
  rw [href.1]

theorem run_confined (i : Input) (h : wf i = true) :
    (run i).allHex = true ∧ (run i).outsideChanged = false ∧ (run i).stray = 0 := by
  have := model_holds i h
  simp only [Holds, clauses, Clauses.holds_cons, Clauses.holds_nil, Bool.and_true, Bool.and_eq_true,
    beq_iff_eq, Bool.not_eq_true'] at this
  obtain ⟨_, _, _, _, _, _, _, _, _, ⟨_, h10⟩, h11, h12⟩ := this
  exact ⟨h11, h12, h10⟩

/-! #### non-vacuity -/

def exDigest (k : Nat) : List Nat := k :: List.replicate 31 7

def exFresh : CrlRef := { id := 0, parses := true, nextUpdate := some 75 }
def exDelta : CrlRef := { id := 1, parses := true, nextUpdate := some 3600 }
def exExpired : CrlRef := { id := 2, parses := true, nextUpdate := some (-75) }

def exOp (k : Kind) (u : Nat) (b d : Option CrlRef) (ok : Bool := false) : OpJ :=
  { kind := k, url := u, base := b, delta := d, now := 0, jsonOk := ok, what := "" }

/-- two near-identical URLs; store under the first, read both, overwrite with an expired CRL,
plant an undecodable file under the second -/
def exInput : Input :=
  { urls := [{ text := "http://a/crl", digest := exDigest 1 }, { text := "http://a/crl/", digest := exDigest 2 }],
    ops := [exOp .set 0 (some exFresh) (some exDelta), exOp .get 0 none none, exOp .get 1 none none,
            exOp .set 0 (some exExpired) none, exOp .get 0 none none,
            exOp .plant 1 none none, exOp .get 1 none none, exOp .setNil 1 none none] }

example : wf exInput = true := by decide

example : run exInput =
    { results := [⟨.ok, none, none⟩, ⟨.bundle, some 0, some 1⟩, ⟨.miss, none, none⟩, ⟨.ok, none, none⟩,
                  ⟨.miss, none, none⟩, ⟨.ok, none, none⟩, ⟨.err, none, none⟩, ⟨.err, none, none⟩],
      present := [true, true], stray := 0, files := 2, allHex := true, outsideChanged := false } := by decide

example : Holds exInput (run exInput) = true := by decide

/-- a cache that answers the near-identical URL from the first URL's entry violates the property -/
example : Holds exInput
    { results := [⟨.ok, none, none⟩, ⟨.bundle, some 0, some 1⟩, ⟨.bundle, some 0, some 1⟩, ⟨.ok, none, none⟩,
                  ⟨.miss, none, none⟩, ⟨.ok, none, none⟩, ⟨.err, none, none⟩, ⟨.err, none, none⟩],
      present := [true, true], stray := 0, files := 2, allHex := true, outsideChanged := false } = false := by decide

/-- ... and so does one that keeps serving an expired CRL -/
example : Holds exInput
    { results := [⟨.ok, none, none⟩, ⟨.bundle, some 0, some 1⟩, ⟨.miss, none, none⟩, ⟨.ok, none, none⟩,
                  ⟨.bundle, some 2, none⟩, ⟨.ok, none, none⟩, ⟨.err, none, none⟩, ⟨.err, none, none⟩],
      present := [true, true], stray := 0, files := 2, allHex := true, outsideChanged := false } = false := by decide

/-- ... one that returns other bytes than were stored, one that writes a file with another name,
and one that touches something outside the root -/
example : Holds exInput
    { results := [⟨.ok, none, none⟩, ⟨.bundle, some 0, none⟩, ⟨.miss, none, none⟩, ⟨.ok, none, none⟩,
                  ⟨.miss, none, none⟩, ⟨.ok, none, none⟩, ⟨.err, none, none⟩, ⟨.err, none, none⟩],
      present := [true, true], stray := 0, files := 2, allHex := true, outsideChanged := false } = false := by decide

example : Holds exInput { (run exInput) with stray := 1, files := 3, allHex := false } = false := by decide
example : Holds exInput { (run exInput) with outsideChanged := true } = false := by decide

/-- a case whose digests collide is rejected by the first clause, not silently accepted -/
example : Holds { exInput with urls := [{ text := "a", digest := exDigest 1 }, { text := "b", digest := exDigest 1 }] }
    (run exInput) = false := by decide

/-- the file name of a traversal-shaped URL is plain hex -/
example : fileName exDigest 255 =
    "ff07070707070707070707070707070707070707070707070707070707070707".toList := by decide

/-! ### (7) tie to the translated source

`Generated/SrcC15.lean` is produced on every run by `extract/go2lean.go` from
verifier/crl/crl.go: `FileCache.fileName`, `checkExpiry`, `FileCache.Get`, `FileCache.Set` as Lean
`Id.run do` blocks over the oracles of `Src/TypesC15.lean` (`crl.Env`: os.ReadFile, json.Unmarshal,
json.Marshal, x509.ParseRevocationList, file.WriteFile, sha256.Sum256, time.Now). The theorems
below hold for ALL inputs and ALL oracle answers; they never quote the generated text. -/

namespace Tie
open NotationModel.Src

theorem hextable_eq : hex.hextable = hexChars := by decide

theorem encodeToString_toList (bs : Bytes) : (hex.EncodeToString bs).toList = C15.hex bs := by
  unfold hex.EncodeToString
  rw [String.toList_ofList, hextable_eq]
  induction bs with
  | nil => rfl
  | cons b bs ih => simp only [List.flatMap_cons, ih]; simp [C15.hex, hexDigit]

theorem source_fileName_refines_model (env : crl.Env) (c : crl.FileCache) (url : String) :
    (crl.FileCache.fileName env c url).toList = C15.fileName env.sum256 url := by
  unfold crl.FileCache.fileName
  simp [Id.run, GoLite.idPure, C15.fileName, encodeToString_toList]

def pathOf (env : crl.Env) (c : crl.FileCache) (url : String) : String :=
  filepath.Join c.root (crl.FileCache.fileName env c url)

theorem source_path_refines_model (env : crl.Env) (c : crl.FileCache) (url : String) :
    (pathOf env c url).toList = filePath c.root.toList env.sum256 url := by
  simp [pathOf, filepath.Join, filePath, source_fileName_refines_model]

def expiryOf : Option GoLite.Err → Expiry
  | none => .fresh
  | some e => if e = corecrl.ErrCacheMiss then .expired else .invalid

theorem source_checkExpiry_refines_model (env : crl.Env) (ctx : context.Context) (nu : time.Time) :
    expiryOf (crl.checkExpiry env ctx nu) = C15.checkExpiry env.now nu.instant := by
  obtain ⟨inst⟩ := nu
  unfold crl.checkExpiry
  cases inst with
  | none => simp [Id.run, GoLite.idPure, time.Time.IsZero, C15.checkExpiry, expiryOf, GoLite.errorf, corecrl.ErrCacheMiss]
  | some t =>
    by_cases hlt : env.now > t <;>
      simp [Id.run, GoLite.idPure, time.Time.IsZero, time.Time.After, crl.Env.Now, time.atUnix, C15.checkExpiry, expiryOf, hlt]

/-- what a caller sees of `Get`: a bundle, a miss (`errors.Is(err, ErrCacheMiss)`), or an error -/
inductive Res | hit (b : corecrl.Bundle) | miss | error
  deriving DecidableEq, Repr

def resOf (r : Option corecrl.Bundle × Option GoLite.Err) : Res :=
  match r.2 with
  | some e => if e = corecrl.ErrCacheMiss then .miss else .error
  | none =>
    match r.1 with
    | some b => .hit b
    | none => .error

/-- the model's `decode` / `parse` read off the oracles (`D` = a possibly-nil byte slice) -/
def decodeOf (env : crl.Env) (c : Bytes) : Option (Option Bytes × Option (Option Bytes)) :=
  match env.unmarshal c with
  | .ok ct => some (ct.BaseCRL, ct.DeltaCRL.map some)
  | .error _ => none

def crlOf (env : crl.Env) (der : Option Bytes) : Option x509.RevocationList :=
  match env.parse der with
  | .ok rl => some rl
  | .error _ => none

def parseOf (env : crl.Env) (der : Option Bytes) : Option (Option Int) :=
  (crlOf env der).map (·.NextUpdate.instant)

/-- the model's result as a caller of the Go function would see it -/
def ofModel (env : crl.Env) : Out (Option Bytes) → Res
  | .bundle b d => .hit { BaseCRL := crlOf env b, DeltaCRL := d.bind (crlOf env) }
  | .miss => .miss
  | _ => .error

/-- the library oracles never return the cache's own miss sentinel -/
def LibSane (env : crl.Env) : Prop :=
  (∀ p e, env.read p = .error e → e ≠ corecrl.ErrCacheMiss) ∧
  (∀ b e, env.unmarshal b = .error e → e ≠ corecrl.ErrCacheMiss) ∧
  (∀ b e, env.parse b = .error e → e ≠ corecrl.ErrCacheMiss)

theorem bundle_default : (default : corecrl.Bundle) = { BaseCRL := none, DeltaCRL := none } := rfl
theorem content_default : (default : crl.fileCacheContent) = { BaseCRL := none, DeltaCRL := none } := rfl

/-- unfold the oracle wrappers, the result views and the model's read function; the hypotheses
about the oracle answers of the case at hand are passed as extra lemmas -/
local macro "get_simp" "[" ts:Lean.Parser.Tactic.simpLemma,* "]" : tactic =>
  `(tactic| simp [Id.run, GoLite.idPure, crl.Env.ReadFile, crl.Env.Unmarshal, crl.Env.ParseRevocationList, crl.pair,
      errors.Is, resOf, ofModel, getOf, getContentWith, decodeOf, parseOf, crlOf, GoLite.wrapf, GoLite.deref,
      bundle_default, content_default, expiryOf, $ts,*])

theorem source_Get_refines_model (env : crl.Env) (c : crl.FileCache) (ctx : context.Context) (url : String)
    (h : LibSane env) :
    resOf (crl.FileCache.Get env c ctx url) =
      match env.read (pathOf env c url) with
      | .error e => if e = fs.ErrNotExist then ofModel env (getOf (decodeOf env) (parseOf env) env.now none) else .error
      | .ok bytes => ofModel env (getOf (decodeOf env) (parseOf env) env.now (some bytes)) := by
  obtain ⟨hr, hu, hp⟩ := h
  have hce := source_checkExpiry_refines_model env ctx
  unfold crl.FileCache.Get pathOf
  cases hread : env.read (filepath.Join c.root (crl.FileCache.fileName env c url)) with
  | error e =>
    have := hr _ _ hread
    by_cases he : e = fs.ErrNotExist <;> get_simp [hread, he, this]
  | ok bytes =>
    cases hun : env.unmarshal bytes with
    | error e =>
      have := hu _ _ hun
      get_simp [hread, hun, this]
    | ok ct =>
      cases hpb : env.parse ct.BaseCRL with
      | error e =>
        have := hp _ _ hpb
        get_simp [hread, hun, hpb, this]
      | ok rlb =>
        have hb := hce rlb.NextUpdate
        cases hd : ct.DeltaCRL with
        | none =>
          cases hcb : crl.checkExpiry env ctx rlb.NextUpdate with
          | none => rw [hcb] at hb; get_simp [hread, hun, hpb, hd, hcb, ← hb]
          | some e =>
            rw [hcb] at hb
            by_cases hm : e = corecrl.ErrCacheMiss <;> get_simp [hread, hun, hpb, hd, hcb, ← hb, hm]
        | some dd =>
          cases hpd : env.parse (some dd) with
          | error e =>
            have := hp _ _ hpd
            get_simp [hread, hun, hpb, hd, hpd, this]
          | ok rld =>
            have hdl := hce rld.NextUpdate
            cases hcb : crl.checkExpiry env ctx rlb.NextUpdate with
            | some e =>
              rw [hcb] at hb
              by_cases hm : e = corecrl.ErrCacheMiss <;> get_simp [hread, hun, hpb, hd, hpd, hcb, ← hb, hm]
            | none =>
              rw [hcb] at hb
              cases hcd : crl.checkExpiry env ctx rld.NextUpdate with
              | none => rw [hcd] at hdl; get_simp [hread, hun, hpb, hd, hpd, hcb, hcd, ← hb, ← hdl]
              | some e =>
                rw [hcd] at hdl
                by_cases hm : e = corecrl.ErrCacheMiss <;> get_simp [hread, hun, hpb, hd, hpd, hcb, hcd, ← hb, ← hdl, hm]

/-- the model operation a Go call `Set(ctx, url, bundle)` is: the cache stores `Raw` bytes -/
def opOf (url : String) (bundle : Option corecrl.Bundle) : Op String Bytes Bytes :=
  match bundle with
  | none => .setNil url
  | some b => .set url (b.BaseCRL.map (·.Raw)) (b.DeltaCRL.map (·.Raw))

def contentOf (b : Bytes) (d : Option Bytes) : crl.fileCacheContent := { BaseCRL := some b, DeltaCRL := d }

/-- `Set`, oracle by oracle: refusals answer with a plain error before any oracle is consulted;
otherwise `{BaseCRL: base.Raw, DeltaCRL: delta.Raw if present}` is marshalled and
`file.WriteFile(root, root/fileName(url), bytes)` is called, whose answer is the result. -/
theorem source_Set_decision (env : crl.Env) (c : crl.FileCache) (ctx : context.Context) (url : String)
    (bundle : Option corecrl.Bundle) :
    crl.FileCache.Set env c ctx url bundle =
      match opOf url bundle with
      | .set _ (some b) d =>
        match env.marshal (contentOf b d) with
        | .error e => some e
        | .ok bytes => env.write c.root (pathOf env c url) bytes
      | _ => some ⟨"error"⟩ := by
  unfold crl.FileCache.Set pathOf
  cases bundle with
  | none => simp [Id.run, GoLite.idPure, opOf, GoLite.errorf]
  | some b =>
    obtain ⟨base, delta⟩ := b
    cases base with
    | none => simp [Id.run, GoLite.idPure, opOf, GoLite.errorf, GoLite.deref]
    | some rb =>
      cases delta with
      | none =>
        cases hm : env.marshal (contentOf rb.Raw none) with
        | error e =>
          simp [contentOf] at hm
          simp [Id.run, GoLite.idPure, opOf, GoLite.errorf, GoLite.deref, GoLite.wrapf, crl.Env.Marshal, crl.pair, contentOf, hm]
        | ok bytes =>
          simp [contentOf] at hm
          cases hw : env.write c.root (filepath.Join c.root (crl.FileCache.fileName env c url)) bytes <;>
            simp [Id.run, GoLite.idPure, opOf, GoLite.errorf, GoLite.deref, GoLite.wrapf, crl.Env.Marshal, crl.Env.WriteFile,
              crl.pair, contentOf, hm, hw]
      | some rd =>
        cases hm : env.marshal (contentOf rb.Raw (some rd.Raw)) with
        | error e =>
          simp [contentOf] at hm
          simp [Id.run, GoLite.idPure, opOf, GoLite.errorf, GoLite.deref, GoLite.wrapf, crl.Env.Marshal, crl.pair, contentOf, hm]
        | ok bytes =>
          simp [contentOf] at hm
          cases hw : env.write c.root (filepath.Join c.root (crl.FileCache.fileName env c url)) bytes <;>
            simp [Id.run, GoLite.idPure, opOf, GoLite.errorf, GoLite.deref, GoLite.wrapf, crl.Env.Marshal, crl.Env.WriteFile,
              crl.pair, contentOf, hm, hw]

/-- TIE: `FileCache.Set` against the model's `step` on `.setNil` / `.set`, for every codec whose
`encode` is what `json.Marshal` yields: either both refuse (plain error, directory unchanged), or
the model writes `encode base delta` to `root/fileName(url)` and answers ok, and the source calls
`file.WriteFile` with temp dir = root on that very path with that very content and returns its
answer (nil = ok). -/
theorem source_Set_refines_model (env : crl.Env) (c : crl.FileCache) (ctx : context.Context) (url : String)
    (bundle : Option corecrl.Bundle) (cd : Codec Bytes Bytes)
    (henc : ∀ b d, env.marshal (contentOf b d) = .ok (cd.encode b d)) (fs : FS Bytes) :
    ((step cd c.root.toList env.sum256 fs (opOf url bundle)).2 = .err ∧
      (step cd c.root.toList env.sum256 fs (opOf url bundle)).1 = fs ∧
      crl.FileCache.Set env c ctx url bundle = some ⟨"error"⟩) ∨
    (∃ b d, (step cd c.root.toList env.sum256 fs (opOf url bundle)) =
        (fs.write (pathOf env c url).toList (cd.encode b d), .ok) ∧
      crl.FileCache.Set env c ctx url bundle = env.write c.root (pathOf env c url) (cd.encode b d)) := by
  rw [source_Set_decision, source_path_refines_model]
  cases bundle with
  | none => left; simp [opOf, step]
  | some bb =>
    obtain ⟨base, delta⟩ := bb
    cases base with
    | none => left; simp [opOf, step]
    | some rb => right; exact ⟨rb.Raw, delta.map (·.Raw), by simp [opOf, step], by simp [opOf, henc]⟩

/-- TIE, the same against the model's `step`: for every codec whose `decode` / `parse` are the
oracles' and every directory that holds at `root/fileName(url)` what `os.ReadFile` finds there
(nothing = `fs.ErrNotExist`), the translated `Get` answers hit / miss / error exactly as the
model's `.get` operation at time `now`. -/
theorem source_Get_refines_step (env : crl.Env) (c : crl.FileCache) (ctx : context.Context) (url : String)
    (h : LibSane env) (cd : Codec (Option Bytes) Bytes) (hdec : cd.decode = decodeOf env)
    (hparse : cd.parse = parseOf env) (dir : FS Bytes)
    (hfs : match env.read (pathOf env c url) with
      | .ok bytes => dir.read (pathOf env c url).toList = some bytes
      | .error e => e = fs.ErrNotExist ∧ dir.read (pathOf env c url).toList = none) :
    resOf (crl.FileCache.Get env c ctx url) =
      ofModel env (step cd c.root.toList env.sum256 dir (.get url env.now)).2 := by
  rw [source_Get_refines_model env c ctx url h]
  simp only [step, ← source_path_refines_model, hdec, hparse]
  cases hread : env.read (pathOf env c url) with
  | error e => rw [hread] at hfs; simp [hfs.1, hfs.2]
  | ok bytes => rw [hread] at hfs; simp [hfs]

/-! #### non-vacuity: the translated functions run -/

def exEnv : crl.Env :=
  { now := 100, sum256 := fun _ => List.replicate 32 171, read := fun _ => .ok [1],
    unmarshal := fun _ => .ok { BaseCRL := some [2], DeltaCRL := none },
    marshal := fun _ => .ok [9], parse := fun _ => .ok { Raw := [2], NextUpdate := ⟨some 200⟩ },
    write := fun _ _ _ => none }

example : crl.FileCache.fileName exEnv ⟨"/r"⟩ "../../etc/passwd" =
    "abababababababababababababababababababababababababababababababab" := by decide
example : crl.checkExpiry exEnv () ⟨some 100⟩ = none := by decide            -- the boundary instant is fresh
example : crl.checkExpiry exEnv () ⟨some 99⟩ = some corecrl.ErrCacheMiss := by decide
example : (crl.checkExpiry exEnv () ⟨none⟩).isSome = true := by decide
example : resOf (crl.FileCache.Get exEnv ⟨"/r"⟩ () "u") =
    .hit { BaseCRL := some { Raw := [2], NextUpdate := ⟨some 200⟩ }, DeltaCRL := none } := by decide
example : resOf (crl.FileCache.Get { exEnv with now := 201 } ⟨"/r"⟩ () "u") = .miss := by decide
example : resOf (crl.FileCache.Get { exEnv with read := fun _ => .error fs.ErrNotExist } ⟨"/r"⟩ () "u") = .miss := by decide
example : resOf (crl.FileCache.Get { exEnv with unmarshal := fun _ => .error ⟨"json"⟩ } ⟨"/r"⟩ () "u") = .error := by decide
example : crl.FileCache.Set exEnv ⟨"/r"⟩ () "u" none = some ⟨"error"⟩ := by decide
example : crl.FileCache.Set exEnv ⟨"/r"⟩ () "u" (some { BaseCRL := some { Raw := [2], NextUpdate := ⟨some 200⟩ } }) = none := by decide

end Tie

end NotationModel.C15

/-
C01, third module of theorems (picked up by `check` as `Props/C01_*.lean`): the tie of the translated
`(*verifier).VerifyBlob` (verifier/verifier.go, `Generated/SrcVerifyBlobV.lean`, regenerated on every run),
as a WHOLE, to the model's `core` for the blob entry point. Oracles (`Src/TypesVerifyBlob.lean`): the two
statement lookups of the blob policy document (global when no name is given, else by name),
`processSignature` (tied on its own in Props/C02_Process.lean), `json.Unmarshal` of the payload, the
caller's descriptor generator; `verifyUserMetadata`, `GetVerificationLevel` and the table `algorithms`
(hash of the signature algorithm -> digest algorithm) are the translated ones.
-/
import NotationModel.Props.C01_Verify
import NotationModel.Generated.SrcVerifyBlobV

set_option linter.unusedSimpArgs false
set_option linter.unusedVariables false

namespace NotationModel.C01.TieB
open NotationModel.Src NotationModel.Src.verifier NotationModel.Src.verifier.blob
open NotationModel.C01.Tie (descOfD descOf source_verifyUserMetadata_refines_model)

/-- the outcome `VerifyBlob` creates before anything is looked at -/
def outcome0 (signature : Src.«notation».SigBlob) (lvl : Option Src.trustpolicy.VerificationLevel) : blob.«notation».VerificationOutcome :=
  { (default : blob.«notation».VerificationOutcome) with RawSignature := signature, VerificationLevel := lvl }

/-- the statement lookup `VerifyBlob` makes: the global statement when no name is given, else the named one -/
def lookupB (d : DocB) (opts : OptsB) : Option blob.trustpolicy.BlobTrustPolicy × Option GoLite.Err :=
  if opts.TrustPolicyName == "" then d.GetGlobalTrustPolicy else d.GetApplicableTrustPolicy opts.TrustPolicyName

/-- the scenario of the model that a call of `VerifyBlob` under an applicable statement amounts to. The descriptor under
verification is the one the caller's generator yields for the digest algorithm bound to the signature algorithm;
`hashSupported` is false when there is no such digest algorithm OR the generator fails (the model rejects both alike,
with the outcome's error set) -/
def toInputB (env : EnvB) (gen : digest.Algorithm → ocispec.Descriptor × Option GoLite.Err)
    (signature : Src.«notation».SigBlob) (opts : OptsB) (tp : blob.trustpolicy.BlobTrustPolicy) : Input :=
  let lvl := (Src.trustpolicy.GetVerificationLevel tp.SignatureVerification).1
  let ps := env.processSignature signature opts.SignatureMediaType tp.Name tp.TrustedIdentities tp.TrustStores
    tp.SignatureVerification opts.PluginConfig (outcome0 signature lvl)
  let um := env.unmarshal ps.2.EnvelopeContent.Payload.Content default
  let lk := GoLite.Map.lookup verifier.algorithms ps.2.EnvelopeContent.SignerInfo.SignatureAlgorithm.Hash
  let g := gen lk.1
  { kind := .blob, skip := reflect.DeepEqual lvl Src.trustpolicy.LevelSkip,
    parseOk := true, integrityOk := true, payloadTypeOk := true, rest := ps.1.isNone,
    decoded := if um.1.isNone then some (descOf um.2) else none,
    artifact := descOfD g.1, hashSupported := lk.2 && g.2.isNone, required := opts.UserMetadata,
    reader := "", viaRegistry := false, refDigest := none, resolveOk := true, refForm := "", plugin := false,
    blobLen := 0, boundary := 0 }

/-- what the tie compares: was an error returned, and does the returned outcome carry one -/
def viewB (r : Option blob.«notation».VerificationOutcome × Option GoLite.Err) : Bool × Option Bool :=
  (r.2.isNone, r.1.map (fun o => o.Error.isSome))

theorem defaultOutcomeError : (default : blob.«notation».VerificationOutcome).Error = none := rfl

theorem outcome0_eq (s : Src.«notation».SigBlob) (l : Option Src.trustpolicy.VerificationLevel) :
    ({ RawSignature := s, VerificationLevel := l,
       EnvelopeContent := (default : blob.«notation».VerificationOutcome).EnvelopeContent,
       Error := (default : blob.«notation».VerificationOutcome).Error } : blob.«notation».VerificationOutcome) = outcome0 s l := rfl

set_option hygiene false in
/-- the part of the proof after the statement lookup `q`, the same for both lookups -/
macro "vb_tail " q:term : tactic => `(tactic| (
  by_cases hp : (($q).2.isSome) = true
  · simp [hp, viewB, GoLite.idPure]
  · simp only [hp, Bool.false_eq_true, if_false, pure_bind]
    unfold toInputB
    simp only [outcome0_eq]
    by_cases hs : reflect.DeepEqual (Src.trustpolicy.GetVerificationLevel ((($q).1).getD default).SignatureVerification).1 Src.trustpolicy.LevelSkip = true
    · simp [hs, viewB, GoLite.idPure, core, outcome0, defaultOutcomeError]
    · simp only [hs, Bool.false_eq_true, if_false]
      cases hps : env.processSignature signature opts.SignatureMediaType ((($q).1).getD default).Name ((($q).1).getD default).TrustedIdentities
        ((($q).1).getD default).TrustStores ((($q).1).getD default).SignatureVerification opts.PluginConfig
        (outcome0 signature (Src.trustpolicy.GetVerificationLevel ((($q).1).getD default).SignatureVerification).1) with
      | mk pe o1 =>
        simp only [hps]
        by_cases hpe : pe.isSome = true
        · simp [hpe, viewB, GoLite.idPure, core, hs, reject]
          try (cases pe <;> simp_all [reject])
        · simp only [hpe, Bool.false_eq_true, if_false]
          cases hum : env.unmarshal o1.EnvelopeContent.Payload.Content default with
          | mk ue pl =>
            simp only [hum]
            by_cases hue : ue.isSome = true
            · simp [hue, viewB, GoLite.idPure, core, hs, hpe, reject]
              try (cases ue <;> simp_all [reject])
            · have hue' : ue.isNone = true := by cases ue <;> simp_all
              have hpe' : pe.isNone = true := by cases pe <;> simp_all
              simp only [hue, Bool.false_eq_true, if_false]
              have ho1 : o1.Error = none := by
                have := hErr signature opts.SignatureMediaType ((($q).1).getD default).Name ((($q).1).getD default).TrustedIdentities
                  ((($q).1).getD default).TrustStores ((($q).1).getD default).SignatureVerification opts.PluginConfig
                  (outcome0 signature (Src.trustpolicy.GetVerificationLevel ((($q).1).getD default).SignatureVerification).1)
                rw [hps] at this
                simpa [outcome0, defaultOutcomeError] using this
              cases hlk : GoLite.Map.lookup verifier.algorithms o1.EnvelopeContent.SignerInfo.SignatureAlgorithm.Hash with
              | mk da ok =>
                simp only [hlk]
                cases hg : gen da with
                | mk desc gerr =>
                  simp only [hg]
                  have hm := source_verifyUserMetadata_refines_model pl opts.UserMetadata
                  have hlen : decide (GoLite.len opts.UserMetadata > 0) = !opts.UserMetadata.isEmpty := by
                    cases opts.UserMetadata with
                    | nil => rfl
                    | cons x l =>
                      simp only [GoLite.len, List.length_cons, List.isEmpty_cons, Bool.not_false, decide_eq_true_eq]
                      omega
                  have hbm : (desc.Digest != pl.TargetArtifact.Digest || desc.Size != pl.TargetArtifact.Size ||
                      desc.MediaType != "" && desc.MediaType != pl.TargetArtifact.MediaType) = blobMismatch (descOf pl) (descOfD desc) := rfl
                  simp only [hlen, hbm]
                  have h3' : (verifyUserMetadata pl opts.UserMetadata).isSome = !metadataOk (descOf pl) opts.UserMetadata := by
                    rw [← hm]; cases verifyUserMetadata pl opts.UserMetadata <;> rfl
                  cases ok <;>
                  by_cases hge : gerr.isSome = true <;>
                  by_cases h1 : blobMismatch (descOf pl) (descOfD desc) = true <;>
                  by_cases h2 : opts.UserMetadata.isEmpty = true <;>
                  by_cases h3 : metadataOk (descOf pl) opts.UserMetadata = true <;>
                  simp [hge, h1, h2, h3, h3', ho1, viewB, GoLite.idPure, core, hs, hpe', hue', reject, GoLite.errorf] <;>
                  (try (cases hv : verifyUserMetadata pl opts.UserMetadata <;> simp_all [reject]))))

/-- TIE (translated source): `(*verifier).VerifyBlob` as a whole. Without a blob policy document, or when the lookup it
makes (the GLOBAL statement for an empty name, else the statement of that name - `lookupB`) fails, it returns an error
and no outcome; otherwise, for EVERY behaviour of `processSignature`, every decoding of the payload, every signature
algorithm, every descriptor generator and every required-metadata map, it returns no error exactly when the model's
`core` accepts the scenario, and the outcome it returns carries an error exactly when the model says so.
`hPtr`: a lookup that reports no error hands back a statement (Go would dereference nil otherwise; `GoLite.deref`
totalises that case, so it is excluded here). -/
theorem source_VerifyBlobWhole_refines_model (env : EnvB) (v : VerifierB)
    (gen : digest.Algorithm → ocispec.Descriptor × Option GoLite.Err)
    (signature : Src.«notation».SigBlob) (opts : OptsB)
    (hErr : ∀ a b c d e f g o, (env.processSignature a b c d e f g o).2.Error = o.Error)
    (hPtr : ∀ d, v.blobTrustPolicyDoc = some d → (lookupB d opts).2 = none → (lookupB d opts).1.isSome = true) :
    match v.blobTrustPolicyDoc with
    | none => viewB (VerifyBlob env v gen signature opts) = (false, none)
    | some d =>
      if (lookupB d opts).2.isSome then
        viewB (VerifyBlob env v gen signature opts) = (false, none)
      else
        viewB (VerifyBlob env v gen signature opts) =
          ((core (toInputB env gen signature opts (GoLite.deref (lookupB d opts).1))).accepted,
           (core (toInputB env gen signature opts (GoLite.deref (lookupB d opts).1))).outcomeError) := by
  unfold VerifyBlob
  simp only [Id.run]
  cases hd : v.blobTrustPolicyDoc with
  | none => simp [viewB, GoLite.idPure]
  | some d =>
    simp only [Option.isNone_some, Bool.false_eq_true, if_false, GoLite.deref, Option.getD_some]
    obtain ⟨gg, ga⟩ := d
    clear hd
    by_cases hn : (opts.TrustPolicyName == "") = true
    · simp only [hn, lookupB, if_true]
      vb_tail gg
    · simp only [hn, lookupB, Bool.false_eq_true, if_false]
      vb_tail (ga opts.TrustPolicyName)

/-! non-vacuity: the translated `VerifyBlob` on concrete oracles -/
section Examples
def tpB : blob.trustpolicy.BlobTrustPolicy := ⟨"p", ["*"], ["ca:s"], ⟨"strict", []⟩⟩
def tpG : blob.trustpolicy.BlobTrustPolicy := ⟨"g", ["*"], ["ca:s"], ⟨"audit", []⟩⟩
def docB : DocB :=
  ⟨(some tpG, none), fun n => if n == "p" then (some tpB, none) else (none, some ⟨"no such statement"⟩)⟩
def vB : VerifierB := ⟨some docB⟩
def blobDesc : ocispec.Descriptor := { MediaType := "", Digest := "sha384:a", Size := 3, Annotations := [] }
def envB (alg : signature.Algorithm) (signed : ocispec.Descriptor) : EnvB :=
  { processSignature := fun _ _ _ _ _ _ _ o => (none, { o with EnvelopeContent := ⟨⟨"payload"⟩, ⟨alg⟩⟩ }),
    unmarshal := fun _ _ => (none, { TargetArtifact := signed }) }
def genB (a : digest.Algorithm) : ocispec.Descriptor × Option GoLite.Err :=
  if a == digest.SHA384 then (blobDesc, none) else ({ blobDesc with Digest := "sha256:a" }, none)
def optsB (name : String) (um : GoLite.Map String String) : OptsB :=
  { SignatureMediaType := "jws", PluginConfig := [], UserMetadata := um, TrustPolicyName := name }

/-- the blob is hashed with the algorithm bound to the signature algorithm, the signed target is that descriptor: accepted -/
example : (VerifyBlob (envB .AlgorithmES384 blobDesc) vB genB ⟨0⟩ (optsB "p" [])).2.isNone = true := by decide
/-- the same signature under another signature algorithm: another digest, refused -/
example : (VerifyBlob (envB .AlgorithmES256 blobDesc) vB genB ⟨0⟩ (optsB "p" [])).2.isSome = true := by decide
/-- no digest algorithm for the signature algorithm: refused, with an outcome whose error is set -/
example : (viewB (VerifyBlob (envB .zero blobDesc) vB genB ⟨0⟩ (optsB "p" []))) = (false, some true) := by decide
/-- an unknown statement name: an error and no outcome; no name: the global statement is the one looked up -/
example : (viewB (VerifyBlob (envB .AlgorithmES384 blobDesc) vB genB ⟨0⟩ (optsB "q" []))) = (false, none) := by decide
example : lookupB docB (optsB "" []) = (some tpG, none) := by decide
/-- a missing required pair is refused although the target is the blob -/
example : (VerifyBlob (envB .AlgorithmES384 blobDesc) vB genB ⟨0⟩ (optsB "p" [("team", "red")])).2.isSome = true := by decide
end Examples

end NotationModel.C01.TieB

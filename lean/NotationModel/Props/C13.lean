/-
C13 - Trust stores load only valid certificates from real files of the named store.
Property theorems only; the model is in `Model/C13.lean`.

Statement, sentence by sentence, and where it is covered:
* "succeeds only for a known store type and a plain file-name store name, only if the store is a
  real directory (not a symlink) whose every entry is a regular file (no sub-directories, no
  symlinks) holding one or more parseable certificates that are CA or self-signed - and, for tsa
  stores, self-signed roots": clauses 1 and 2 of `Holds` (`o.ok → loadable i`, `loadable i → o.ok` under a live context), theorems `load_ok_iff`,
  `isValidFileName_iff`, `valid_name_is_one_path_element`.
* "the named store": the directory addressed is truststore/x509/<type>/<name> and nothing else -
  the `storePath` clause, theorem `store_path_exact`.
* "It then returns exactly the certificates of those files and nothing from anywhere else":
  clauses 3 and 4, theorems `load_exact`, `load_exact_perm`, `nothing_from_elsewhere`.
* "in every other situation, including an empty store, it fails as a whole rather than
  returning a partial set": clauses 1 and 5, theorems `no_partial`, `empty_store_fails`.
* Context dimension (`Input.ctx`): whatever the caller's context does during the call, a success
  is the complete set of a loadable store and a failure returns nothing (clauses 1, 3, 5 do not
  look at the context); only clause 2 ("a loadable store loads") is waived when the context can
  end - an error because the caller gave up is fine. Theorems `context_irrelevant`,
  `never_partial_whatever_context`; fact `context_unused_pinned`.
Out of scope (not in the property's quantifier): entries that are neither regular files,
directories nor symlinks (fifos, sockets, devices), unreadable files, I/O errors.
-/
import NotationModel.Model.C13
import NotationModel.Generated.SrcC13

set_option linter.unusedSimpArgs false
set_option linter.unusedVariables false

namespace NotationModel.C13

/-! ### the extracted facts are the ones the model was written for -/

/-- the regular expression in `file.IsValidFileName` is the text `matchesFileNameRegex` implements -/
theorem regex_pinned : Facts.c13FileNameRegex = "^[a-zA-Z0-9_.-]+$" := by decide

/-- `file.IsValidFileName` rejects "." and ".." before the regular expression -/
theorem rejected_pinned : rejectedNames = [['.'], ['.', '.']] := by decide

/-- `truststore.Types` are the three store types the property knows -/
theorem types_pinned : Facts.c13StoreTypes = specTypes := by decide

/-- the root requirement is keyed on the tsa type, and only on it -/
theorem root_pinned : Facts.c13RootCheckedTypes = ["tsa"] := by decide

/-- both argument checks precede the first file-system call (in whatever order) -/
theorem checks_before_file_system :
    "isValidStoreType" ∈ Facts.c13ChecksBeforeFileSystem ∧
    "file.IsValidFileName" ∈ Facts.c13ChecksBeforeFileSystem := by decide

/-- `GetCertificates` never consults its context (no method call on it, not handed on), which is
why the model's `run` does not depend on `Input.ctx` (`context_irrelevant`) -/
theorem context_unused_pinned : Facts.c13ContextUses = [] := by decide

/-- the functions of the load path keep no state between calls: they write to no package-level
variable and hand none on (reads, `slices.Contains` and `MatchString` aside), which is why the model's
`run` does not depend on what other calls go on at the same time (`concurrency_irrelevant`) -/
theorem no_shared_state_pinned : Facts.c13SharedState = [] := by decide

/-- the store path is `truststore/x509/<type>/<name>` -/
theorem store_dir_prefix_pinned : Facts.c13StoreDirPrefix = ["truststore", "x509"] := by decide

/-! ### the file-name recogniser -/

theorem classChar_eq_plainChar (c : Char) : classChar c = plainChar c := by
  have h1 : 'a'.val.toNat = 97 := by decide
  have h2 : 'z'.val.toNat = 122 := by decide
  have h3 : 'A'.val.toNat = 65 := by decide
  have h4 : 'Z'.val.toNat = 90 := by decide
  have h5 : '0'.val.toNat = 48 := by decide
  have h6 : '9'.val.toNat = 57 := by decide
  rw [Bool.eq_iff_iff]
  simp only [classChar, plainChar, inRange, Char.isAlphanum, Char.isAlpha, Char.isUpper, Char.isLower, Char.isDigit,
    Char.toNat, ge_iff_le, UInt32.le_iff_toNat_le, Bool.or_eq_true, Bool.and_eq_true, decide_eq_true_eq,
    h1, h2, h3, h4, h5, h6]
  generalize c.val.toNat = n
  generalize ((c == '_') = true) = p1
  generalize ((c == '.') = true) = p2
  generalize ((c == '-') = true) = p3
  by_cases p1 <;> by_cases p2 <;> by_cases p3 <;> simp [*] <;> omega

/-- the character class of the file-name check, readably -/
def FileNameChar (c : Char) : Prop :=
  ('a' ≤ c ∧ c ≤ 'z') ∨ ('A' ≤ c ∧ c ≤ 'Z') ∨ ('0' ≤ c ∧ c ≤ '9') ∨ c = '_' ∨ c = '.' ∨ c = '-'

theorem classChar_iff (c : Char) : classChar c = true ↔ FileNameChar c := by
  simp only [classChar, FileNameChar, inRange, Char.toNat, Char.le_def, UInt32.le_iff_toNat_le,
    Bool.or_eq_true, Bool.and_eq_true, decide_eq_true_eq, beq_iff_eq, or_assoc]

theorem mem_rejected (n : Text) : rejectedNames.contains n = (n == ['.'] || n == ['.', '.']) := by
  rw [rejected_pinned]
  by_cases h1 : n = ['.'] <;> by_cases h2 : n = ['.', '.'] <;> simp [List.contains_cons, h1, h2]

/-- **C13, name recogniser**: `file.IsValidFileName` (as modelled) accepts exactly the non-empty
texts over `[a-zA-Z0-9_.-]` other than "." and "..". Strings of any length. -/
theorem isValidFileName_iff (n : Text) :
    isValidFileName n = true ↔
      n ≠ [] ∧ (∀ c ∈ n, FileNameChar c) ∧ n ≠ ['.'] ∧ n ≠ ['.', '.'] := by
  simp only [isValidFileName, mem_rejected, matchesFileNameRegex]
  by_cases h1 : n = ['.']
  · subst h1; simp
  · by_cases h2 : n = ['.', '.']
    · subst h2; simp
    · simp [h1, h2, List.all_eq_true, classChar_iff, List.isEmpty_iff]

/-- the model of the Go check and the specification's "plain file name" coincide -/
theorem isValidFileName_eq_plainName (n : Text) : isValidFileName n = plainName n := by
  simp only [isValidFileName, mem_rejected, matchesFileNameRegex, plainName]
  have hc : n.all classChar = n.all plainChar := by
    congr 1; funext c; exact classChar_eq_plainChar c
  rw [hc]
  by_cases h1 : n = ['.']
  · subst h1; decide
  · by_cases h2 : n = ['.', '.']
    · subst h2; decide
    · have e1 : (n == ['.']) = false := by simp [h1]
      have e2 : (n == ['.', '.']) = false := by simp [h2]
      have e3 : (n != ['.']) = true := by simp [h1]
      have e4 : (n != ['.', '.']) = true := by simp [h2]
      rw [e1, e2, e3, e4]
      cases n <;> simp

/-- **C13, a valid store name is one path element**: it contains no path separator (of either
flavour) and no NUL, and is neither empty nor a dot-only directory reference; so joining it to
`<root>/truststore/x509/<type>` designates a direct child of exactly that directory. -/
theorem valid_name_is_one_path_element (n : Text) (h : isValidFileName n = true) :
    '/' ∉ n ∧ '\\' ∉ n ∧ (Char.ofNat 0) ∉ n ∧ n ≠ [] ∧ n ≠ ['.'] ∧ n ≠ ['.', '.'] := by
  obtain ⟨h0, hall, h1, h2⟩ := (isValidFileName_iff n).1 h
  refine ⟨?_, ?_, ?_, h0, h1, h2⟩
  · intro hm; have := (classChar_iff _).2 (hall _ hm); revert this; decide
  · intro hm; have := (classChar_iff _).2 (hall _ hm); revert this; decide
  · intro hm; have := (classChar_iff _).2 (hall _ hm); revert this; decide

/-! ### the store path -/

theorem splitSlash_no_slash : ∀ n : Text, '/' ∉ n → splitSlash n = [n] := by
  intro n
  induction n with
  | nil => intro _; rfl
  | cons c cs ih =>
    intro h
    have hc : (c == '/') = false := by
      have : c ≠ '/' := fun e => h (by simp [e])
      simp [this]
    have hcs : '/' ∉ cs := fun e => h (List.mem_cons_of_mem _ e)
    simp [splitSlash, hc, ih hcs]

/-- joining one more item that is a valid file name appends exactly that item as the last
component: nothing before it is dropped, merged or popped -/
theorem joinComponents_snoc_valid (items : List Text) (n : Text) (hn : isValidFileName n = true) :
    joinComponents (items ++ [n]) = joinComponents items ++ [n] := by
  obtain ⟨hs, _, _, h0, h1, h2⟩ := valid_name_is_one_path_element n hn
  have e0 : (n == []) = false := by simp [h0]
  have e1 : (n == ['.']) = false := by simp [h1]
  have e2 : (n == ['.', '.']) = false := by simp [h2]
  simp [joinComponents, List.flatMap_append, splitSlash_no_slash n hs, List.foldl_append, cleanStep, e0, e1, e2]

/-- **C13, the directory addressed**: for a known type and a valid store name
`dir.X509TrustStoreDir(type, name)` (as modelled: `path.Join` with `path.Clean`) has exactly the
four components truststore / x509 / type / name, i.e. it is the text
"truststore/x509/<type>/<name>" - the named store of that type and nothing else. -/
theorem store_path_exact (t : String) (n : Text) (ht : knownType t = true) (hn : isValidFileName n = true) :
    joinComponents (storePrefix ++ [t.toList, n]) =
      ["truststore".toList, "x509".toList, t.toList, n] ∧
    storeDir t n = "truststore/x509/".toList ++ t.toList ++ ['/'] ++ n := by
  have hp : storePrefix = ["truststore".toList, "x509".toList] := by decide
  have hj : joinComponents (storePrefix ++ [t.toList, n]) =
      ["truststore".toList, "x509".toList, t.toList, n] := by
    have : storePrefix ++ [t.toList, n] = (storePrefix ++ [t.toList]) ++ [n] := by simp
    rw [this, joinComponents_snoc_valid _ _ hn, hp]
    have ht' : t ∈ ["ca", "signingAuthority", "tsa"] := by
      have := ht
      rw [knownType, types_pinned] at this
      simpa [specTypes] using this
    have known : ∀ t ∈ ["ca", "signingAuthority", "tsa"],
        joinComponents (["truststore".toList, "x509".toList] ++ [String.toList t]) =
          ["truststore".toList, "x509".toList, String.toList t] := by decide
    rw [known t ht']
    rfl
  refine ⟨hj, ?_⟩
  unfold storeDir
  rw [hj]
  simp [renderPath, List.intercalate, List.intersperse, List.flatten]

/-! ### directory order -/

theorem all_insertEntry (p : Entry → Bool) (e : Entry) : ∀ l : List Entry,
    (insertEntry e l).all p = (p e && l.all p) := by
  intro l
  induction l with
  | nil => simp [insertEntry]
  | cons x xs ih =>
    simp only [insertEntry]
    split
    · simp
    · simp only [List.all_cons, ih]
      cases p e <;> cases p x <;> simp

theorem all_sortEntries (p : Entry → Bool) : ∀ l : List Entry, (sortEntries l).all p = l.all p := by
  intro l
  induction l with
  | nil => rfl
  | cons e es ih => simp [sortEntries, all_insertEntry, ih]

theorem insertEntry_perm (e : Entry) : ∀ l : List Entry, (insertEntry e l).Perm (e :: l) := by
  intro l
  induction l with
  | nil => exact List.Perm.refl _
  | cons x xs ih =>
    simp only [insertEntry]
    split
    · exact List.Perm.refl _
    · exact (List.Perm.cons x ih).trans (List.Perm.swap e x xs)

/-- the directory listing is a rearrangement of the entries: nothing added, nothing lost -/
theorem sortEntries_perm : ∀ l : List Entry, (sortEntries l).Perm l := by
  intro l
  induction l with
  | nil => exact List.Perm.refl _
  | cons e es ih => exact (insertEntry_perm e _).trans (List.Perm.cons e ih)

theorem sortEntries_eq_nil (l : List Entry) : sortEntries l = [] ↔ l = [] := by
  constructor
  · intro h
    have := sortEntries_perm l
    rw [h] at this
    exact List.Perm.eq_nil this.symm
  · intro h; subst h; rfl

theorem nameLt_irrefl : ∀ a : Text, nameLt a a = false := by
  intro a
  induction a with
  | nil => rfl
  | cons x xs ih => simp [nameLt, ih]

theorem nameLt_asymm : ∀ a b : Text, nameLt a b = true → nameLt b a = false := by
  intro a
  induction a with
  | nil => intro b; cases b <;> simp [nameLt]
  | cons x xs ih =>
    intro b
    cases b with
    | nil => simp [nameLt]
    | cons y ys =>
      simp only [nameLt]
      by_cases h1 : x.toNat < y.toNat
      · have : ¬ y.toNat < x.toNat := by omega
        simp [h1, this]
      · by_cases h2 : y.toNat < x.toNat
        · simp [h1, h2]
        · simp only [h1, h2, if_false]; exact ih ys

theorem nameLt_trans : ∀ a b c : Text, nameLt a b = true → nameLt b c = true → nameLt a c = true := by
  intro a
  induction a with
  | nil =>
    intro b c hab hbc
    cases c with
    | nil => cases b <;> simp [nameLt] at hbc
    | cons z zs => rfl
  | cons x xs ih =>
    intro b c hab hbc
    cases b with
    | nil => simp [nameLt] at hab
    | cons y ys =>
      cases c with
      | nil => simp [nameLt] at hbc
      | cons z zs =>
        simp only [nameLt] at hab hbc ⊢
        by_cases hxy : x.toNat < y.toNat
        · by_cases hyz : y.toNat < z.toNat
          · have : x.toNat < z.toNat := by omega
            simp [this]
          · by_cases hzy : z.toNat < y.toNat
            · simp [hyz, hzy] at hbc
            · have : x.toNat < z.toNat := by omega
              simp [this]
        · by_cases hyx : y.toNat < x.toNat
          · simp [hxy, hyx] at hab
          · simp only [hxy, hyx, if_false] at hab
            by_cases hyz : y.toNat < z.toNat
            · have : x.toNat < z.toNat := by omega
              simp [this]
            · by_cases hzy : z.toNat < y.toNat
              · simp [hyz, hzy] at hbc
              · simp only [hyz, hzy, if_false] at hbc
                have h1 : ¬ x.toNat < z.toNat := by omega
                have h2 : ¬ z.toNat < x.toNat := by omega
                simp only [h1, h2, if_false]
                exact ih ys zs hab hbc

/-- two names that are not ordered either way are the same name -/
theorem nameLt_connex : ∀ a b : Text, nameLt a b = false → nameLt b a = false → a = b := by
  intro a
  induction a with
  | nil => intro b; cases b <;> simp [nameLt]
  | cons x xs ih =>
    intro b
    cases b with
    | nil => simp [nameLt]
    | cons y ys =>
      simp only [nameLt]
      by_cases h1 : x.toNat < y.toNat
      · simp [h1]
      · by_cases h2 : y.toNat < x.toNat
        · simp [h1, h2]
        · simp only [h1, h2, if_false]
          intro hab hba
          have hxy : x = y := by
            apply Char.ext
            apply UInt32.toNat_inj.1
            simp only [Char.toNat] at h1 h2
            omega
          rw [hxy, ih ys hab hba]

theorem nameLe_total (a b : Text) : nameLe a b = true ∨ nameLe b a = true := by
  unfold nameLe
  cases h : nameLt b a
  · simp
  · simp [nameLt_asymm _ _ h]

theorem nameLe_trans (a b c : Text) (hab : nameLe a b = true) (hbc : nameLe b c = true) :
    nameLe a c = true := by
  unfold nameLe at *
  cases hca : nameLt c a
  · rfl
  · -- c < a; a ≤ b means ¬ b < a; b ≤ c means ¬ c < b
    exfalso
    cases hcb : nameLt c b
    · -- ¬ c < b and ¬ b < c (from hbc) ⇒ b = c, so b < a: contradiction with hab
      have hbc' : nameLt c b = false := hcb
      cases hbc2 : nameLt b c
      · have := nameLt_connex b c hbc2 hcb
        subst this
        simp [hca] at hab
      · have := nameLt_trans b c a hbc2 hca
        simp [this] at hab
    · simp [hcb] at hbc

theorem insertEntry_sorted (e : Entry) : ∀ l : List Entry,
    l.Pairwise (fun a b => nameLe a.name b.name = true) →
    (insertEntry e l).Pairwise (fun a b => nameLe a.name b.name = true) := by
  intro l
  induction l with
  | nil => intro _; simp [insertEntry]
  | cons x xs ih =>
    intro h
    simp only [insertEntry]
    rw [List.pairwise_cons] at h
    split
    · rename_i hle
      rw [List.pairwise_cons]
      refine ⟨?_, List.pairwise_cons.2 h⟩
      intro y hy
      rcases List.mem_cons.1 hy with rfl | hy
      · exact hle
      · exact nameLe_trans _ _ _ hle (h.1 y hy)
    · rename_i hle
      rw [List.pairwise_cons]
      refine ⟨?_, ih h.2⟩
      intro y hy
      have := (insertEntry_perm e xs).mem_iff.1 hy
      rcases List.mem_cons.1 this with rfl | hy'
      · rcases nameLe_total x.name y.name with h' | h'
        · exact h'
        · exact absurd h' hle
      · exact h.1 y hy'

/-- the directory listing is in ascending order of file name (what `os.ReadDir` guarantees) -/
theorem sortEntries_sorted : ∀ l : List Entry,
    (sortEntries l).Pairwise (fun a b => nameLe a.name b.name = true) := by
  intro l
  induction l with
  | nil => simp [sortEntries]
  | cons e es ih => exact insertEntry_sorted e _ ih

/-! ### the loading loop -/

/-- what one iteration of the loop demands of an entry -/
def entryOk (t : String) (e : Entry) : Bool :=
  e.kind == .file && e.parseOk && validateCertificates e.certs && (!needsRoot t || e.certs.all isRootCA)

theorem loadEntries_eq (t : String) : ∀ (es : List Entry) (acc : List CertFlags),
    loadEntries t es acc =
      if es.all (entryOk t) then some (acc ++ es.flatMap (·.certs)) else none := by
  intro es
  induction es with
  | nil => intro acc; simp [loadEntries]
  | cons e rest ih =>
    intro acc
    simp only [loadEntries, List.all_cons, List.flatMap_cons, ih, entryOk]
    cases e.kind <;> cases e.parseOk <;> cases validateCertificates e.certs <;>
      cases needsRoot t <;> cases e.certs.all isRootCA <;> simp [List.append_assoc]

theorem all_and_all {α : Type} (p q : α → Bool) : ∀ l : List α,
    (l.all p && l.all q) = l.all (fun x => p x && q x) := by
  intro l
  induction l with
  | nil => rfl
  | cons x xs ih =>
    simp only [List.all_cons, ← ih]
    cases p x <;> cases q x <;> simp

theorem needsRoot_eq (t : String) : needsRoot t = (t == "tsa") := by
  by_cases h : t = "tsa" <;> simp [needsRoot, root_pinned, List.contains_cons, h]

theorem knownType_eq (t : String) : knownType t = specTypes.contains t := by
  simp [knownType, types_pinned]

/-- the loop's per-entry test is the specification's "regular file with one or more parseable,
acceptable certificates" -/
theorem entryOk_eq_entryLoadable (t : String) (e : Entry) : entryOk t e = entryLoadable t e := by
  simp only [entryOk, entryLoadable, validateCertificates, needsRoot_eq]
  by_cases ht : t = "tsa"
  · subst ht
    have : (e.certs.all (fun c => c.isCA || c.selfSig) && e.certs.all isRootCA) =
        e.certs.all (acceptable "tsa") := by
      rw [all_and_all]
      congr 1; funext c
      simp only [acceptable, isRootCA]
      cases c.isCA <;> cases c.selfSig <;> cases c.signOk <;> cases c.subjEqIssuer <;> cases c.weakSig <;> decide
    rw [← this]
    cases (e.kind == EntryKind.file) <;> cases e.parseOk <;> cases e.certs.isEmpty <;>
      cases e.certs.all (fun c => c.isCA || c.selfSig) <;> cases e.certs.all isRootCA <;> decide
  · have h1 : (t == "tsa") = false := by simp [ht]
    have : e.certs.all (fun c => c.isCA || c.selfSig) = e.certs.all (acceptable t) := by
      congr 1; funext c
      simp [acceptable, ht]
    rw [← this, h1]
    simp [Bool.and_assoc]

theorem flatMap_certs_ne_nil (t : String) : ∀ es : List Entry, es ≠ [] → es.all (entryLoadable t) = true →
    es.flatMap (·.certs) ≠ [] := by
  intro es hne hall
  cases es with
  | nil => exact absurd rfl hne
  | cons e rest =>
    simp only [List.all_cons, Bool.and_eq_true, entryLoadable] at hall
    have : e.certs ≠ [] := by
      intro h
      have := hall.1.1.2
      simp [h] at this
    simp [List.flatMap_cons, this]

/-- **C13, the loader in closed form**: `GetCertificates` (as modelled) returns the certificates of
all files, concatenated in directory order, when the store is loadable, and an error otherwise. -/
theorem getCertificates_eq (i : Input) :
    getCertificates i =
      if loadable i then some ((sortEntries i.entries).flatMap (·.certs)) else none := by
  unfold getCertificates loadable
  rw [knownType_eq, isValidFileName_eq_plainName]
  cases hk : specTypes.contains i.storeType
  · simp
  · cases hn : plainName i.name
    · simp
    · have hall : (sortEntries i.entries).all (entryOk i.storeType) =
          i.entries.all (entryLoadable i.storeType) := by
        rw [all_sortEntries]
        congr 1; funext e; exact entryOk_eq_entryLoadable _ e
      cases hd : i.dirKind
      case dir =>
        have hdd : (DirKind.dir == DirKind.dir) = true := by decide
        simp only [Bool.not_true, Bool.false_eq_true, if_false, hdd, Bool.true_and, Bool.and_true]
        rw [loadEntries_eq, hall]
        cases he : i.entries.all (entryLoadable i.storeType)
        · simp
        · by_cases hnil : i.entries = []
          · simp [hnil, sortEntries]
          · have hs : sortEntries i.entries ≠ [] := fun h => hnil ((sortEntries_eq_nil _).1 h)
            have hs2 : (sortEntries i.entries).all (entryLoadable i.storeType) = true := by
              rw [all_sortEntries]; exact he
            have := flatMap_certs_ne_nil i.storeType _ hs hs2
            simp [hnil, this, List.isEmpty_iff]
      all_goals simp

/-! ### property theorems -/

theorem run_load (i : Input) (h : i.op = .load) :
    run i = if loadable i then { ok := true, certs := expectedIds i, path := [] } else { ok := false, certs := [], path := [] } := by
  unfold run
  rw [h]
  simp only [getCertificates_eq]
  cases loadable i <;> simp [expectedIds]

theorem run_nameCheck (i : Input) (h : i.op = .nameCheck) :
    run i = { ok := plainName i.name, certs := [], path := [] } := by
  unfold run
  rw [h]
  simp [isValidFileName_eq_plainName]

theorem expectedIds_subset (i : Input) : ∀ c ∈ expectedIds i, c ∈ storeIds i := by
  intro c hc
  simp only [expectedIds, storeIds, List.mem_map, List.mem_flatMap] at hc ⊢
  obtain ⟨f, ⟨e, he, hf⟩, rfl⟩ := hc
  exact ⟨f, ⟨e, (sortEntries_perm _).mem_iff.1 he, hf⟩, rfl⟩

/-- **C13, the whole property**: every clause of `Holds` is true of the model's behaviour, for
every store type, name, directory kind and entry list (no bounds, no well-formedness needed). -/
theorem model_holds (i : Input) : Holds i (run i) = true := by
  unfold Holds clauses
  cases hop : i.op
  · rw [run_load i hop]
    cases hl : loadable i
    · simp [Clauses.holds]
    · simp only [Clauses.holds_cons, Clauses.holds_nil, if_true, hl]
      have : (expectedIds i).all (fun c => (storeIds i).contains c) = true := by
        rw [List.all_eq_true]
        intro c hc
        simpa using expectedIds_subset i c hc
      simp
      exact expectedIds_subset i
  · rw [run_nameCheck i hop]
    simp [Clauses.holds]
  · simp only [run, hop, Clauses.holds_cons, Clauses.holds_nil, Bool.and_true]
    cases hk : specTypes.contains i.storeType
    · simp
    · cases hn : plainName i.name
      · simp
      · have := (store_path_exact i.storeType i.name (by rw [knownType_eq]; exact hk)
          (by rw [isValidFileName_eq_plainName]; exact hn)).2
        simp [this]

/-- **C13, the context does not matter**: whatever the context does - never ends, has ended
before the call, ends at any poll, expires at any moment - the load gives the same answer; in
particular (with `load_exact`, `no_partial`) the context can never turn a complete set into a
partial one or hide a bad entry. -/
theorem context_irrelevant (i : Input) (c : CtxSpec) : run { i with ctx := c } = run i := by
  cases hop : i.op <;> simp [run, hop, getCertificates]

/-- **C13, concurrent calls do not matter**: whatever other stores are being loaded (or paths
computed) at the same time, the answer is the sequential one - in particular never the certificates
of another store (`nothing_from_elsewhere`). -/
theorem concurrency_irrelevant (i : Input) (p : ParSpec) : run { i with par := p } = run i := by
  cases hop : i.op <;> simp [run, hop, getCertificates]

/-- success is the complete set and failure is empty under every context -/
theorem never_partial_whatever_context (i : Input) (c : CtxSpec) (h : i.op = .load) :
    ((run { i with ctx := c }).ok = true →
        loadable i = true ∧ (run { i with ctx := c }).certs = expectedIds i) ∧
    ((run { i with ctx := c }).ok = false → (run { i with ctx := c }).certs = []) := by
  rw [context_irrelevant, run_load i h]
  cases hl : loadable i <;> simp

/-- **C13, load_ok_iff**: loading succeeds exactly when the type is one of the three known types,
the name is a valid file name, the store path is a real directory, the store is not empty and
every entry is a regular file with at least one parseable certificate, each of them a CA or
self-signed certificate and, in a tsa store, a self-signed root (own key may sign certificates,
signature verifies under it with an algorithm crypto/x509 still accepts in chains - not SHA-1 / MD5 -,
issuer = subject). -/
theorem load_ok_iff (i : Input) (h : i.op = .load) :
    (run i).ok = true ↔
      i.storeType ∈ ["ca", "signingAuthority", "tsa"] ∧ isValidFileName i.name = true ∧
      i.dirKind = .dir ∧ i.entries ≠ [] ∧
      ∀ e ∈ i.entries, e.kind = .file ∧ e.parseOk = true ∧ e.certs ≠ [] ∧
        ∀ c ∈ e.certs, (c.isCA = true ∨ c.selfSig = true) ∧
          (i.storeType = "tsa" →
            c.selfSig = true ∧ c.weakSig = false ∧ c.signOk = true ∧ c.subjEqIssuer = true) := by
  rw [run_load i h, isValidFileName_eq_plainName]
  have : (if loadable i then ({ ok := true, certs := expectedIds i, path := [] } : Obs) else { ok := false, certs := [], path := [] }).ok
      = loadable i := by cases loadable i <;> rfl
  rw [this]
  simp only [loadable, specTypes, entryLoadable, acceptable, Bool.and_eq_true, List.all_eq_true,
    List.contains_eq_mem, decide_eq_true_eq, beq_iff_eq, Bool.or_eq_true, Bool.not_eq_true',
    List.isEmpty_eq_false_iff, bne_iff_ne, ne_eq, Bool.not_eq_eq_eq_not, Bool.not_true, Bool.not_eq_true]
  constructor
  · rintro ⟨⟨⟨⟨h1, h2⟩, h3⟩, h4⟩, h5⟩
    refine ⟨h1, h2, h3, h5, ?_⟩
    intro e he
    obtain ⟨⟨⟨k1, k2⟩, k3⟩, k4⟩ := h4 e he
    refine ⟨k1, k2, k3, ?_⟩
    intro c hc
    obtain ⟨a1, a2⟩ := k4 c hc
    refine ⟨a1, ?_⟩
    intro ht
    rcases a2 with a2 | a2
    · exact absurd ht a2
    · exact ⟨a2.1.1.1, a2.1.1.2, a2.1.2, a2.2⟩
  · rintro ⟨h1, h2, h3, h5, h4⟩
    refine ⟨⟨⟨⟨h1, h2⟩, h3⟩, ?_⟩, h5⟩
    intro e he
    obtain ⟨k1, k2, k3, k4⟩ := h4 e he
    refine ⟨⟨⟨k1, k2⟩, k3⟩, ?_⟩
    intro c hc
    obtain ⟨a1, a2⟩ := k4 c hc
    refine ⟨a1, ?_⟩
    by_cases ht : i.storeType = "tsa"
    · obtain ⟨b1, b2, b3, b4⟩ := a2 ht
      exact Or.inr ⟨⟨⟨b1, b2⟩, b3⟩, b4⟩
    · exact Or.inl ht

/-- **C13, load_exact**: on success the result is the concatenation, in ascending file-name order
(`sortEntries_sorted`, `sortEntries_perm`), of exactly the certificates of the store's files. -/
theorem load_exact (i : Input) (h : i.op = .load) (hok : (run i).ok = true) :
    (run i).certs = ((sortEntries i.entries).flatMap (·.certs)).map (·.id) := by
  rw [run_load i h] at hok ⊢
  cases hl : loadable i
  · simp [hl] at hok
  · simp [expectedIds]

/-- as a multiset the result is the certificates of all the store's files: none missing, none
extra, multiplicities kept -/
theorem load_exact_perm (i : Input) (h : i.op = .load) (hok : (run i).ok = true) :
    ((run i).certs).Perm ((i.entries.flatMap (·.certs)).map (·.id)) := by
  rw [load_exact i h hok]
  exact ((sortEntries_perm i.entries).flatMap_right _).map _

/-- whatever is returned, in any situation, is a certificate of one of the store's files -/
theorem nothing_from_elsewhere (i : Input) (h : i.op = .load) :
    ∀ c ∈ (run i).certs, ∃ e ∈ i.entries, ∃ f ∈ e.certs, f.id = c := by
  intro c hc
  rw [run_load i h] at hc
  cases hl : loadable i
  · simp [hl] at hc
  · simp only [hl, if_true] at hc
    have := expectedIds_subset i c hc
    simp only [storeIds, List.mem_map, List.mem_flatMap] at this
    obtain ⟨f, ⟨e, he, hf⟩, rfl⟩ := this
    exact ⟨e, he, f, hf, rfl⟩

/-- **C13, no_partial**: a failing load returns no certificate at all -/
theorem no_partial (i : Input) (hok : (run i).ok = false) : (run i).certs = [] := by
  cases hop : i.op
  · rw [run_load i hop] at hok ⊢
    cases hl : loadable i
    · rfl
    · simp [hl] at hok
  · rw [run_nameCheck i hop]
  · simp [run, hop]

/-- an empty store is an error -/
theorem empty_store_fails (i : Input) (h : i.op = .load) (he : i.entries = []) : (run i).ok = false := by
  rw [run_load i h]
  simp [loadable, he]

/-- one bad entry anywhere - a sub-directory, a symlink, an unparsable or empty file, a file with
one unacceptable certificate - fails the whole load, whatever else the store holds -/
theorem one_bad_entry_fails (i : Input) (h : i.op = .load) (e : Entry) (he : e ∈ i.entries)
    (hbad : entryLoadable i.storeType e = false) : (run i).ok = false ∧ (run i).certs = [] := by
  have hl : loadable i = false := by
    unfold loadable
    have : i.entries.all (entryLoadable i.storeType) = false := by
      apply Bool.eq_false_iff.2
      intro hall
      rw [List.all_eq_true] at hall
      rw [hall e he] at hbad
      exact Bool.noConfusion hbad
    simp [this]
  rw [run_load i h, hl]
  simp

/-- a list with pairwise distinct names has only one arrangement in ascending name order -/
theorem sort_unique : ∀ (l₁ l₂ : List Entry), l₁.Perm l₂ →
    l₁.Pairwise (fun a b => nameLe a.name b.name = true) →
    l₂.Pairwise (fun a b => nameLe a.name b.name = true) →
    l₁.Pairwise (fun a b => a.name ≠ b.name) → l₁ = l₂ := by
  intro l₁
  induction l₁ with
  | nil => intro l₂ hp _ _ _; exact (List.Perm.eq_nil hp.symm).symm
  | cons x xs ih =>
    intro l₂ hp hs1 hs2 hd
    cases l₂ with
    | nil => exact absurd (List.Perm.eq_nil hp) (by simp)
    | cons y ys =>
      rw [List.pairwise_cons] at hs1 hs2 hd
      have hxy : x = y := by
        have hx : x ∈ y :: ys := hp.mem_iff.1 (List.mem_cons_self)
        have hy : y ∈ x :: xs := hp.mem_iff.2 (List.mem_cons_self)
        rcases List.mem_cons.1 hx with hx | hx
        · exact hx
        · rcases List.mem_cons.1 hy with hy | hy
          · exact hy.symm
          · -- x ≤ y (y in xs) and y ≤ x (x in ys): same name, contradiction with distinctness
            have h1 := hs1.1 y hy
            have h2 := hs2.1 x hx
            unfold nameLe at h1 h2
            have := nameLt_connex x.name y.name (by simpa using h2) (by simpa using h1)
            exact absurd this (hd.1 y hy)
      subst hxy
      rw [ih ys (List.Perm.cons_inv hp) hs1.2 hs2.2 hd.2]

/-- **C13, creation order is irrelevant**: two stores holding the same entries (in any order of
creation), with pairwise distinct file names, load identically. -/
theorem creation_order_irrelevant (i₁ i₂ : Input) (hop : i₁.op = i₂.op) (ht : i₁.storeType = i₂.storeType)
    (hn : i₁.name = i₂.name) (hk : i₁.dirKind = i₂.dirKind) (hp : i₁.entries.Perm i₂.entries)
    (hd : i₁.entries.Pairwise (fun a b => a.name ≠ b.name)) : run i₁ = run i₂ := by
  have hs : sortEntries i₁.entries = sortEntries i₂.entries := by
    apply sort_unique _ _ (((sortEntries_perm _).trans hp).trans (sortEntries_perm _).symm)
      (sortEntries_sorted _) (sortEntries_sorted _)
    exact (sortEntries_perm i₁.entries).symm.pairwise hd (fun h => fun h' => h h'.symm)
  unfold run getCertificates
  rw [hop, ht, hn, hk, hs]

/-! ### non-vacuity -/

def rootCA (id : Nat) : CertFlags := { id := id, isCA := true, selfSig := true, signOk := true, subjEqIssuer := true, weakSig := false }
def interCA (id : Nat) : CertFlags := { id := id, isCA := true, selfSig := false, signOk := true, subjEqIssuer := false, weakSig := false }
def leaf (id : Nat) : CertFlags := { id := id, isCA := false, selfSig := false, signOk := false, subjEqIssuer := false, weakSig := false }
def pemFile (n : String) (cs : List CertFlags) : Entry :=
  { name := n.toList, kind := .file, parseOk := true, certs := cs, enc := "pem" }
def store (t : String) (n : String) (es : List Entry) : Input :=
  { op := .load, storeType := t, name := n.toList, dirKind := .dir, entries := es, decoys := false,
    par := { stores := [], workers := 0, rounds := 0 }, ctx := { kind := .background, n := 0, deadline := false } }

/-- a store with two files created in reverse name order loads in name order -/
example : run (store "ca" "acme.roots" [pemFile "b.pem" [interCA 2, rootCA 3], pemFile "a.pem" [rootCA 1]]) =
    { ok := true, certs := [1, 2, 3], path := [] } := by decide

/-- the same files do not load as a tsa store (certificate 2 is not a self-signed root) -/
example : run (store "tsa" "acme.roots" [pemFile "b.pem" [interCA 2, rootCA 3], pemFile "a.pem" [rootCA 1]]) =
    { ok := false, certs := [], path := [] } := by decide

/-- one leaf certificate among good ones fails the whole store -/
example : run (store "ca" "s" [pemFile "a.pem" [rootCA 1], pemFile "b.pem" [rootCA 2, leaf 3]]) =
    { ok := false, certs := [], path := [] } := by decide

/-- "." and ".." are not store names; "..." is -/
example : (run (store "ca" "." [pemFile "a.pem" [rootCA 1]])).ok = false := by decide
example : (run (store "ca" ".." [pemFile "a.pem" [rootCA 1]])).ok = false := by decide
example : (run (store "ca" "../x" [pemFile "a.pem" [rootCA 1]])).ok = false := by decide
example : (run (store "ca" "..." [pemFile "a.pem" [rootCA 1]])).ok = true := by decide

/-- `Holds` is false of wrong observations: a partial result with an error, a success that
drops a certificate, a success in the wrong order, a success on a symlinked store -/
example : Holds (store "ca" "s" [pemFile "a.pem" [rootCA 1], pemFile "b.pem" [leaf 3]])
    { ok := false, certs := [1], path := [] } = false := by decide
example : Holds (store "ca" "s" [pemFile "a.pem" [rootCA 1], pemFile "b.pem" [rootCA 2]])
    { ok := true, certs := [1], path := [] } = false := by decide
example : Holds (store "ca" "s" [pemFile "a.pem" [rootCA 1], pemFile "b.pem" [rootCA 2]])
    { ok := true, certs := [2, 1], path := [] } = false := by decide
example : Holds { store "ca" "s" [pemFile "a.pem" [rootCA 1]] with dirKind := .symlinkToDir }
    { ok := true, certs := [1], path := [] } = false := by decide
example : Holds (store "ca" "s" [pemFile "a.pem" [rootCA 1], pemFile "b.pem" [rootCA 2]])
    { ok := true, certs := [1, 2], path := [] } = true := by decide


/-- the context dimension: a context that ends at its second poll does not excuse a partial set
(first file only) nor a success over a later bad entry; failing the loadable store with an error
is tolerated under an ending context and only there -/
def endsAt (k : Nat) : CtxSpec := { kind := .endsAtPoll, n := k, deadline := false }
example : Holds { store "ca" "s" [pemFile "a.pem" [rootCA 1], pemFile "b.pem" [rootCA 2]] with ctx := endsAt 1 }
    { ok := true, certs := [1], path := [] } = false := by decide
example : Holds { store "ca" "s" [pemFile "a.pem" [rootCA 1], pemFile "b.pem" [leaf 2]] with ctx := endsAt 1 }
    { ok := true, certs := [1], path := [] } = false := by decide
example : Holds { store "ca" "s" [pemFile "a.pem" [rootCA 1], pemFile "b.pem" [rootCA 2]] with ctx := endsAt 1 }
    { ok := false, certs := [1], path := [] } = false := by decide
example : Holds { store "ca" "s" [pemFile "a.pem" [rootCA 1], pemFile "b.pem" [rootCA 2]] with ctx := endsAt 1 }
    { ok := false, certs := [], path := [] } = true := by decide
example : Holds (store "ca" "s" [pemFile "a.pem" [rootCA 1], pemFile "b.pem" [rootCA 2]])
    { ok := false, certs := [], path := [] } = false := by decide

/-- legacy signature algorithms: a SHA-1 signed true root loads in a ca store but not in a tsa store
(its self-signature is not verifiable under the chain policy); a SHA-1 signed CA that is merely
issued to its own name by another key must never load in a tsa store -/
def sha1Root (id : Nat) : CertFlags := { rootCA id with weakSig := true }
def sha1RollOver (id : Nat) : CertFlags := { rootCA id with weakSig := true, selfSig := false }
example : (run (store "ca" "s" [pemFile "a.pem" [sha1Root 1]])).ok = true := by decide
example : (run (store "tsa" "s" [pemFile "a.pem" [sha1Root 1]])).ok = false := by decide
example : Holds (store "tsa" "s" [pemFile "a.pem" [sha1RollOver 1]])
    { ok := true, certs := [1], path := [] } = false := by decide

/-- concurrency: while two other stores are being loaded, an answer that is another store's
certificate is rejected -/
example : Holds { store "ca" "alpha" [pemFile "r.pem" [rootCA 1]] with
      par := { stores := [{ storeType := "ca", name := "bravo".toList, entries := [pemFile "r.pem" [rootCA 2]] }],
               workers := 8, rounds := 1000 } }
    { ok := true, certs := [2], path := [] } = false := by decide

/-- the store path of a proper name, and what the rejected names would have addressed: the type
directory itself, its parent, a store of another type -/
example : storeDir "ca" "acme.roots".toList = "truststore/x509/ca/acme.roots".toList := by decide
example : storeDir "ca" ".".toList = "truststore/x509/ca".toList := by decide
example : storeDir "ca" "..".toList = "truststore/x509".toList := by decide
example : storeDir "ca" "../tsa/x".toList = "truststore/x509/tsa/x".toList := by decide
example : Holds { store "ca" "s" [] with op := .storePath }
    { ok := true, certs := [], path := "truststore/x509/s/ca".toList } = false := by decide


/-! ### tie to the translated source (docs/TIE_BRIEF.md)

`Generated/SrcC13.lean` (package truststore: `Types` and the type constants, `isValidStoreType`,
`ValidateCertificates`, `isRootCACertificate`, `x509TrustStore.GetCertificates`), `SrcC13b.lean`
(`file.IsValidFileName`) and `SrcC13c.lean` (`dir.X509TrustStoreDir`) are translated from the Go
source on every run. The theorems below prove that each translated function computes, for ALL
inputs and ALL oracles, what the hand-written model computes. Oracles (file system, crypto/x509,
regexp, path.Join): see `Src/TypesC13.lean`. The proofs do not quote the generated text: loops are
rewritten by `GoLite.forIn_eq_foldE'` against step functions written here. -/
namespace Tie
open NotationModel.Src.truststore

/-- a certificate of the translated world as the model sees it -/
def absCert (c : x509.Certificate) : CertFlags :=
  { id := c.id, isCA := c.IsCA, selfSig := c.selfSigErr.isNone, signOk := c.signOk,
    subjEqIssuer := bytes.Equal c.RawSubject c.RawIssuer, weakSig := c.weakSig }

theorem typeTSA_agree : TypeTSA = "tsa" := by decide

theorem source_isValidStoreType_refines_model (t : String) : isValidStoreType t = knownType t := by
  rw [knownType_eq]
  -- the three known types by evaluation, every other text by unrolling whatever shape the test has
  by_cases h1 : t = "ca"
  · subst h1; decide
  by_cases h2 : t = "signingAuthority"
  · subst h2; decide
  by_cases h3 : t = "tsa"
  · subst h3; decide
  have h1' : ¬ "ca" = t := fun e => h1 e.symm
  have h2' : ¬ "signingAuthority" = t := fun e => h2 e.symm
  have h3' : ¬ "tsa" = t := fun e => h3 e.symm
  simp [isValidStoreType, Id.run, GoLite.contains, Types, TypeCA, TypeSigningAuthority, TypeTSA,
    specTypes, h1, h2, h3, h1', h2', h3'] <;> rfl

theorem toList_eq_iff (s : String) (l : List Char) : s.toList = l ↔ s = String.ofList l := by
  constructor
  · intro h; rw [← h, String.ofList_toList]
  · intro h; rw [h, String.toList_ofList]

theorem source_IsValidFileName_refines_model (s : String) :
    file.IsValidFileName s = isValidFileName s.toList := by
  by_cases h1 : s = "."
  · subst h1; decide
  by_cases h2 : s = ".."
  · subst h2; decide
  have h1' : ¬ "." = s := fun e => h1 e.symm
  have h2' : ¬ ".." = s := fun e => h2 e.symm
  have e1 : (s.toList == ['.']) = false := by
    rw [beq_eq_false_iff_ne]; intro e; exact h1 ((toList_eq_iff s _).1 e)
  have e2 : (s.toList == ['.', '.']) = false := by
    rw [beq_eq_false_iff_ne]; intro e; exact h2 ((toList_eq_iff s _).1 e)
  unfold isValidFileName
  rw [mem_rejected, e1, e2]
  simp [file.IsValidFileName, Id.run, regexp.MustCompile, regexp.Regexp.MatchString, GoLite.idPure, h1, h2, h1', h2']

theorem source_X509TrustStoreDir_refines_model (t n : String) :
    dir.X509TrustStoreDir [t, n] = String.ofList (storeDir t n.toList) := by
  have hp : storePrefix = ["truststore".toList, "x509".toList] := by decide
  simp [dir.X509TrustStoreDir, Id.run, path.Join, storeDir, hp, dir.TrustStoreDir, GoLite.idPure]

/-- the first failure of a check over a list -/
def firstSome {α ε : Type} (p : α → Option ε) : List α → Option ε
  | [] => none
  | a :: l => match p a with
    | some e => some e
    | none => firstSome p l

theorem firstSome_isNone {α ε : Type} (p : α → Option ε) (l : List α) :
    (firstSome p l).isNone = l.all (fun a => (p a).isNone) := by
  induction l with
  | nil => rfl
  | cons a l ih => simp only [firstSome, List.all_cons]; cases p a <;> simp [ih]

/-- the step of a loop that checks every element and returns at the first failure -/
def checkStep {α ε : Type} (p : α → Option ε) (_ : Unit) (a : α) : Except ε Unit :=
  match p a with
  | none => .ok ()
  | some e => .error e

theorem foldE_checkStep {α ε : Type} (p : α → Option ε) (l : List α) :
    GoLite.foldE (checkStep p) l () =
      match firstSome p l with
      | none => .ok ()
      | some e => .error ((), e) := by
  induction l with
  | nil => rfl
  | cons a l ih =>
    simp only [GoLite.foldE, checkStep, firstSome]
    cases h : p a with
    | none => simpa [checkStep] using ih
    | some e => rfl

/-- what `ValidateCertificates` checks of one certificate -/
def validErr (c : x509.Certificate) : Option Unit :=
  if c.IsCA || c.selfSigErr.isNone then none else some ()

theorem source_ValidateCertificates_refines_model (cs : List x509.Certificate) :
    (ValidateCertificates cs).isNone = validateCertificates (cs.map absCert) := by
  unfold ValidateCertificates
  simp only [Id.run]
  cases cs with
  | nil => simp [validateCertificates, GoLite.len, GoLite.idPure]
  | cons c0 cs0 =>
    have hlen : decide (GoLite.len (c0 :: cs0) < 1) = false := by simp [GoLite.len]; omega
    have hlen0 : (GoLite.len (c0 :: cs0) == 0) = false := by simp [GoLite.len]; omega
    have hlen0' : ((0 : Int) == GoLite.len (c0 :: cs0)) = false := by simp [GoLite.len]; omega
    simp only [hlen, hlen0, hlen0', Bool.false_eq_true, if_false]
    rw [GoLite.forIn_eq_foldE' _ (checkStep validErr) (fun _ => (none, ()))
      (fun _ _ => (some (some (GoLite.errorf "")), ())) ?h _ _ () rfl]
    case h =>
      intro c t
      cases hca : c.IsCA <;> cases hs : c.selfSigErr <;>
        simp [checkStep, validErr, x509.Certificate.CheckSignature, hca, hs, GoLite.errorf]
    simp only [pure_bind, foldE_checkStep]
    have := firstSome_isNone validErr (c0 :: cs0)
    have hv : validateCertificates ((c0 :: cs0).map absCert) = (c0 :: cs0).all (fun a => (validErr a).isNone) := by
      simp only [validateCertificates, List.all_map]
      have : (fun a => (validErr a).isNone) = ((fun c => c.isCA || c.selfSig) ∘ absCert) := by
        funext a; simp only [validErr, absCert, Function.comp]; cases a.IsCA <;> cases a.selfSigErr.isNone <;> rfl
      rw [this]; simp
    rw [hv, ← this]
    cases firstSome validErr (c0 :: cs0) <;> simp [GoLite.idPure]

theorem bytes_equal_comm (a b : List Nat) : bytes.Equal a b = bytes.Equal b a := by
  simp only [bytes.Equal]
  by_cases h : a = b
  · subst h; rfl
  · have h' : ¬ b = a := fun e => h e.symm
    rw [beq_eq_false_iff_ne.2 h, beq_eq_false_iff_ne.2 h']

theorem source_isRootCACertificate_refines_model (c : x509.Certificate) :
    (isRootCACertificate c).isNone = isRootCA (absCert c) := by
  unfold isRootCACertificate x509.Certificate.CheckSignatureFrom isRootCA absCert
  simp only [Id.run]
  have hcomm := bytes_equal_comm c.RawIssuer c.RawSubject
  cases hso : c.signOk <;> cases hw : c.weakSig <;> cases hse : c.selfSigErr <;>
    cases heq : bytes.Equal c.RawSubject c.RawIssuer <;>
    simp [GoLite.idPure, hcomm, heq]

/-! #### GetCertificates -/

/-- an entry of the translated world as the model sees it -/
def absEntry (w : World) (path : String) (f : fs.DirEntry) : Entry :=
  { name := f.Name.toList,
    kind := if f.IsDir then .dir else if f.«Type».symlink then .symlink else .file,
    parseOk := (w.ReadCertificateFile (filepath.Join path f.Name)).2.isNone,
    certs := (w.ReadCertificateFile (filepath.Join path f.Name)).1.map absCert,
    enc := "" }

/-- the store path the translated code computes -/
def srcPath (ts : x509TrustStore) (t n : String) : String × Option GoLite.Err :=
  ts.trustStorefs.SysPath (dir.X509TrustStoreDir [t, n])

/-- the kind of the store directory the oracles stand for. I/O errors (SysPath, Lstat other than
"does not exist", ReadDir) have no kind of their own in the model: like a missing directory they
make the load fail, and are mapped to `.missing`. -/
def absDirKind (ts : x509TrustStore) (w : World) (t n : String) : DirKind :=
  if (srcPath ts t n).2.isSome || (w.Lstat (srcPath ts t n).1).2.isSome then .missing
  else if (w.Lstat (srcPath ts t n).1).1.Mode.symlink then .symlinkToDir
  else if !(w.Lstat (srcPath ts t n).1).1.Mode.IsDir then .file
  else if (w.ReadDir (srcPath ts t n).1).2.isSome then .missing
  else .dir

/-- the world the oracles stand for -/
def absInput (ts : x509TrustStore) (w : World) (t n : String) : Input :=
  { op := .load, storeType := t, name := n.toList, dirKind := absDirKind ts w t n,
    entries := (w.ReadDir (srcPath ts t n).1).1.map (absEntry w (srcPath ts t n).1),
    decoys := false, par := { stores := [], workers := 0, rounds := 0 },
    ctx := { kind := .background, n := 0, deadline := false } }

/-- result shape: the certificates as the model sees them, and "no error" -/
def shape (r : List x509.Certificate × Option GoLite.Err) : List CertFlags × Bool :=
  (r.1.map absCert, r.2.isNone)

def ofModel : Option (List CertFlags) → List CertFlags × Bool
  | some cs => (cs, true)
  | none => ([], false)

/-- the bit test against `fs.ModeSymlink`, operands in either order, is the symlink bit -/
theorem hasBits_symlink_right (m : fs.FileMode) : GoLite.hasBits m fs.ModeSymlink = m.symlink := by
  simp [GoLite.hasBits, fs.ModeSymlink]
theorem hasBits_symlink_left (m : fs.FileMode) : GoLite.hasBits fs.ModeSymlink m = m.symlink := by
  simp [GoLite.hasBits, fs.ModeSymlink]
/-- the comparison with `TypeTSA`, operands in either order -/
theorem tsa_right (t : String) : (t == TypeTSA) = (t == "tsa") := by rw [typeTSA_agree]
theorem tsa_left (t : String) : (TypeTSA == t) = (t == "tsa") := by
  rw [typeTSA_agree]
  by_cases h : t = "tsa"
  · subst h; rfl
  · have h' : ¬ "tsa" = t := fun e => h e.symm
    rw [beq_eq_false_iff_ne.2 h, beq_eq_false_iff_ne.2 h']

/-- the tsa loop's check of one certificate: the value of `err` when the loop stops there -/
def rootChk (c : x509.Certificate) : Option (Option GoLite.Err) :=
  if (isRootCACertificate c).isSome then some (isRootCACertificate c) else none

/-- one iteration of the file loop: the new accumulator, or the value of `err` at the `return` -/
def fileStep (w : World) (path : String) (t : String) (acc : List x509.Certificate) (f : fs.DirEntry) :
    Except (Option GoLite.Err) (List x509.Certificate) :=
  if f.IsDir || f.«Type».symlink then .error none
  else if (w.ReadCertificateFile (filepath.Join path f.Name)).2.isSome then
    .error (w.ReadCertificateFile (filepath.Join path f.Name)).2
  else if (ValidateCertificates (w.ReadCertificateFile (filepath.Join path f.Name)).1).isSome then
    .error (ValidateCertificates (w.ReadCertificateFile (filepath.Join path f.Name)).1)
  else if t == "tsa" then
    match firstSome rootChk (w.ReadCertificateFile (filepath.Join path f.Name)).1 with
    | some e => .error e
    | none => .ok (acc ++ (w.ReadCertificateFile (filepath.Join path f.Name)).1)
  else .ok (acc ++ (w.ReadCertificateFile (filepath.Join path f.Name)).1)

theorem rootChk_all (cs : List x509.Certificate) :
    (firstSome rootChk cs).isNone = (cs.map absCert).all isRootCA := by
  rw [firstSome_isNone, List.all_map]
  congr 1; funext c
  simp only [rootChk, Function.comp, ← source_isRootCACertificate_refines_model]
  cases (isRootCACertificate c) <;> simp

/-- one iteration, seen through the abstraction: it continues exactly when the model's loop does,
with the file's certificates appended -/
theorem fileStep_entry (w : World) (path t : String) (acc : List x509.Certificate) (f : fs.DirEntry) :
    (entryOk t (absEntry w path f) = true →
      fileStep w path t acc f = .ok (acc ++ (w.ReadCertificateFile (filepath.Join path f.Name)).1)) ∧
    (entryOk t (absEntry w path f) = false → ∃ e, fileStep w path t acc f = .error e) := by
  have hv := source_ValidateCertificates_refines_model (w.ReadCertificateFile (filepath.Join path f.Name)).1
  have hr := rootChk_all (w.ReadCertificateFile (filepath.Join path f.Name)).1
  simp only [entryOk, absEntry, needsRoot_eq, fileStep, ← hv, ← hr]
  cases f.IsDir <;> cases f.«Type».symlink <;>
    cases (w.ReadCertificateFile (filepath.Join path f.Name)).2 <;>
    cases ValidateCertificates (w.ReadCertificateFile (filepath.Join path f.Name)).1 <;>
    cases (t == "tsa") <;>
    cases firstSome rootChk (w.ReadCertificateFile (filepath.Join path f.Name)).1 <;> simp

/-- the file loop, seen through the abstraction, is the model's `loadEntries` -/
theorem foldE_fileStep (w : World) (path t : String) : ∀ (files : List fs.DirEntry) (acc : List x509.Certificate),
    (match GoLite.foldE (fileStep w path t) files acc with
      | .ok cs => some (cs.map absCert)
      | .error _ => none) = loadEntries t (files.map (absEntry w path)) (acc.map absCert) := by
  intro files
  induction files with
  | nil => intro acc; rfl
  | cons f rest ih =>
    intro acc
    have hstep := fileStep_entry w path t acc f
    rw [loadEntries_eq] at *
    simp only [GoLite.foldE, List.map_cons, List.all_cons, List.flatMap_cons]
    cases hok : entryOk t (absEntry w path f)
    · obtain ⟨e, he⟩ := hstep.2 hok
      simp [he]
    · rw [hstep.1 hok]
      have := ih (acc ++ (w.ReadCertificateFile (filepath.Join path f.Name)).1)
      rw [loadEntries_eq] at this
      simp only [this, Bool.true_and, List.map_append, List.append_assoc, absEntry]

theorem insertEntry_of_le (e : Entry) (l : List Entry) (h : ∀ x ∈ l, nameLe e.name x.name = true) :
    insertEntry e l = e :: l := by
  cases l with
  | nil => rfl
  | cons x xs => simp [insertEntry, h x (List.mem_cons_self)]

/-- a listing that is sorted by name (what `os.ReadDir` returns) is its own directory order -/
theorem sortEntries_of_sorted : ∀ l : List Entry,
    l.Pairwise (fun a b => nameLe a.name b.name = true) → sortEntries l = l := by
  intro l
  induction l with
  | nil => intro _; rfl
  | cons e es ih =>
    intro h
    rw [List.pairwise_cons] at h
    rw [sortEntries, ih h.2, insertEntry_of_le e es h.1]

/-- TIE (translated source): `x509TrustStore.GetCertificates`, translated from
verifier/truststore/truststore.go on every run (`Generated/SrcC13.lean`), returns for EVERY store
type, store name, trust store value and file-system oracle exactly the certificates the model's
`getCertificates` returns on the world the oracles stand for (`absInput`), and fails exactly when it
fails - returning no certificate then. Hypothesis: `os.ReadDir` lists entries sorted by file name
(its documented contract). -/
theorem source_GetCertificates_refines_model (ts : x509TrustStore) (w : World) (t n : String)
    (hsorted : ∀ p, (w.ReadDir p).1.Pairwise (fun a b => nameLe a.Name.toList b.Name.toList = true)) :
    shape (x509TrustStore.GetCertificates ts w () t n) = ofModel (getCertificates (absInput ts w t n)) := by
  have hdef : (default : List x509.Certificate) = [] := rfl
  unfold x509TrustStore.GetCertificates
  simp only [Id.run, source_isValidStoreType_refines_model, source_IsValidFileName_refines_model, id_eq,
    hasBits_symlink_left, hasBits_symlink_right, tsa_left, tsa_right]
  unfold getCertificates
  simp only [absInput]
  by_cases hk : knownType t = true
  case neg => simp [hk, shape, ofModel, GoLite.idPure, hdef]
  by_cases hn : isValidFileName n.toList = true
  case neg => simp [hk, hn, shape, ofModel, GoLite.idPure, hdef]
  simp only [hk, hn, Bool.not_true, Bool.false_eq_true, if_false]
  unfold absDirKind srcPath
  -- the oracles as plain functions
  rcases ts with ⟨⟨sysPath⟩⟩
  rcases w with ⟨lstat, readDir, readCert⟩
  simp only [] at hsorted ⊢
  obtain ⟨P, hP⟩ : ∃ P, sysPath (dir.X509TrustStoreDir [t, n]) = P := ⟨_, rfl⟩
  simp only [hP]
  rcases P with ⟨path, e0⟩
  cases e0 with
  | some e => simp [shape, ofModel, GoLite.idPure, hdef]
  | none =>
    simp only [Option.isSome_none, Bool.false_eq_true, if_false, Bool.false_or]
    have hsrt := hsorted path
    generalize lstat path = L at *
    rcases L with ⟨info, e1⟩
    cases e1 with
    | some e => simp [shape, ofModel, GoLite.idPure, hdef]
    | none =>
      simp only [Option.isSome_none, Bool.false_eq_true, if_false]
      cases hsl : info.Mode.symlink
      case true => simp [shape, ofModel, GoLite.idPure, hdef]
      cases hd : info.Mode.IsDir
      case false => simp [shape, ofModel, GoLite.idPure, hdef]
      simp only [Bool.not_true, Bool.not_false, Bool.or_false, Bool.false_or, Bool.or_self, Bool.false_eq_true,
        if_false]
      generalize readDir path = R at *
      rcases R with ⟨files, e2⟩
      cases e2 with
      | some e => simp [shape, ofModel, GoLite.idPure, hdef]
      | none =>
        simp only [Option.isSome_none, Bool.false_eq_true, if_false]
        rw [GoLite.forIn_eq_foldE' _ (fileStep ⟨lstat, readDir, readCert⟩ path t) (fun acc => (none, none, acc))
          (fun acc e => (some (default, some (GoLite.errT "CertificateError" "")), e, acc)) ?h files _ [] ?hs]
        case hs => rfl
        case h =>
          intro f acc
          unfold fileStep
          simp only []
          cases f.IsDir <;> cases f.«Type».symlink <;> try (simp; done)
          cases hp : (readCert (filepath.Join path f.Name)).2 <;> try (simp [hp]; done)
          cases hvs : ValidateCertificates (readCert (filepath.Join path f.Name)).1 <;>
            try (simp [hp, hvs]; done)
          cases ht : (t == "tsa")
          · simp [hp, hvs, ht]
          · simp only [hp, hvs, ht, Bool.or_self, Bool.false_eq_true, if_false, if_true, Option.isSome_none]
            rw [GoLite.forIn_eq_foldE' _ (checkStep rootChk) (fun _ => (none, none))
              (fun _ e => (some (default, some (GoLite.errT "CertificateError" "")), e)) ?hi _ _ () ?his]
            case his => rfl
            case hi =>
              intro c u
              cases hc : isRootCACertificate c <;> simp [checkStep, rootChk, hc]
            simp only [pure_bind, foldE_checkStep]
            cases firstSome rootChk (readCert (filepath.Join path f.Name)).1 <;> simp
        simp only [pure_bind]
        have hf := foldE_fileStep ⟨lstat, readDir, readCert⟩ path t files []
        have hso : sortEntries (files.map (absEntry ⟨lstat, readDir, readCert⟩ path)) =
            files.map (absEntry ⟨lstat, readDir, readCert⟩ path) := by
          apply sortEntries_of_sorted
          rw [List.pairwise_map]
          exact hsrt
        simp only [hso, List.map_nil] at hf ⊢
        rw [← hf]
        cases GoLite.foldE (fileStep ⟨lstat, readDir, readCert⟩ path t) files [] with
        | error pe => simp [shape, ofModel, GoLite.idPure, hdef]
        | ok cs =>
          cases cs with
          | nil => simp [shape, ofModel, GoLite.idPure, GoLite.len, hdef]
          | cons c cs' =>
            have h1 : ¬ ((cs'.length : Int) + 1 < 1) := by omega
            have h2 : ¬ ((cs'.length : Int) + 1 = 0) := by omega
            have h3 : ¬ ((0 : Int) = (cs'.length : Int) + 1) := by omega
            simp [shape, ofModel, GoLite.idPure, GoLite.len, h1, h2, h3]

/-- the translated `GetCertificates` satisfies the property: for every oracle, what it returns is
an observation of which all clauses of `Holds` are true on the world the oracles stand for -/
theorem source_GetCertificates_satisfies_property (ts : x509TrustStore) (w : World) (t n : String)
    (hsorted : ∀ p, (w.ReadDir p).1.Pairwise (fun a b => nameLe a.Name.toList b.Name.toList = true)) :
    Holds (absInput ts w t n)
      { ok := (x509TrustStore.GetCertificates ts w () t n).2.isNone,
        certs := (x509TrustStore.GetCertificates ts w () t n).1.map (·.id), path := [] } = true := by
  have h := source_GetCertificates_refines_model ts w t n hsorted
  have hrun : run (absInput ts w t n) =
      { ok := (x509TrustStore.GetCertificates ts w () t n).2.isNone,
        certs := (x509TrustStore.GetCertificates ts w () t n).1.map (·.id), path := [] } := by
    have hop : (absInput ts w t n).op = .load := rfl
    simp only [run, hop]
    simp only [shape] at h
    cases hg : getCertificates (absInput ts w t n) with
    | none =>
      rw [hg] at h
      simp only [ofModel, Prod.mk.injEq] at h
      have h1 : (x509TrustStore.GetCertificates ts w () t n).1 = [] := by simpa using h.1
      simp [h.2, h1]
    | some cs =>
      rw [hg] at h
      simp only [ofModel, Prod.mk.injEq] at h
      have : cs.map (·.id) = (x509TrustStore.GetCertificates ts w () t n).1.map (·.id) := by
        rw [← h.1, List.map_map]; rfl
      simp [h.2, this]
  rw [← hrun]
  exact model_holds _

/-! non-vacuity: the translated functions run on concrete oracles -/
def exRoot (k : Nat) : x509.Certificate :=
  { id := k, IsCA := true, RawSubject := [k], RawIssuer := [k], SignatureAlgorithm := 1, RawTBSCertificate := [k],
    Signature := [k], signOk := true, weakSig := false, selfSigErr := none }
def exInter (k : Nat) : x509.Certificate := { exRoot k with RawIssuer := [0], selfSigErr := some ⟨"x509"⟩ }
def exStore : x509TrustStore := ⟨⟨fun p => (p, none)⟩⟩
/-- a real directory with two regular files, each holding the same two certificates -/
def exWorld (cs : List x509.Certificate) (second : fs.DirEntry) : World :=
  { Lstat := fun _ => (⟨fs.ModeDir⟩, none),
    ReadDir := fun _ => ([⟨"a.pem", false, default⟩, second], none),
    ReadCertificateFile := fun _ => (cs, none) }

example : ((x509TrustStore.GetCertificates exStore (exWorld [exRoot 1, exInter 2] ⟨"b.pem", false, default⟩) () "ca" "acme").1.map (·.id),
    (x509TrustStore.GetCertificates exStore (exWorld [exRoot 1, exInter 2] ⟨"b.pem", false, default⟩) () "ca" "acme").2) =
    ([1, 2, 1, 2], none) := by decide
/-- the same store as a tsa store: certificate 2 is not a self-signed root -/
example : x509TrustStore.GetCertificates exStore (exWorld [exRoot 1, exInter 2] ⟨"b.pem", false, default⟩) () "tsa" "acme" =
    ([], some ⟨"CertificateError"⟩) := by decide
/-- a symlink next to a good file, an unknown type, a dot name -/
example : x509TrustStore.GetCertificates exStore (exWorld [exRoot 1] ⟨"b.pem", false, fs.ModeSymlink⟩) () "ca" "acme" =
    ([], some ⟨"CertificateError"⟩) := by decide
example : x509TrustStore.GetCertificates exStore (exWorld [exRoot 1] ⟨"b.pem", false, default⟩) () "CA" "acme" =
    ([], some ⟨"TrustStoreError"⟩) := by decide
example : x509TrustStore.GetCertificates exStore (exWorld [exRoot 1] ⟨"b.pem", false, default⟩) () "ca" ".." =
    ([], some ⟨"TrustStoreError"⟩) := by decide
example : (ValidateCertificates [exRoot 1, { exInter 2 with IsCA := false }]).isSome = true := by decide
example : isRootCACertificate (exRoot 1) = none ∧ (isRootCACertificate (exInter 2)).isSome = true := by decide
example : dir.X509TrustStoreDir ["ca", "acme"] = "truststore/x509/ca/acme" := by decide
example : file.IsValidFileName "acme.roots" = true ∧ file.IsValidFileName ".." = false ∧ file.IsValidFileName "a/b" = false := by decide

end Tie

end NotationModel.C13

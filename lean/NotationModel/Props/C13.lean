/- C13 - property theorems (stub: not built yet) -/
import NotationModel.Model.C13

namespace NotationModel.C13

end NotationModel.C13

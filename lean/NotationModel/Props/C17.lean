/- C17 - property theorems (stub: not built yet) -/
import NotationModel.Model.C17

namespace NotationModel.C17

end NotationModel.C17

/-
C17 - Plugin processes are contained: validated replies, bounded output, bounded time.
Property theorems only; the model is in `Model/C17.lean`, the facts about the Go source in
`Generated/C17.lean` (regenerated on every run).
-/
import NotationModel.Model.C17
import NotationModel.Generated.SrcC17
import NotationModel.Generated.SrcC17b
set_option linter.unusedSimpArgs false
set_option linter.unusedVariables false

namespace NotationModel.C17

/-! ### obligations on the facts read from the Go source (decidable, re-checked on every run) -/

/-- the command is built with `exec.CommandContext` on the caller's context -/
theorem facts_context_bound : Facts.commandContextBound = true := by decide

/-- `cmd.WaitDelay` is assigned a positive delay of at most the 5 s the property allows -/
theorem facts_wait_delay :
    (match Facts.waitDelayMs with
     | some d => decide (0 < d ∧ d ≤ specDelayMs)
     | none => false) = true := by decide

/-- both `cmd.Stdout` and `cmd.Stderr` are the repository's limit writer with the 64 MiB cap -/
theorem facts_both_streams_capped :
    Facts.stdoutLimit = some specCap ∧ Facts.stderrLimit = some specCap ∧
    Facts.maxPluginOutputSize = specCap := by decide

/-- the error codes are distinct, none is empty (so an error object carrying one is never
"incomplete"), and the generic code is among them -/
theorem facts_error_codes :
    (Facts.errorCodes.map (·.2)).Nodup ∧ (Facts.errorCodes.all (fun c => c.2 != "")) = true ∧
    (Facts.errorCodes.map (·.2)).contains "ERROR" = true ∧ Facts.errorCodes.length = 6 := by decide

/-- `run` and `execCommander.Output` touch no package-level variable but the (test-only) `executor`:
no state is shared between calls, which is what lets the model treat overlapping calls one by one -/
theorem facts_no_shared_state : Facts.runGlobals.all (· == "executor") = true := by decide

/-- the host asks for a non-empty contract version -/
theorem facts_contract_version : (Facts.contractVersion != "") = true := by decide

theorem codeCfg_ctxBound : codeCfg.ctxBound = true := facts_context_bound

theorem codeCfg_waitDelay : ∃ d, codeCfg.waitDelay = some d ∧ d ≤ specDelayMs := by
  have h := facts_wait_delay
  unfold codeCfg
  cases hw : Facts.waitDelayMs with
  | none => simp [hw] at h
  | some d => simp [hw] at h; exact ⟨d, rfl, h.2⟩

theorem codeCfg_stdoutLimit : codeCfg.stdoutLimit = some specCap := facts_both_streams_capped.1
theorem codeCfg_stderrLimit : codeCfg.stderrLimit = some specCap := facts_both_streams_capped.2.1

/-! ### (i) the limit writer -/

/-- one `Write` never increases `N` -/
theorem lwWrite_le (N : Int) (s : WStep) : (lwWrite N s).1 ≤ N := by
  unfold lwWrite
  split
  · exact Int.le_refl _
  · simp only []; omega

/-- a non-negative `N` stays non-negative: never more than `N` bytes are handed on -/
theorem lwWrite_nonneg (N : Int) (s : WStep) (h : 0 ≤ N) : 0 ≤ (lwWrite N s).1 := by
  unfold lwWrite
  split
  · exact h
  · simp only []
    split <;> omega

/-- bookkeeping of one `Write`: `N` decreases by exactly what the call reports as written -/
theorem lwWrite_account (N : Int) (s : WStep) : (lwWrite N s).1 = N - ((lwWrite N s).2.n : Int) := by
  unfold lwWrite
  split <;> simp

theorem lwRun_account : ∀ (steps : List WStep) (N : Int),
    (lwRun N steps).1 = N - (total (lwRun N steps).2 : Int) := by
  intro steps
  induction steps with
  | nil => intro N; simp [lwRun, total]
  | cons s r ih =>
    intro N
    have h1 := ih (lwWrite N s).1
    have h2 := lwWrite_account N s
    simp only [lwRun, total, List.map_cons, List.sum_cons] at *
    rw [h1]
    omega

theorem lwRun_nonneg : ∀ (steps : List WStep) (N : Int), 0 ≤ N → 0 ≤ (lwRun N steps).1 := by
  intro steps
  induction steps with
  | nil => intro N h; simpa [lwRun] using h
  | cons s r ih =>
    intro N h
    simp only [lwRun]
    exact ih _ (lwWrite_nonneg N s h)

theorem lwRun_exhausted : ∀ (steps : List WStep) (N : Int), N ≤ 0 →
    (lwRun N steps).1 = N ∧ total (lwRun N steps).2 = 0 := by
  intro steps
  induction steps with
  | nil => intro N h; simp [lwRun, total]
  | cons s r ih =>
    intro N h
    have hw : lwWrite N s = (N, ⟨0, .limitExceeded⟩) := by simp [lwWrite, h]
    have := ih N h
    simp only [lwRun, hw, total, List.map_cons, List.sum_cons] at *
    exact ⟨this.1, by omega⟩

theorem lwStates_le : ∀ (steps : List WStep) (N : Int), ∀ x ∈ lwStates N steps, x ≤ N := by
  intro steps
  induction steps with
  | nil => intro N x hx; simp [lwStates] at hx
  | cons s r ih =>
    intro N x hx
    simp only [lwStates, List.mem_cons] at hx
    have h1 := lwWrite_le N s
    rcases hx with hx | hx
    · omega
    · have := ih _ x hx; omega

/-- `N` never increases along any sequence of writes -/
theorem lwStates_antitone : ∀ (steps : List WStep) (N : Int),
    List.Pairwise (fun a b => b ≤ a) (N :: lwStates N steps) := by
  intro steps
  induction steps with
  | nil => intro N; simp [lwStates]
  | cons s r ih =>
    intro N
    have h := ih (lwWrite N s).1
    rw [List.pairwise_cons]
    refine ⟨?_, by simpa [lwStates] using h⟩
    intro x hx
    exact lwStates_le (s :: r) N x hx

/-- **C17 (i), `writer_never_exceeds`.** For every limit, every sequence of writes and every
behaviour of the underlying writer (short writes, errors, in any call): the bytes passed on
never exceed the limit, `N` accounts for every byte, `N` never increases and - for a
non-negative limit - never becomes negative. -/
theorem writer_never_exceeds (limit : Int) (steps : List WStep) :
    total (lwRun limit steps).2 ≤ limit.toNat ∧
    (lwRun limit steps).1 = limit - (total (lwRun limit steps).2 : Int) ∧
    List.Pairwise (fun a b => b ≤ a) (limit :: lwStates limit steps) ∧
    (0 ≤ limit → 0 ≤ (lwRun limit steps).1) := by
  refine ⟨?_, lwRun_account steps limit, lwStates_antitone steps limit, lwRun_nonneg steps limit⟩
  by_cases h : 0 ≤ limit
  · have h1 := lwRun_account steps limit
    have h2 := lwRun_nonneg steps limit h
    omega
  · have := (lwRun_exhausted steps limit (by omega)).2
    omega

/-- every single write: at most what was asked, at most what remains, refused iff nothing remains -/
theorem lwRun_outsOk : ∀ (steps : List WStep) (N : Int), outsOk N steps (lwRun N steps).2 = true := by
  intro steps
  induction steps with
  | nil => intro N; simp [lwRun, outsOk]
  | cons s r ih =>
    intro N
    have h := ih (lwWrite N s).1
    rw [lwWrite_account] at h
    simp only [lwRun, outsOk, Bool.and_eq_true]
    refine ⟨⟨?_, ?_⟩, ?_⟩
    · unfold lwWrite
      split
      · simp
      · simp only [decide_eq_true_eq]
        split <;> omega
    · unfold lwWrite
      by_cases hN : N ≤ 0
      · simp [hN]
      · simp only [hN, if_false]
        refine Bool.and_eq_true_iff.2 ⟨?_, ?_⟩
        · cases s.fail <;> simp
        · simp only [decide_eq_true_eq]
          split <;> omega
    · rw [lwWrite_account]; exact h

/-- when the underlying writer takes everything it is handed (a `bytes.Buffer`), exactly
`min(limit, bytes offered)` bytes are stored -/
theorem writer_exact_on_buffer : ∀ (steps : List WStep) (N : Int), 0 ≤ N →
    (∀ s ∈ steps, s.len ≤ s.accept) →
    total (lwRun N steps).2 = min N.toNat (steps.map (·.len)).sum := by
  intro steps
  induction steps with
  | nil => intro N _ _; simp [lwRun, total]
  | cons s r ih =>
    intro N hN hall
    have hs : s.len ≤ s.accept := hall s (by simp)
    have hr : ∀ x ∈ r, x.len ≤ x.accept := fun x hx => hall x (by simp [hx])
    have h1 := ih (lwWrite N s).1 (lwWrite_nonneg N s hN) hr
    simp only [lwRun, total, List.map_cons, List.sum_cons] at *
    rw [h1]
    unfold lwWrite
    by_cases h0 : N ≤ 0
    · have : N = 0 := by omega
      subst this
      simp
    · simp only [h0, if_false]
      split <;> omega

/-! ### (iv) the wait machine -/

/-- **C17 (iv), `bounded_return`.** If the command is context-bound and `WaitDelay = d`, then
for *every* behaviour of the plugin and of its descendants (never exiting, holding the pipes
for ever, …) `cmd.Run()` returns at most `killLatency + d` after the end of the context. -/
theorem bounded_return (cfg : ExecCfg) (d c kl : Nat) (b : Behaviour)
    (hctx : cfg.ctxBound = true) (hwd : cfg.waitDelay = some d) :
    tle (wait cfg kl (some c) b).ret (some (c + kl + d)) = true := by
  obtain ⟨e, p⟩ := b
  unfold wait
  simp only [hctx, hwd, Bool.true_and, if_true]
  cases e with
  | none =>
    cases p <;> simp [tlt, tle, tadd, tmin, tmax] <;> omega
  | some e =>
    by_cases hk : c < e
    · cases p <;> simp [tlt, tle, tadd, tmin, tmax, hk] <;> omega
    · cases p <;> simp [tlt, tle, tadd, tmin, tmax, hk] <;> omega

/-- the same bound, tighter: the delay counts from the earlier of "context ended" and "child
exited", and the kill latency and the delay overlap -/
theorem bounded_return_tight (cfg : ExecCfg) (d c kl : Nat) (b : Behaviour)
    (hctx : cfg.ctxBound = true) (hwd : cfg.waitDelay = some d) :
    tle (wait cfg kl (some c) b).ret (tadd (tmin (some c) b.exitAt) (max kl d)) = true := by
  obtain ⟨e, p⟩ := b
  unfold wait
  simp only [hctx, hwd, Bool.true_and, if_true]
  cases e with
  | none =>
    cases p <;> simp [tlt, tle, tadd, tmin, tmax] <;> omega
  | some e =>
    by_cases hk : c < e
    · cases p <;> simp [tlt, tle, tadd, tmin, tmax, hk] <;> omega
    · cases p <;> simp [tlt, tle, tadd, tmin, tmax, hk] <;> omega

/-- a child that exits by itself without descendants returns at its exit, whatever the configuration -/
theorem prompt_return (cfg : ExecCfg) (e kl : Nat) (ctxEnd : Time) (hc : tlt ctxEnd (some e) = false) :
    (wait cfg kl ctxEnd ⟨some e, some 0⟩).ret = some e ∧
    (wait cfg kl ctxEnd ⟨some e, some 0⟩).killed = false ∧
    (wait cfg kl ctxEnd ⟨some e, some 0⟩).delayExpired = false := by
  unfold wait
  cases hw : cfg.waitDelay <;> cases hb : cfg.ctxBound <;> cases ctxEnd <;>
    simp_all [tlt, tle, tadd, tmin, tmax] <;> omega

/-- the visible side effect of `WaitDelay`: a plugin that exits by itself (even successfully)
but leaves a descendant holding its pipes for more than `d` makes `cmd.Run()` return at
exit + `d` with the pipes closed by force (`ErrWaitDelay`) instead of blocking -/
theorem abandoned_descendant_cut_off (cfg : ExecCfg) (d e kl : Nat) (ctxEnd p : Time)
    (hwd : cfg.waitDelay = some d) (hc : tlt ctxEnd (some e) = false) (hp : tlt (some (e + d)) p = true) :
    (wait cfg kl ctxEnd ⟨some e, p⟩).ret = some (e + d) ∧
    (wait cfg kl ctxEnd ⟨some e, p⟩).delayExpired = true := by
  unfold wait
  cases hb : cfg.ctxBound <;> cases ctxEnd <;> cases p <;>
    simp_all [tlt, tle, tadd, tmin, tmax] <;> omega

/-- **The fact is necessary (1).** Without `WaitDelay` - whatever else the configuration says,
context-bound or not - a plugin that exits at once but leaves a descendant holding the pipes
keeps the call from ever returning … -/
theorem unbounded_without_wait_delay (cfg : ExecCfg) (c kl : Nat) (hwd : cfg.waitDelay = none) :
    ∃ b : Behaviour, b.exitAt = some 0 ∧ (wait cfg kl (some c) b).ret = none := by
  refine ⟨⟨some 0, none⟩, rfl, ?_⟩
  unfold wait
  cases hb : cfg.ctxBound <;> simp [hwd, tlt, tle, tadd, tmin, tmax]

/-- … and with descendants that do let go eventually, no bound `B` holds for all of them. -/
theorem no_bound_without_wait_delay (cfg : ExecCfg) (c kl : Nat) (hwd : cfg.waitDelay = none) (B : Nat) :
    ∃ b : Behaviour, b.exitAt = some 0 ∧ b.pipesAt = some (B + 1) ∧
      tle (wait cfg kl (some c) b).ret (some B) = false := by
  refine ⟨⟨some 0, some (B + 1)⟩, rfl, rfl, ?_⟩
  unfold wait
  cases hb : cfg.ctxBound <;> simp [hwd, tlt, tle, tadd, tmin, tmax] <;> omega

/-- **The fact is necessary (2).** Without `exec.CommandContext` a plugin that never exits is
never killed: the call never returns, `WaitDelay` or not. -/
theorem unbounded_without_context (cfg : ExecCfg) (c kl : Nat) (hctx : cfg.ctxBound = false) :
    ∃ b : Behaviour, (wait cfg kl (some c) b).ret = none := by
  refine ⟨⟨none, some 0⟩, ?_⟩
  unfold wait
  cases hw : cfg.waitDelay <;> simp [hctx, tlt, tle, tadd, tmin, tmax]

/-- the bound for the configuration found in the source: at most 5 s (+ kill latency) after the
end of the context -/
theorem code_bounded_return (c kl : Nat) (b : Behaviour) :
    tle (wait codeCfg kl (some c) b).ret (some (c + kl + specDelayMs)) = true := by
  obtain ⟨d, hd, hle⟩ := codeCfg_waitDelay
  have h := bounded_return codeCfg d c kl b codeCfg_ctxBound hd
  cases hr : (wait codeCfg kl (some c) b).ret with
  | none => simp [hr, tle] at h
  | some r => simp [hr, tle] at h ⊢; omega

/-! ### (iii) metadata validation -/

/-- **C17 (iii), `metadata_ok_iff`.** `validate` accepts exactly the metadata with every
mandatory field present and the host's contract version among the supported ones. -/
theorem metadata_ok_iff (m : Meta) :
    validateErr m = none ↔
      (m.name ≠ "" ∧ m.description ≠ "" ∧ m.version ≠ "" ∧ m.url ≠ "" ∧ m.capabilities ≠ [] ∧
       m.contractVersions.contains Facts.contractVersion = true) := by
  unfold validateErr
  constructor
  · intro h
    (repeat' split at h) <;> simp_all [List.isEmpty_iff]
  · intro ⟨h1, h2, h3, h4, h5, h7⟩
    have h6 : m.contractVersions ≠ [] := by
      intro h; simp [h] at h7
    simp_all [List.isEmpty_iff]

/-! ### (ii) the decision of `run` -/

/-- `cmd.Run()` reported an error -/
def execFailed (cfg : ExecCfg) (i : Input) (w : WaitOut) : Bool :=
  !i.executable || w.killed || i.exitCode != 0 || w.delayExpired ||
    over cfg.stdoutLimit (effOutSize i) || over cfg.stderrLimit (effErrSize i)

/-- **C17 (ii), `run_ok_iff`.** A call succeeds exactly when the process could be started, was
not killed, exited with status 0, its pipes were closed in time, neither stream ran over its
limit, stdout decodes into the response - and, for get-plugin-metadata, the metadata
validates and is named like the plugin. -/
theorem run_ok_iff (cfg : ExecCfg) (i : Input) (w : WaitOut) :
    (decide_ cfg i w).1 = .ok ↔
      (execFailed cfg i w = false ∧ outDecodes i = true ∧
       (i.command = .getMetadata → validateErr (seenMeta i) = none ∧ (seenMeta i).name = i.pluginName)) := by
  unfold decide_ execFailed
  by_cases hf : (!i.executable || w.killed || i.exitCode != 0 || w.delayExpired ||
      over cfg.stdoutLimit (effOutSize i) || over cfg.stderrLimit (effErrSize i)) = true
  · simp only [hf, if_true]
    constructor
    · intro h
      exfalso
      split at h
      · simp at h
      · split at h
        · simp at h
        · split at h
          · simp at h
          · split at h <;> simp at h
          · simp at h
          · simp at h
    · intro h; simp at h
  · have hf' : (!i.executable || w.killed || i.exitCode != 0 || w.delayExpired ||
      over cfg.stdoutLimit (effOutSize i) || over cfg.stderrLimit (effErrSize i)) = false := by
      simpa using hf
    simp only [hf', Bool.false_eq_true, if_false, true_and]
    by_cases hd : outDecodes i = true
    · simp only [hd, Bool.not_true, Bool.false_eq_true, if_false, true_and]
      by_cases hc : i.command = .getMetadata
      · simp only [hc, beq_self_eq_true, if_true, forall_const]
        cases hv : validateErr (seenMeta i) with
        | some e => simp
        | none =>
          by_cases hn : (seenMeta i).name = i.pluginName
          · simp [hn]
          · simp [hn]
      · have : (i.command == Command.getMetadata) = false := by simpa using hc
        simp [this, hc]
    · have : outDecodes i = false := by simpa using hd
      simp [this]

/-- **C17 (ii), `error_mapping`.** When `cmd.Run()` fails: no stderr (or a file that cannot be
started) gives the executable-file error, an error object carrying a code, a message or
metadata comes back as the plugin's own error with exactly its code, anything else on stderr
(not JSON, wrong types, an object with none of the three, more than the cap) is a malformed-plugin
error - in this order, and stdout plays no role. -/
theorem error_mapping (cfg : ExecCfg) (i : Input) (w : WaitOut) (hf : execFailed cfg i w = true) :
    decide_ cfg i w =
      if !i.executable || (!errCut cfg i && i.stderr == .empty) then (.executableFileError, "")
      else if !errCut cfg i && i.stderr == .errorObject && errorObjectComplete i
        then (.pluginError, i.errCode)
      else (.malformedPluginError, "") := by
  unfold execFailed at hf
  unfold decide_
  simp only [hf, if_true]
  rcases Bool.eq_false_or_eq_true i.executable with he | he <;>
    rcases Bool.eq_false_or_eq_true (errCut cfg i) with ho | ho <;>
    rcases Bool.eq_false_or_eq_true (errorObjectComplete i) with hc | hc <;>
    by_cases h1 : i.stderr = .empty <;> by_cases h2 : i.stderr = .errorObject <;> simp_all
  all_goals (cases hs : i.stderr <;> simp_all)

/-- a failing process never yields success, whatever it printed on stdout -/
theorem failed_never_ok (cfg : ExecCfg) (i : Input) (w : WaitOut) (hf : execFailed cfg i w = true) :
    (decide_ cfg i w).1 ≠ .ok := by
  rw [error_mapping cfg i w hf]
  split
  · simp
  · split <;> simp

/-- **`both_streams_capped`.** With both streams behind the limit writer, whatever comes back
to the caller - a decoded reply or the plugin's error message - was at most the cap on the wire. -/
theorem both_streams_capped (cfg : ExecCfg) (i : Input)
    (ho : cfg.stdoutLimit = some specCap) (he : cfg.stderrLimit = some specCap) :
    (runCall cfg i).withinCap = true := by
  unfold runCall
  simp only [decide_eq_true_eq]
  generalize hw : waitOf cfg i = w
  cases hr : (decide_ cfg i w).1 with
  | ok =>
    simp only []
    have h := (run_ok_iff cfg i w).1 hr
    have h1 := h.1
    unfold execFailed at h1
    simp only [Bool.or_eq_false_iff] at h1
    have h2 := h1.1.2
    simp only [ho, over, decide_eq_false_iff_not] at h2
    split <;> omega
  | pluginError =>
    simp only []
    by_cases hf : execFailed cfg i w = true
    · rw [error_mapping cfg i w hf] at hr
      split at hr
      · simp at hr
      · split at hr
        · rename_i h3
          simp only [Bool.and_eq_true, Bool.not_eq_true'] at h3
          have h4 := h3.1.1
          simp only [errCut, he, over, Bool.and_eq_false_iff, decide_eq_false_iff_not, Bool.not_eq_false'] at h4
          split
          · omega
          · rename_i hb
            rcases h4 with h4 | h4
            · omega
            · exact absurd h4 hb
        · simp at hr
    · exfalso
      have hf' : execFailed cfg i w = false := by simpa using hf
      unfold decide_ at hr
      unfold execFailed at hf'
      simp only [hf', Bool.false_eq_true, if_false] at hr
      split at hr
      · simp at hr
      · split at hr
        · split at hr
          · simp at hr
          · split at hr <;> simp at hr
        · simp at hr
  | executableFileError => simp [specCap]
  | malformedPluginError => simp [specCap]
  | other => simp [specCap]

/-! ### the whole property -/

/-- the clauses about one call, for any configuration that is context-bound, has a `WaitDelay`
of at most 5 s and caps both streams at 64 MiB -/
theorem call_holds (cfg : ExecCfg) (d : Nat) (hctx : cfg.ctxBound = true)
    (hwd : cfg.waitDelay = some d) (hd : d ≤ specDelayMs)
    (ho : cfg.stdoutLimit = some specCap) (he : cfg.stderrLimit = some specCap) (i : Input) :
    (callClauses i (callObsOf (runCall cfg i))).holds = true := by
  unfold callClauses callObsOf
  simp only [Clauses.holds_cons, Clauses.holds_nil, Bool.and_true]
  have hcap := both_streams_capped cfg i ho he
  have hown : (runCall cfg i).own = true := by simp [runCall]
  simp only [hcap, hown, Bool.true_and]
  -- the wait outcome and the failure flag in terms of the input
  generalize hw : waitOf cfg i = w
  have hres : (runCall cfg i).result = (decide_ cfg i w).1 := by simp [runCall, hw]
  have hcode : (runCall cfg i).code = (decide_ cfg i w).2 := by simp [runCall, hw]
  have hkilled : i.executable = true → w.killed = tlt i.ctxEnd i.exitAt := by
    intro hx
    rw [← hw]
    simp [waitOf, hx, wait, hctx, hwd]
  have hfail : exitedOk i = false → execFailed cfg i w = true := by
    intro hx
    unfold exitedOk at hx
    unfold execFailed
    cases hxe : i.executable with
    | false => simp
    | true =>
      have := hkilled hxe
      by_cases hc : i.exitCode = 0
      · simp [hxe, hc] at hx
        simp [this, hx]
      · simp [hc]
  have hintime : (!(i.ctxEnd.isSome) || (runCall cfg i).inTime) = true := by
    cases hc : i.ctxEnd with
    | none => simp
    | some c =>
      simp only [Option.isSome_some, Bool.not_true, Bool.false_or]
      unfold runCall
      simp only [hc]
      unfold waitOf
      cases hxe : i.executable with
      | false => simp [tle]
      | true =>
        simp only [if_true]
        have hb := bounded_return cfg d c 0 ⟨i.exitAt, i.pipesAt⟩ hctx hwd
        rw [hc]
        cases hr : (wait cfg 0 (some c) ⟨i.exitAt, i.pipesAt⟩).ret with
        | none => simp [hr, tle] at hb
        | some r =>
          simp only [hr, tle, decide_eq_true_eq] at hb ⊢
          simp only [specDelayMs, marginMs] at *
          omega
  rw [hres, hcode]
  refine Bool.and_eq_true_iff.2 ⟨?_, Bool.and_eq_true_iff.2 ⟨?_, Bool.and_eq_true_iff.2 ⟨?_,
    Bool.and_eq_true_iff.2 ⟨?_, hintime⟩⟩⟩⟩
  · -- ok only if clean exit and reply of the expected shape
    by_cases hok : (decide_ cfg i w).1 = .ok
    · have h := (run_ok_iff cfg i w).1 hok
      have hex : exitedOk i = true := by
        cases hx : exitedOk i with
        | true => rfl
        | false => rw [hfail hx] at h; simp at h
      simp [hok, hex, h.2.1]
    · simp [hok]
  · -- metadata
    by_cases hok : (decide_ cfg i w).1 = .ok
    · by_cases hc : i.command = .getMetadata
      · have h := (run_ok_iff cfg i w).1 hok
        have hm := h.2.2 hc
        have hdec := h.2.1
        have hreply : i.stdout = .reply := by
          cases hs : i.stdout with
          | reply => rfl
          | _ =>
            have hv := (metadata_ok_iff (seenMeta i)).1 hm.1
            simp [seenMeta, hs, Meta.empty] at hv
        have hv := (metadata_ok_iff (seenMeta i)).1 hm.1
        have hn := hm.2
        simp only [seenMeta, hreply, beq_self_eq_true, if_true] at hv hn
        obtain ⟨h1, h2, h3, h4, h5, h6⟩ := hv
        have h1' : i.pluginName ≠ "" := hn ▸ h1
        have h6' : Facts.contractVersion ∈ i.metadata.contractVersions := by simpa using h6
        simp [hok, hc, specMetaOk, hreply, h1, h1', h2, h3, h4, h5, h6, h6', hn, List.isEmpty_iff]
      · simp [hc]
    · simp [hok]
  · -- failing process: structured error or typed error
    cases hx : exitedOk i with
    | true => simp
    | false =>
      simp only [Bool.false_or]
      rw [error_mapping cfg i w (hfail hx)]
      unfold printedStructured errCut
      simp only [he, over]
      by_cases hsz : effErrSize i ≤ specCap
      · have hlt : ¬ specCap < effErrSize i := by omega
        rcases Bool.eq_false_or_eq_true i.executable with hxe | hxe <;>
          rcases Bool.eq_false_or_eq_true (errorObjectComplete i) with hcpl | hcpl <;>
          rcases Bool.eq_false_or_eq_true i.stderrBlank with hb | hb <;>
          by_cases h1 : i.stderr = .empty <;> by_cases h2 : i.stderr = .errorObject <;> simp_all
      · have hlt : specCap < effErrSize i := by omega
        rcases Bool.eq_false_or_eq_true i.executable with hxe | hxe <;>
          rcases Bool.eq_false_or_eq_true (errorObjectComplete i) with hcpl | hcpl <;>
          rcases Bool.eq_false_or_eq_true i.stderrBlank with hb | hb <;>
          by_cases h1 : i.stderr = .empty <;> by_cases h2 : i.stderr = .errorObject <;> simp_all
  · -- over-cap reply never accepted
    by_cases hov : specCap < effOutSize i
    · have hf : execFailed cfg i w = true := by
        unfold execFailed
        simp [ho, over, hov]
      have := failed_never_ok cfg i w hf
      simp [hov, this]
    · simp [hov]

/-- every call of a schedule of overlapping calls satisfies the clauses of a call, with its own
deadline, its own process and its own output - whatever the other calls of the schedule do -/
theorem multi_holds (cfg : ExecCfg) (d : Nat) (hctx : cfg.ctxBound = true)
    (hwd : cfg.waitDelay = some d) (hd : d ≤ specDelayMs)
    (ho : cfg.stdoutLimit = some specCap) (he : cfg.stderrLimit = some specCap) :
    ∀ cs : List Call, multiOk cs (cs.map (fun c => callObsOf (runCall cfg c.toInput))) = true := by
  intro cs
  induction cs with
  | nil => simp [multiOk]
  | cons c cs ih =>
    simp only [List.map_cons, multiOk, Bool.and_eq_true]
    exact ⟨call_holds cfg d hctx hwd hd ho he c.toInput, ih⟩

theorem holds_guard_false (c : Clauses) : (guard false c).holds = true := by
  simp [guard, Clauses.holds]

theorem holds_guard_true (c : Clauses) : (guard true c).holds = c.holds := by
  simp [guard, Clauses.holds]

theorem holds_append (a b : Clauses) : (a ++ b).holds = (a.holds && b.holds) := by
  simp [Clauses.holds]

/-- every clause of `Holds`, for any such configuration -/
theorem holds_of_cfg (cfg : ExecCfg) (d : Nat) (hctx : cfg.ctxBound = true)
    (hwd : cfg.waitDelay = some d) (hd : d ≤ specDelayMs)
    (ho : cfg.stdoutLimit = some specCap) (he : cfg.stderrLimit = some specCap) (i : Input) :
    Holds i (runWith cfg i) = true := by
  unfold Holds clauses runWith
  rw [holds_append]
  simp only [Clauses.holds_cons, Clauses.holds_nil, Bool.and_true]
  cases hk : i.kind with
  | writer =>
    have h1 := writer_never_exceeds i.limit i.steps
    have h2 := lwRun_outsOk i.steps i.limit
    have hg : (Kind.writer == Kind.call) = false := by decide
    simp only [hg, holds_guard_false]
    simp [runWriter, h1.1, h1.2.1, h2]
  | call =>
    have hg : (Kind.call == Kind.call) = true := by decide
    have hkw : (Kind.call == Kind.writer) = false := by decide
    have hkm : (Kind.call == Kind.multi) = false := by decide
    simp only [hg, holds_guard_true, hkw, hkm, Bool.not_false, Bool.true_or, Bool.and_true]
    exact call_holds cfg d hctx hwd hd ho he i
  | multi =>
    have hg : (Kind.multi == Kind.call) = false := by decide
    have hkw : (Kind.multi == Kind.writer) = false := by decide
    have hkm : (Kind.multi == Kind.multi) = true := by decide
    simp only [hg, holds_guard_false, hkw, hkm, Bool.not_false, Bool.true_or, Bool.and_true,
      Bool.true_and, Bool.not_true, Bool.false_or]
    simpa [runMulti] using multi_holds cfg d hctx hwd hd ho he i.calls

/-- **C17, the whole property**: every clause of `Holds` is true of the model's behaviour, for
all inputs - the configuration being the one read from the source. -/
theorem model_holds (i : Input) : Holds i (run i) = true := by
  obtain ⟨d, hd, hle⟩ := codeCfg_waitDelay
  exact holds_of_cfg codeCfg d codeCfg_ctxBound hd hle codeCfg_stdoutLimit codeCfg_stderrLimit i

/-! ### readable consequences -/

/-- the clauses of a single call hold of the model -/
theorem call_clauses_hold (i : Input) : (callClauses i (callObsOf (runCall codeCfg i))).holds = true := by
  obtain ⟨d, hd, hle⟩ := codeCfg_waitDelay
  exact call_holds codeCfg d codeCfg_ctxBound hd hle codeCfg_stdoutLimit codeCfg_stderrLimit i

/-- a successful call had a cleanly exited process and a reply of the expected shape -/
theorem ok_only_if_valid (i : Input) (hk : i.kind = .call) (h : (run i).result = .ok) :
    exitedOk i = true ∧ outDecodes i = true := by
  have := call_clauses_hold i
  have hr : (runCall codeCfg i).result = .ok := by simpa [run, runWith, hk] using h
  simp [callClauses, callObsOf, Clauses.holds, hr] at this
  exact this.1

/-- successful metadata has every mandatory field, a supported contract version and the plugin's name -/
theorem metadata_ok_only_if_valid (i : Input) (hk : i.kind = .call) (hc : i.command = .getMetadata)
    (h : (run i).result = .ok) : specMetaOk i = true := by
  have := call_clauses_hold i
  have hr : (runCall codeCfg i).result = .ok := by simpa [run, runWith, hk] using h
  simp [callClauses, callObsOf, Clauses.holds, hr, hc] at this
  exact this.2.1

/-- a call bound to a context returns within 5 s (+ margin) of its end, whatever the plugin does -/
theorem returns_in_time (i : Input) (hk : i.kind = .call) (c : Nat) (hc : i.ctxEnd = some c) :
    (run i).inTime = true := by
  have := call_clauses_hold i
  simp [callClauses, callObsOf, Clauses.holds, hc] at this
  simpa [run, runWith, hk] using this.2.2.2.2.2.2

/-- **no interference**: in any schedule of overlapping calls - same executable or different
ones, any start times, any deadlines - every call is observed exactly as if it were alone -/
theorem calls_do_not_interfere (i : Input) (hk : i.kind = .multi) :
    (run i).multi = i.calls.map (fun c => callObsOf (run c.toInput)) := by
  simp [run, runWith, hk, runMulti, Call.toInput]

/-- in particular every call of a schedule returns within the bound of *its own* context, however
slow, hanging or long-lived the other calls are -/
theorem concurrent_calls_return_in_time (i : Input) (hk : i.kind = .multi) (k : Nat) (hlt : k < i.calls.length)
    (c : Nat) (hc : (i.calls[k]).ctxEnd = some c) :
    ∃ o, (run i).multi[k]? = some o ∧ o.inTime = true := by
  refine ⟨callObsOf (run (i.calls[k]).toInput), ?_, ?_⟩
  · rw [calls_do_not_interfere i hk]
    simp [hlt]
  · have := returns_in_time (i.calls[k]).toInput (by simp [Call.toInput]) c (by simpa [Call.toInput] using hc)
    simpa [callObsOf] using this

/-! ### non-vacuity -/

def okCall : Input :=
  { kind := .call, command := .getMetadata, pluginName := "foo", executable := true, exitCode := 0,
    stdout := .reply, stdoutSize := 0,
    metadata := ⟨"foo", "d", "1.0.0", "u", ["SIGNATURE_GENERATOR.RAW"], ["1.0"]⟩,
    stderr := .empty, stderrSize := 0, errCode := "", errMessage := false, errMetadata := false, stdoutBlank := false, stdoutGarbage := false,
    stderrBlank := false, ignoresPipe := false,
    exitAt := some 0, pipesAt := some 0, ctxEnd := some 1000, cancel := false, probes := [500],
    limit := 0, steps := [], calls := [] }

/-- a well-behaved plugin succeeds -/
example : run okCall =
    { result := .ok, code := "", withinCap := true, inTime := true, doneBy := [true], own := true, multi := [],
      wouts := [], passed := 0, remaining := 0 } := by decide

/-- a failing plugin that printed a structured error: its code comes back -/
example : (run { okCall with exitCode := 1, stderr := .errorObject, errCode := "ACCESS_DENIED" }).result = .pluginError ∧
    (run { okCall with exitCode := 1, stderr := .errorObject, errCode := "ACCESS_DENIED" }).code = "ACCESS_DENIED" := by decide

/-- a descendant holding the pipes for ever: the call comes back 5 s after the plugin's exit, as a failure -/
example : run { okCall with pipesAt := none, probes := [4999, 5000] } =
    { result := .executableFileError, code := "", withinCap := true, inTime := true, doneBy := [false, true], own := true, multi := [],
      wouts := [], passed := 0, remaining := 0 } := by decide

/-- a plugin that never exits is killed at the deadline -/
example : (run { okCall with exitAt := none, probes := [999, 1000] }).doneBy = [false, true] := by decide

/-- the same descendant without `WaitDelay`: the call never returns -/
example : (wait { codeCfg with waitDelay := none } 0 (some 1000) ⟨some 0, none⟩).ret = none := by decide

/-- metadata under another name is refused -/
example : (run { okCall with pluginName := "bar" }).result = .other := by decide

/-- the limit writer: 10 bytes of budget, writes of 6, 6, 6 into a buffer -/
example : lwRun 10 [⟨6, 100, false⟩, ⟨6, 100, false⟩, ⟨6, 100, false⟩] =
    (0, [⟨6, .ok⟩, ⟨4, .ok⟩, ⟨0, .limitExceeded⟩]) := by decide

/-- `Holds` is false of wrong observations: success of a failing process … -/
example : Holds { okCall with exitCode := 1 }
    { result := .ok, code := "", withinCap := true, inTime := true, doneBy := [true], own := true, multi := [],
      wouts := [], passed := 0, remaining := 0 } = false := by decide

/-- … a call that came back late … -/
example : Holds okCall
    { result := .ok, code := "", withinCap := true, inTime := false, doneBy := [true], own := true, multi := [],
      wouts := [], passed := 0, remaining := 0 } = false := by decide

/-- … and a writer that let 11 bytes through a limit of 10. -/
example : Holds { okCall with kind := .writer, limit := 10, steps := [⟨11, 100, false⟩] }
    { result := .ok, code := "", withinCap := true, inTime := true, doneBy := [], own := true, multi := [],
      wouts := [⟨11, .ok⟩], passed := 11, remaining := -1 } = false := by decide

/-- a schedule: a call that hangs for 10.5 s without deadline, and 200 ms later a call to the same
executable with a 1 s deadline -/
def hangingCall : Call :=
  { command := .describeKey, pluginName := "foo", executable := true, exitCode := 0, stdout := .reply,
    stdoutSize := 0, metadata := okCall.metadata, stderr := .empty, stderrSize := 0, errCode := "",
    errMessage := false, errMetadata := false, stdoutBlank := false, stdoutGarbage := false,
    stderrBlank := false, ignoresPipe := false, exitAt := some 10500, pipesAt := some 0, ctxEnd := none,
    cancel := false, probes := [10000, 13000], startAt := 0, exe := 0 }

def shortCall : Call :=
  { hangingCall with
    command := .getMetadata, exitAt := some 0, ctxEnd := some 1000, probes := [3500], startAt := 200 }

def schedule : Input := { okCall with kind := .multi, calls := [hangingCall, shortCall] }

/-- each call is observed as if it were alone: the short one is back at once -/
example : (run schedule).multi =
    [ { result := .ok, code := "", withinCap := true, inTime := true, doneBy := [false, true], own := true },
      { result := .ok, code := "", withinCap := true, inTime := true, doneBy := [true], own := true } ] := by decide

/-- `Holds` is false of a schedule in which the short call only came back when the hanging one ended -/
example : Holds schedule
    { (run schedule) with multi :=
      [ { result := .ok, code := "", withinCap := true, inTime := true, doneBy := [false, true], own := true },
        { result := .executableFileError, code := "", withinCap := true, inTime := false, doneBy := [false], own := true } ] }
    = false := by decide

/-- … and of a call that came back with the output of another call's process -/
example : Holds okCall
    { result := .ok, code := "", withinCap := true, inTime := true, doneBy := [true], own := false, multi := [],
      wouts := [], passed := 0, remaining := 0 } = false := by decide

/-- a failing plugin whose valid structured error is 100 000 bytes long: still its own error -/
def longError : Input :=
  { okCall with exitCode := 1, stderr := .errorObject, errCode := "TIMEOUT", errMessage := true, stderrSize := 100000 }

example : (run longError).result = .pluginError ∧ (run longError).code = "TIMEOUT" := by decide

/-- output that exceeds the cap only by white space after the complete reply (and a last byte of
garbage), from a plugin that ignores SIGPIPE and exits 0: the call fails, it is not cut off silently … -/
def runawayReply : Input :=
  { okCall with command := .describeKey, stdoutSize := 67108865, stdoutBlank := true, stdoutGarbage := true, ignoresPipe := true }

example : (run runawayReply).result = .executableFileError := by decide

/-- … `Holds` is false of accepting it … -/
example : Holds runawayReply { (run runawayReply) with result := .ok } = false := by decide

/-- … while the same reply padded with white space to exactly the cap is a valid document -/
example : (run { runawayReply with stdoutSize := 67108864, stdoutGarbage := false }).result = .ok := by decide

/-- stderr is different: `Output` hands `run` the first 64 MiB together with the copy error, so an error
object followed by more white space than the cap is still the plugin's own error (also at exit 0) -/
def runawayStderr : Input :=
  { okCall with
    stderr := .errorObject, errCode := "ERROR", stderrSize := 67108865, stderrBlank := true, ignoresPipe := true }

example : (run runawayStderr).result = .pluginError := by decide

/-! ### tie to the translated source (docs/TIE_BRIEF.md) -/

/-- the model's `decide_` is the composition of the two decision functions the source is tied to -/
theorem decide_eq_decisions (cfg : ExecCfg) (i : Input) (w : WaitOut) :
    decide_ cfg i w =
      (let r := runDecision (execFailed cfg i w) (seenStderrEmpty cfg i) (seenStderrCode cfg i) (outDecodes i)
       if r.1 == .ok && i.command == .getMetadata then metadataDecision (seenMeta i) i.pluginName else r) := by
  cases hf : execFailed cfg i w with
  | true =>
    rw [error_mapping cfg i w hf]
    simp only [runDecision, seenStderrEmpty, seenStderrCode, if_true]
    rcases Bool.eq_false_or_eq_true i.executable with he | he <;>
      rcases Bool.eq_false_or_eq_true (errCut cfg i) with ho | ho <;>
      rcases Bool.eq_false_or_eq_true (errorObjectComplete i) with hcpl | hcpl <;>
      by_cases h1 : i.stderr = .empty <;> by_cases h2 : i.stderr = .errorObject <;>
      simp_all
  | false =>
    unfold decide_
    unfold execFailed at hf
    simp only [hf, Bool.false_eq_true, if_false, runDecision, metadataDecision]
    cases hd : outDecodes i <;> cases hc : (i.command == Command.getMetadata) <;> simp

namespace Tie
open NotationModel.Src

/-! #### `(*LimitedWriter).Write` (internal/io/limitedwriter.go) -/

/-- the slice the underlying writer is handed -/
def handed (l : io.LimitedWriter) (p : List UInt8) : List UInt8 :=
  if (p.length : Int) > l.N then p.take l.N.toNat else p

/-- one call of the translated `Write` as a step of the model: the length of `p`, and what the
underlying writer (an oracle) answers when handed the possibly truncated slice -/
def stepOf (l : io.LimitedWriter) (p : List UInt8) : WStep :=
  { len := p.length, accept := (l.W.Write (handed l p)).1.toNat, fail := (l.W.Write (handed l p)).2.isSome }

/-- the `io.Writer` contract the model assumes of the underlying writer: `0 <= n <= len(p)`, and a
short count comes with an error or not - both allowed -/
def Contract (W : io.Writer) : Prop := ∀ q, 0 ≤ (W.Write q).1 ∧ (W.Write q).1 ≤ (q.length : Int)

/-- TIE: the Lean translation of `(*LimitedWriter).Write`, regenerated from internal/io/limitedwriter.go
on every run, returns - for EVERY state of the writer, EVERY slice and EVERY answer of the
underlying writer within the io.Writer contract - the count, the error and the new remaining
budget `N` of the model's `lwWrite`. -/
theorem source_Write_refines_model (l : io.LimitedWriter) (p : List UInt8) (hW : Contract l.W) :
    io.LimitedWriter.Write l p =
      (((lwWrite l.N (stepOf l p)).2.n : Int),
       (match (lwWrite l.N (stepOf l p)).2.err with
        | .ok => none
        | .limitExceeded => some io.ErrLimitExceeded
        | .underlying => (l.W.Write (handed l p)).2),
       { l with N := (lwWrite l.N (stepOf l p)).1 }) := by
  have hc := hW (handed l p)
  unfold io.LimitedWriter.Write lwWrite stepOf
  simp only [Id.run, GoLite.int64, GoLite.len, GoLite.sliceFrom_zero, GoLite.sliceFrom_zero', GoLite.sliceTo]
  by_cases hN : l.N ≤ 0
  · simp [hN, pure]
  · have hpos : 0 < l.N := by omega
    by_cases hlen : (p.length : Int) > l.N
    · have hh : handed l p = p.take l.N.toNat := by simp [handed, hlen]
      rw [hh] at hc
      simp only [hh]
      have hl : ((p.take l.N.toNat).length : Int) = l.N := by
        simp only [List.length_take]; omega
      rw [hl] at hc
      cases ha : (l.W.Write (p.take l.N.toNat)) with
      | mk n e =>
        simp only [ha] at hc
        cases e <;> simp [hN, hlen, ha, pure] <;> omega
    · have hh : handed l p = p := by simp [handed, hlen]
      rw [hh] at hc
      simp only [hh]
      cases ha : (l.W.Write p) with
      | mk n e =>
        simp only [ha] at hc
        cases e <;> simp [hN, hlen, ha, pure] <;> omega

/-- a sequence of `Write` calls through the translated method; the underlying writer is a value per
call, so it may answer differently every time (it has state of its own) -/
def srcRun : Int → List (io.Writer × List UInt8) → Int × List (Int × Option GoLite.Err)
  | N, [] => (N, [])
  | N, (W, p) :: r =>
    ((srcRun (io.LimitedWriter.Write ⟨W, N⟩ p).2.2.N r).1,
     ((io.LimitedWriter.Write ⟨W, N⟩ p).1, (io.LimitedWriter.Write ⟨W, N⟩ p).2.1) ::
       (srcRun (io.LimitedWriter.Write ⟨W, N⟩ p).2.2.N r).2)

/-- the model steps such a sequence amounts to -/
def absRun : Int → List (io.Writer × List UInt8) → List WStep
  | _, [] => []
  | N, (W, p) :: r => stepOf ⟨W, N⟩ p :: absRun (lwWrite N (stepOf ⟨W, N⟩ p)).1 r

/-- TIE, every write sequence: running the translated `Write` over any sequence of slices, against
any underlying writers within the contract, gives call by call the counts of the model's `lwRun`
and ends with the model's remaining budget. -/
theorem source_Write_sequence_refines_model :
    ∀ (steps : List (io.Writer × List UInt8)) (N : Int), (∀ s ∈ steps, Contract s.1) →
      (srcRun N steps).1 = (lwRun N (absRun N steps)).1 ∧
      (srcRun N steps).2.map (·.1) = (lwRun N (absRun N steps)).2.map (fun o => (o.n : Int)) ∧
      (absRun N steps).map (·.len) = steps.map (·.2.length) := by
  intro steps
  induction steps with
  | nil => intro N _; simp [srcRun, absRun, lwRun]
  | cons s r ih =>
    intro N h
    obtain ⟨W, p⟩ := s
    have hW : Contract W := h (W, p) (by simp)
    have e := source_Write_refines_model ⟨W, N⟩ p hW
    have hr := ih (lwWrite N (stepOf ⟨W, N⟩ p)).1 (fun s hs => h s (by simp [hs]))
    simp only [srcRun, absRun, lwRun, e, List.map_cons]
    refine ⟨hr.1, ?_, ?_⟩
    · rw [hr.2.1]
    · rw [hr.2.2]; simp [stepOf]

/-- hence "bounded output" for the translated code itself: whatever is written through the translated
`Write`, in any number of calls, the underlying writers are handed at most the limit in total, the
remaining budget accounts for every byte and never becomes negative for a non-negative limit -/
theorem source_writer_never_exceeds (steps : List (io.Writer × List UInt8)) (N : Int)
    (h : ∀ s ∈ steps, Contract s.1) :
    ((srcRun N steps).2.map (·.1)).sum ≤ (N.toNat : Int) ∧
    (srcRun N steps).1 = N - ((srcRun N steps).2.map (·.1)).sum ∧
    (0 ≤ N → 0 ≤ (srcRun N steps).1) := by
  obtain ⟨h1, h2, _⟩ := source_Write_sequence_refines_model steps N h
  obtain ⟨w1, w2, _, w4⟩ := writer_never_exceeds N (absRun N steps)
  have hs : ((lwRun N (absRun N steps)).2.map (fun o => (o.n : Int))).sum = ((total (lwRun N (absRun N steps)).2 : Nat) : Int) := by
    generalize (lwRun N (absRun N steps)).2 = os
    induction os with
    | nil => simp [total]
    | cons o os ih => simp only [List.map_cons, List.sum_cons, total] at ih ⊢; omega
  rw [h1, h2, hs]
  exact ⟨by omega, w2, w4⟩

/-- non-vacuity: the translated `Write` run on a budget of 10 with writes of 6, 6, 6 bytes into a
writer that takes everything -/
example : srcRun 10 [(⟨fun q => (q.length, none)⟩, List.replicate 6 0), (⟨fun q => (q.length, none)⟩, List.replicate 6 0),
      (⟨fun q => (q.length, none)⟩, List.replicate 6 0)] =
    (0, [(6, none), (4, none), (0, some io.ErrLimitExceeded)]) := by decide

/-! #### `validate` and `(*CLIPlugin).GetMetadata` (plugin/plugin.go) -/

/-! comparisons the Go code may spell in several ways (`len(x) == 0`, `0 == len(x)`, `len(x) < 1`,
`"" == s`): normal forms for the proofs below, which never quote the translated text -/
theorem intLen_eq_zero {α : Type} (xs : List α) : ((xs.length : Int) = 0) = (xs = []) := by
  apply propext; constructor
  · intro h; exact List.eq_nil_of_length_eq_zero (by omega)
  · intro h; simp [h]
theorem zero_eq_intLen {α : Type} (xs : List α) : ((0 : Int) = (xs.length : Int)) = (xs = []) := by
  rw [← intLen_eq_zero]; exact propext eq_comm
theorem intLen_lt_one {α : Type} (xs : List α) : ((xs.length : Int) < 1) = (xs = []) := by
  rw [← intLen_eq_zero]; apply propext; omega
theorem intLen_le_zero {α : Type} (xs : List α) : ((xs.length : Int) ≤ 0) = (xs = []) := by
  rw [← intLen_eq_zero]; apply propext; omega
theorem intLen_pos {α : Type} (xs : List α) : ((0 : Int) < (xs.length : Int)) = (xs ≠ []) := by
  rw [ne_eq, ← intLen_eq_zero]; apply propext; omega
theorem one_le_intLen {α : Type} (xs : List α) : ((1 : Int) ≤ (xs.length : Int)) = (xs ≠ []) := by
  rw [ne_eq, ← intLen_eq_zero]; apply propext; omega
theorem intLen_ne_zero {α : Type} (xs : List α) : ((xs.length : Int) ≠ 0) = (xs ≠ []) := by
  rw [ne_eq, ne_eq, intLen_eq_zero]
theorem empty_eq_str (s : String) : ("" = s) = (s = "") := propext eq_comm

/-- the decoded metadata as the model sees it -/
def toMeta (m : plugin.GetMetadataResponse) : Meta :=
  ⟨m.Name, m.Description, m.Version, m.URL, m.Capabilities, m.SupportedContractVersions⟩

/-- TIE: the Lean translation of `validate`, regenerated from plugin/plugin.go on every run, accepts -
for EVERY metadata value - exactly what the model's `validateErr` accepts … -/
theorem source_validate_refines_model (m : plugin.GetMetadataResponse) :
    (plugin.validate m).isNone = (validateErr (toMeta m)).isNone := by
  rw [Bool.eq_iff_iff]
  simp only [Option.isNone_iff_eq_none, metadata_ok_iff, toMeta]
  by_cases h1 : m.Name = "" <;> by_cases h2 : m.Description = "" <;> by_cases h3 : m.Version = "" <;>
  by_cases h4 : m.URL = "" <;> by_cases h5 : m.Capabilities = [] <;>
  by_cases h6 : m.SupportedContractVersions = [] <;>
  by_cases h7 : Facts.contractVersion ∈ m.SupportedContractVersions <;>
  simp_all [plugin.validate, Id.run, GoLite.len, GoLite.contains, plugin.ContractVersion, pure, empty_eq_str,
    intLen_eq_zero, zero_eq_intLen, intLen_lt_one, intLen_le_zero, intLen_pos, one_le_intLen, intLen_ne_zero]

/-- … and what it rejects it rejects with a plain error -/
theorem source_validate_error (m : plugin.GetMetadataResponse) (h : plugin.validate m ≠ none) :
    plugin.validate m = some ⟨"error"⟩ := by
  revert h
  unfold plugin.validate
  simp only [Id.run]
  (repeat' split) <;> simp [pure, GoLite.errorf]

/-- TIE: the Lean translation of `(*CLIPlugin).GetMetadata` - for EVERY answer of `run` (an oracle:
the new value of `metadata` and an error) - hands on the error of `run`, and otherwise returns what
the model's `metadataDecision` says: the metadata itself if it validates and is named like the plugin,
a `PluginMalformedError` if it does not validate, a plain error if the name differs - in this order. -/
theorem source_GetMetadata_refines_model
    (runO : String → String → plugin.GetMetadataRequest → plugin.GetMetadataResponse →
      plugin.GetMetadataResponse × Option GoLite.Err) (p : plugin.CLIPlugin) (req : plugin.GetMetadataRequest) :
    plugin.CLIPlugin.GetMetadata runO p req =
      (match (runO p.name p.path req default).2 with
       | some e => (none, some e)
       | none =>
         match (metadataDecision (toMeta (runO p.name p.path req default).1) p.name).1 with
         | .ok => (some (runO p.name p.path req default).1, none)
         | .malformedPluginError => (none, some ⟨"PluginMalformedError"⟩)
         | _ => (none, some ⟨"error"⟩)) := by
  have hv := source_validate_refines_model (runO p.name p.path req default).1
  cases ha : runO p.name p.path req default with
  | mk md e =>
    simp only [ha] at hv
    have hsym : (p.name = md.Name) = (md.Name = p.name) := propext eq_comm
    cases e with
    | some e => simp [plugin.CLIPlugin.GetMetadata, Id.run, pure, ha]
    | none =>
      by_cases hn : md.Name = p.name <;> cases hp : plugin.validate md <;> cases hm : validateErr (toMeta md) <;>
        simp_all [plugin.CLIPlugin.GetMetadata, metadataDecision, Id.run, pure, toMeta, GoLite.errT, GoLite.errorf]

/-- non-vacuity: the translated `GetMetadata` on a plugin `foo` whose process reports the name `bar` -/
example : plugin.CLIPlugin.GetMetadata
    (fun _ _ _ _ => (⟨"bar", "d", "1.0.0", "u", ["1.0"], ["SIGNATURE_GENERATOR.RAW"]⟩, none))
    ⟨"foo", "/plugins/foo/notation-foo"⟩ default = (none, some ⟨"error"⟩) := by decide

/-! #### `run` after `executor.Output` (plugin/plugin.go) -/

/-- result classes as error kinds -/
def encode : Res × String → Option GoLite.Err
  | (.ok, _) => none
  | (.pluginError, code) => some ⟨"RequestError:" ++ code⟩
  | (.executableFileError, _) => some ⟨"PluginExecutableFileError"⟩
  | (.malformedPluginError, _) => some ⟨"PluginMalformedError"⟩
  | (.other, _) => some ⟨"error"⟩

/-- TIE: the Lean translation of the statements of `run` after `executor.Output`, regenerated from
plugin/plugin.go on every run, returns - for EVERY error value, EVERY stdout and stderr and EVERY
behaviour of `json.Unmarshal` on the two types decoded into (oracles) - the error the model's
`runDecision` prescribes: no stderr -> executable-file error; stderr that decodes -> the plugin's own
`RequestError` with its code; stderr that does not -> malformed-plugin error; and after a successful
process a malformed-plugin error iff stdout does not decode. The caller's response object is the
decoded one exactly when the process succeeded. -/
theorem source_run_refines_model {Resp : Type} [json.Target proto.RequestError] [json.Target Resp]
    (err : Option GoLite.Err) (resp : Resp) (stdout stderr : List UInt8) :
    (plugin.runDecision err resp stdout stderr).1 =
      encode (runDecision err.isSome (stderr.length == 0)
        (match (json.Unmarshal stderr (default : proto.RequestError)).2 with
         | none => some (json.Unmarshal stderr (default : proto.RequestError)).1.Code
         | some _ => none)
        (json.Unmarshal stdout resp).2.isNone) ∧
    (plugin.runDecision err resp stdout stderr).2.2 =
      (if err.isSome then resp else (json.Unmarshal stdout resp).1) := by
  cases err with
  | some e =>
    cases hd : (json.Unmarshal stderr (default : proto.RequestError)) with
    | mk re je =>
      by_cases hl : stderr = [] <;> cases je <;>
        simp_all [plugin.runDecision, runDecision, Id.run, GoLite.len, pure, encode, GoLite.errT, proto.RequestError.toErr,
          intLen_eq_zero, zero_eq_intLen, intLen_lt_one, intLen_le_zero, intLen_pos, one_le_intLen, intLen_ne_zero]
  | none =>
    cases hd : (json.Unmarshal stdout resp) with
    | mk r je =>
      cases je <;> simp_all [plugin.runDecision, runDecision, Id.run, GoLite.len, pure, encode, GoLite.errT]

/-- non-vacuity: a failed process whose stderr decodes to an ACCESS_DENIED error object -/
example :
    let _ : json.Target proto.RequestError := ⟨fun _ _ => (⟨"ACCESS_DENIED", "no", none⟩, none)⟩
    let _ : json.Target Unit := ⟨fun _ u => (u, none)⟩
    (plugin.runDecision (some ⟨"ExitError"⟩) () [] [123, 125]).1 = some ⟨"RequestError:ACCESS_DENIED"⟩ := by decide

end Tie
end NotationModel.C17
